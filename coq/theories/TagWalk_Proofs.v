(* TagWalk_Proofs.v -- C21 deepening: the tag audit over real token kinds is total; the constructs whose content the
   lexer swallows contribute no tag; a source the block parser of TagTree.v accepts is reported silent except for the
   break / continue tags standing outside every block that lists them. *)
From LiquidVerif Require Import Prelude TagAudit TagAudit_Proofs TagWalk.
From LiquidVerif Require TagTree TagTree_Proofs.
Module TT := TagTree.

(* ------------------------------------------------------------------ the walk over real tokens *)
Lemma names_of_app a b : names_of (a ++ b) = names_of a ++ names_of b.
Proof. unfold names_of. apply flat_map_app. Qed.

(* C21 clause 1 on real token kinds: the analysis of ANY token list returns a report *)
Theorem analyze_total e toks : exists r, analyze e toks = Ok r.
Proof. apply audit_total. Qed.

Definition is_tag (t : tok) : bool := match t with TTag _ => true | _ => false end.

(* tokens of any other kind (text, output statements, expressions, comment text, doc blocks) are skipped: deleting or
   inserting them anywhere changes nothing *)
Theorem analyze_ignores_other_tokens e toks : analyze e (filter is_tag toks) = analyze e toks.
Proof.
  unfold analyze. f_equal. induction toks as [|t r IH]; [reflexivity|].
  destruct t; cbn; try exact IH. f_equal. exact IH.
Qed.

(* what the lexer's treatment of the source constructs leaves for the analysis: the names of the tags written at template
   level, `comment` / `endcomment` around a comment block, `#`, `liquid`; nothing from inside raw, doc and comment blocks,
   nothing from the lines of a liquid tag, nothing after an unclosed comment tag *)
Lemma names_of_cons t l : names_of (t :: l) = tag_name t ++ names_of l.
Proof. reflexivity. Qed.

Theorem names_of_lex its : names_of (lex_items its) = item_names its.
Proof.
  induction its as [|it r IH]; [reflexivity|].
  destruct it as [| |n he|b|b|b| | |ls]; cbn [lex_items item_names];
    rewrite ?names_of_cons, ?names_of_app, ?names_of_cons, ?IH; cbn [tag_name app]; try reflexivity.
  - destruct he; reflexivity.
  - destruct ls; reflexivity.
Qed.

Corollary analyze_items_names e its : analyze_items e its = audit e (item_names its).
Proof. unfold analyze_items, analyze. rewrite names_of_lex. reflexivity. Qed.

(* the content of a raw / doc / comment block and the lines of a liquid tag do not influence the report *)
Theorem swallowed_content_irrelevant e pre post b b' ls ls' :
  analyze_items e (pre ++ IRaw b :: post) = analyze_items e (pre ++ IRaw b' :: post) /\
  analyze_items e (pre ++ IDoc b :: post) = analyze_items e (pre ++ IDoc b' :: post) /\
  analyze_items e (pre ++ IComment b :: post) = analyze_items e (pre ++ IComment b' :: post) /\
  analyze_items e (pre ++ ILiquid ls :: post) = analyze_items e (pre ++ ILiquid ls' :: post).
Proof.
  rewrite !analyze_items_names.
  assert (G : forall x y, (forall q, item_names (x :: q) = item_names (y :: q)) ->
                          item_names (pre ++ x :: post) = item_names (pre ++ y :: post)).
  { intros x y H. induction pre as [|p pre IH]; cbn [app]; [apply H|].
    destruct p; cbn [item_names]; rewrite ?IH; reflexivity. }
  repeat split; f_equal; apply G; reflexivity.
Qed.

(* ------------------------------------------------------------------ the loop on a parsed source *)
Definition add_unexpected (r : report) (xs : list str) : report :=
  {| unclosed := unclosed r; unexpected := unexpected r ++ xs; unknown := unknown r |}.

Lemma add_unexpected_nil r : add_unexpected r [] = r.
Proof. destruct r. unfold add_unexpected. cbn. rewrite app_nil_r. reflexivity. Qed.

Lemma add_unexpected_app r a b : add_unexpected (add_unexpected r a) b = add_unexpected r (a ++ b).
Proof. unfold add_unexpected. cbn. rewrite app_assoc. reflexivity. Qed.

Section WF.
  Variable e : tagenv.
  Hypothesis Hwf : wf_envb e = true.
  (* break and continue are inner tags of some block (of for, in the shipped map) *)
  Hypothesis Hil : forall t, is_loop_interrupt t = true -> enclosing e t <> [].

  (* every end-looking token of a wn2 sequence is a registered end tag *)
  Lemma wn2_end_tokens : forall toks stack, wn2_from e toks stack = true ->
    forall t, In t toks -> starts_end t = true -> In t (registered_ends e).
  Proof.
    induction toks as [|t rest IH]; intros stack Hwn u Hin Hse; [destruct Hin|].
    cbn [wn2_from] in Hwn.
    destruct (mem t (block_names e)) eqn:Eb.
    - destruct Hin as [<-|Hin]; [|exact (IH _ Hwn u Hin Hse)].
      rewrite (wf_block_noend e Hwf t) in Hse by (apply mem_In; exact Eb). discriminate.
    - destruct (mem t (registered_ends e)) eqn:Ee.
      + destruct Hin as [<-|Hin]; [apply mem_In; exact Ee|].
        destruct stack as [|top stack']; [discriminate|].
        destruct (end_of (blocks e) top) as [en|]; [|discriminate].
        destruct (str_eqb en t); [|discriminate]. exact (IH _ Hwn u Hin Hse).
      + destruct (is_loop_interrupt t) eqn:Ei.
        * destruct Hin as [<-|Hin]; [|exact (IH _ Hwn u Hin Hse)].
          rewrite (interrupt_noend t Ei) in Hse. discriminate.
        * destruct (mem t (inlines e)) eqn:Eil.
          -- destruct Hin as [<-|Hin]; [|exact (IH _ Hwn u Hin Hse)].
             rewrite (wf_inline_noend e Hwf t) in Hse by (apply mem_In; exact Eil). discriminate.
          -- destruct stack as [|top stack']; [discriminate|].
             destruct (mem top (enclosing e t)) eqn:Een; [|discriminate].
             destruct Hin as [<-|Hin]; [|exact (IH _ Hwn u Hin Hse)].
             rewrite (wf_inner_noend e Hwf t (enclosing_inner e top t Een)) in Hse. discriminate.
  Qed.

  (* the loop on a wn2 sequence: the stack is emptied and the ONLY reports are the stray break / continue tags *)
  Lemma loop_quiet bt et :
    (forall x, mem x bt = mem x (block_names e)) ->
    (forall x, mem x et = true -> starts_end x = true) ->
    forall toks stack r,
    (forall t, In t toks -> starts_end t = true -> mem t et = true) ->
    wn2_from e toks stack = true ->
    audit_loop false e bt et toks stack r = Ok ([], add_unexpected r (stray_interrupts e toks stack)).
  Proof.
    intros Hbt Het. induction toks as [|t rest IH]; intros stack r Hin Hwn.
    - cbn [wn2_from] in Hwn. destruct stack; [|discriminate]. cbn. rewrite add_unexpected_nil. reflexivity.
    - assert (Hin' : forall u, In u rest -> starts_end u = true -> mem u et = true).
      { intros u Hu. apply Hin. right. exact Hu. }
      cbn [wn2_from] in Hwn. cbn [audit_loop stray_interrupts]. rewrite Hbt.
      destruct (mem t (block_names e)) eqn:Eb.
      + assert (Hb : In t (block_names e)) by (apply mem_In; exact Eb).
        unfold classify. rewrite registered_tag_mem;
          [| unfold registered; apply in_or_app; left; exact Hb | apply (wf_block_not_interrupt e Hwf), Hb].
        apply IH; assumption.
      + destruct (mem t (registered_ends e)) eqn:Ee.
        * assert (He : In t (registered_ends e)) by (apply mem_In; exact Ee).
          destruct (registered_end_shape e Hwf t He) as (n & Hn & ->).
          rewrite (Hin (s_end ++ n) (or_introl eq_refl) (starts_end_app n)).
          destruct stack as [|top stack']; [discriminate|].
          destruct (end_of (blocks e) top) as [en|] eqn:Eo; [|discriminate].
          destruct (str_eqb_spec en (s_end ++ n)) as [E|_]; [|discriminate].
          apply (end_of_shape e Hwf) in Eo. rewrite Eo in E. injection E as E. subst n.
          unfold pop_report. rewrite drop3_app, str_eqb_refl. cbn [tl]. apply IH; assumption.
        * assert (Hnet : mem t et = false).
          { destruct (mem t et) eqn:Em; [|reflexivity]. exfalso.
            pose proof (Het t Em) as Hse.
            assert (Hwn' : wn2_from e (t :: rest) stack = true).
            { cbn [wn2_from]. rewrite Eb, Ee. exact Hwn. }
            pose proof (wn2_end_tokens (t :: rest) stack Hwn' t (or_introl eq_refl) Hse) as Hr.
            apply mem_In in Hr. congruence. }
          rewrite Hnet.
          destruct (is_loop_interrupt t) eqn:Ei.
          -- unfold classify. rewrite (interrupt_not_registered_tag e t Ei).
             destruct (enclosing e t) as [|b bs] eqn:Een.
             ++ exfalso. exact (Hil t Ei Een).
             ++ destruct (existsb (fun b0 => mem b0 stack) (b :: bs)) eqn:Eex.
                ** cbn [app]. apply IH; assumption.
                ** rewrite (IH stack _ Hin' Hwn). f_equal. f_equal. unfold add_unexpected. cbn. rewrite <- app_assoc. reflexivity.
          -- destruct (mem t (inlines e)) eqn:Eil.
             ++ unfold classify. rewrite registered_tag_mem;
                  [| unfold registered; apply in_or_app; right; apply mem_In; exact Eil | exact Ei].
                apply IH; assumption.
             ++ destruct stack as [|top stack']; [discriminate|].
                destruct (mem top (enclosing e t)) eqn:Een; [|discriminate].
                unfold classify. destruct (mem t (registered_tags e)); [apply IH; assumption|].
                destruct (enclosing e t) as [|b bs] eqn:Eenc; [discriminate|].
                assert (Hex : existsb (fun b0 => mem b0 (top :: stack')) (b :: bs) = true).
                { apply existsb_exists. exists top. split; [apply mem_In; exact Een|].
                  cbn [mem]. rewrite str_eqb_refl. reflexivity. }
                rewrite Hex. apply IH; assumption.
  Qed.
End WF.

(* ------------------------------------------------------------------ the whole audit on a wn2 sequence *)
Theorem audit_quiet e toks :
  wf_envb e = true -> (forall t, is_loop_interrupt t = true -> enclosing e t <> []) ->
  wn2_from e toks [] = true ->
  audit e toks = Ok {| unclosed := []; unexpected := stray_interrupts e toks []; unknown := [] |}.
Proof.
  intros Hwf Hil Hwn. unfold audit, audit_gen.
  set (et := dedup (end_tags_of toks)).
  assert (Het : forall x, mem x et = true -> starts_end x = true).
  { intros x Hx. apply mem_end_tags in Hx. tauto. }
  assert (Hreg : forall x, mem x et = true -> In x (registered_ends e)).
  { intros x Hx. apply mem_end_tags in Hx. destruct Hx as [Hin Hse]. exact (wn2_end_tokens e Hwf toks [] Hwn x Hin Hse). }
  assert (Hbt : forall x, mem x (map drop3 et ++ block_names e) = mem x (block_names e)).
  { intro x. rewrite mem_app. destruct (mem x (block_names e)) eqn:Eb; [apply orb_true_r|]. rewrite orb_false_r.
    apply mem_false_In. rewrite in_map_iff. intros (u & Hu & Hin).
    destruct (registered_end_shape e Hwf u (Hreg u (proj2 (mem_In u et) Hin))) as (n & Hn & ->).
    rewrite drop3_app in Hu. subst n. apply mem_In in Hn. congruence. }
  rewrite (loop_quiet e Hwf Hil _ et Hbt Het toks [] empty_report); [| |exact Hwn].
  - cbn [bind fst snd rev unclosed unexpected unknown empty_report add_unexpected app].
    rewrite flat_map_nil; [reflexivity|].
    intros t Ht. apply mem_In in Ht.
    destruct (registered_end_shape e Hwf t (Hreg t Ht)) as (n & Hn & ->).
    unfold bad_end. rewrite drop3_app, (wf_block_not_inline e Hwf n Hn).
    replace (mem (s_end ++ n) (registered_ends e)) with true by (symmetry; apply mem_In, Hreg, Ht).
    reflexivity.
  - intros t Hin Hse. apply mem_end_tags. auto.
Qed.

(* ------------------------------------------------------------------ what the parser of TagTree.v accepts is wn2 *)
Lemma end_of_in l n : In n (map fst l) -> exists en, end_of l n = Some en.
Proof.
  induction l as [|[n' en'] l IH]; intro Hn; [destruct Hn|]. cbn [end_of].
  destruct (str_eqb_spec n' n) as [->|Hne]; [eexists; reflexivity|].
  apply IH. cbn in Hn. destruct Hn as [E|Hn]; [congruence|exact Hn].
Qed.

Section Parse.
  Variable e : tagenv.
  Variable pb : list (str * list str).
  Variable pi : list str.
  Hypothesis Hc : consistentb e pb pi = true.
  Let K := kind_from pb pi.

  Let C : wf_envb e = true
        /\ forallb (fun bs => mem (fst bs) (block_names e)
                              && forallb (fun s => mem (fst bs) (enclosing e s)
                                                   && negb (mem s (block_names e)) && negb (mem s (registered_ends e))
                                                   && negb (is_loop_interrupt s) && negb (mem s (inlines e))) (snd bs)) pb = true
        /\ forallb (fun n => mem n (inlines e) && negb (mem n (block_names e))) pi = true
        /\ mem s_comment (block_names e) = true
        /\ match end_of (blocks e) s_comment with Some en => str_eqb en s_endcomment | None => false end = true
        /\ match enclosing e s_break with [] => false | _ => true end = true
        /\ match enclosing e s_continue with [] => false | _ => true end = true.
  Proof. unfold consistentb in Hc. rewrite !andb_true_iff in Hc. tauto. Qed.

  Lemma c_wf : wf_envb e = true.
  Proof. apply C. Qed.

  Lemma c_interrupts t : is_loop_interrupt t = true -> enclosing e t <> [].
  Proof.
    destruct C as (_ & _ & _ & _ & _ & Hb & Hk). unfold is_loop_interrupt. rewrite orb_true_iff, !str_eqb_eq.
    intros [->| ->] E; [rewrite E in Hb|rewrite E in Hk]; discriminate.
  Qed.

  Lemma c_block n secs : K n = TT.TBlock secs ->
    In n (block_names e) /\
    forall s, TT.mem s secs = true ->
      mem n (enclosing e s) = true /\ mem s (block_names e) = false /\ mem s (registered_ends e) = false /\
      is_loop_interrupt s = false /\ mem s (inlines e) = false.
  Proof.
    unfold K, kind_from. destruct (alookup n pb) as [secs'|] eqn:E; [|destruct (TT.mem n pi); discriminate].
    intro H. inversion H; subst secs'. clear H. apply TagTree_Proofs.alookup_in in E.
    destruct C as (_ & Hb & _). pose proof (forallb_In _ _ _ Hb E) as H. cbn [fst snd] in H.
    apply andb_true_iff in H. destruct H as [H1 H2]. split; [apply mem_In; exact H1|].
    intros s Hs. apply TagTree_Proofs.mem_true_iff in Hs. pose proof (forallb_In _ _ _ H2 Hs) as H.
    rewrite !andb_true_iff, !negb_true_iff in H. tauto.
  Qed.

  Lemma c_inline n : K n = TT.TInline -> In n (inlines e) /\ mem n (block_names e) = false.
  Proof.
    unfold K, kind_from. destruct (alookup n pb); [discriminate|].
    destruct (TT.mem n pi) eqn:E; [|discriminate]. intros _. apply TagTree_Proofs.mem_true_iff in E.
    destruct C as (_ & _ & Hi & _). pose proof (forallb_In _ _ _ Hi E) as H.
    rewrite andb_true_iff, negb_true_iff in H. destruct H as [H1 H2]. split; [apply mem_In; exact H1|exact H2].
  Qed.

  (* a registered name is no end tag *)
  Lemma inline_not_end n : In n (inlines e) -> mem n (registered_ends e) = false.
  Proof.
    intro Hn. apply mem_false_In. intro Hr. destruct (registered_end_shape e c_wf n Hr) as (m & _ & ->).
    pose proof (wf_inline_noend e c_wf _ Hn) as H. rewrite starts_end_app in H. discriminate.
  Qed.

  Lemma block_end_registered n : In n (block_names e) ->
    mem (s_end ++ n) (block_names e) = false /\ mem (s_end ++ n) (registered_ends e) = true /\
    end_of (blocks e) n = Some (s_end ++ n).
  Proof.
    intro Hn. split; [|split].
    - apply mem_false_In. intro H. pose proof (wf_block_noend e c_wf _ H) as H'. rewrite starts_end_app in H'. discriminate.
    - apply mem_In. unfold block_names in Hn. apply in_map_iff in Hn. destruct Hn as ([n' en] & E & Hin). cbn in E. subst n'.
      unfold registered_ends. apply in_map_iff. exists (n, en). split; [|exact Hin]. cbn [fst snd].
      destruct (wf_end_shape e c_wf n en Hin) as [->| ->]; reflexivity.
    - destruct (end_of_in (blocks e) n Hn) as [en E]. rewrite E. f_equal. apply (end_of_shape e c_wf), E.
  Qed.

  Definition balanced (pre : list TT.ttok) : Prop :=
    forall more stack, wn2_from e (tnames pre ++ more) stack = wn2_from e more stack.
  Definition sbalanced (n : str) (pre : list TT.ttok) : Prop :=
    forall more stack, wn2_from e (tnames pre ++ more) (n :: stack) = wn2_from e more (n :: stack).

  Lemma tnames_app a b : tnames (a ++ b) = tnames a ++ tnames b.
  Proof. unfold tnames. apply flat_map_app. Qed.

  Lemma balanced_nil : balanced [].
  Proof. intros more stack. reflexivity. Qed.

  Lemma balanced_app a b : balanced a -> balanced b -> balanced (a ++ b).
  Proof. intros Ha Hb more stack. rewrite tnames_app, <- app_assoc, Ha. apply Hb. Qed.

  Lemma balanced_inert t : tnames1 t = [] -> balanced [t].
  Proof. intros H more stack. unfold tnames. cbn [flat_map]. rewrite H. reflexivity. Qed.

  Lemma balanced_comment s : balanced [TT.KComment s].
  Proof.
    intros more stack. unfold tnames. cbn [flat_map tnames1 app].
    destruct C as (_ & _ & _ & Hcb & Hce & _).
    assert (Hn : In s_comment (block_names e)) by (apply mem_In; exact Hcb).
    destruct (block_end_registered _ Hn) as (E1 & E2 & E3).
    assert (Een : s_endcomment = s_end ++ s_comment) by reflexivity.
    cbn [wn2_from]. rewrite Hcb, Een, E1, E2, E3, str_eqb_refl. reflexivity.
  Qed.

  Lemma balanced_inline n x : K n = TT.TInline -> balanced [TT.KTag n x].
  Proof.
    intros Hk more stack. destruct (c_inline n Hk) as [Hi Hb].
    unfold tnames. cbn [flat_map tnames1 app wn2_from]. rewrite Hb, (inline_not_end n Hi).
    destruct (is_loop_interrupt n); [reflexivity|]. replace (mem n (inlines e)) with true by (symmetry; apply mem_In, Hi). reflexivity.
  Qed.

  Lemma balanced_block n x secs body sect y :
    K n = TT.TBlock secs -> balanced body -> sbalanced n sect ->
    balanced (TT.KTag n x :: body ++ sect ++ [TT.KTag (TT.endname n) y]).
  Proof.
    intros Hk Hb Hs more stack. destruct (c_block n secs Hk) as [Hn _].
    destruct (block_end_registered _ Hn) as (E1 & E2 & E3).
    change (TT.KTag n x :: body ++ sect ++ [TT.KTag (TT.endname n) y]) with ([TT.KTag n x] ++ body ++ sect ++ [TT.KTag (TT.endname n) y]).
    rewrite !tnames_app, <- !app_assoc. unfold tnames at 1. cbn [flat_map tnames1 app]. cbn [wn2_from].
    replace (mem n (block_names e)) with true by (symmetry; apply mem_In, Hn).
    rewrite Hb, Hs. unfold tnames. cbn [flat_map tnames1 app wn2_from].
    change (TT.endname n) with (s_end ++ n). rewrite E1, E2, E3, str_eqb_refl. reflexivity.
  Qed.

  Lemma sbalanced_nil n : sbalanced n [].
  Proof. intros more stack. reflexivity. Qed.

  Lemma sbalanced_section n secs sn se body rest :
    K n = TT.TBlock secs -> TT.mem sn secs = true -> balanced body -> sbalanced n rest ->
    sbalanced n (TT.KTag sn se :: body ++ rest).
  Proof.
    intros Hk Hsn Hb Hr more stack. destruct (c_block n secs Hk) as [_ Hs]. destruct (Hs sn Hsn) as (A & B & D & F & G).
    change (TT.KTag sn se :: body ++ rest) with ([TT.KTag sn se] ++ body ++ rest).
    rewrite !tnames_app, <- !app_assoc. unfold tnames at 1. cbn [flat_map tnames1 app wn2_from].
    rewrite B, D, F, G, A, Hb. apply Hr.
  Qed.

  Definition good_rec (rec : list TT.ttok -> res (list TT.node * list TT.ttok)) : Prop :=
    forall ts ns rest, rec ts = Ok (ns, rest) -> exists pre, ts = pre ++ rest /\ balanced pre.

  Lemma psections_balanced n secs rec : K n = TT.TBlock secs -> good_rec rec ->
    forall g ts ss rest, TT.psections rec secs g ts = Ok (ss, rest) ->
    exists pre, ts = pre ++ rest /\ sbalanced n pre.
  Proof.
    intros Hk Hrec. induction g as [|g IH]; intros ts ss rest H; [discriminate|].
    cbn [TT.psections] in H.
    destruct ts as [|[s|s|s|s|sn se] r']; try (inversion H; subst; exists []; split; [reflexivity|apply sbalanced_nil]).
    destruct (TT.mem sn secs) eqn:Em; [|inversion H; subst; exists []; split; [reflexivity|apply sbalanced_nil]].
    unfold bind in H. destruct (rec r') as [[sb rb]| |] eqn:Er; try discriminate. cbn [fst snd] in H.
    destruct (TT.psections rec secs g rb) as [[more rm]| |] eqn:Ep; try discriminate. cbn [fst snd] in H.
    inversion H; subst. destruct (Hrec _ _ _ Er) as (pb1 & -> & Hb1). destruct (IH _ _ _ Ep) as (pm & -> & Hm).
    exists (TT.KTag sn se :: pb1 ++ pm). split; [cbn; rewrite <- app_assoc; reflexivity|].
    eapply sbalanced_section; eassumption.
  Qed.

  Lemma parse_until_balanced : forall f stops, good_rec (TT.parse_until K f stops).
  Proof.
    induction f as [|f IH]; intros stops ts ns rest H; [discriminate|].
    cbn [TT.parse_until] in H. destruct ts as [|t r]; [inversion H; subst; exists []; split; [reflexivity|apply balanced_nil]|].
    assert (Hinert : forall t0, tnames1 t0 = [] ->
              forall x, TT.parse_until K f stops r = Ok x -> rest = snd x ->
              exists pre, t0 :: r = pre ++ rest /\ balanced pre).
    { intros t0 Ht0 [ns0 r0] Hx ->. destruct (IH _ _ _ _ Hx) as (p & -> & Hp). exists (t0 :: p). split; [reflexivity|].
      change (t0 :: p) with ([t0] ++ p). apply balanced_app; [apply balanced_inert, Ht0|exact Hp]. }
    destruct t as [s|s|s|s|n x]; unfold bind in H.
    - destruct (TT.parse_until K f stops r) as [x0| |] eqn:E; try discriminate. inversion H; subst. eapply Hinert; eauto.
    - destruct (TT.parse_until K f stops r) as [x0| |] eqn:E; try discriminate. inversion H; subst. eapply Hinert; eauto.
    - destruct (TT.parse_until K f stops r) as [[ns0 r0]| |] eqn:E; try discriminate. inversion H; subst.
      destruct (IH _ _ _ _ E) as (p & -> & Hp). exists (TT.KComment s :: p). split; [reflexivity|].
      change (TT.KComment s :: p) with ([TT.KComment s] ++ p). apply balanced_app; [apply balanced_comment|exact Hp].
    - destruct (TT.parse_until K f stops r) as [x0| |] eqn:E; try discriminate. inversion H; subst. eapply Hinert; eauto.
    - destruct (TT.mem n stops); [inversion H; subst; exists []; split; [reflexivity|apply balanced_nil]|].
      fold K in H. destruct (K n) as [secs| |] eqn:Ek; [| |discriminate].
      + destruct (TT.parse_until K f (TT.endname n :: secs) r) as [[b rb]| |] eqn:Eb; try discriminate. cbn [fst snd] in H.
        destruct (TT.psections (TT.parse_until K f (TT.endname n :: secs)) secs f rb) as [[ss rs]| |] eqn:Es; try discriminate.
        cbn [fst snd] in H. destruct rs as [|[s1|s1|s1|s1|en y] r'']; try discriminate.
        destruct (str_eqb_spec en (TT.endname n)) as [->|]; [|discriminate].
        destruct (TT.parse_until K f stops r'') as [[ns0 r0]| |] eqn:Ex; try discriminate. inversion H; subst.
        destruct (IH _ _ _ _ Eb) as (pb1 & -> & Hb1).
        destruct (psections_balanced n secs _ Ek (IH _) _ _ _ _ Es) as (ps & -> & Hs).
        destruct (IH _ _ _ _ Ex) as (px & -> & Hx).
        exists ((TT.KTag n x :: pb1 ++ ps ++ [TT.KTag (TT.endname n) y]) ++ px). split.
        * cbn. rewrite <- !app_assoc. reflexivity.
        * apply balanced_app; [eapply balanced_block; eassumption|exact Hx].
      + destruct (TT.parse_until K f stops r) as [[ns0 r0]| |] eqn:E; try discriminate. inversion H; subst.
        destruct (IH _ _ _ _ E) as (p & -> & Hp). exists (TT.KTag n x :: p). split; [reflexivity|].
        change (TT.KTag n x :: p) with ([TT.KTag n x] ++ p). apply balanced_app; [apply balanced_inline, Ek|exact Hp].
  Qed.

  Theorem parsed_is_wn2 ts ns : TT.parse_template K ts = Ok ns -> wn2_from e (tnames ts) [] = true.
  Proof.
    unfold TT.parse_template, bind. destruct (TT.parse_until K (S (length ts)) [] ts) as [[ns0 r0]| |] eqn:E; try discriminate.
    cbn [fst snd]. destruct r0; [|discriminate]. intros _.
    destruct (parse_until_balanced _ _ _ _ _ E) as (pre & Hts & Hb). rewrite app_nil_r in Hts. subst pre.
    pose proof (Hb [] []) as H. rewrite app_nil_r in H. rewrite H. reflexivity.
  Qed.

  (* C21 clause 2 against the parser model: for a source the block parser accepts the analysis reports NOTHING but the
     break / continue tags that stand outside every block listing them *)
  Theorem parsed_report ts ns :
    TT.parse_template K ts = Ok ns ->
    audit e (tnames ts) = Ok {| unclosed := []; unexpected := stray_interrupts e (tnames ts) []; unknown := [] |}.
  Proof. intro H. apply audit_quiet; [exact c_wf|exact c_interrupts|eapply parsed_is_wn2, H]. Qed.
End Parse.

(* ------------------------------------------------------------------ source level *)
Lemma tnames_ttoks its : tnames (ttoks_of its) = item_names its.
Proof.
  induction its as [|it r IH]; [reflexivity|].
  destruct it; cbn [ttoks_of item_names]; try reflexivity;
    match goal with |- tnames (?t :: ?l) = _ => change (tnames (t :: l)) with (tnames1 t ++ tnames l) end;
    cbn [tnames1 app]; rewrite ?IH; reflexivity.
Qed.

(* a template -- text, output statements, tags, raw / doc / comment blocks, inline comments, liquid tags -- that the block
   parser accepts is reported silent, except for break / continue outside every block listing them *)
Theorem parsed_items_report e pb pi its ns :
  consistentb e pb pi = true -> TagTree.parse_template (kind_from pb pi) (ttoks_of its) = Ok ns ->
  analyze_items e its = Ok {| unclosed := []; unexpected := stray_interrupts e (item_names its) []; unknown := [] |}.
Proof.
  intros Hc Hp. rewrite analyze_items_names, <- tnames_ttoks. eapply parsed_report; eassumption.
Qed.

Lemma stray_interrupts_are_interrupts e : forall toks stack t, In t (stray_interrupts e toks stack) -> is_loop_interrupt t = true.
Proof.
  induction toks as [|u rest IH]; intros stack t Hin; [destruct Hin|]. cbn [stray_interrupts] in Hin.
  destruct (mem u (block_names e)); [exact (IH _ _ Hin)|].
  destruct (mem u (registered_ends e)); [exact (IH _ _ Hin)|].
  destruct (is_loop_interrupt u) eqn:Ei; [|exact (IH _ _ Hin)].
  apply in_app_or in Hin. destruct Hin as [Hin|Hin]; [|exact (IH _ _ Hin)].
  destruct (existsb _ _); [destruct Hin|]. destruct Hin as [<-|[]]. exact Ei.
Qed.

(* hence: no unclosed and no unknown report at all, and every tag reported as unexpected is a break or a continue *)
Corollary parsed_only_interrupts e pb pi its ns r :
  consistentb e pb pi = true -> TagTree.parse_template (kind_from pb pi) (ttoks_of its) = Ok ns ->
  analyze_items e its = Ok r ->
  unclosed r = [] /\ unknown r = [] /\ forall t, In t (unexpected r) -> is_loop_interrupt t = true.
Proof.
  intros Hc Hp Hr. rewrite (parsed_items_report e pb pi its ns Hc Hp) in Hr. inversion Hr; subst. cbn.
  repeat split. intros t Ht. eapply stray_interrupts_are_interrupts, Ht.
Qed.

(* and no alarm at all when the template has no break / continue tag written at template level *)
Lemma stray_none e : forall toks stack, (forall t, In t toks -> is_loop_interrupt t = false) -> stray_interrupts e toks stack = [].
Proof.
  induction toks as [|u rest IH]; intros stack H; [reflexivity|]. cbn [stray_interrupts].
  assert (H' : forall t, In t rest -> is_loop_interrupt t = false) by (intros t Ht; apply H; right; exact Ht).
  destruct (mem u (block_names e)); [apply IH, H'|]. destruct (mem u (registered_ends e)); [apply IH, H'|].
  rewrite (H u (or_introl eq_refl)). apply IH, H'.
Qed.

Corollary parsed_no_alarm e pb pi its ns :
  consistentb e pb pi = true -> TagTree.parse_template (kind_from pb pi) (ttoks_of its) = Ok ns ->
  (forall t, In t (item_names its) -> is_loop_interrupt t = false) ->
  analyze_items e its = Ok empty_report.
Proof.
  intros Hc Hp Hni. rewrite (parsed_items_report e pb pi its ns Hc Hp), stray_none by exact Hni. reflexivity.
Qed.

(* clause 3 at source level: a tag written at template level (not inside raw / doc / comment, not after an unclosed
   comment tag, not on a line of a liquid tag) ... *)
Theorem unknown_item_reported e its t r :
  In t (item_names its) -> starts_end t = false -> mem t (registered_tags e) = false -> enclosing e t = [] ->
  analyze_items e its = Ok r -> In t (unknown r).
Proof. rewrite analyze_items_names. apply unknown_reported. Qed.

Theorem unclosed_item_reported e its x r :
  In x (block_names e) -> starts_end x = false ->
  (forall u, In u (item_names its) -> starts_end u = true -> drop3 u <> x) ->
  analyze_items e its = Ok r -> count x (unclosed r) = count x (item_names its).
Proof. rewrite analyze_items_names. apply unclosed_reported. Qed.

Theorem analyze_items_total e its : exists r, analyze_items e its = Ok r.
Proof. apply analyze_total. Qed.

(* the shipped registers are consistent with the parser's (re-evaluated on the live tables by the harness on every run) *)
Theorem shipped_consistent :
  consistentb default_env TagTree.std_blocks TagTree.std_inlines = true /\ consistentb extra_env ext_blocks ext_inlines = true.
Proof. vm_compute. split; reflexivity. Qed.
