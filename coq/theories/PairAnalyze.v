(* C01 -- the two hand-written walks of liquid/static_analysis.py: analyze._visit (synchronous, over the GENERATORS
   returned by Node.children) and analyze_async._visit (over the LISTS returned by awaiting Node.children_async), with
   the three pairs of children / children_async that load a partial template (IncludeNode, RenderNode, ExtendsNode) and
   the default Node.children_async (which returns whatever children returns).  Executable definitions only.

   The walk is observed at the level the result is built from: one event per entry appended to TemplateAnalysis.tags,
   .variables, .globals and .locals, in order, and one event per template load with the API it went through.  The
   fragment: probes ({% echo g | append: v %}: variables), assign (template scope), for and block (block scope),
   include (shared scope, keyword arguments), render (isolated scope, keyword arguments, key), extends (inherited),
   snippet / render of an inline snippet (static context, seen by the identity of the snippet's first node).
   ast.BlockNode containers are flattened: visiting one pushes an empty scope, appends nothing and visits its nodes.
   C19 (StaticAnalysis.v) is about WHAT the walk reports; this file is about the two copies reporting the same. *)
From Coq Require Import String Ascii.
From LiquidVerif Require Import Prelude.

Definition alit (x : string) : str := map N_of_ascii (list_ascii_of_string x).

Inductive amode := ASync | AAsync.
Definition amode_eqb (a b : amode) : bool := match a, b with ASync, ASync | AAsync, AAsync => true | _, _ => false end.

(* ------------------------------------------------------------------------------------------------ syntax *)
Inductive anode :=
| AProbe (id : N) (vars : list str)                     (* a node whose expressions mention these variables, in order *)
| AAssign (id : N) (x : str)
| AFor (id : N) (x : str) (body : list anode)
| ABlock (id : N) (name : str) (body : list anode)
| ASnippet (id : N) (name : str) (body : list anode)
| AInclude (id : N) (name : str) (args : list str)
| ARender (id : N) (name : str) (args : list str)
| ARenderSnippet (id : N) (sname : str) (args : list str)
| AExtends (id : N) (name : str).

Definition node_id (n : anode) : N :=
  match n with
  | AProbe i _ | AAssign i _ | AFor i _ _ | ABlock i _ _ | ASnippet i _ _ | AInclude i _ _ | ARender i _ _
  | ARenderSnippet i _ _ | AExtends i _ => i
  end.

Inductive tagname := TgEcho | TgAssign | TgFor | TgBlock | TgSnippet | TgInclude | TgRender | TgExtends.
Definition node_tag (n : anode) : tagname :=
  match n with
  | AProbe _ _ => TgEcho | AAssign _ _ => TgAssign | AFor _ _ _ => TgFor | ABlock _ _ _ => TgBlock
  | ASnippet _ _ _ => TgSnippet | AInclude _ _ _ => TgInclude | ARender _ _ _ | ARenderSnippet _ _ _ => TgRender
  | AExtends _ _ => TgExtends
  end.

Definition s_forloop : str := alit "forloop".
Definition s_block : str := alit "block".

Definition node_vars (n : anode) : list str := match n with AProbe _ vs => vs | _ => [] end.
Definition node_tscope (n : anode) : list str := match n with AAssign _ x => [x] | ASnippet _ x _ => [x] | _ => [] end.
Definition node_bscope (n : anode) : list str :=
  match n with AFor _ x _ => [x; s_forloop] | ABlock _ _ _ => [s_block] | _ => [] end.

(* Partial: name ("" for an inline snippet), isolated?, in_scope, key *)
Record partial := { p_name : str; p_isolated : bool; p_in_scope : list str; p_key : option (str * list str) }.
Definition node_partial (n : anode) : option partial :=
  match n with
  | AInclude _ name args => Some {| p_name := name; p_isolated := false; p_in_scope := args; p_key := None |}
  | ARender _ name args => Some {| p_name := name; p_isolated := true; p_in_scope := args; p_key := Some (name, args) |}
  | ARenderSnippet _ _ args => Some {| p_name := []; p_isolated := true; p_in_scope := args; p_key := Some ([], args) |}
  | AExtends _ name => Some {| p_name := name; p_isolated := false; p_in_scope := []; p_key := None |}
  | _ => None
  end.

(* ------------------------------------------------------------------------------------------------ state *)
(* a key of `seen`: a template name, or what identifies an inline snippet.  Repaired code (_snippet_key): the source text
   and position of the snippet's first node, i.e. its position number here (numbers are unique across the templates of a
   case).  Code as found: id(snippet[0]), the ADDRESS of a node object.  Node objects are created by the load that parsed
   the template and die with it, so the address is a function [aw_addr] of (number of the load, position) chosen by the
   memory allocator -- not by the input. *)
Inductive sname := SName (s : str) | SId (addr : N).
Definition sname_eqb (a b : sname) : bool :=
  match a, b with SName x, SName y => str_eqb x y | SId x, SId y => N.eqb x y | _, _ => false end.

Definition mem (x : str) (l : list str) : bool := existsb (str_eqb x) l.
Definition subset (a b : list str) : bool := forallb (fun x => mem x b) a.
Definition set_eqb (a b : list str) : bool := subset a b && subset b a.

Inductive skey := KMark | KPart (k : option (str * list str)) (vis : list str).
Definition pkey_eqb (a b : option (str * list str)) : bool :=
  option_eqb (fun x y => str_eqb (fst x) (fst y) && list_eqb str_eqb (snd x) (snd y)) a b.
Definition skey_eqb (a b : skey) : bool :=
  match a, b with
  | KMark, KMark => true
  | KPart k v, KPart k' v' => pkey_eqb k k' && set_eqb v v'
  | _, _ => false
  end.

Record wstate := {
  ws_seen : list (sname * list skey);
  ws_scope : list (list str);          (* the current _StaticScope object: pushed frames first, stack[0] last *)
  ws_snips : list (str * (list anode * N));   (* inline snippets bound in the static context, newest first, each with
                                                 the load its nodes come from *)
  ws_loads : N                         (* templates loaded so far; the root template is load 0 *)
}.
Definition ws0 : wstate := {| ws_seen := []; ws_scope := [[]]; ws_snips := []; ws_loads := 0 |}.

Inductive wev :=
| WTag (tn : str) (id : N) (t : tagname)
| WVar (tn : str) (id : N) (x : str)
| WGlobal (tn : str) (id : N) (x : str)
| WLocal (tn : str) (id : N) (x : str)
| WLoad (m : amode) (name : str) (found : bool).

Inductive wout (A : Type) := WVal (a : A) | WFail (e : exn) | WFuel.
Arguments WVal {A} a. Arguments WFail {A} e. Arguments WFuel {A}.

Definition W (A : Type) := wstate -> wout A * wstate * list wev.
Definition wret {A} (a : A) : W A := fun st => (WVal a, st, []).
Definition wfail {A} (e : exn) : W A := fun st => (WFail e, st, []).
Definition wfuel {A} : W A := fun st => (WFuel, st, []).
Definition wemit (e : wev) : W unit := fun st => (WVal tt, st, [e]).
Definition wbind {A B} (m : W A) (f : A -> W B) : W B :=
  fun st =>
    match m st with
    | (WVal a, st1, t1) => match f a st1 with (r, st2, t2) => (r, st2, t1 ++ t2) end
    | (WFail e, st1, t1) => (WFail e, st1, t1)
    | (WFuel, st1, t1) => (WFuel, st1, t1)
    end.
Notation "'doW' x <- m ; k" := (wbind m (fun x => k)) (at level 200, x pattern, m at level 100, k at level 200).
Definition wget : W wstate := fun st => (WVal st, st, []).
Definition wput (s : wstate) : W unit := fun _ => (WVal tt, s, []).
Definition wmod (f : wstate -> wstate) : W unit := fun st => (WVal tt, f st, []).

Fixpoint for_list {A} (f : A -> W unit) (l : list A) : W unit :=
  match l with [] => wret tt | a :: r => doW _ <- f a; for_list f r end.

(* seen: a defaultdict(set) *)
Definition seen_has (n : sname) (sn : list (sname * list skey)) : bool := existsb (fun e => sname_eqb n (fst e)) sn.
Fixpoint seen_get (n : sname) (sn : list (sname * list skey)) : list skey :=
  match sn with [] => [] | (n', l) :: r => if sname_eqb n n' then l else seen_get n r end.
Fixpoint seen_add (n : sname) (k : skey) (sn : list (sname * list skey)) : list (sname * list skey) :=
  match sn with
  | [] => [(n, [k])]
  | (n', l) :: r => if sname_eqb n n' then (n', if existsb (skey_eqb k) l then l else l ++ [k]) :: r
                    else (n', l) :: seen_add n k r
  end.
Definition set_seen (f : list (sname * list skey) -> list (sname * list skey)) (s : wstate) : wstate :=
  {| ws_seen := f (ws_seen s); ws_scope := ws_scope s; ws_snips := ws_snips s; ws_loads := ws_loads s |}.
Definition set_scope (f : list (list str) -> list (list str)) (s : wstate) : wstate :=
  {| ws_seen := ws_seen s; ws_scope := f (ws_scope s); ws_snips := ws_snips s; ws_loads := ws_loads s |}.

(* _StaticScope *)
Definition sc_mem (x : str) (sc : list (list str)) : bool := existsb (mem x) sc.
Fixpoint sc_add (x : str) (sc : list (list str)) : list (list str) :=       (* self.stack[0].add(name) *)
  match sc with
  | [] => [[x]]
  | [base] => [base ++ [x]]
  | f :: r => f :: sc_add x r
  end.

(* ------------------------------------------------------------------------------------------------ primitives *)
Record aworld := { aw_ld : amode -> str -> option (list anode);
                   aw_addr : N -> N -> N }.       (* (load, position) -> what identifies the node; 0 is kept for `no node` *)
(* _snippet_key *)
Definition by_position : N -> N -> N := fun _ id => id.

(* Environment.get_template / get_template_async from children / children_async *)
Definition aload (w : aworld) (m : amode) (name : str) : W (list anode * N) :=
  match aw_ld w m name with
  | Some t =>
      doW _ <- wemit (WLoad m name true);
      doW st <- wget;
      let k := N.succ (ws_loads st) in
      doW _ <- wput {| ws_seen := ws_seen st; ws_scope := ws_scope st; ws_snips := ws_snips st; ws_loads := k |};
      wret (t, k)                                       (* a fresh parse: new node objects *)
  | None => doW _ <- wemit (WLoad m name false); wfail ENotFound
  end.

(* static_context.resolve(self.name, default=None) of RenderNode for an inline snippet: no error when unbound *)
Definition resolve_snippet (s : str) : W (list anode * N) :=
  doW st <- wget; wret (match alookup s (ws_snips st) with Some b => b | None => ([], 0%N) end).
(* SnippetNode.children: static_context.assign(name, SnippetDrop(block.nodes)); return [] *)
Definition assign_snippet (s : str) (body : list anode) (inst : N) : W unit :=
  wmod (fun st => {| ws_seen := ws_seen st; ws_scope := ws_scope st; ws_snips := (s, (body, inst)) :: ws_snips st;
                     ws_loads := ws_loads st |}).

(* everything _visit does before it looks at partial_scope(): shared text of both copies, transcribed once each below *)
Definition record_var (jg : bool) (tn : str) (id : N) (x : str) : W unit :=
  doW _ <- (if jg then wret tt else wemit (WVar tn id x));       (* variables.add(var), a throw-away map under just_globals *)
  doW st <- wget;
  if sc_mem x (ws_scope st) then wret tt else wemit (WGlobal tn id x).
Definition record_local (tn : str) (id : N) (x : str) : W unit :=
  doW _ <- wmod (set_scope (sc_add x));
  wemit (WLocal tn id x).

(* ------------------------------------------------------------------------------------------------ children *)
(* Node.children of the synchronous walk returns an iterable.  For include / render / extends it is a GENERATOR: nothing
   runs when it is created; the code up to the first yield (name evaluation, get_template) runs at the first next();
   then it yields from a fixed list. *)
Inductive gen := GNodes (l : list anode) | GLoad (name : str) | GResolve (sname : str).

Definition children_sync (ip : bool) (inst : N) (n : anode) : W gen :=
  match n with
  | AFor _ _ body | ABlock _ _ body => wret (GNodes body)
  | ASnippet _ name body => doW _ <- assign_snippet name body inst; wret (GNodes [])   (* an ordinary function: runs now *)
  | AInclude _ name _ | AExtends _ name => wret (if ip then GLoad name else GNodes [])
  | ARender _ name _ => wret (if ip then GLoad name else GNodes [])
  | ARenderSnippet _ s _ => wret (GResolve s)                  (* visited whatever include_partials is *)
  | AProbe _ _ | AAssign _ _ => wret (GNodes [])
  end.
(* the first next() of the iterable, then its items *)
Definition gen_items (w : aworld) (inst : N) (g : gen) : W (list anode * N) :=
  match g with
  | GNodes l => wret (l, inst)
  | GLoad name => aload w ASync name
  | GResolve s => resolve_snippet s
  end.
(* for child in <iterable>: body(child) *)
Definition for_gen (w : aworld) (inst : N) (g : gen) (body : N -> anode -> W unit) : W unit :=
  doW l <- gen_items w inst g; for_list (body (snd l)) (fst l).

(* await node.children_async(...): the list is complete before the loop starts *)
Definition children_async (w : aworld) (ip : bool) (inst : N) (n : anode) : W (list anode * N) :=
  match n with
  | AInclude _ name _ | AExtends _ name => if ip then aload w AAsync name else wret ([], inst)
  | ARender _ name _ => if ip then aload w AAsync name else wret ([], inst)
  | ARenderSnippet _ s _ => resolve_snippet s
  | _ => doW g <- children_sync ip inst n; gen_items w inst g      (* Node.children_async: return self.children(...) *)
  end.

(* ------------------------------------------------------------------------------------------------ the walks *)
Definition first_sid (w : aworld) (l : list anode * N) : sname :=
  match fst l with [] => SId 0 | n :: _ => SId (aw_addr w (snd l) (node_id n)) end.
Definition is_empty (s : str) : bool := match s with [] => true | _ => false end.

(* analyze._visit *)
Fixpoint visit_sync (fuel : nat) (w : aworld) (ip jg : bool) (tn : str) (inst : N) (n : anode) : W unit :=
  match fuel with
  | O => wfuel
  | S f =>
      doW _ <- (if negb (is_empty tn) && negb jg then wmod (set_seen (seen_add (SName tn) KMark)) else wret tt);
      doW _ <- (if jg then wret tt else wemit (WTag tn (node_id n) (node_tag n)));
      doW _ <- for_list (record_var jg tn (node_id n)) (node_vars n);
      doW _ <- for_list (record_local tn (node_id n)) (node_tscope n);
      match node_partial n with
      | Some p =>
          doW sname <- (if is_empty (p_name p)
                        then (doW g <- children_sync ip inst n; doW snippet <- gen_items w inst g; wret (first_sid w snippet))
                        else wret (SName (p_name p)));
          doW st <- wget;
          let jg' := seen_has sname (ws_seen st) in
          let visible := p_in_scope p ++ (if p_isolated p then [] else concat (ws_scope st)) in
          let key := KPart (p_key p) visible in
          if existsb (skey_eqb key) (seen_get sname (ws_seen st)) then wret tt
          else
            doW _ <- wmod (set_seen (seen_add sname key));
            let pname := if is_empty (p_name p) then tn else p_name p in
            let saved := ws_scope st in
            doW _ <- wmod (set_scope (fun sc => if p_isolated p then [p_in_scope p] else p_in_scope p :: sc));
            doW g <- children_sync ip inst n;
            doW _ <- for_gen w inst g (visit_sync f w ip jg' pname);
            wmod (set_scope (fun sc => if p_isolated p then saved else tl sc))
      | None =>
          doW _ <- wmod (set_scope (fun sc => node_bscope n :: sc));
          doW g <- children_sync ip inst n;
          doW _ <- for_gen w inst g (visit_sync f w ip jg tn);
          wmod (set_scope (@tl _))
      end
  end.

(* analyze_async._visit *)
Fixpoint visit_async (fuel : nat) (w : aworld) (ip jg : bool) (tn : str) (inst : N) (n : anode) : W unit :=
  match fuel with
  | O => wfuel
  | S f =>
      doW _ <- (if negb (is_empty tn) && negb jg then wmod (set_seen (seen_add (SName tn) KMark)) else wret tt);
      doW _ <- (if jg then wret tt else wemit (WTag tn (node_id n) (node_tag n)));
      doW _ <- for_list (record_var jg tn (node_id n)) (node_vars n);
      doW _ <- for_list (record_local tn (node_id n)) (node_tscope n);
      match node_partial n with
      | Some p =>
          doW sname <- (if is_empty (p_name p)
                        then (doW snippet <- children_async w ip inst n; wret (first_sid w snippet))
                        else wret (SName (p_name p)));
          doW st <- wget;
          let jg' := seen_has sname (ws_seen st) in
          let visible := p_in_scope p ++ (if p_isolated p then [] else concat (ws_scope st)) in
          let key := KPart (p_key p) visible in
          if existsb (skey_eqb key) (seen_get sname (ws_seen st)) then wret tt
          else
            doW _ <- wmod (set_seen (seen_add sname key));
            let pname := if is_empty (p_name p) then tn else p_name p in
            let saved := ws_scope st in
            doW _ <- wmod (set_scope (fun sc => if p_isolated p then [p_in_scope p] else p_in_scope p :: sc));
            doW l <- children_async w ip inst n;
            doW _ <- for_list (visit_async f w ip jg' pname (snd l)) (fst l);
            wmod (set_scope (fun sc => if p_isolated p then saved else tl sc))
      | None =>
          doW _ <- wmod (set_scope (fun sc => node_bscope n :: sc));
          doW l <- children_async w ip inst n;
          doW _ <- for_list (visit_async f w ip jg tn (snd l)) (fst l);
          wmod (set_scope (@tl _))
      end
  end.

(* the seeded slip: an asynchronous copy that awaits the children BEFORE it has looked the partial up in `seen` *)
Fixpoint visit_async_eager (fuel : nat) (w : aworld) (ip jg : bool) (tn : str) (inst : N) (n : anode) : W unit :=
  match fuel with
  | O => wfuel
  | S f =>
      doW _ <- (if negb (is_empty tn) && negb jg then wmod (set_seen (seen_add (SName tn) KMark)) else wret tt);
      doW _ <- (if jg then wret tt else wemit (WTag tn (node_id n) (node_tag n)));
      doW _ <- for_list (record_var jg tn (node_id n)) (node_vars n);
      doW _ <- for_list (record_local tn (node_id n)) (node_tscope n);
      match node_partial n with
      | Some p =>
          doW l <- children_async w ip inst n;
          let sname := if is_empty (p_name p) then first_sid w l else SName (p_name p) in
          doW st <- wget;
          let jg' := seen_has sname (ws_seen st) in
          let visible := p_in_scope p ++ (if p_isolated p then [] else concat (ws_scope st)) in
          let key := KPart (p_key p) visible in
          if existsb (skey_eqb key) (seen_get sname (ws_seen st)) then wret tt
          else
            doW _ <- wmod (set_seen (seen_add sname key));
            let pname := if is_empty (p_name p) then tn else p_name p in
            let saved := ws_scope st in
            doW _ <- wmod (set_scope (fun sc => if p_isolated p then [p_in_scope p] else p_in_scope p :: sc));
            doW _ <- for_list (visit_async_eager f w ip jg' pname (snd l)) (fst l);
            wmod (set_scope (fun sc => if p_isolated p then saved else tl sc))
      | None =>
          doW _ <- wmod (set_scope (fun sc => node_bscope n :: sc));
          doW l <- children_async w ip inst n;
          doW _ <- for_list (visit_async_eager f w ip jg tn (snd l)) (fst l);
          wmod (set_scope (@tl _))
      end
  end.

(* analyze / analyze_async: for node in template.nodes: _visit(node, template.name, root_scope) *)
Definition analyze_sync (fuel : nat) (w : aworld) (ip : bool) (name : str) (t : list anode) : W unit :=
  for_list (visit_sync fuel w ip false name 0) t.
Definition analyze_async (fuel : nat) (w : aworld) (ip : bool) (name : str) (t : list anode) : W unit :=
  for_list (visit_async fuel w ip false name 0) t.

(* ------------------------------------------------------------------------------------------------ erasure *)
Inductive uwev := UTag (tn : str) (id : N) (t : tagname) | UVar (tn : str) (id : N) (x : str)
                | UGlobal (tn : str) (id : N) (x : str) | ULocal (tn : str) (id : N) (x : str)
                | ULoadW (name : str) (found : bool).
Definition werase1 (e : wev) : uwev :=
  match e with
  | WTag a b c => UTag a b c | WVar a b c => UVar a b c | WGlobal a b c => UGlobal a b c | WLocal a b c => ULocal a b c
  | WLoad _ n f => ULoadW n f
  end.
Definition werase (t : list wev) : list uwev := map werase1 t.
Definition werase_run {A} (r : wout A * wstate * list wev) : wout A * wstate * list uwev :=
  match r with (o, st, t) => (o, st, werase t) end.

(* ------------------------------------------------------------------------------------------------ correspondence *)
(* what TemplateAnalysis shows: per-key lists in order of first appearance *)
Fixpoint agroup {K V} (keqb : K -> K -> bool) (l : list (K * V)) (acc : list (K * list V)) : list (K * list V) :=
  match l with
  | [] => acc
  | (k, v) :: r =>
      agroup keqb r
        ((fix ins (a : list (K * list V)) : list (K * list V) :=
            match a with
            | [] => [(k, [v])]
            | (k', vs) :: a' => if keqb k k' then (k', vs ++ [v]) :: a' else (k', vs) :: ins a'
            end) acc)
  end.

Definition tag_eqb (a b : tagname) : bool :=
  match a, b with
  | TgEcho, TgEcho | TgAssign, TgAssign | TgFor, TgFor | TgBlock, TgBlock | TgSnippet, TgSnippet | TgInclude, TgInclude
  | TgRender, TgRender | TgExtends, TgExtends => true
  | _, _ => false
  end.

Definition span := (str * N)%type.
Record aobs := {
  ao_vars : list (str * list span); ao_globals : list (str * list span); ao_locals : list (str * list span);
  ao_tags : list (tagname * list span); ao_loads : list (amode * str * bool); ao_end : option exn
}.
Definition aobserve (r : wout unit * wstate * list wev) : aobs :=
  match r with
  | (o, _, t) =>
      {| ao_vars := agroup str_eqb (flat_map (fun e => match e with WVar tn i x => [(x, (tn, i))] | _ => [] end) t) [];
         ao_globals := agroup str_eqb (flat_map (fun e => match e with WGlobal tn i x => [(x, (tn, i))] | _ => [] end) t) [];
         ao_locals := agroup str_eqb (flat_map (fun e => match e with WLocal tn i x => [(x, (tn, i))] | _ => [] end) t) [];
         ao_tags := agroup tag_eqb (flat_map (fun e => match e with WTag tn i g => [(g, (tn, i))] | _ => [] end) t) [];
         ao_loads := flat_map (fun e => match e with WLoad m n f => [(m, n, f)] | _ => [] end) t;
         ao_end := match o with WVal _ => None | WFail e => Some e | WFuel => Some ERecursionError end |}
  end.

Record acase := { ac_templates : list (str * list anode); ac_root_name : str; ac_root : list anode; ac_partials : bool }.
Definition ac_world (k : acase) : aworld := {| aw_ld := fun _ n => alookup n (ac_templates k); aw_addr := by_position |}.
Definition run_analyze (k : acase) : aobs * aobs :=
  (aobserve (analyze_sync 40 (ac_world k) (ac_partials k) (ac_root_name k) (ac_root k) ws0),
   aobserve (analyze_async 40 (ac_world k) (ac_partials k) (ac_root_name k) (ac_root k) ws0)).

Definition span_eqb (a b : span) : bool := str_eqb (fst a) (fst b) && N.eqb (snd a) (snd b).
Definition grp_eqb {K} (keqb : K -> K -> bool) (a b : list (K * list span)) : bool :=
  list_eqb (fun x y => keqb (fst x) (fst y) && list_eqb span_eqb (snd x) (snd y)) a b.
Definition aload_eqb (a b : amode * str * bool) : bool :=
  amode_eqb (fst (fst a)) (fst (fst b)) && str_eqb (snd (fst a)) (snd (fst b)) && Bool.eqb (snd a) (snd b).
Definition aobs_eqb (a b : aobs) : bool :=
  list_eqb aload_eqb (ao_loads a) (ao_loads b) && option_eqb exn_eqb (ao_end a) (ao_end b) &&
  (match ao_end a with
   | Some _ => true
   | None => grp_eqb str_eqb (ao_vars a) (ao_vars b) && grp_eqb str_eqb (ao_globals a) (ao_globals b) &&
             grp_eqb str_eqb (ao_locals a) (ao_locals b) && grp_eqb tag_eqb (ao_tags a) (ao_tags b)
   end).
Definition aobs2_eqb (a b : aobs * aobs) : bool := aobs_eqb (fst a) (fst b) && aobs_eqb (snd a) (snd b).
