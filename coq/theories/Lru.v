(* Model of liquid/utils/lru_cache.py : LRUCache and ThreadSafeLRUCache.
   Executable definitions only; proofs live in Lru_Proofs.v. *)
From LiquidVerif Require Import Prelude.

Notation key := N (only parsing).
Notation value := Z (only parsing).

(* items: least recently used FIRST, exactly like the OrderedDict in the code. *)
Record cache := { cap : nat; items : list (N * Z) }.

Inductive op :=
| Get (k : N)                 (* c[k] *)
| GetD (k : N) (d : Z)        (* c.get(k, d) *)
| GetN (k : N)                (* c.get(k): the default of the default is None *)
| Set_ (k : N) (v : Z)        (* c[k] = v *)
| Del (k : N)                 (* del c[k] *)
| Contains (k : N)            (* k in c *)
| Len                         (* len(c) *)
| Keys | Values | Items       (* list(c.keys()) ... *)
| Iter.                       (* list(iter(c)) *)

Inductive out :=
| OVal (v : Z) | OKeyError | ODone | OBool (b : bool) | OLen (n : nat) | ONone
| OKeys (l : list N) | OVals (l : list Z) | OItems (l : list (N * Z)).

Fixpoint lookup (k : N) (l : list (N * Z)) : option Z :=
  match l with
  | [] => None
  | (k', v) :: l' => if N.eqb k k' then Some v else lookup k l'
  end.

Fixpoint remove_key (k : N) (l : list (N * Z)) : list (N * Z) :=
  match l with
  | [] => []
  | (k', v) :: l' => if N.eqb k k' then remove_key k l' else (k', v) :: remove_key k l'
  end.

Definition with_items (c : cache) (l : list (N * Z)) : cache := {| cap := cap c; items := l |}.

(* __getitem__: KeyError if absent, else move_to_end and return *)
Definition do_get (c : cache) (k : N) : cache * option Z :=
  match lookup k (items c) with
  | None => (c, None)
  | Some v => (with_items c (remove_key k (items c) ++ [(k, v)]), Some v)
  end.

(* __setitem__: move_to_end, or on KeyError evict the first item when full; then store *)
Definition do_set (c : cache) (k : N) (v : Z) : cache :=
  match lookup k (items c) with
  | Some _ => with_items c (remove_key k (items c) ++ [(k, v)])
  | None =>
      if Nat.leb (cap c) (length (items c))
      then with_items c (tl (items c) ++ [(k, v)])
      else with_items c (items c ++ [(k, v)])
  end.

Definition step (c : cache) (o : op) : cache * out :=
  match o with
  | Get k => match do_get c k with (c', Some v) => (c', OVal v) | (c', None) => (c', OKeyError) end
  | GetD k d => match do_get c k with (c', Some v) => (c', OVal v) | (c', None) => (c', OVal d) end
  | GetN k => match do_get c k with (c', Some v) => (c', OVal v) | (c', None) => (c', ONone) end
  | Set_ k v => (do_set c k v, ODone)
  | Del k => match lookup k (items c) with
             | Some _ => (with_items c (remove_key k (items c)), ODone)
             | None => (c, OKeyError)
             end
  | Contains k => (c, OBool (match lookup k (items c) with Some _ => true | None => false end))
  | Len => (c, OLen (length (items c)))
  | Keys | Iter => (c, OKeys (rev (map fst (items c))))
  | Values => (c, OVals (rev (map snd (items c))))
  | Items => (c, OItems (rev (items c)))
  end.

Definition empty (n : nat) : cache := {| cap := n; items := [] |}.

(* LRUCache.__init__(capacity): ValueError (None) for a capacity below 1, else an empty cache *)
Definition make (n : Z) : option cache := if (n <? 1)%Z then None else Some (empty (Z.to_nat n)).

(* run an op list, collecting every output and the item list after every op *)
Fixpoint run (c : cache) (ops : list op) : list (out * list (N * Z)) :=
  match ops with
  | [] => []
  | o :: ops' => let '(c', r) := step c o in (r, items c') :: run c' ops'
  end.

Definition final (c : cache) (ops : list op) : cache := fold_left (fun c o => fst (step c o)) ops c.

(* ---- ghost-instrumented machine: every entry carries the time of its last use ---- *)
Record gcache := { gcap : nat; gitems : list (N * Z * nat); clock : nat }.

Definition erase_items (l : list (N * Z * nat)) : list (N * Z) := map fst l.
Definition erase (g : gcache) : cache := {| cap := gcap g; items := erase_items (gitems g) |}.

Fixpoint glookup (k : N) (l : list (N * Z * nat)) : option (Z * nat) :=
  match l with
  | [] => None
  | (k', v, t) :: l' => if N.eqb k k' then Some (v, t) else glookup k l'
  end.

Fixpoint gremove (k : N) (l : list (N * Z * nat)) : list (N * Z * nat) :=
  match l with
  | [] => []
  | (k', v, t) :: l' => if N.eqb k k' then gremove k l' else (k', v, t) :: gremove k l'
  end.

Definition gwith (g : gcache) (l : list (N * Z * nat)) : gcache :=
  {| gcap := gcap g; gitems := l; clock := S (clock g) |}.

(* A *use* (successful lookup or store) stamps the entry with the current clock. *)
Definition gstep (g : gcache) (o : op) : gcache * out :=
  match o with
  | Get k => match glookup k (gitems g) with
             | Some (v, _) => (gwith g (gremove k (gitems g) ++ [(k, v, clock g)]), OVal v)
             | None => (gwith g (gitems g), OKeyError)
             end
  | GetD k d => match glookup k (gitems g) with
             | Some (v, _) => (gwith g (gremove k (gitems g) ++ [(k, v, clock g)]), OVal v)
             | None => (gwith g (gitems g), OVal d)
             end
  | GetN k => match glookup k (gitems g) with
             | Some (v, _) => (gwith g (gremove k (gitems g) ++ [(k, v, clock g)]), OVal v)
             | None => (gwith g (gitems g), ONone)
             end
  | Set_ k v => match glookup k (gitems g) with
             | Some _ => (gwith g (gremove k (gitems g) ++ [(k, v, clock g)]), ODone)
             | None => if Nat.leb (gcap g) (length (gitems g))
                       then (gwith g (tl (gitems g) ++ [(k, v, clock g)]), ODone)
                       else (gwith g (gitems g ++ [(k, v, clock g)]), ODone)
             end
  | Del k => match glookup k (gitems g) with
             | Some _ => (gwith g (gremove k (gitems g)), ODone)
             | None => (gwith g (gitems g), OKeyError)
             end
  | Contains k => (gwith g (gitems g), OBool (match glookup k (gitems g) with Some _ => true | None => false end))
  | Len => (gwith g (gitems g), OLen (length (gitems g)))
  | Keys | Iter => (gwith g (gitems g), OKeys (rev (map fst (erase_items (gitems g)))))
  | Values => (gwith g (gitems g), OVals (rev (map snd (erase_items (gitems g)))))
  | Items => (gwith g (gitems g), OItems (rev (erase_items (gitems g))))
  end.

Definition gempty (n : nat) : gcache := {| gcap := n; gitems := []; clock := 0 |}.
Definition gfinal (g : gcache) (ops : list op) : gcache := fold_left (fun g o => fst (gstep g o)) ops g.

(* ---- the thread-safe class: atomic sections under the lock ----
   Every method body runs under the lock, so a method call is one atomic action.
   A listing (keys/values/items/iter) is two kinds of action: ListBegin creates the
   iterator under the lock, ListNext advances it *outside* the lock.
   [Snapshot]: the iterator owns a copy made under the lock (code after the fix).
   [Lazy]: the iterator is a live reversed view over the OrderedDict, which CPython
   invalidates (RuntimeError) as soon as the key order changes (code before the fix). *)
Inductive listing_mode := Snapshot | Lazy.

Inductive iterst :=
| ISnap (rest : list (N * Z))          (* remaining items, most recent first *)
| ILazy (ver : nat) (consumed : nat).  (* version at creation, items already yielded *)

Record tstate := { tc : cache; tver : nat; titers : list (nat * iterst) }.

Inductive action :=
| Call (tid : nat) (o : op)
| ListBegin (tid : nat)
| ListNext (tid : nat).

Inductive tout :=
| TOut (o : out) | TStarted | TYield (kv : N * Z) | TStop | TRuntimeError | TNoIter.

Fixpoint iter_lookup (tid : nat) (l : list (nat * iterst)) : option iterst :=
  match l with
  | [] => None
  | (t, i) :: l' => if Nat.eqb tid t then Some i else iter_lookup tid l'
  end.

Fixpoint iter_set (tid : nat) (i : iterst) (l : list (nat * iterst)) : list (nat * iterst) :=
  match l with
  | [] => [(tid, i)]
  | (t, j) :: l' => if Nat.eqb tid t then (tid, i) :: l' else (t, j) :: iter_set tid i l'
  end.

Definition keys_of (c : cache) : list N := map fst (items c).
Definition keys_eqb (a b : list N) : bool := list_eqb N.eqb a b.

Definition tstep (m : listing_mode) (s : tstate) (a : action) : tstate * tout :=
  match a with
  | Call _ o =>
      let '(c', r) := step (tc s) o in
      let ver' := if keys_eqb (keys_of c') (keys_of (tc s)) then tver s else S (tver s) in
      ({| tc := c'; tver := ver'; titers := titers s |}, TOut r)
  | ListBegin tid =>
      let it := match m with
                | Snapshot => ISnap (rev (items (tc s)))
                | Lazy => ILazy (tver s) 0
                end in
      ({| tc := tc s; tver := tver s; titers := iter_set tid it (titers s) |}, TStarted)
  | ListNext tid =>
      match iter_lookup tid (titers s) with
      | None => (s, TNoIter)
      | Some (ISnap []) => (s, TStop)
      | Some (ISnap (kv :: rest)) =>
          ({| tc := tc s; tver := tver s; titers := iter_set tid (ISnap rest) (titers s) |}, TYield kv)
      | Some (ILazy ver n) =>
          if negb (Nat.eqb ver (tver s)) then (s, TRuntimeError)
          else match nth_error (rev (items (tc s))) n with
               | None => (s, TStop)
               | Some kv =>
                   ({| tc := tc s; tver := tver s; titers := iter_set tid (ILazy ver (S n)) (titers s) |}, TYield kv)
               end
      end
  end.

Definition tinit (n : nat) : tstate := {| tc := empty n; tver := 0; titers := [] |}.

Fixpoint trun (m : listing_mode) (s : tstate) (acts : list action) : list tout :=
  match acts with
  | [] => []
  | a :: acts' => let '(s', r) := tstep m s a in r :: trun m s' acts'
  end.

(* ---- decidable equality on observations, for the correspondence check ---- *)
Definition kv_eqb (a b : N * Z) : bool := N.eqb (fst a) (fst b) && Z.eqb (snd a) (snd b).

Definition out_eqb (a b : out) : bool :=
  match a, b with
  | OVal x, OVal y => Z.eqb x y
  | OKeyError, OKeyError | ODone, ODone | ONone, ONone => true
  | OBool x, OBool y => Bool.eqb x y
  | OLen x, OLen y => Nat.eqb x y
  | OKeys x, OKeys y => list_eqb N.eqb x y
  | OVals x, OVals y => list_eqb Z.eqb x y
  | OItems x, OItems y => list_eqb kv_eqb x y
  | _, _ => false
  end.

Definition obs_eqb (a b : list (out * list (N * Z))) : bool :=
  list_eqb (fun x y => out_eqb (fst x) (fst y) && list_eqb kv_eqb (snd x) (snd y)) a b.

Definition tout_eqb (a b : tout) : bool :=
  match a, b with
  | TOut x, TOut y => out_eqb x y
  | TStarted, TStarted | TStop, TStop | TRuntimeError, TRuntimeError | TNoIter, TNoIter => true
  | TYield x, TYield y => kv_eqb x y
  | _, _ => false
  end.

Record case := { c_cap : nat; c_ops : list op }.
Definition run_case (c : case) := run (empty (c_cap c)) (c_ops c).

Record tcase := { t_cap : nat; t_acts : list action }.
Definition run_tcase (m : listing_mode) (c : tcase) := trun m (tinit (t_cap c)) (t_acts c).
