(* C01 -- the hand-written synchronous / asynchronous copies of the mechanisms the property names, each
   transcribed as a pair of functions over a small state.  `*_old` is the asynchronous copy as found.
   Executable definitions only.  (The caching-loader pair is modelled in CachingLoader.v, C23.) *)
From Coq Require Import String Ascii.
From LiquidVerif Require Import Prelude PyPrims.

Definition plit (x : string) : str := map N_of_ascii (list_ascii_of_string x).

(* ------------------------------------------------------------------------------------------ *)
(* 1. RenderContext.get / get_async and Path.evaluate / evaluate_async                          *)
(* ------------------------------------------------------------------------------------------ *)
Inductive val :=
| VNil | VUndef
| VInt (z : Z)
| VStr (s : str)
| VList (l : list val)
| VDict (d : list (str * val)).

(* an evaluated path segment: a string, an int, or any other object (undefined, float, list ...) *)
Inductive seg := SStr (s : str) | SInt (z : Z) | SOther.

(* a path as parsed: names, indexes and nested (bracketed) paths *)
Inductive pseg := PName (s : str) | PIndex (z : Z) | PNested (p : list pseg).
Definition path := list pseg.

Definition to_seg (v : val) : seg :=
  match v with VStr s => SStr s | VInt z => SInt z | _ => SOther end.

(* get_item: KeyError / TypeError / IndexError are None (the caller turns them into undefined) *)
Definition get_item (obj : val) (s : seg) : option val :=
  match obj, s with
  | VDict d, SStr k => alookup k d
  | VList l, SInt z =>
      let n := Z.of_nat (length l) in
      let i := if (z <? 0)%Z then (z + n)%Z else z in
      if ((0 <=? i) && (i <? n))%Z then nth_error l (Z.to_nat i) else None
  | _, _ => None
  end.

Fixpoint walk (obj : val) (rest : list seg) : val :=
  match rest with
  | [] => obj
  | s :: r => match get_item obj s with Some o => walk o r | None => VUndef end
  end.

(* the asynchronous copy has its own loop (get_item_async); without __getitem_async__ objects it is the same text *)
Fixpoint walk_async (obj : val) (rest : list seg) : val :=
  match rest with
  | [] => obj
  | s :: r => match get_item obj s with Some o => walk_async o r | None => VUndef end
  end.

Definition scope := list (str * val).

Definition ctx_get (sc : scope) (segs : list seg) : res val :=
  match segs with
  | [] => Err EOtherForeign                         (* next(it) on an empty path: never built by the parser *)
  | SStr root :: rest =>
      match alookup root sc with Some obj => Ok (walk obj rest) | None => Ok VUndef end
  | _ :: _ => Ok VUndef                             (* `if not isinstance(root, str)`: undefined *)
  end.

(* as found: `assert isinstance(root, str)` *)
Definition ctx_get_async_old (sc : scope) (segs : list seg) : res val :=
  match segs with
  | [] => Err EOtherForeign
  | SStr root :: rest =>
      match alookup root sc with Some obj => Ok (walk_async obj rest) | None => Ok VUndef end
  | _ :: _ => Err EAssertionError
  end.

(* repaired: the same test as the synchronous copy *)
Definition ctx_get_async (sc : scope) (segs : list seg) : res val :=
  match segs with
  | [] => Err EOtherForeign
  | SStr root :: rest =>
      match alookup root sc with Some obj => Ok (walk_async obj rest) | None => Ok VUndef end
  | _ :: _ => Ok VUndef
  end.

(* Path.evaluate: nested paths are evaluated first (left to right), then context.get *)
Section PathEval.
  Variable getter : scope -> list seg -> res val.

  Fixpoint eval_path (fuel : nat) (sc : scope) (p : path) : res val :=
    match fuel with
    | O => OutOfFuel
    | S f =>
        let fix segs (l : list pseg) : res (list seg) :=
          match l with
          | [] => Ok []
          | PName s :: r => do rs <- segs r; Ok (SStr s :: rs)
          | PIndex z :: r => do rs <- segs r; Ok (SInt z :: rs)
          | PNested q :: r =>
              match eval_path f sc q with
              | Ok v => do rs <- segs r; Ok (to_seg v :: rs)
              | Err e => Err e
              | OutOfFuel => OutOfFuel
              end
          end in
        do ss <- segs p; getter sc ss
    end.
End PathEval.

Definition eval_path_sync := eval_path ctx_get.
Definition eval_path_async := eval_path ctx_get_async.
Definition eval_path_async_old := eval_path ctx_get_async_old.

Fixpoint pseg_size (s : pseg) : nat :=
  match s with
  | PNested p => S (fold_right (fun x acc => pseg_size x + acc) 0 p)
  | _ => 1
  end.
Definition path_size (p : path) : nat := S (fold_right (fun x acc => pseg_size x + acc) 0 p).

(* every root segment (of the path and of every nested path) is a name: what the guard of the partial theorem says *)
Fixpoint roots_named (fuel : nat) (p : path) : bool :=
  match fuel with
  | O => false
  | S f =>
      match p with
      | PName _ :: _ => forallb (fun s => match s with PNested q => roots_named f q | _ => true end) p
      | _ => false
      end
  end.

(* output statement: str() of the value as Liquid prints it (scalars only; containers are not compared) *)
Definition show (v : val) : option str :=
  match v with
  | VNil | VUndef => Some []
  | VInt z => Some (Z_to_str z)
  | VStr s => Some s
  | _ => None
  end.

Inductive obs := OText (s : str) | OExn (e : exn) | OSkip.
Definition obs_of (r : res val) : obs :=
  match r with
  | Ok v => match show v with Some s => OText s | None => OSkip end
  | Err e => OExn e
  | OutOfFuel => OExn ERecursionError
  end.
Definition obs_eqb (a b : obs) : bool :=
  match a, b with
  | OText x, OText y => str_eqb x y
  | OExn x, OExn y => exn_eqb x y
  | OSkip, _ | _, OSkip => true
  | _, _ => false
  end.

Record pathcase := { pc_scope : scope; pc_path : path }.
Definition run_path (c : pathcase) : obs * obs :=
  let fuel := path_size (pc_path c) in
  (obs_of (eval_path_sync fuel (pc_scope c) (pc_path c)), obs_of (eval_path_async fuel (pc_scope c) (pc_path c))).
Definition run_path_old (c : pathcase) : obs * obs :=
  let fuel := path_size (pc_path c) in
  (obs_of (eval_path_sync fuel (pc_scope c) (pc_path c)), obs_of (eval_path_async_old fuel (pc_scope c) (pc_path c))).
Definition obs2_eqb (a b : obs * obs) : bool := obs_eqb (fst a) (fst b) && obs_eqb (snd a) (snd b).

(* ------------------------------------------------------------------------------------------ *)
(* 2. IfNode.render_to_output / render_to_output_async                                         *)
(*    A condition may have side effects (a drop that counts its evaluations): its value is a   *)
(*    function of how many condition evaluations the render has performed so far.              *)
(* ------------------------------------------------------------------------------------------ *)
Definition cond := nat -> bool.

Record ifnode := { i_cond : cond; i_then : N; i_alts : list (cond * N); i_else : option N }.

(* rendered block identifiers, and the number of evaluations performed *)
Definition ifres := (list N * nat)%type.

Fixpoint alts_sync (n : nat) (alts : list (cond * N)) (dflt : option N) : ifres :=
  match alts with
  | [] => (match dflt with Some b => [b] | None => [] end, n)
  | (c, b) :: r => if c n then ([b], S n) else alts_sync (S n) r dflt
  end.

Definition if_sync (n : nat) (node : ifnode) : ifres :=
  if i_cond node n then ([i_then node], S n) else alts_sync (S n) (i_alts node) (i_else node).

(* as found: the taken branch is rendered through ConditionalBlockNode.render_async, which evaluates the condition again
   and renders nothing when it is now false *)
Fixpoint alts_async_old (n : nat) (alts : list (cond * N)) (dflt : option N) : ifres :=
  match alts with
  | [] => (match dflt with Some b => [b] | None => [] end, n)
  | (c, b) :: r =>
      if c n then (if c (S n) then [b] else [], S (S n))
      else alts_async_old (S n) r dflt
  end.

Definition if_async_old (n : nat) (node : ifnode) : ifres :=
  if i_cond node n then ([i_then node], S n) else alts_async_old (S n) (i_alts node) (i_else node).

(* repaired: alternative.block.render_async *)
Fixpoint alts_async (n : nat) (alts : list (cond * N)) (dflt : option N) : ifres :=
  match alts with
  | [] => (match dflt with Some b => [b] | None => [] end, n)
  | (c, b) :: r => if c n then ([b], S n) else alts_async (S n) r dflt
  end.

Definition if_async (n : nat) (node : ifnode) : ifres :=
  if i_cond node n then ([i_then node], S n) else alts_async (S n) (i_alts node) (i_else node).

Definition pure_cond (c : cond) : Prop := forall n m, c n = c m.

(* conditions of the correspondence run: the k-th evaluation of the render yields the k-th element, then false *)
Definition seq_cond (l : list bool) : cond := fun n => nth n l false.
(* a drop of its own: its i-th evaluation yields the i-th element; base = evaluations of OTHER conditions are not counted.
   The harness gives every condition its own script and reports the global order, so one global script suffices. *)

Record ifcase := { ic_script : list bool;            (* value of the k-th condition evaluation of the render *)
                   ic_nalts : nat; ic_else : bool }.
Definition mk_ifnode (c : ifcase) : ifnode :=
  {| i_cond := seq_cond (ic_script c); i_then := 0%N;
     i_alts := map (fun k => (seq_cond (ic_script c), N.of_nat (S k))) (seq 0 (ic_nalts c));
     i_else := if ic_else c then Some 99%N else None |}.
Definition run_if (c : ifcase) : ifres * ifres := (if_sync 0 (mk_ifnode c), if_async 0 (mk_ifnode c)).
Definition run_if_old (c : ifcase) : ifres * ifres := (if_sync 0 (mk_ifnode c), if_async_old 0 (mk_ifnode c)).
Definition ifres_eqb (a b : ifres) : bool := list_eqb N.eqb (fst a) (fst b) && Nat.eqb (snd a) (snd b).
Definition ifres2_eqb (a b : ifres * ifres) : bool := ifres_eqb (fst a) (fst b) && ifres_eqb (snd a) (snd b).

(* ------------------------------------------------------------------------------------------ *)
(* 3. FilteredExpression / TernaryFilteredExpression evaluate / evaluate_async                  *)
(*    The asynchronous copy calls filter_async where a filter has one.                          *)
(* ------------------------------------------------------------------------------------------ *)
Record filt := { f_sync : val -> res val; f_async : option (val -> res val) }.

Fixpoint apply_sync (fs : list filt) (v : val) : res val :=
  match fs with [] => Ok v | f :: r => do x <- f_sync f v; apply_sync r x end.
Fixpoint apply_async (fs : list filt) (v : val) : res val :=
  match fs with
  | [] => Ok v
  | f :: r => do x <- (match f_async f with Some g => g v | None => f_sync f v end); apply_async r x
  end.

Definition filtered_sync (left : res val) (fs : list filt) : res val := do v <- left; apply_sync fs v.
Definition filtered_async (left : res val) (fs : list filt) : res val := do v <- left; apply_async fs v.

Definition truthy (v : val) : bool := match v with VNil | VUndef => false | _ => true end.
(* false is not modelled as a value: conditions are given by their truth *)

Definition ternary_sync (c : res bool) (left : res val) (lfs : list filt) (alt : option (res val)) (fs tail : list filt) : res val :=
  do b <- c;
  do rv <- (if b then filtered_sync left lfs
            else match alt with Some a => do v <- a; apply_sync fs v | None => Ok VNil end);
  apply_sync tail rv.
Definition ternary_async (c : res bool) (left : res val) (lfs : list filt) (alt : option (res val)) (fs tail : list filt) : res val :=
  do b <- c;
  do rv <- (if b then filtered_async left lfs
            else match alt with Some a => do v <- a; apply_async fs v | None => Ok VNil end);
  apply_async tail rv.

(* ------------------------------------------------------------------------------------------ *)
(* 4. BaseLoader.load / load_async: the name of the loaded template, and what the include tag   *)
(*    binds its `with` value to when no alias is given (template.name up to the first dot).     *)
(* ------------------------------------------------------------------------------------------ *)
Definition slash : N := 47%N.
Definition dot : N := 46%N.

(* pathlib.Path(full_name).name for the names of the run: the text after the last slash *)
Fixpoint basename_acc (s acc : str) : str :=
  match s with
  | [] => rev acc
  | c :: r => if N.eqb c slash then basename_acc r [] else basename_acc r (c :: acc)
  end.
Definition basename (s : str) : str := basename_acc s [].

Fixpoint before_dot (s : str) : str :=
  match s with [] => [] | c :: r => if N.eqb c dot then [] else c :: before_dot r end.

Definition load_name_sync (name full_name : str) : str := basename full_name.
Definition load_name_async_old (name full_name : str) : str := name.
Definition load_name_async (name full_name : str) : str := basename full_name.

Definition include_key (alias : option str) (template_name : str) : str :=
  match alias with Some a => a | None => before_dot template_name end.

Record loadcase := { lc_name : str; lc_full : str; lc_alias : option str }.
(* observed: template name through each API, and the variable an include-with binds through each API *)
Definition run_load (c : loadcase) : (str * str) * (str * str) :=
  let s := load_name_sync (lc_name c) (lc_full c) in
  let a := load_name_async (lc_name c) (lc_full c) in
  ((s, include_key (lc_alias c) s), (a, include_key (lc_alias c) a)).
Definition run_load_old (c : loadcase) : (str * str) * (str * str) :=
  let s := load_name_sync (lc_name c) (lc_full c) in
  let a := load_name_async_old (lc_name c) (lc_full c) in
  ((s, include_key (lc_alias c) s), (a, include_key (lc_alias c) a)).
Definition str2_eqb (a b : str * str) : bool := str_eqb (fst a) (fst b) && str_eqb (snd a) (snd b).
Definition load_eqb (a b : (str * str) * (str * str)) : bool := str2_eqb (fst a) (fst b) && str2_eqb (snd a) (snd b).

Fixpoint has_slash (s : str) : bool :=
  match s with [] => false | c :: r => N.eqb c slash || has_slash r end.
