(* Model of Liquid conditions: truthiness, ==, <, contains (logical.py, primitive.py), the Pratt parser of
   boolean expressions (parse_boolean_primitive / parse_infix_expression / parse_grouped_expression /
   LogicalNotExpression.parse), their evaluation, and branch selection in if / unless / case / ternary.
   Executable definitions only. *)
From Coq Require Import String Ascii.
From LiquidVerif Require Import Prelude PyPrims.

Definition lit (x : string) : str := map N_of_ascii (list_ascii_of_string x).

Inductive val :=
| VNil | VUndef | VBool (b : bool) | VInt (z : Z)
| VDec (m : Z) (e : nat)                  (* the number m * 10^-e (floats and decimals with a short expansion) *)
| VStr (s : str)
| VList (l : list val) | VDict (l : list (str * val))
| VRange (a b : Z)                        (* range(a, b+1), empty when a > b *)
| VEmpty | VBlank.

(* ---- truthiness: only false, nil and undefined are falsy ---- *)
Definition truthy (v : val) : bool :=
  match v with VBool false | VNil | VUndef => false | _ => true end.

(* ---- Python == on this universe ---- *)
Definition pow10 (e : nat) : Z := Z.pow 10 (Z.of_nat e).
Definition num_eqb (m1 : Z) (e1 : nat) (m2 : Z) (e2 : nat) : bool :=
  Z.eqb (m1 * pow10 e2) (m2 * pow10 e1).
Definition num_ltb (m1 : Z) (e1 : nat) (m2 : Z) (e2 : nat) : bool :=
  Z.ltb (m1 * pow10 e2) (m2 * pow10 e1).

Definition is_space (c : N) : bool := ((c =? 32) || (9 <=? c) && (c <=? 13))%N.

Definition range_len (a b : Z) : Z := Z.max 0 (b - a + 1).

Fixpoint py_eq (a b : val) {struct a} : bool :=
  match a, b with
  | VNil, VNil | VNil, VUndef | VUndef, VNil | VUndef, VUndef => true
  | VBool x, VBool y => Bool.eqb x y
  | VBool x, VInt y | VInt y, VBool x => Z.eqb (if x then 1 else 0) y          (* True == 1 in Python *)
  | VBool x, VDec m e | VDec m e, VBool x => num_eqb (if x then 1 else 0) 0 m e
  | VInt x, VInt y => Z.eqb x y
  | VInt x, VDec m e => num_eqb x 0 m e
  | VDec m e, VInt x => num_eqb m e x 0
  | VDec m e, VDec m' e' => num_eqb m e m' e'
  | VStr x, VStr y => str_eqb x y
  | VList x, VList y =>
      (fix go (x y : list val) {struct x} : bool :=
         match x, y with
         | [], [] => true
         | a :: x', b :: y' => py_eq a b && go x' y'
         | _, _ => false
         end) x y
  | VDict x, VDict y =>
      (fix go (x y : list (str * val)) {struct x} : bool :=
         match x, y with
         | [], [] => true
         | (k, a) :: x', (k', b) :: y' => str_eqb k k' && py_eq a b && go x' y'
         | _, _ => false
         end) x y
  | VRange a b, VRange c d =>
      (Z.eqb (range_len a b) 0 && Z.eqb (range_len c d) 0) || (Z.eqb a c && Z.eqb b d)
  | VEmpty, VEmpty | VBlank, VBlank => true
  | _, _ => false
  end.

Definition is_empty_coll (v : val) : bool :=
  match v with VStr [] | VList [] | VDict [] => true | _ => false end.

(* Empty.__eq__ / Blank.__eq__ *)
Definition empty_eq (other : val) : bool := match other with VEmpty => true | _ => is_empty_coll other end.
Definition blank_eq (other : val) : bool :=
  match other with
  | VBlank => true
  | VStr s => forallb is_space s
  | _ => is_empty_coll other
  end.

(* logical._eq *)
Definition liq_eq (l r : val) : bool :=
  let '(l, r) := match r with VEmpty | VBlank => (r, l) | _ => (l, r) end in
  let '(l, r) := match r with VBool _ => (r, l) | _ => (l, r) end in
  match l with
  | VBool x => match r with VBool y => Bool.eqb x y | _ => false end
  | VEmpty => empty_eq r
  | VBlank => blank_eq r
  | _ => py_eq l r
  end.

(* logical._lt *)
Fixpoint str_ltb (a b : str) : bool :=
  match a, b with
  | [], [] => false
  | [], _ :: _ => true
  | _ :: _, [] => false
  | x :: a', y :: b' => if (x <? y)%N then true else if (y <? x)%N then false else str_ltb a' b'
  end.

Definition liq_lt (l r : val) : res bool :=
  match l, r with
  | VStr a, VStr b => Ok (str_ltb a b)
  | VBool _, _ | _, VBool _ => Ok false
  | VInt a, VInt b => Ok (Z.ltb a b)
  | VInt a, VDec m e => Ok (num_ltb a 0 m e)
  | VDec m e, VInt b => Ok (num_ltb m e b 0)
  | VDec m e, VDec m' e' => Ok (num_ltb m e m' e')
  | _, _ => Err EType
  end.

(* str(float) / str(Decimal) for a short decimal m * 10^-e, e >= 1 *)
Fixpoint pad_zeros (n : nat) (s : str) : str :=
  match n with O => s | S n' => if Nat.ltb (length s) n then pad_zeros n' (48%N :: s) else s end.
Definition dec_to_str (m : Z) (e : nat) : str :=
  let p := pow10 e in
  let a := Z.abs m in
  (if (m <? 0)%Z then [45%N] else []) ++ Z_to_str (a / p) ++ [46%N] ++ pad_zeros e (Z_to_str (a mod p)).

(* str(right) for the operand shapes used with `contains` on strings *)
Definition to_s (v : val) : option str :=
  match v with
  | VStr s => Some s
  | VInt z => Some (Z_to_str z)
  | VDec m e => Some (dec_to_str m e)
  | VBool b => Some (if b then lit "True" else lit "False")
  | VEmpty | VBlank => Some []                          (* Empty.__str__ / Blank.__str__ *)
  | _ => None
  end.

(* item == right as Python's `in` evaluates it (reflected __eq__ of empty / blank) *)
Definition member_eq (item r : val) : bool :=
  match r with VEmpty => empty_eq item | VBlank => blank_eq item | _ => py_eq item r end.

Fixpoint is_prefix (p s : str) : bool :=
  match p, s with
  | [], _ => true
  | a :: p', b :: s' => N.eqb a b && is_prefix p' s'
  | _ :: _, [] => false
  end.
Fixpoint substr (p s : str) : bool :=
  is_prefix p s || match s with [] => false | _ :: s' => substr p s' end.

Definition in_range (v : val) (a b : Z) : bool :=
  match v with
  | VInt z => (a <=? z)%Z && (z <=? b)%Z
  | VBool x => let z := (if x then 1 else 0)%Z in (a <=? z)%Z && (z <=? b)%Z
  | VDec m e => existsb (fun z => num_eqb z 0 m e) (zrange_incl a b)
  | _ => false
  end.

(* logical._contains *)
Definition liq_contains (l r : val) : res bool :=
  if negb (truthy l) || negb (truthy r) then Ok false
  else match l with
       | VStr s => match to_s r with Some p => Ok (substr p s) | None => Err EOtherForeign end
       | VList xs => Ok (existsb (fun x => member_eq x r) xs)
       | VDict d => match r with
                    | VStr k => Ok (existsb (fun p => str_eqb (fst p) k) d)
                    | VList _ | VDict _ | VEmpty | VBlank => Ok false   (* an unhashable right operand is not a key (before the C02 repair the bare TypeError of `unhashable in dict` escaped) *)
                    | _ => Ok false
                    end
       | VRange a b => Ok (in_range r a b)
       | _ => Err EType
       end.

(* ---- expressions ---- *)
Inductive cmpop := OEq | ONe | OLt | OGt | OLe | OGe | OContains.

Inductive bexpr :=
| BLit (v : val) | BVar (x : str)
| BNot (e : bexpr) | BAnd (a b : bexpr) | BOr (a b : bexpr)
| BCmp (op : cmpop) (a b : bexpr).

Definition envt := list (str * val).

Definition of_bool (b : bool) : val := VBool b.

Fixpoint eval (env : envt) (e : bexpr) : res val :=
  match e with
  | BLit v => Ok v
  | BVar x => Ok (match alookup x env with Some v => v | None => VUndef end)
  | BNot a => do v <- eval env a; Ok (VBool (negb (truthy v)))
  | BAnd a b => do v <- eval env a;
                if truthy v then do w <- eval env b; Ok (VBool (truthy w)) else Ok (VBool false)
  | BOr a b => do v <- eval env a;
               if truthy v then Ok (VBool true) else do w <- eval env b; Ok (VBool (truthy w))
  | BCmp op a b =>
      do l <- eval env a; do r <- eval env b;
      match op with
      | OEq => Ok (VBool (liq_eq l r))
      | ONe => Ok (VBool (negb (liq_eq l r)))
      | OLt => do x <- liq_lt l r; Ok (VBool x)
      | OGt => do x <- liq_lt r l; Ok (VBool x)
      | OLe => if liq_eq l r then Ok (VBool true) else do x <- liq_lt l r; Ok (VBool x)
      | OGe => if liq_eq l r then Ok (VBool true) else do x <- liq_lt r l; Ok (VBool x)
      | OContains => do x <- liq_contains l r; Ok (VBool x)
      end
  end.

Definition eval_cond (env : envt) (e : bexpr) : res bool := do v <- eval env e; Ok (truthy v).

(* ---- tokens and the Pratt parser ---- *)
Inductive tok :=
| TLit (v : val)            (* true false nil integers floats strings ranges empty blank *)
| TVar (x : str)
| TLParen | TRParen | TNot | TAnd | TOr
| TOp (op : cmpop)
| TJunk.                    (* any other token: comma, colon, ... *)

Definition prec (t : tok) : nat :=
  match t with
  | TOp OContains => 6
  | TOp _ => 5
  | TAnd | TOr => 2
  | TNot => 7
  | _ => 1                  (* TOKEN_RPAREN and every unlisted kind: PRECEDENCE_LOWEST *)
  end.

Definition mk_infix (t : tok) (l r : bexpr) : option bexpr :=
  match t with
  | TAnd => Some (BAnd l r)
  | TOr => Some (BOr l r)
  | TOp op => Some (BCmp op l r)
  | _ => None
  end.

Record pflags := { allow_not : bool; allow_parens : bool }.

(* the prefix part of parse_boolean_primitive: literals, paths, a parenthesised group, `not`;
   [rec p ts] parses a whole expression at precedence p *)
Definition primary (rec : nat -> list tok -> res (bexpr * list tok)) (fl : pflags) (ts : list tok)
  : res (bexpr * list tok) :=
  match ts with
  | TLit v :: r => Ok (BLit v, r)
  | TVar v :: r => Ok (BVar v, r)
  | TLParen :: r =>
      if allow_parens fl then
        do y <- rec 1 r;
        match snd y with
        | TRParen :: r' => Ok (fst y, r')
        | _ => Err ESyntax
        end
      else Err ESyntax
  | TNot :: r =>
      if allow_not fl then do y <- rec 1 r; Ok (BNot (fst y), snd y)
      else Err ESyntax
  | _ => Err ESyntax
  end.

(* the `while True` loop of parse_boolean_primitive *)
Fixpoint ploop (rec : nat -> list tok -> res (bexpr * list tok)) (p : nat) (g : nat) (left : bexpr) (ts : list tok)
  {struct g} : res (bexpr * list tok) :=
  match g with
  | O => OutOfFuel
  | S g' =>
      match ts with
      | [] => Ok (left, [])
      | t :: r =>
          if Nat.ltb (prec t) p then Ok (left, ts)
          else match mk_infix t left left with
               | None => Ok (left, ts)
               | Some _ =>
                   do y <- rec (prec t) r;
                   match mk_infix t left (fst y) with
                   | Some e => ploop rec p g' e (snd y)
                   | None => Err ESyntax
                   end
               end
      end
  end.

(* parse_boolean_primitive env tokens precedence *)
Fixpoint pp (fl : pflags) (fuel : nat) (p : nat) (ts : list tok) {struct fuel} : res (bexpr * list tok) :=
  match fuel with
  | O => OutOfFuel
  | S f => do x <- primary (pp fl f) fl ts; ploop (pp fl f) p f (fst x) (snd x)
  end.

(* BooleanExpression.parse: the whole token list must be consumed *)
Definition parse (fl : pflags) (ts : list tok) : res bexpr :=
  do x <- pp fl (4 * length ts + 4) 1 ts;
  match snd x with [] => Ok (fst x) | _ => Err ESyntax end.

(* ---- conditional constructs: which branch is rendered ---- *)
(* if c0 / elsif c1 ... / else : index of the chosen arm, or the else branch *)
Inductive choice := Arm (i : nat) | Else | Nothing.

Fixpoint choose_if (env : envt) (conds : list bexpr) (i : nat) (has_else : bool) : res choice :=
  match conds with
  | [] => Ok (if has_else then Else else Nothing)
  | c :: r => do b <- eval_cond env c; if b then Ok (Arm i) else choose_if env r (S i) has_else
  end.

(* unless c0 / elsif c1 ... / else *)
Definition choose_unless (env : envt) (c0 : bexpr) (elsifs : list bexpr) (has_else : bool) : res choice :=
  do b <- eval_cond env c0;
  if b then choose_if env elsifs 1 has_else else Ok (Arm 0).

(* case v / when a, b / when c / else : every `when` block is rendered once per matching value; an else block
   is rendered iff no earlier `when` matched *)
Inductive caseblk := CWhen (vals : list bexpr) | CElse.

Fixpoint count_matches (env : envt) (v : val) (vals : list bexpr) : res nat :=
  match vals with
  | [] => Ok O
  | e :: r => do w <- eval env e; do n <- count_matches env v r; Ok ((if liq_eq v w then 1 else 0) + n)
  end.

(* the number of times each block is rendered, in order *)
Fixpoint case_renders (env : envt) (v : val) (blocks : list caseblk) (default : bool) : res (list nat) :=
  match blocks with
  | [] => Ok []
  | CWhen vals :: r =>
      do n <- count_matches env v vals;
      do rest <- case_renders env v r (if Nat.eqb n 0 then default else false);
      Ok (n :: rest)
  | CElse :: r =>
      do rest <- case_renders env v r default;
      Ok ((if default then 1 else 0) :: rest)
  end.

(* ---- correspondence ---- *)
Inductive obs := OBranch (s : str) | OErr (e : exn).

Definition obs_eqb (a b : obs) : bool :=
  match a, b with OBranch x, OBranch y => str_eqb x y | OErr x, OErr y => exn_eqb x y | _, _ => false end.

Definition flags_on : pflags := {| allow_not := true; allow_parens := true |}.

Definition to_obs {A} (r : res A) (f : A -> str) : obs :=
  match r with Ok a => OBranch (f a) | Err e => OErr e | OutOfFuel => OErr EOtherForeign end.

Definition tf (b : bool) : str := if b then [84%N] else [70%N].   (* "T" / "F" *)

Record ccase := { cc_toks : list tok; cc_env : envt }.

(* {% if <toks> %}T{% else %}F{% endif %} *)
Definition run_if (c : ccase) : obs :=
  to_obs (do e <- parse flags_on (cc_toks c); eval_cond (cc_env c) e) tf.

Definition choice_str (c : choice) : str :=
  match c with Arm i => Z_to_str (Z.of_nat i) | Else => [69%N] | Nothing => [] end.

Record chaincase := { ch_unless : bool; ch_conds : list (list tok); ch_else : bool; ch_env : envt }.

Fixpoint parse_all (l : list (list tok)) : res (list bexpr) :=
  match l with [] => Ok [] | t :: r => do e <- parse flags_on t; do es <- parse_all r; Ok (e :: es) end.

Definition run_chain (c : chaincase) : obs :=
  to_obs (do es <- parse_all (ch_conds c);
          match es with
          | [] => Err ESyntax
          | e0 :: r => if ch_unless c then choose_unless (ch_env c) e0 r (ch_else c)
                       else choose_if (ch_env c) es 0 (ch_else c)
          end) choice_str.

Record casecase := { cs_val : bexpr; cs_blocks : list caseblk; cs_env : envt }.

Fixpoint render_counts (i : nat) (l : list nat) : str :=
  match l with
  | [] => []
  | n :: r => concat_str (repeat (Z_to_str (Z.of_nat i)) n) ++ render_counts (S i) r
  end.

Definition run_case (c : casecase) : obs :=
  to_obs (do v <- eval (cs_env c) (cs_val c); case_renders (cs_env c) v (cs_blocks c) true) (render_counts 0).
