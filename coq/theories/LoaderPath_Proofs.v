(* Proofs about the loader name-resolution model (LoaderPath.v). *)
From LiquidVerif Require Import Prelude LoaderPath.

(* a component as pathlib keeps them: not empty, not ".", without a separator *)
Definition clean (x : str) : Prop := x <> [] /\ x <> [dot] /\ ~ In slash x.

(* ------------------------------------------------------------------ str.split('/') *)
Lemma split_slash_nonempty s : split_slash s <> [].
Proof.
  induction s as [|c r IH]; cbn; [discriminate|].
  destruct (N.eqb c slash); [discriminate|]. destruct (split_slash r); discriminate.
Qed.

Lemma split_slash_pieces s : forall x, In x (split_slash s) -> ~ In slash x.
Proof.
  induction s as [|c r IH]; cbn; intros x Hx.
  - destruct Hx as [<-|[]]. intros [].
  - destruct (N.eqb_spec c slash) as [->|Hc].
    + destruct Hx as [<-|Hx]; [intros []|auto].
    + destruct (split_slash r) as [|h t] eqn:E.
      * destruct Hx as [<-|[]]. intros [H|[]]. congruence.
      * destruct Hx as [<-|Hx].
        -- intros [H|H]; [congruence|]. apply (IH h); [left; reflexivity|exact H].
        -- apply IH. right; exact Hx.
Qed.

Lemma split_no_slash x : ~ In slash x -> split_slash x = [x].
Proof.
  induction x as [|c r IH]; cbn; intro H; [reflexivity|].
  destruct (N.eqb_spec c slash) as [->|Hc]; [exfalso; apply H; left; reflexivity|].
  rewrite IH; [reflexivity|]. intro H'. apply H. right; exact H'.
Qed.

Lemma split_app x s : ~ In slash x -> split_slash (x ++ slash :: s) = x :: split_slash s.
Proof.
  induction x as [|c r IH]; cbn; intro H.
  - reflexivity.
  - destruct (N.eqb_spec c slash) as [->|Hc]; [exfalso; apply H; left; reflexivity|].
    rewrite IH; [reflexivity|]. intro H'. apply H. right; exact H'.
Qed.

Lemma split_join l : l <> [] -> (forall x, In x l -> ~ In slash x) -> split_slash (join_slash l) = l.
Proof.
  induction l as [|x l IH]; intros Hne Hall; [congruence|].
  destruct l as [|y l].
  - cbn. apply split_no_slash. apply Hall. left; reflexivity.
  - change (join_slash (x :: y :: l)) with (x ++ slash :: join_slash (y :: l)).
    rewrite split_app by (apply Hall; left; reflexivity).
    f_equal. apply IH; [discriminate|]. intros z Hz. apply Hall. right; exact Hz.
Qed.

(* ------------------------------------------------------------------ parsing *)
Lemma keep_part_clean x : ~ In slash x -> keep_part x = true -> clean x.
Proof.
  unfold keep_part, clean. intros Hs H. apply andb_true_iff in H. destruct H as [H1 H2].
  repeat split; auto.
  - intros ->. discriminate.
  - intros ->. cbn in H2. discriminate.
Qed.

Lemma clean_keep x : clean x -> keep_part x = true.
Proof.
  intros (H1 & H2 & _). unfold keep_part. destruct x; [congruence|]. cbn [is_nil negb andb].
  destruct (str_eqb_spec (n :: x) [dot]); [congruence|reflexivity].
Qed.

Theorem parse_parts_clean s : Forall clean (p_parts (parse s)).
Proof.
  unfold parse. destruct (splitroot s) as [r rel]. cbn. apply Forall_forall. intros x Hx.
  apply filter_In in Hx. destruct Hx as [Hx Hk]. apply keep_part_clean; [|exact Hk].
  eapply split_slash_pieces; eauto.
Qed.

Lemma filter_all {A} (f : A -> bool) l : (forall x, In x l -> f x = true) -> filter f l = l.
Proof.
  induction l as [|a l IH]; cbn; intro H; [reflexivity|].
  rewrite (H a (or_introl eq_refl)). f_equal. apply IH. intros x Hx. apply H. right; exact Hx.
Qed.

Lemma starts_slash_join l : Forall clean l -> starts_slash (join_slash l) = false.
Proof.
  intros H. destruct l as [|x l]; [reflexivity|].
  inversion H as [|? ? (Hx1 & _ & Hx3) _]; subst.
  destruct x as [|c x]; [congruence|].
  assert (Hc : N.eqb c slash = false).
  { destruct (N.eqb_spec c slash) as [->|]; [|reflexivity]. exfalso. apply Hx3. left; reflexivity. }
  destruct l; cbn; exact Hc.
Qed.

Lemma splitroot_rel rel : starts_slash rel = false -> splitroot rel = (NoRoot, rel).
Proof. intro H. unfold splitroot. rewrite H. reflexivity. Qed.

Lemma splitroot_1 rel : starts_slash rel = false -> splitroot (slash :: rel) = (Root1, rel).
Proof.
  intro H. unfold splitroot. change (starts_slash (slash :: rel)) with true. cbn [tl]. rewrite H. reflexivity.
Qed.

Lemma splitroot_2 rel : starts_slash rel = false -> splitroot (slash :: slash :: rel) = (Root2, rel).
Proof.
  intro H. unfold splitroot. change (starts_slash (slash :: slash :: rel)) with true. cbn [tl].
  change (starts_slash (slash :: rel)) with true. cbn [tl]. rewrite H. reflexivity.
Qed.

(* str() followed by parsing gives the same path back: joinpath does not alter clean components *)
Theorem parse_render p : Forall clean (p_parts p) -> parse (render p) = p.
Proof.
  destruct p as [r l]. cbn [p_parts]. intro Hc.
  assert (Hf : filter keep_part (split_slash (join_slash l)) = l).
  { destruct l as [|x0 l0]; [reflexivity|]. rewrite split_join; [|discriminate|].
    - apply filter_all. intros x Hx. apply clean_keep. rewrite Forall_forall in Hc. auto.
    - intros x Hx. rewrite Forall_forall in Hc. apply (Hc x Hx). }
  pose proof (starts_slash_join l Hc) as Hs.
  destruct r; unfold render; cbn [p_root p_parts].
  - destruct l as [|x l]; [reflexivity|].
    unfold parse. rewrite splitroot_rel by exact Hs. rewrite Hf. reflexivity.
  - unfold parse. change ([slash] ++ join_slash l) with (slash :: join_slash l).
    rewrite splitroot_1 by exact Hs. rewrite Hf. reflexivity.
  - unfold parse. change ([slash; slash] ++ join_slash l) with (slash :: slash :: join_slash l).
    rewrite splitroot_2 by exact Hs. rewrite Hf. reflexivity.
Qed.

(* ------------------------------------------------------------------ name, suffix, with_suffix *)
Lemma last_dot_split_app s a b : last_dot_split s = Some (a, b) -> s = a ++ b.
Proof.
  revert a b. induction s as [|c r IH]; cbn; intros a b H; [discriminate|].
  destruct (last_dot_split r) as [[a' b']|].
  - inversion H; subst. cbn. f_equal. apply IH. reflexivity.
  - destruct (N.eqb c dot); inversion H; subst. reflexivity.
Qed.

(* a name without a suffix is its own stem *)
Lemma stem_nosuffix nm : is_nil (suffix nm) = true -> stem nm = nm.
Proof.
  unfold suffix, stem. destruct (last_dot_split nm) as [[a b]|]; [|reflexivity].
  destruct (is_nil a || is_nil (tl b)) eqn:E; [reflexivity|].
  apply orb_false_iff in E. destruct E as [_ E]. destruct b as [|x b]; [discriminate|discriminate].
Qed.

(* a valid default extension: not empty, no separator (the loaders' constructors refuse anything else);
   the package loader also accepts the empty extension *)
Definition ext_ok (e : str) : Prop := e <> [] /\ ~ In slash e.

Lemma in_removelast {A} (x : A) l : In x (removelast l) -> In x l.
Proof.
  induction l as [|a l IH]; cbn; [tauto|]. destruct l; [intros []|].
  intros [H|H]; [left; exact H|right; apply IH; exact H].
Qed.

Lemma name_in p : name p <> [] -> In (name p) (p_parts p).
Proof.
  unfold name. destruct (p_parts p) as [|x l] eqn:E; [cbn; congruence|].
  intros _. rewrite (app_removelast_last [] (l := x :: l)) at 2 by discriminate.
  apply in_or_app. right. left. reflexivity.
Qed.

Lemma suffixed_clean nm e : clean nm -> ext_ok e \/ e = [] -> clean (nm ++ e).
Proof.
  intros (H1 & H2 & H3) He. destruct He as [[He1 He2]| ->]; [|rewrite app_nil_r; repeat split; auto].
  repeat split.
  - destruct nm; [congruence|discriminate].
  - destruct nm as [|c [|d r]]; [congruence| |discriminate]. destruct e; [congruence|discriminate].
  - intro Hin. apply in_app_or in Hin. tauto.
Qed.

Lemma suffixed_not_dotdot nm e : clean nm -> nm <> dotdot -> ext_ok e \/ e = [] -> nm ++ e <> dotdot.
Proof.
  intros (H1 & H2 & _) Hd He. destruct He as [[He1 _]| ->]; [|rewrite app_nil_r; exact Hd].
  destruct nm as [|c [|d r]]; [congruence| |].
  - destruct e as [|x [|y e]]; [congruence| |discriminate]. cbn. unfold dotdot. intro E. inversion E; subst. congruence.
  - destruct e; [congruence|]. cbn. unfold dotdot. intro E. inversion E. destruct r; discriminate.
Qed.

(* with_suffix on a name that has no suffix: the last component gets the extension appended *)
Lemma with_suffix_nosuffix e p p' :
  is_nil (suffix (name p)) = true -> with_suffix e p = Ok p' ->
  name p <> [] /\ p_root p' = p_root p /\ p_parts p' = removelast (p_parts p) ++ [name p ++ e].
Proof.
  intro Hs. unfold with_suffix. destruct (is_nil (name p)) eqn:En; [discriminate|].
  intro H. inversion H; subst; clear H. cbn [p_root p_parts]. rewrite (stem_nosuffix _ Hs).
  repeat split. intro E. rewrite E in En. discriminate.
Qed.

Lemma with_suffix_err e p x : with_suffix e p = Err x -> name p = [].
Proof.
  unfold with_suffix. destruct (name p); [reflexivity|discriminate].
Qed.

Lemma has_pardir_false p : has_pardir p = false -> ~ In dotdot (p_parts p).
Proof.
  unfold has_pardir. intros H Hin.
  assert (E : existsb (str_eqb dotdot) (p_parts p) = true).
  { apply existsb_exists. exists dotdot. split; [exact Hin|apply str_eqb_refl]. }
  congruence.
Qed.

Lemma name_nonempty_parts p : is_nil (name p) = false -> p_parts p <> [].
Proof. unfold name. destruct (p_parts p); [cbn; discriminate|discriminate]. Qed.

Lemma with_suffix_clean e p p' :
  ext_ok e \/ e = [] -> Forall clean (p_parts p) -> is_nil (suffix (name p)) = true -> with_suffix e p = Ok p' ->
  p_root p' = p_root p /\ Forall clean (p_parts p') /\ p_parts p' <> [] /\
  (~ In dotdot (p_parts p) -> ~ In dotdot (p_parts p')).
Proof.
  intros He Hc Hs Hw. destruct (with_suffix_nosuffix _ _ _ Hs Hw) as (Hn & Hr & Hp).
  rewrite Hp. rewrite Forall_forall in Hc. pose proof (Hc _ (name_in p Hn)) as Hcn.
  split; [exact Hr|]. split; [|split].
  - apply Forall_app. split.
    + apply Forall_forall. intros x Hx. apply Hc. apply in_removelast. exact Hx.
    + constructor; [|constructor]. apply suffixed_clean; auto.
  - intro E. apply app_eq_nil in E. destruct E as [_ E]. discriminate.
  - intros Hnd Hin. apply in_app_or in Hin. destruct Hin as [Hin|[Hin|[]]].
    + apply Hnd. apply in_removelast. exact Hin.
    + revert Hin. apply suffixed_not_dotdot; auto.
      intro E. apply Hnd. rewrite <- E. apply name_in. exact Hn.
Qed.

(* ------------------------------------------------------------------ accepted names *)
(* what every name accepted by a loader satisfies: relative, no "..", at least one component, all clean *)
Definition accepted (p : ppath) : Prop :=
  p_root p = NoRoot /\ ~ In dotdot (p_parts p) /\ p_parts p <> [] /\ Forall clean (p_parts p).

Definition cfg_ok (c : fscfg) : Prop := match f_ext c with Some e => ext_ok e | None => True end.

Lemma not_absolute p : is_absolute p = false -> p_root p = NoRoot.
Proof. unfold is_absolute. destruct (p_root p); [reflexivity|discriminate|discriminate]. Qed.

Theorem fs_resolve_name_accepts c s p : cfg_ok c -> fs_resolve_name c s = Ok p -> accepted p.
Proof.
  intros Hc. unfold fs_resolve_name. destruct (is_nil (name (parse s))) eqn:En; [discriminate|].
  pose proof (parse_parts_clean s) as Hcl.
  assert (K : forall p1, Forall clean (p_parts p1) -> p_parts p1 <> [] ->
                         (if has_pardir p1 || is_absolute p1 then Err ENotFound else Ok p1) = Ok p -> accepted p).
  { intros p1 Hcl1 Hne H. destruct (has_pardir p1) eqn:Hp; [discriminate|].
    destruct (is_absolute p1) eqn:Ha; [discriminate|]. inversion H; subst.
    repeat split; auto; [apply not_absolute; exact Ha|apply has_pardir_false; exact Hp]. }
  unfold cfg_ok in Hc. destruct (f_ext c) as [e|].
  - destruct (is_nil (suffix (name (parse s)))) eqn:Es.
    + destruct (with_suffix e (parse s)) as [p1| |] eqn:Ew; cbn [bind]; try discriminate.
      destruct (with_suffix_clean _ _ _ (or_introl Hc) Hcl Es Ew) as (H1 & H2 & H3 & _). apply K; auto.
    + cbn [bind]. apply K; auto. apply name_nonempty_parts; exact En.
  - cbn [bind]. apply K; auto. apply name_nonempty_parts; exact En.
Qed.

(* every refusal before the search is TemplateNotFoundError *)
Theorem fs_resolve_name_err c s e : fs_resolve_name c s = Err e -> e = ENotFound.
Proof.
  unfold fs_resolve_name. destruct (is_nil (name (parse s))) eqn:En; [intro H; inversion H; reflexivity|].
  assert (K : forall p1 : ppath, (if has_pardir p1 || is_absolute p1 then Err ENotFound else Ok p1) = Err e -> e = ENotFound).
  { intros p1. destruct (has_pardir p1 || is_absolute p1); intro H; inversion H; reflexivity. }
  destruct (f_ext c) as [x|]; [|apply K].
  destruct (is_nil (suffix (name (parse s)))); [|apply K].
  destruct (with_suffix x (parse s)) as [p1|e'|] eqn:Ew; cbn [bind]; [apply K| |discriminate].
  apply with_suffix_err in Ew. rewrite Ew in En. discriminate.
Qed.

Lemma fs_resolve_name_fuel c s : fs_resolve_name c s <> OutOfFuel.
Proof.
  unfold fs_resolve_name. destruct (is_nil (name (parse s))); [discriminate|].
  assert (K : forall p1 : ppath, (if has_pardir p1 || is_absolute p1 then Err ENotFound else Ok p1) <> OutOfFuel).
  { intros p1. destruct (has_pardir p1 || is_absolute p1); discriminate. }
  destruct (f_ext c) as [x|]; [|apply K].
  destruct (is_nil (suffix (name (parse s)))); [|apply K].
  unfold with_suffix. destruct (is_nil (name (parse s))); cbn [bind]; [discriminate|apply K].
Qed.

Theorem pkg_resolve_name_accepts e s p : ext_ok e \/ e = [] -> pkg_resolve_name false e s = Ok p -> accepted p.
Proof.
  intros He. unfold pkg_resolve_name. destruct (is_nil (name (parse s))) eqn:En; [discriminate|].
  destruct (has_pardir (parse s)) eqn:Hp; [discriminate|].
  destruct (is_absolute (parse s)) eqn:Ha; [discriminate|]. cbn [orb].
  pose proof (parse_parts_clean s) as Hcl. pose proof (not_absolute _ Ha) as Hr.
  pose proof (has_pardir_false _ Hp) as Hnd.
  destruct (is_nil (suffix (name (parse s)))) eqn:Es.
  - intro Ew. destruct (with_suffix_clean _ _ _ He Hcl Es Ew) as (H1 & H2 & H3 & H4).
    repeat split; auto. congruence.
  - intro H. inversion H; subst. repeat split; auto. apply name_nonempty_parts; exact En.
Qed.

Theorem pkg_resolve_name_err e s x : pkg_resolve_name false e s = Err x -> x = ENotFound.
Proof.
  unfold pkg_resolve_name. destruct (is_nil (name (parse s))) eqn:En; [intro H; inversion H; reflexivity|].
  destruct (has_pardir (parse s) || is_absolute (parse s)); [intro H; inversion H; reflexivity|].
  destruct (is_nil (suffix (name (parse s)))); [|discriminate].
  intro Ew. apply with_suffix_err in Ew. rewrite Ew in En. discriminate.
Qed.

Lemma pkg_resolve_name_fuel e s : pkg_resolve_name false e s <> OutOfFuel.
Proof.
  unfold pkg_resolve_name. destruct (is_nil (name (parse s))); [discriminate|].
  destruct (has_pardir (parse s) || is_absolute (parse s)); [discriminate|].
  destruct (is_nil (suffix (name (parse s)))); [|discriminate].
  unfold with_suffix. destruct (is_nil (name (parse s))); discriminate.
Qed.

(* ------------------------------------------------------------------ joining, prefixes, normalisation *)
Lemma joinpath_accepted b p : accepted p -> joinpath b p = b ++ p_parts p.
Proof.
  intros (Hr & _ & _ & Hc). unfold joinpath. rewrite parse_render by exact Hc. unfold join. rewrite Hr. reflexivity.
Qed.

Lemma is_prefix_app a r : is_prefix a (a ++ r) = true.
Proof. induction a as [|x a IH]; cbn; [reflexivity|]. rewrite str_eqb_refl. exact IH. Qed.

Lemma is_prefix_spec a b : is_prefix a b = true <-> exists r, b = a ++ r.
Proof.
  split.
  - revert b. induction a as [|x a IH]; intros b H; [exists b; reflexivity|].
    destruct b as [|y b]; [discriminate|]. cbn in H. apply andb_true_iff in H. destruct H as [H1 H2].
    apply str_eqb_eq in H1. subst. destruct (IH _ H2) as [r ->]. exists r. reflexivity.
  - intros [r ->]. apply is_prefix_app.
Qed.

(* lexical normalisation (".." removes the component before it) as a stack machine *)
Fixpoint fstack (st : list str) (l : list str) : list str :=
  match l with
  | [] => st
  | x :: r => if str_eqb x dotdot then fstack (tl st) r else fstack (x :: st) r
  end.

Lemma norm_acc_fstack st l : norm_acc st l = rev (fstack st l).
Proof. revert st. induction l as [|x r IH]; intro st; cbn; [reflexivity|]. destruct (str_eqb x dotdot); apply IH. Qed.

Lemma fstack_app st a b : fstack st (a ++ b) = fstack (fstack st a) b.
Proof. revert st. induction a as [|x a IH]; intro st; cbn; [reflexivity|]. destruct (str_eqb x dotdot); apply IH. Qed.

Lemma fstack_nodotdot st l : ~ In dotdot l -> fstack st l = rev l ++ st.
Proof.
  revert st. induction l as [|x r IH]; intros st H; cbn; [reflexivity|].
  destruct (str_eqb_spec x dotdot) as [->|Hx]; [exfalso; apply H; left; reflexivity|].
  rewrite IH by (intro H'; apply H; right; exact H'). rewrite <- app_assoc. reflexivity.
Qed.

(* appending components none of which is ".." cannot climb out of the base, however the base is spelled *)
Theorem norm_app_contained b l : ~ In dotdot l -> norm (b ++ l) = norm b ++ l.
Proof.
  intro H. unfold norm. rewrite !norm_acc_fstack, fstack_app, fstack_nodotdot by exact H.
  rewrite rev_app_distr, rev_involutive. reflexivity.
Qed.

(* ------------------------------------------------------------------ the searches *)
(* what a successful search guarantees about the location returned *)
Definition found_under (rej : bool) (v : fsview) (bases : list apath) (p : ppath) (q : apath) : Prop :=
  exists b, In b bases /\ q = joinpath b p /\ stat v q = SFile /\
            (rej = true -> exists rq rb, real v q = Some rq /\ real v b = Some rb /\ is_prefix rb rq = true).

Lemma fs_search_ok c v bases p q :
  fs_search false c v bases p = Ok q -> found_under (f_reject c) v bases p q.
Proof.
  induction bases as [|b rest IH]; cbn [fs_search]; [discriminate|].
  assert (K : fs_search false c v rest p = Ok q -> found_under (f_reject c) v (b :: rest) p q).
  { intro H. destruct (IH H) as (b' & H1 & H2). exists b'. split; [right; exact H1|exact H2]. }
  destruct (stat v (joinpath b p)) eqn:Est; auto.
  destruct (f_reject c) eqn:Er.
  - destruct (real v (joinpath b p)) as [rq|] eqn:E1; auto.
    destruct (real v b) as [rb|] eqn:E2; auto.
    destruct (is_prefix rb rq) eqn:E3; auto.
    intro H. inversion H; subst. exists b. split; [left; reflexivity|]. split; [reflexivity|]. split; [exact Est|].
    intros _. exists rq, rb. auto.
  - intro H. inversion H; subst. exists b. split; [left; reflexivity|]. split; [reflexivity|]. split; [exact Est|].
    discriminate.
Qed.

Lemma fs_search_err c v bases p e : fs_search false c v bases p = Err e -> e = ENotFound.
Proof.
  induction bases as [|b rest IH]; cbn [fs_search]; [intro H; inversion H; reflexivity|].
  destruct (stat v (joinpath b p)); auto.
  destruct (f_reject c); [|discriminate].
  destruct (real v (joinpath b p)); auto. destruct (real v b); auto. destruct (is_prefix _ _); auto. discriminate.
Qed.

Lemma fs_search_fuel c v bases p : fs_search false c v bases p <> OutOfFuel.
Proof.
  induction bases as [|b rest IH]; cbn [fs_search]; [discriminate|].
  destruct (stat v (joinpath b p)); auto.
  destruct (f_reject c); [|discriminate].
  destruct (real v (joinpath b p)); auto. destruct (real v b); auto. destruct (is_prefix _ _); auto. discriminate.
Qed.

Lemma pkg_search_ok v bases p q :
  pkg_search false v bases p = Ok q -> found_under false v bases p q.
Proof.
  induction bases as [|b rest IH]; cbn [pkg_search]; [discriminate|].
  assert (K : pkg_search false v rest p = Ok q -> found_under false v (b :: rest) p q).
  { intro H. destruct (IH H) as (b' & H1 & H2). exists b'. split; [right; exact H1|exact H2]. }
  destruct (stat v (joinpath b p)) eqn:Est; auto.
  intro H. inversion H; subst. exists b. split; [left; reflexivity|]. split; [reflexivity|]. split; [exact Est|discriminate].
Qed.

Lemma pkg_search_err v bases p e : pkg_search false v bases p = Err e -> e = ENotFound.
Proof.
  induction bases as [|b rest IH]; cbn [pkg_search]; [intro H; inversion H; reflexivity|].
  destruct (stat v (joinpath b p)); auto. discriminate.
Qed.

Lemma pkg_search_fuel v bases p : pkg_search false v bases p <> OutOfFuel.
Proof.
  induction bases as [|b rest IH]; cbn [pkg_search]; [discriminate|].
  destruct (stat v (joinpath b p)); auto. discriminate.
Qed.

(* ------------------------------------------------------------------ the property theorems *)
(* where a returned file lies, lexically: under one of the search directories, reached by clean components
   none of which is ".."; so also after normalising ".." in the base's own spelling *)
Definition contained (bases : list apath) (q : apath) : Prop :=
  exists b l, In b bases /\ q = b ++ l /\ l <> [] /\ ~ In dotdot l /\ Forall clean l /\
              is_prefix b q = true /\ norm q = norm b ++ l.

Lemma found_contained rej v bases p q : accepted p -> found_under rej v bases p q -> contained bases q.
Proof.
  intros Ha (b & Hb & Hq & _). pose proof Ha as (_ & Hnd & Hne & Hc).
  rewrite joinpath_accepted in Hq by exact Ha. subst q.
  exists b, (p_parts p). repeat split; auto; [apply is_prefix_app|apply norm_app_contained; exact Hnd].
Qed.

Theorem fs_lexical_containment c v bases s q :
  cfg_ok c -> fs_load false c v bases s = Ok q -> contained bases q /\ stat v q = SFile.
Proof.
  intros Hc. unfold fs_load. destruct (fs_resolve_name c s) as [p| |] eqn:E; cbn [bind]; try discriminate.
  intro H. apply fs_search_ok in H. pose proof (fs_resolve_name_accepts _ _ _ Hc E) as Ha. split.
  - eapply found_contained; eauto.
  - destruct H as (b & _ & _ & Hs & _). exact Hs.
Qed.

Theorem fs_symlink_decision c v bases s q :
  cfg_ok c -> f_reject c = true -> fs_load false c v bases s = Ok q ->
  exists b rq rb, In b bases /\ is_prefix b q = true /\
                  real v q = Some rq /\ real v b = Some rb /\ is_prefix rb rq = true.
Proof.
  intros Hc Hr. unfold fs_load. destruct (fs_resolve_name c s) as [p| |] eqn:E; cbn [bind]; try discriminate.
  intro H. apply fs_search_ok in H. pose proof (fs_resolve_name_accepts _ _ _ Hc E) as Ha.
  destruct H as (b & Hb & Hq & _ & Hrej). rewrite Hr in Hrej. destruct (Hrej eq_refl) as (rq & rb & H1 & H2 & H3).
  exists b, rq, rb. repeat split; auto. rewrite Hq, joinpath_accepted by exact Ha. apply is_prefix_app.
Qed.

Theorem fs_only_not_found c v bases s e : fs_load false c v bases s = Err e -> e = ENotFound.
Proof.
  unfold fs_load. destruct (fs_resolve_name c s) as [p|e'|] eqn:E; cbn [bind].
  - apply fs_search_err.
  - intro H. inversion H; subst. eapply fs_resolve_name_err; eauto.
  - discriminate.
Qed.

Theorem fs_load_total c v bases s : fs_load false c v bases s <> OutOfFuel.
Proof.
  unfold fs_load. destruct (fs_resolve_name c s) as [p|e'|] eqn:E; cbn [bind]; [apply fs_search_fuel|discriminate|].
  exfalso. exact (fs_resolve_name_fuel _ _ E).
Qed.

Theorem pkg_lexical_containment e v bases s q :
  ext_ok e \/ e = [] -> pkg_load false e v bases s = Ok q -> contained bases q /\ stat v q = SFile.
Proof.
  intros He. unfold pkg_load. destruct (pkg_resolve_name false e s) as [p| |] eqn:E; cbn [bind]; try discriminate.
  intro H. apply pkg_search_ok in H. pose proof (pkg_resolve_name_accepts _ _ _ He E) as Ha. split.
  - eapply found_contained; eauto.
  - destruct H as (b & _ & _ & Hs & _). exact Hs.
Qed.

Theorem pkg_only_not_found e v bases s x : pkg_load false e v bases s = Err x -> x = ENotFound.
Proof.
  unfold pkg_load. destruct (pkg_resolve_name false e s) as [p|e'|] eqn:E; cbn [bind].
  - apply pkg_search_err.
  - intro H. inversion H; subst. eapply pkg_resolve_name_err; eauto.
  - discriminate.
Qed.

Theorem pkg_load_total e v bases s : pkg_load false e v bases s <> OutOfFuel.
Proof.
  unfold pkg_load. destruct (pkg_resolve_name false e s) as [p|e'|] eqn:E; cbn [bind]; [apply pkg_search_fuel|discriminate|].
  exfalso. exact (pkg_resolve_name_fuel _ _ E).
Qed.

(* which names are refused before the file system is looked at: exactly the empty, the absolute and the
   ones with a ".." component (after the extension rule) *)
Theorem fs_refusal_exact c s :
  cfg_ok c ->
  (exists p, fs_resolve_name c s = Ok p) \/
  (fs_resolve_name c s = Err ENotFound /\
   (p_parts (parse s) = [] \/ is_absolute (parse s) = true \/ In dotdot (p_parts (parse s)))).
Proof.
  intros Hc. destruct (fs_resolve_name c s) as [p|e|] eqn:E; [left; eexists; reflexivity| |exfalso; exact (fs_resolve_name_fuel _ _ E)].
  right. rewrite (fs_resolve_name_err _ _ _ E). split; [reflexivity|].
  revert E. unfold fs_resolve_name. destruct (is_nil (name (parse s))) eqn:En.
  - intros _. left. unfold name in En. destruct (p_parts (parse s)) as [|x l] eqn:Ep; [reflexivity|].
    exfalso. pose proof (parse_parts_clean s) as Hcl. rewrite Ep in Hcl.
    assert (Hin : In (last (x :: l) []) (x :: l)).
    { rewrite (app_removelast_last [] (l := x :: l)) at 2 by discriminate. apply in_or_app. right. left. reflexivity. }
    rewrite Forall_forall in Hcl. destruct (Hcl _ Hin) as (H1 & _). destruct (last (x :: l) []); [congruence|discriminate].
  - pose proof (parse_parts_clean s) as Hcl.
    assert (K : forall p1, p_root p1 = p_root (parse s) ->
                (In dotdot (p_parts p1) -> In dotdot (p_parts (parse s))) ->
                (if has_pardir p1 || is_absolute p1 then Err ENotFound else Ok p1) = Err e ->
                p_parts (parse s) = [] \/ is_absolute (parse s) = true \/ In dotdot (p_parts (parse s))).
    { intros p1 Hr Hd. destruct (has_pardir p1) eqn:Hp.
      - intros _. right. right. apply Hd. unfold has_pardir in Hp. apply existsb_exists in Hp.
        destruct Hp as (x & Hx & Hex). apply str_eqb_eq in Hex. subst. exact Hx.
      - destruct (is_absolute p1) eqn:Ha; [|discriminate]. intros _. right. left.
        unfold is_absolute in *. rewrite <- Hr. exact Ha. }
    unfold cfg_ok in Hc. destruct (f_ext c) as [x|]; [|cbn [bind]; apply K; auto].
    destruct (is_nil (suffix (name (parse s)))) eqn:Es; [|cbn [bind]; apply K; auto].
    destruct (with_suffix x (parse s)) as [p1|e'|] eqn:Ew; cbn [bind]; [|intros _|discriminate].
    + destruct (with_suffix_clean _ _ _ (or_introl Hc) Hcl Es Ew) as (H1 & _ & _ & H4).
      apply K; [exact H1|]. intro Hin.
      destruct (in_dec (list_eq_dec N.eq_dec) dotdot (p_parts (parse s))) as [Hd|Hd]; [exact Hd|].
      exfalso. exact (H4 Hd Hin).
    + apply with_suffix_err in Ew. rewrite Ew in En. discriminate.
Qed.

Theorem loads_total (c : fscfg) (e : str) v bases s :
  fs_load false c v bases s <> OutOfFuel /\ pkg_load false e v bases s <> OutOfFuel.
Proof. split; [apply fs_load_total|apply pkg_load_total]. Qed.
