(* C02 -- proofs about the exception-flow model.
   The development is compositional: every helper is given the SET of exception classes it can raise
   ([errs_in]); every handler (decorator, Filter.evaluate, the per-node handler) is a set transformer.
   A flag h says whether an int beyond the digit limit may be present: with h = true the result is the
   full theorem (only that ValueError escapes), with h = false the guarded one (nothing escapes). *)
From Coq Require Import ZArith List Bool Lia.
From LiquidVerif Require Import Prelude ExnFlow.
Local Open Scope Z_scope.

Lemma from_string_contained : forall e, is_liquid (from_string_handler e) = true.
Proof. destruct e; reflexivity. Qed.

(* ------------------------------------------------------------------ exception sets *)
Definition errs_in {A} (ok : exn -> bool) (r : res A) : Prop :=
  match r with Ok _ => True | Err e => ok e = true | OutOfFuel => False end.

Definition isV (e : exn) := match e with EValueError => true | _ => false end.
Definition isT (e : exn) := match e with ETypeError => true | _ => false end.
Definition isM (e : exn) := match e with ETypeError | EValueError | EOverflowError | EArithmeticError => true | _ => false end.
Definition isL (e : exn) := match e with EKeyError | EIndexError | ETypeError => true | _ => false end.

Definition LQ (e : exn) := is_liquid e.                            (* Liquid errors only *)
Definition LV (h : bool) (e : exn) := is_liquid e || (h && isV e). (* ... plus the digit-limit ValueError when h *)
Definition LVT (h : bool) (e : exn) := LV h e || isT e.            (* ... plus TypeError (converted by every decorator) *)
Definition LM (e : exn) := is_liquid e || isM e.                   (* what math_filter converts *)
Definition LTV (e : exn) := is_liquid e || isT e || isV e.
Definition LLK (e : exn) := is_liquid e || isL e.

Lemma errs_in_bind {A B} ok (r : res A) (k : A -> res B) :
  errs_in ok r -> (forall a, errs_in ok (k a)) -> errs_in ok (bind r k).
Proof. destruct r; simpl; auto. Qed.

Lemma errs_in_mono {A} (ok ok' : exn -> bool) (r : res A) :
  (forall e, ok e = true -> ok' e = true) -> errs_in ok r -> errs_in ok' r.
Proof. destruct r; simpl; auto. Qed.

Lemma convert_errs {A} catch to (ok ok' : exn -> bool) (r : res A) :
  errs_in ok r -> ok' to = true -> (forall e, ok e = true -> catch e = false -> ok' e = true) ->
  errs_in ok' (convert catch to r).
Proof.
  destruct r as [a|e|]; simpl; auto. intros H Hto Hrest. destruct (catch e) eqn:C; simpl; auto.
Qed.

Ltac incl := let e := fresh "e" in intro e; destruct e; cbn; try reflexivity; try discriminate; intros; try discriminate; try reflexivity; auto.
Ltac incl_h := let e := fresh "e" in let h := fresh "h" in intro e; destruct e; cbn; intros; try reflexivity; try discriminate; auto.

Lemma LQ_LV h e : LQ e = true -> LV h e = true.
Proof. unfold LQ, LV. intros ->. reflexivity. Qed.
Lemma LV_LVT h e : LV h e = true -> LVT h e = true.
Proof. unfold LVT. intros ->. reflexivity. Qed.
Lemma LQ_LVT h e : LQ e = true -> LVT h e = true.
Proof. intro. apply LV_LVT, LQ_LV. assumption. Qed.
Lemma LQ_LM e : LQ e = true -> LM e = true.
Proof. unfold LQ, LM. intros ->. reflexivity. Qed.

(* the big constants stay folded *)
Local Opaque huge too_big_for_float ssize_bound.

(* break every match / if in the goal *)
Ltac fin := cbn; first [exact I | reflexivity | discriminate | congruence | tauto].
Ltac brk :=
  repeat (cbn;
    match goal with
    | |- True => exact I
    | H : ?b = _ |- context [if ?b then _ else _] => rewrite H
    | |- context [match ?x with _ => _ end] => is_var x; destruct x
    | |- context [if ?c then _ else _] => destruct c eqn:?
    | |- context [match ?x with _ => _ end] =>
        (* innermost first: a scrutinee that contains no other match *)
        lazymatch x with
        | context [match _ with _ => _ end] => fail
        | context [if _ then _ else _] => fail
        | _ => destruct x eqn:?
        end
    end); try fin.

(* ------------------------------------------------------------------ induction on values (lists nest) *)
Section ValueInd.
  Variable P : value -> Prop.
  Hypothesis HNone : P VNone.
  Hypothesis HUndef : P VUndef.
  Hypothesis HBool : forall b, P (VBool b).
  Hypothesis HInt : forall z, P (VInt z).
  Hypothesis HFloat : forall f, P (VFloat f).
  Hypothesis HStr : forall s n, P (VStr s n).
  Hypothesis HList : forall l, Forall P l -> P (VList l).
  Hypothesis HDict : forall ks vs, Forall P vs -> P (VDict ks vs).
  Hypothesis HRange : forall lo n, P (VRange lo n).
  Fixpoint value_ind' (v : value) : P v :=
    match v with
    | VNone => HNone | VUndef => HUndef | VBool b => HBool b | VInt z => HInt z | VFloat f => HFloat f
    | VStr s n => HStr s n
    | VList l => HList l ((fix go (l : list value) : Forall P l :=
                             match l with [] => Forall_nil P | x :: r => Forall_cons x (value_ind' x) (go r) end) l)
    | VDict ks vs => HDict ks vs ((fix go (l : list value) : Forall P l :=
                             match l with [] => Forall_nil P | x :: r => Forall_cons x (value_ind' x) (go r) end) vs)
    | VRange lo n => HRange lo n
    end.
End ValueInd.

(* ------------------------------------------------------------------ the guard *)
(* NH h v: either huge ints are allowed (h) or v contains none *)
Definition NH (h : bool) (v : value) : Prop := h = true \/ has_huge v = false.

Lemma existsb_false_Forall {A} (f : A -> bool) l : existsb f l = false <-> Forall (fun x => f x = false) l.
Proof.
  induction l; simpl; split; intro H; auto.
  - apply orb_false_iff in H. destruct H. constructor; auto. apply IHl; auto.
  - inversion H; subst. apply orb_false_iff. split; auto. apply IHl; auto.
Qed.

Lemma has_huge_str_fails v : has_huge v = false -> str_fails v = false.
Proof.
  induction v using value_ind'; simpl; auto; intros Hh.
  - rewrite existsb_false_Forall in *. rewrite Forall_forall in *. auto.
  - rewrite existsb_false_Forall in *. rewrite Forall_forall in *. auto.
  - apply orb_false_iff in Hh. destruct Hh as [Hh _]. exact Hh.
Qed.

Lemma NH_items h l : NH h (VList l) -> Forall (NH h) l.
Proof.
  intros [->|H]. { apply Forall_forall. intros; left; reflexivity. }
  simpl in H. rewrite existsb_false_Forall in H. eapply Forall_impl; [|exact H]. intros; right; assumption.
Qed.

Lemma NH_list h l : Forall (NH h) l -> NH h (VList l).
Proof.
  destruct h. { left; reflexivity. }
  intro H. right. simpl. apply existsb_false_Forall. eapply Forall_impl; [|exact H].
  intros a [E|E]; [discriminate|exact E].
Qed.

Lemma NH_dict_vals h ks vs : NH h (VDict ks vs) -> Forall (NH h) vs.
Proof. intro H. apply NH_items. exact H. Qed.

Lemma py_str_errs h v : NH h v -> errs_in (LV h) (py_str v).
Proof.
  unfold py_str. intros [->|H].
  - destruct (str_fails v); simpl; auto.
  - rewrite (has_huge_str_fails _ H). exact I.
Qed.

Lemma all_str_errs h l : Forall (NH h) l -> errs_in (LV h) (all_str l).
Proof.
  induction 1; simpl; auto. apply errs_in_bind. apply py_str_errs; auto. auto.
Qed.

(* flatten and the sequence coercion keep the guard *)
Lemma flatten_NH h n : forall l, Forall (NH h) l -> Forall (NH h) (flatten n l).
Proof.
  induction n as [|n IH]; intros l H.
  - induction H; simpl; auto; try (destruct x; constructor; auto).
  - induction H as [|x r Hx Hr IHr]; [constructor|].
    change (flatten (S n) (x :: r)) with (match x with VList inner => flatten n inner ++ flatten (S n) r | _ => x :: flatten (S n) r end).
    destruct x; try (constructor; assumption).
    apply Forall_app. split; auto. apply IH. apply NH_items. assumption.
Qed.

Lemma range_items_bound B : forall n lo,
  (B <=? Z.abs lo) = false -> (B <=? Z.abs (lo + Z.of_nat n)) = false ->
  Forall (fun v => exists z, v = VInt z /\ (B <=? Z.abs z) = false) (range_items lo n).
Proof.
  induction n as [|n IH]; intros lo H1 H2; simpl; constructor.
  - exists lo. split; auto.
  - apply IH.
    + apply Z.leb_gt in H1. apply Z.leb_gt in H2. apply Z.leb_gt. lia.
    + replace (lo + 1 + Z.of_nat n) with (lo + Z.of_nat (S n)) by lia. exact H2.
Qed.

Transparent huge.
Lemma range_items_NH h : forall n lo, NH h (VRange lo n) -> Forall (NH h) (range_items lo n).
Proof.
  destruct h. { intros. apply Forall_forall. intros; left; reflexivity. }
  intros n lo [E|H]; [discriminate|]. simpl in H.
  apply orb_false_iff in H. destruct H as [H _]. apply orb_false_iff in H. destruct H as [H1 H2].
  unfold huge in H1, H2.
  eapply Forall_impl; [|apply (range_items_bound huge_bound n lo H1 H2)].
  intros a (z & -> & Hz). right. simpl. unfold huge. exact Hz.
Qed.
Opaque huge.

Lemma coerce_seq_NH h v : NH h v -> Forall (NH h) (coerce_seq v).
Proof.
  intro H. destruct v; cbn [coerce_seq]; try (constructor; [assumption|constructor]).
  - constructor.
  - apply flatten_NH. apply NH_items. assumption.
  - apply range_items_NH. assumption.
Qed.

(* ------------------------------------------------------------------ conversion helpers *)
Lemma to_int_errs v : errs_in LTV (to_int all_fixed v).
Proof. cbv beta delta [to_int py_int errs_in LTV isT isV]. brk. Qed.

Lemma int_arg_errs v d : errs_in (fun e => is_liquid e || isT e) (int_arg all_fixed v d).
Proof. cbv beta delta [int_arg to_int py_int errs_in isT]. brk. Qed.

Lemma num_arg_errs v d : errs_in LQ (num_arg all_fixed v d).
Proof. cbv beta delta [num_arg to_int py_int py_float_str errs_in LQ]. brk. Qed.

Lemma decimal_arg0_errs v : errs_in LQ (decimal_arg0 all_fixed v).
Proof. cbv beta delta [decimal_arg0 to_int py_int errs_in LQ]. brk. Qed.

Lemma slice_arg_errs a : errs_in LQ (slice_arg all_fixed a).
Proof. cbv beta delta [slice_arg to_int py_int errs_in LQ]. brk. Qed.

Lemma loop_int_errs a : errs_in LQ (loop_int all_fixed a).
Proof. cbv beta delta [loop_int to_int py_int errs_in LQ]. brk. Qed.

Lemma to_int_or_errs a d : errs_in LQ (to_int_or all_fixed true a d).
Proof. cbv beta delta [to_int_or to_int py_int errs_in LQ]. brk. Qed.

(* ------------------------------------------------------------------ decorators *)
Lemma liquid_filter_errs {A} h (r : res A) : errs_in (LVT h) r -> errs_in (LV h) (liquid_filter r).
Proof.
  intro H. unfold liquid_filter. eapply convert_errs; [exact H|reflexivity|].
  intros e He C. unfold LVT in He. apply orb_true_iff in He. destruct He as [He|He]; [exact He|].
  unfold is_type_error in C. unfold isT in He. destruct e; discriminate.
Qed.

Lemma string_filter_errs {A} h v (body : res A) : NH h v -> errs_in (LVT h) body -> errs_in (LV h) (string_filter v body).
Proof.
  intros Hv Hb. pose proof (liquid_filter_errs h body Hb) as HL.
  destruct v; simpl; try exact HL; apply errs_in_bind; try (intro; exact HL); apply py_str_errs; assumption.
Qed.

Lemma math_filter_errs v body : (forall n, errs_in LM (body n)) -> errs_in LQ (math_filter all_fixed v body).
Proof.
  intro Hb. unfold math_filter. apply errs_in_bind. apply num_arg_errs.
  intro n. eapply convert_errs; [apply Hb|reflexivity|].
  intros e He C. unfold LM, LQ, isM, is_math_error in *. destruct e; simpl in *; try discriminate; try reflexivity.
Qed.

Lemma filter_evaluate_errs {A} h (r : res A) : errs_in (LVT h) r -> errs_in (LV h) (filter_evaluate r).
Proof.
  intro H. unfold filter_evaluate. eapply convert_errs; [exact H|reflexivity|].
  intros e He C. unfold LVT in He. apply orb_true_iff in He. destruct He as [He|He]; [exact He|].
  unfold is_type_error in C. unfold isT in He. destruct e; discriminate.
Qed.

(* ------------------------------------------------------------------ math bodies *)
Lemma with_other_errs args k : (forall o, errs_in LM (k o)) -> errs_in LM (with_other all_fixed args k).
Proof.
  intro Hk. unfold with_other. destruct args as [|a [|b r]]; try reflexivity.
  apply errs_in_bind; auto. eapply errs_in_mono; [exact LQ_LM|apply num_arg_errs].
Qed.

Lemma num_str_errs n : errs_in LM (num_str n).
Proof. unfold num_str, py_str. destruct (str_fails _); simpl; auto. Qed.

Lemma dec_errs :
  (forall a b, errs_in LM (dec_add a b)) /\ (forall a b, errs_in LM (dec_sub a b)) /\
  (forall a b, errs_in LM (dec_mul a b)) /\ (forall i a b, errs_in LM (dec_mod i a b)).
Proof. repeat split; intros; try destruct i; destruct a, b; reflexivity || exact I. Qed.

Lemma decimal_binop_errs op f n o : (forall a b, errs_in LM (op a b)) -> errs_in LM (decimal_binop op f n o).
Proof.
  intro Hop. unfold decimal_binop. destruct (intlike n), (intlike o); try exact I;
  (apply errs_in_bind; [apply num_str_errs|intro]; apply errs_in_bind; [apply num_str_errs|intro];
   apply errs_in_bind; [apply Hop|intro; exact I]).
Qed.

Lemma dec_div_errs a b : errs_in LM (dec_div a b).
Proof. destruct a, b; reflexivity || exact I. Qed.

Lemma divided_by_errs n o : errs_in LM (divided_by n o).
Proof.
  unfold divided_by. destruct (intlike n), (intlike o); try (destruct (_ =? 0); reflexivity || exact I);
  (apply errs_in_bind; [apply num_str_errs|intro]; apply errs_in_bind; [apply num_str_errs|intro];
   destruct (dec_div_by_zero _ _); [reflexivity|]; apply errs_in_bind; [apply dec_div_errs|intro; exact I]).
Qed.

Lemma modulo_errs i n o : errs_in LM (modulo i n o).
Proof.
  unfold modulo. destruct (intlike n), (intlike o); try (destruct (_ =? 0); reflexivity || exact I);
  (apply errs_in_bind; [apply num_str_errs|intro]; apply errs_in_bind; [apply num_str_errs|intro];
   apply errs_in_bind; [apply dec_errs|intro; exact I]).
Qed.

Lemma round0_errs n : errs_in LM (round0 n).
Proof. cbv beta delta [round0 py_float_to_int bind errs_in LM isM]. brk. Qed.

Lemma round_nd_errs n a : errs_in LM (round_nd all_fixed n a).
Proof.
  unfold round_nd. pose proof (num_arg_errs a None) as Ha. pose proof (round0_errs n) as Hr.
  destruct (num_arg all_fixed a None) as [nd|e|]; simpl in Ha; [| |contradiction].
  - assert (Hd : forall d, errs_in LM (if d <? 0 then Ok (VInt 0) else if d =? 0 then round0 n
                                        else Ok match n with NF _ => some_float | _ => value_of_num n end)).
    { intro d. destruct (d <? 0); [exact I|]. destruct (d =? 0); [exact Hr|exact I]. }
    destruct nd as [b|z|f]; cbn [bind]; try apply Hd.
    destruct f; cbn [py_float_to_int bind]; try apply Hd; reflexivity.
  - unfold LQ in Ha. destruct e; try discriminate Ha; try exact Hr; exact Ha.
Qed.

Lemma round_filter_errs n args : errs_in LM (round_filter all_fixed n args).
Proof.
  unfold round_filter. destruct args as [|a [|b r]].
  - apply round0_errs.
  - destruct a; try apply round_nd_errs; apply round0_errs.
  - destruct a; reflexivity.
Qed.

Lemma math_sites_errs p s v args :
  match s with SAbs | SAtMost | SAtLeast | SCeil | SFloor | SRound | SPlus | SMinus | STimes | SDividedBy | SModulo => True | _ => False end ->
  errs_in LQ (eval_filter all_fixed p s v args).
Proof.
  destruct dec_errs as (Hadd & Hsub & Hmul & Hmod).
  intros Hs. destruct s; try contradiction; clear Hs; cbn [eval_filter]; apply math_filter_errs; intro n.
  - destruct args; [exact I|reflexivity].
  - apply with_other_errs; intro; exact I.
  - apply with_other_errs; intro; exact I.
  - destruct args; [apply round0_errs|reflexivity].
  - destruct args; [apply round0_errs|reflexivity].
  - apply round_filter_errs.
  - apply with_other_errs; intro; apply decimal_binop_errs; assumption.
  - apply with_other_errs; intro; apply decimal_binop_errs; assumption.
  - apply with_other_errs; intro; apply decimal_binop_errs; assumption.
  - apply with_other_errs; intro; apply divided_by_errs.
  - apply with_other_errs; intro; apply modulo_errs.
Qed.

(* ------------------------------------------------------------------ the other filter bodies *)
Lemma LQ_in_LVT {A} h (r : res A) : errs_in LQ r -> errs_in (LVT h) r.
Proof. apply errs_in_mono. apply LQ_LVT. Qed.
Lemma LV_in_LVT {A} h (r : res A) : errs_in (LV h) r -> errs_in (LVT h) r.
Proof. apply errs_in_mono. apply LV_LVT. Qed.

Lemma arity_LVT {A} h : errs_in (LVT h) (@arity_error A).
Proof. unfold arity_error, errs_in, LVT, LV. destruct h; reflexivity. Qed.

Lemma ELiquid_LVT h e : is_liquid e = true -> LVT h e = true.
Proof. intro H. unfold LVT, LV. rewrite H. reflexivity. Qed.

Lemma py_str_LVT h v : NH h v -> errs_in (LVT h) (py_str v).
Proof. intro. apply LV_in_LVT, py_str_errs. assumption. Qed.

Lemma truncate_num_errs h a : errs_in (LVT h) (truncate_num all_fixed a).
Proof.
  destruct a as [x|]; [|exact I]. unfold truncate_num. pose proof (to_int_errs x) as Hx.
  assert (Hc : errs_in (LVT h) (match to_int all_fixed x with Err EValueError => Err EFilterArg | r => r end)).
  { destruct (to_int all_fixed x) as [z|e|]; simpl in *; auto.
    destruct e; simpl in *; try discriminate Hx; try (apply ELiquid_LVT; reflexivity).
    unfold LVT, LV, isT. destruct h; reflexivity. }
  destruct x; try exact Hc. apply ELiquid_LVT; reflexivity.
Qed.

Lemma truncate_go_errs h a b : match b with None => True | Some e => NH h e end -> errs_in (LVT h) (truncate_go all_fixed a b).
Proof.
  intro Hb. unfold truncate_go. apply errs_in_bind; [apply truncate_num_errs|intro].
  apply errs_in_bind; [|intro; exact I]. destruct b; [apply py_str_LVT; assumption|exact I].
Qed.

Lemma truncate_errs h args : Forall (NH h) args -> errs_in (LVT h) (truncate all_fixed args).
Proof.
  intro Ha. unfold truncate. destruct args as [|a [|b [|c r]]]; try (apply truncate_go_errs; exact I).
  - inversion Ha as [|? ? _ Hr]; subst. inversion Hr; subst. apply truncate_go_errs. assumption.
  - apply arity_LVT.
Qed.

Lemma slice_args_errs h v start len : errs_in (LVT h) (slice_args all_fixed v start len).
Proof.
  unfold slice_args. apply errs_in_bind; [apply LQ_in_LVT, slice_arg_errs|intro].
  apply errs_in_bind; [|intro; exact I]. unfold slice_len.
  destruct len as [l|]; [|exact I]. destruct l; try (apply LQ_in_LVT, slice_arg_errs); exact I.
Qed.

Lemma slice_errs h v args : NH h v -> errs_in (LVT h) (slice all_fixed v args).
Proof.
  intro Hv. unfold slice.
  assert (Hgo : forall start len, errs_in (LVT h) (slice_go all_fixed v start len)).
  { intros start len. unfold slice_go. apply errs_in_bind.
    - destruct v; try exact I; apply py_str_LVT; assumption.
    - intros _. destruct start; try apply slice_args_errs. apply ELiquid_LVT; reflexivity. }
  destruct args as [|a [|b [|c r]]]; try apply arity_LVT; apply Hgo.
Qed.

Lemma sum_items_errs : forall l acc, errs_in (fun e => is_liquid e || match e with EArithmeticError => true | _ => false end) (sum_items all_fixed acc l).
Proof.
  induction l as [|x r IH]; intro acc; simpl; auto.
  apply errs_in_bind.
  - eapply errs_in_mono; [|apply decimal_arg0_errs]. unfold LQ. intros e ->. reflexivity.
  - intro d. apply errs_in_bind; [|intro; apply IH].
    unfold dnum_add. destruct acc as [a|da], d as [b|db]; try exact I;
    (apply errs_in_bind; [|intro; exact I]);
    repeat match goal with |- context [if ?c then _ else _] => destruct c end;
    repeat match goal with d : dcl |- _ => destruct d end; reflexivity || exact I.
Qed.

Lemma sum_filter_errs v : errs_in LQ (sum_filter all_fixed v).
Proof.
  unfold sum_filter. pose proof (sum_items_errs (coerce_seq v) (DI 0)) as H.
  destruct (sum_items all_fixed (DI 0) (coerce_seq v)) as [[z|d]|e|]; simpl in *; auto.
  destruct e; simpl in *; try discriminate H; reflexivity.
Qed.

Lemma py_getitem_errs o k : errs_in (fun e => isL e) (py_getitem o k).
Proof. cbv beta delta [py_getitem errs_in isL is_hashable int_key]. brk. Qed.

Lemma lookup_prop_errs x key : errs_in (fun e => isT e) (lookup_prop all_fixed x key).
Proof.
  unfold lookup_prop. pose proof (py_getitem_errs x key) as H.
  destruct (py_getitem x key) as [a|e|]; simpl in *; auto. destruct e; try discriminate H; exact I || reflexivity.
Qed.

Lemma compact_key_errs key : forall l, errs_in (fun e => isT e) (compact_key all_fixed key l).
Proof.
  induction l as [|x r IH]; simpl; auto.
  apply errs_in_bind; [apply lookup_prop_errs|intro]. apply errs_in_bind; [apply IH|intro; exact I].
Qed.

Lemma uniq_key_errs h key : NH h key -> forall l, Forall (NH h) l -> errs_in (LV h) (uniq_key all_fixed key l).
Proof.
  intros Hk l Hl. induction Hl as [|x r Hx Hr IH]; simpl; auto.
  unfold uniq_prop. pose proof (py_getitem_errs x key) as H.
  destruct (py_getitem x key) as [a|e|]; simpl in *; auto.
  destruct e; try discriminate H; try exact IH.
  apply errs_in_bind; [apply py_str_errs; assumption|intro].
  apply errs_in_bind; [apply py_str_errs; assumption|intro]. unfold LV. reflexivity.
Qed.

Lemma json_walk_errs h v : NH h v -> errs_in (LVT h) (json_walk v).
Proof.
  induction v using value_ind'; intro Hv; try exact I; try (unfold errs_in, json_walk, LVT, LV, isT; destruct h; reflexivity).
  - (* int *) simpl. destruct (huge z) eqn:E; [|exact I]. destruct Hv as [->|Hv]; [reflexivity|]. simpl in Hv. congruence.
  - (* list *) apply NH_items in Hv. simpl.
    induction H as [|x r Hx Hr IH]; [exact I|]. inversion Hv; subst.
    apply errs_in_bind; [apply Hx; assumption|intro]. apply IH; assumption.
  - (* hash *) apply NH_dict_vals in Hv. simpl.
    induction H as [|x r Hx Hr IH]; [exact I|]. inversion Hv; subst.
    apply errs_in_bind; [apply Hx; assumption|intro]. apply IH; assumption.
Qed.

Lemma json_filter_errs h v args : NH h v -> errs_in (LVT h) (json_filter all_fixed v args).
Proof.
  intro Hv. unfold json_filter.
  assert (Hgo : forall indent, errs_in (LVT h) (json_go all_fixed v indent)).
  { intro indent. unfold json_go. apply errs_in_bind.
    - unfold json_indent. destruct indent as [a|]; [|exact I]. destruct (py_truthy a); [|exact I].
      apply errs_in_bind; [|intro; exact I].
      eapply errs_in_mono; [|apply int_arg_errs]. intros e He. unfold LVT, LV.
      apply orb_true_iff in He. destruct He as [->| ->]; [reflexivity|apply orb_true_r].
    - intro n.
      assert (Hrest : errs_in (LVT h) (json_encode all_fixed v n)).
      { unfold json_encode. apply errs_in_bind.
        - destruct n as [z|]; [|exact I]. destruct ((ssize_bound <=? z) || (z <? - ssize_bound)); [apply ELiquid_LVT; reflexivity|exact I].
        - intro. apply errs_in_bind; [apply json_walk_errs; assumption|intro; exact I]. }
      destruct v; try exact Hrest; exact I. }
  destruct args as [|a [|b r]]; try apply arity_LVT; apply Hgo.
Qed.

(* ------------------------------------------------------------------ every filter site *)
Lemma Forall_NH_1 h a r : Forall (NH h) (a :: r) -> NH h a.
Proof. inversion 1; assumption. Qed.
Lemma Forall_NH_2 h a b r : Forall (NH h) (a :: b :: r) -> NH h b.
Proof. inversion 1 as [|? ? _ Hr]; subst. inversion Hr; assumption. Qed.

Lemma NH_trivial h v : has_huge v = false -> NH h v.
Proof. intro; right; assumption. Qed.

Lemma dict_get_NH h id : forall ks vs x, Forall (NH h) vs -> dict_get id ks vs = Some x -> NH h x.
Proof.
  induction ks as [|k ks IH]; intros vs x Hvs E; simpl in E; [discriminate|].
  destruct vs as [|v0 vs']; [discriminate|]. inversion Hvs; subst.
  destruct (N.eqb id k); [inversion E; subst; assumption|eapply IH; eassumption].
Qed.

Lemma index_list_NH h (l : list value) z x : Forall (NH h) l -> index_list l z = Some x -> NH h x.
Proof.
  intros Hl E. unfold index_list in E. destruct (_ || _); [discriminate|].
  apply nth_error_In in E. rewrite Forall_forall in Hl. auto.
Qed.

Lemma py_getitem_NH h o k x : NH h o -> py_getitem o k = Ok x -> NH h x.
Proof.
  intros Ho E. destruct h; [left; reflexivity|].
  destruct o; simpl in E; try discriminate.
  - inversion E; subst. right; reflexivity.
  - destruct (int_key k); [|discriminate]. destruct (in_bounds len z); inversion E; subst. right; reflexivity.
  - destruct (int_key k); [|discriminate]. destruct (index_list items z) eqn:Ei; inversion E; subst.
    eapply index_list_NH; [apply NH_items; exact Ho|exact Ei].
  - destruct (negb (is_hashable k)); [discriminate|]. destruct k; try discriminate. destruct s; try discriminate.
    destruct (dict_get id keys vals) eqn:Ed; inversion E; subst. eapply (dict_get_NH false id keys vals); [eapply NH_dict_vals; exact Ho|exact Ed].
  - destruct (int_key k); [|discriminate]. destruct (in_bounds (Z.of_nat len) z); inversion E; subst.
    destruct Ho as [Ho|Ho]; [discriminate|]. right. simpl in *. apply orb_false_iff in Ho. destruct Ho as [Ho _].
    apply orb_false_iff in Ho. tauto.
Qed.

Lemma map_items_NH h key : forall l keys, Forall (NH h) l -> map_items key l = Ok (Some keys) -> Forall (NH h) keys.
Proof.
  induction l as [|x r IH]; intros keys Hl E; simpl in E.
  - inversion E; subst. constructor.
  - inversion Hl; subst.
    destruct (map_item key x) as [[y|]|e|] eqn:Ex; simpl in E; try discriminate.
    destruct (map_items key r) as [[l'|]|e|] eqn:Er; simpl in E; try discriminate.
    inversion E; subst. constructor; [|eapply IH; eauto].
    unfold map_item in Ex. destruct x; try discriminate;
    (destruct (py_getitem _ key) eqn:Eg; inversion Ex; subst; [eapply py_getitem_NH; [|exact Eg]; assumption|right; reflexivity]).
Qed.

Lemma map_item_errs key x : errs_in (fun e => isT e) (map_item key x).
Proof.
  unfold map_item. destruct x; try exact I; try reflexivity;
  match goal with |- context [py_getitem ?o key] => pose proof (py_getitem_errs o key) as H; destruct (py_getitem o key) end;
  simpl in *; auto.
Qed.

Lemma map_items_errs key : forall l, errs_in (fun e => isT e) (map_items key l).
Proof.
  induction l as [|x r IH]; simpl; [exact I|].
  apply errs_in_bind; [apply map_item_errs|]. intros [y|]; [|exact I].
  apply errs_in_bind; [exact IH|intro; exact I].
Qed.

Lemma to_liquid_string_errs0 h r : NH h r -> errs_in (LV h) (to_liquid_string r).
Proof.
  intro Hr. destruct r; try (apply py_str_errs; assumption). simpl.
  destruct (huge lo || huge (lo + Z.of_nat len - 1)) eqn:E; [|exact I].
  destruct Hr as [->|Hr]; [reflexivity|]. simpl in Hr. apply orb_false_iff in Hr. destruct Hr as [Hr H3].
  apply orb_false_iff in Hr. destruct Hr as [H1 _]. rewrite H1, H3 in E. discriminate.
Qed.

Lemma all_out_errs h l : Forall (NH h) l -> errs_in (LV h) (all_out l).
Proof. induction 1; simpl; auto. apply errs_in_bind; [apply to_liquid_string_errs0; assumption|intro; assumption]. Qed.

Lemma eval_filter_errs h p s v args :
  NH h v -> Forall (NH h) args -> errs_in (LVT h) (eval_filter all_fixed p s v args).
Proof.
  intros Hv Ha.
  assert (Hmath : match s with SAbs | SAtMost | SAtLeast | SCeil | SFloor | SRound | SPlus | SMinus | STimes | SDividedBy | SModulo => True | _ => False end ->
                  errs_in (LVT h) (eval_filter all_fixed p s v args)).
  { intro Hs. apply LQ_in_LVT. apply math_sites_errs. assumption. }
  destruct s; try (apply Hmath; exact I); clear Hmath; cbn [eval_filter].
  - (* SStrTotal *) apply LV_in_LVT. apply string_filter_errs; [assumption|].
    destruct (nth_len_ok lo hi args); [|apply arity_LVT].
    apply errs_in_bind; [|intro; exact I]. apply LV_in_LVT, all_str_errs. assumption.
  - (* SRemoveLast *) apply LV_in_LVT. apply string_filter_errs; [assumption|].
    destruct args as [|a [|b r]]; try apply arity_LVT. exact I.
  - (* SEncode *) apply LV_in_LVT. apply string_filter_errs; [assumption|].
    destruct args; [|apply arity_LVT]. destruct (p_enc_ok p); [exact I|]. apply ELiquid_LVT; reflexivity.
  - (* SB64Decode *) apply LV_in_LVT. apply string_filter_errs; [assumption|].
    destruct args; [|apply arity_LVT]. destruct (p_b64 p); try exact I; apply ELiquid_LVT; reflexivity.
  - (* SB64UrlDecode *) apply LV_in_LVT. apply string_filter_errs; [assumption|].
    destruct args; [|apply arity_LVT]. destruct (p_b64url p); try exact I; apply ELiquid_LVT; reflexivity.
  - (* STruncate *) apply LV_in_LVT. apply string_filter_errs; [assumption|]. apply truncate_errs. assumption.
  - (* SSlice *) apply LV_in_LVT, liquid_filter_errs, slice_errs. assumption.
  - (* SJoin *) apply LV_in_LVT, liquid_filter_errs.
    pose proof (coerce_seq_NH h v Hv) as Hc.
    destruct args as [|a [|b r]]; try apply arity_LVT.
    + apply errs_in_bind; [apply LV_in_LVT, all_str_errs; assumption|intro; exact I].
    + apply errs_in_bind; [apply py_str_LVT; eapply Forall_NH_1; eassumption|intro].
      apply errs_in_bind; [apply LV_in_LVT, all_str_errs; assumption|intro; exact I].
  - (* SFirst *) apply LV_in_LVT, liquid_filter_errs. destruct args; [exact I|apply arity_LVT].
  - (* SLast *) apply LV_in_LVT, liquid_filter_errs. destruct args; [exact I|apply arity_LVT].
  - (* SSize *) apply LV_in_LVT, liquid_filter_errs. destruct args; [exact I|apply arity_LVT].
  - (* SSum *) apply LV_in_LVT, liquid_filter_errs. destruct args; [|apply arity_LVT]. apply LQ_in_LVT, sum_filter_errs.
  - (* SCompact *) apply LV_in_LVT, liquid_filter_errs.
    destruct args as [|key [|b r]]; [exact I| |destruct key; apply arity_LVT].
    assert (Hk : errs_in (LVT h) (match compact_key all_fixed key (coerce_seq v) with
                                  | Err ETypeError => do _ <- py_str key; Err EFilterArg
                                  | Err e => Err e | OutOfFuel => OutOfFuel | Ok l => Ok (VList l) end)).
    { pose proof (compact_key_errs key (coerce_seq v)) as H.
      destruct (compact_key all_fixed key (coerce_seq v)) as [l|e|]; simpl in H; [exact I| |contradiction].
      destruct e; try discriminate H.
      apply errs_in_bind; [apply py_str_LVT; eapply Forall_NH_1; eassumption|intro]. apply ELiquid_LVT; reflexivity. }
    destruct key; try exact Hk. exact I.
  - (* SUniq *) apply LV_in_LVT, liquid_filter_errs.
    destruct args as [|key [|b r]]; [exact I| |destruct key; apply arity_LVT].
    assert (Hk : errs_in (LVT h) (do _ <- uniq_key all_fixed key (coerce_seq v); Ok (VList (coerce_seq v)))).
    { apply errs_in_bind; [|intro; exact I]. apply LV_in_LVT, uniq_key_errs.
      - eapply Forall_NH_1; eassumption.
      - apply coerce_seq_NH; assumption. }
    destruct key; try exact Hk. exact I.
  - (* SIndex *) destruct (is_array_like v); [|apply ELiquid_LVT; reflexivity].
    apply LV_in_LVT, liquid_filter_errs. destruct args as [|a [|b r]]; try apply arity_LVT. destruct v; try exact I.
  - (* SConcat *) apply LV_in_LVT, liquid_filter_errs. destruct args as [|a [|b r]]; try apply arity_LVT;
    destruct a; try exact I; try (apply ELiquid_LVT; reflexivity); apply arity_LVT.
  - (* SDefault *) apply LV_in_LVT, liquid_filter_errs. destruct args as [|a [|b r]]; try apply arity_LVT; exact I.
  - (* SJson *) apply LV_in_LVT, liquid_filter_errs, json_filter_errs. assumption.
  - (* SNgettext *) destruct args as [|a [|b [|c r]]]; try apply arity_LVT.
    apply errs_in_bind; [apply py_str_LVT; assumption|intro].
    apply errs_in_bind; [apply py_str_LVT; eapply Forall_NH_1; eassumption|intro].
    apply errs_in_bind; [|intro; exact I].
    eapply errs_in_mono; [|apply int_arg_errs]. intros e He. unfold LVT, LV.
    apply orb_true_iff in He. destruct He as [->| ->]; [reflexivity|apply orb_true_r].
  - (* SReverse *) apply LV_in_LVT, liquid_filter_errs. destruct args; [exact I|apply arity_LVT].
  - (* SSortNatural *) apply LV_in_LVT, liquid_filter_errs.
    pose proof (coerce_seq_NH h v Hv) as Hc.
    assert (Hplain : errs_in (LVT h) (do _ <- all_str (coerce_seq v); Ok (VList (coerce_seq v)))).
    { apply errs_in_bind; [apply LV_in_LVT, all_str_errs; assumption|intro; exact I]. }
    destruct args as [|key [|b r]]; try apply arity_LVT; [exact Hplain|].
    destruct (py_truthy key); [|exact Hplain].
    apply errs_in_bind; [apply py_str_LVT; eapply Forall_NH_1; eassumption|intro].
    pose proof (map_items_errs (match key with VStr _ _ => key | _ => some_str end) (coerce_seq v)) as Hm.
    destruct (map_items _ (coerce_seq v)) as [[keys|]|e|] eqn:Em; simpl in Hm; try contradiction; try exact I.
    + apply errs_in_bind; [|intro; exact I]. apply LV_in_LVT, all_str_errs.
      (* the keys are looked-up items or nil: they hold a huge int only if the sequence does *)
      eapply map_items_NH; [exact Hc|exact Em].
    + destruct e; try discriminate Hm. unfold LVT, LV, isT. destruct h; reflexivity.
  - (* SMap *) apply LV_in_LVT, liquid_filter_errs.
    destruct args as [|key [|b r]]; try apply arity_LVT.
    apply errs_in_bind.
    + destruct (coerce_seq v); [exact I|]. apply py_str_LVT. eapply Forall_NH_1; eassumption.
    + intro. pose proof (map_items_errs (match key with VStr _ _ => key | _ => some_str end) (coerce_seq v)) as Hm.
      destruct (map_items _ (coerce_seq v)) as [[l|]|e|]; simpl in Hm; try contradiction; try exact I.
      destruct e; try discriminate Hm. apply ELiquid_LVT; reflexivity.
  - (* SGettext *) destruct (nth_len_ok lo hi args); [|apply arity_LVT].
    destruct args as [|c [|b r]]; try (apply errs_in_bind; [apply py_str_LVT; assumption|intro; exact I]).
    apply errs_in_bind; [apply py_str_LVT; assumption|intro].
    apply errs_in_bind; [|intro; exact I]. destruct c; try exact I; apply py_str_LVT; eapply Forall_NH_1; eassumption.
  - exact I. - exact I. - exact I. - exact I. - exact I. - exact I. - exact I. - exact I. - exact I.
Qed.

(* ------------------------------------------------------------------ expressions and tags; every site *)
Lemma eval_site_errs h p async_ s v args :
  NH h v -> Forall (NH h) args -> errs_in (LV h) (eval_site all_fixed p async_ s v args).
Proof.
  intros Hv Ha.
  assert (Hf : errs_in (LV h) (filter_evaluate (eval_filter all_fixed p s v args))).
  { apply filter_evaluate_errs, eval_filter_errs; assumption. }
  assert (HQ : forall {A} (r : res A), errs_in LQ r -> errs_in (LV h) r).
  { intros A r. apply errs_in_mono. apply LQ_LV. }
  destruct s; try exact Hf; clear Hf; cbn [eval_site].
  - (* SRangeLit *) destruct args as [|a [|b r]]; try exact I.
    apply errs_in_bind; [apply HQ, to_int_or_errs|intro]. apply errs_in_bind; [apply HQ, to_int_or_errs|intro; exact I].
  - (* SFor *) destruct args as [|a [|b r]]; try exact I.
    + apply errs_in_bind; [apply HQ, loop_int_errs|intro; exact I].
    + apply errs_in_bind; [apply HQ, loop_int_errs|intro]. apply errs_in_bind; [apply HQ, loop_int_errs|intro; exact I].
  - (* STablerow *) destruct args as [|a [|b r]]; try exact I.
    + apply errs_in_bind; [apply HQ, to_int_or_errs|intro; exact I].
    + apply errs_in_bind; [apply HQ, loop_int_errs|intro]. apply errs_in_bind; [apply HQ, to_int_or_errs|intro; exact I].
  - (* SContains *) destruct args as [|a [|b r]]; try exact I.
    destruct (negb (liquid_truthy v) || negb (liquid_truthy a)); [exact I|].
    destruct v; try exact I; try reflexivity.
    + apply errs_in_bind; [apply py_str_errs; eapply Forall_NH_1; eassumption|intro; exact I].
    + destruct (is_hashable a); exact I.
  - (* SRootBracket *)
    assert (Hb : errs_in (LV h) (if async_ && negb (fx_root all_fixed) then Err EAssertionError else do _ <- py_str v; Ok VUndef)).
    { replace (async_ && negb (fx_root all_fixed)) with false by (destruct async_; reflexivity).
      apply errs_in_bind; [apply py_str_errs; assumption|intro; exact I]. }
    destruct v; try exact Hb. exact I.
  - (* STranslateCount *) apply errs_in_bind; [apply HQ, to_int_or_errs|intro; exact I].
  - (* SOutAll *) apply errs_in_bind; [apply to_liquid_string_errs0; assumption|intro].
    apply errs_in_bind; [apply all_out_errs; assumption|intro; exact I].
  - (* STernary *) destruct args as [|a [|b [|c r]]]; exact I.
Qed.

(* ------------------------------------------------------------------ the theorems *)
Lemma observe_foreign r e : observe r = OForeign e -> r = Err e /\ is_liquid e = false.
Proof.
  destruct r as [u|x|]; simpl; try discriminate. destruct (is_liquid x) eqn:E; try discriminate.
  intro H. inversion H; subst. auto.
Qed.

Lemma node_handler_foreign {A} t (r : res A) e : node_handler t r = Err e -> is_liquid e = false -> r = Err e.
Proof.
  destruct r as [a|x|]; simpl; try discriminate. destruct (is_liquid x) eqn:E.
  - destruct t; try discriminate. intros H; inversion H; subst. congruence.
  - intros H; inversion H; subst. reflexivity.
Qed.

Lemma to_liquid_string_errs h r : NH h r -> errs_in (LV h) (to_liquid_string r).
Proof.
  intro Hr. destruct r; try (apply py_str_errs; assumption). simpl.
  destruct (huge lo || huge (lo + Z.of_nat len - 1)) eqn:E; [|exact I].
  destruct Hr as [->|Hr]; [reflexivity|]. simpl in Hr. apply orb_false_iff in Hr. destruct Hr as [Hr H3].
  apply orb_false_iff in Hr. destruct Hr as [H1 _]. rewrite H1, H3 in E. discriminate.
Qed.

(* every exception that escapes a render of any modelled site, with any values, in any mode, sync or async,
   is the ValueError of the int-to-text digit limit *)
Theorem only_digit_limit_escapes : forall p t async_ s v args e,
  observe (render_site all_fixed p t async_ s v args) = OForeign e -> e = EValueError.
Proof.
  intros p t a s v args e H. apply observe_foreign in H. destruct H as [H He].
  unfold render_site in H. apply node_handler_foreign in H; [|assumption].
  assert (Hall : errs_in (LV true) (do r <- eval_site all_fixed p a s v args; to_liquid_string r)).
  { apply errs_in_bind.
    - apply eval_site_errs; [left; reflexivity|]. apply Forall_forall. intros; left; reflexivity.
    - intro r. apply to_liquid_string_errs. left; reflexivity. }
  rewrite H in Hall. simpl in Hall. unfold LV in Hall. rewrite He in Hall. simpl in Hall.
  destruct e; try discriminate Hall. reflexivity.
Qed.

(* the guarded statement: when no int beyond the digit limit occurs in the values or in the result, nothing but a Liquid error escapes *)
Theorem contained_partial : forall p t async_ s v args,
  has_huge v = false -> Forall (fun a => has_huge a = false) args ->
  (forall r, eval_site all_fixed p async_ s v args = Ok r -> has_huge r = false) ->
  forall e, observe (render_site all_fixed p t async_ s v args) <> OForeign e.
Proof.
  intros p t a s v args Hv Ha Hr e H. apply observe_foreign in H. destruct H as [H He].
  unfold render_site in H. apply node_handler_foreign in H; [|assumption].
  assert (Hall : errs_in (LV false) (do r <- eval_site all_fixed p a s v args; to_liquid_string r)).
  { pose proof (eval_site_errs false p a s v args) as Hs.
    destruct (eval_site all_fixed p a s v args) as [r|x|] eqn:E.
    - cbn [bind]. apply to_liquid_string_errs. right. apply Hr. reflexivity.
    - apply Hs; [right; assumption|]. eapply Forall_impl; [|exact Ha]. intros; right; assumption.
    - apply Hs; [right; assumption|]. eapply Forall_impl; [|exact Ha]. intros; right; assumption. }
  rewrite H in Hall. simpl in Hall. unfold LV in Hall. rewrite He in Hall. discriminate.
Qed.

(* the model never runs out of fuel (it uses none) *)
Theorem never_out_of_fuel : forall p t async_ s v args, observe (render_site all_fixed p t async_ s v args) <> OFuel.
Proof.
  intros p t a s v args H.
  assert (Hall : errs_in (LV true) (do r <- eval_site all_fixed p a s v args; to_liquid_string r)).
  { apply errs_in_bind.
    - apply eval_site_errs; [left; reflexivity|]. apply Forall_forall. intros; left; reflexivity.
    - intro r. apply to_liquid_string_errs. left; reflexivity. }
  unfold render_site in H. destruct (do r <- eval_site all_fixed p a s v args; to_liquid_string r) as [u|x|]; simpl in *; try contradiction; try discriminate.
  destruct (is_liquid x); destruct t; simpl in H; try discriminate. 
  all: destruct (is_liquid x); discriminate.
Qed.

(* tolerance modes only decide what happens to LIQUID errors: whatever the repairs applied, a foreign exception escapes in one
   mode iff it escapes in every mode; and WARN / LAX never let a Liquid error out *)
Theorem modes_agree_on_foreign : forall fx p t t' async_ s v args e,
  observe (render_site fx p t async_ s v args) = OForeign e <-> observe (render_site fx p t' async_ s v args) = OForeign e.
Proof.
  intros. unfold render_site. destruct (do r <- eval_site fx p async_ s v args; to_liquid_string r) as [u|x|]; simpl.
  - tauto.
  - destruct (is_liquid x) eqn:E; destruct t, t'; simpl; rewrite ?E; try tauto; split; discriminate.
  - tauto.
Qed.

Theorem lax_suppresses_liquid : forall fx p t async_ s v args,
  t <> Strict -> observe (render_site fx p t async_ s v args) <> OLiquid.
Proof.
  intros fx p t a s v args Ht. unfold render_site.
  destruct (do r <- eval_site fx p a s v args; to_liquid_string r) as [u|x|]; simpl; try discriminate.
  destruct (is_liquid x) eqn:E; destruct t; simpl; rewrite ?E; try discriminate. contradiction.
Qed.

Lemma run_exn_all_fast_eq c : run_exn_all_fast c = run_exn_all c.
Proof.
  unfold run_exn_all_fast, run_exn_all, render_site. destruct c as [s t a p v args]. cbn [c_site c_prims c_v c_args].
  destruct s; reflexivity.
Qed.

(* ------------------------------------------------------------------ refutations *)
Definition p_plain : prims := {| p_b64 := B64Ok; p_b64url := B64Ok; p_enc_ok := true; p_mod_impossible := false |}.
Definition p_badtext : prims := {| p_b64 := B64NonUtf8; p_b64url := B64NonAscii; p_enc_ok := false; p_mod_impossible := false |}.
Definition txt (id : N) (len : Z) : value := VStr (SOther id) len.

(* for each repair k: a site and values without any huge int where the tree with every repair but k lets a foreign exception out
   (and the fully repaired tree does not) *)
Definition repair_witnesses : list (nat * (bool * site * prims * value * list value)) := [
  (0%nat, (false, STruncate, p_plain, txt 1 3, [VFloat FPInf]));                       (* truncate: inf  -> OverflowError *)
  (0%nat, (false, SFor, p_plain, VList [VInt 1], [VFloat FNInf]));                      (* for limit: -inf *)
  (1%nat, (false, SCeil, p_plain, VStr (SFloat FNan) 3, []));                           (* the text nan | ceil -> ValueError *)
  (1%nat, (false, SFloor, p_plain, VFloat FPInf, []));                                  (* inf | floor -> OverflowError *)
  (1%nat, (false, SModulo, p_plain, VFloat (FFin 1), [VInt 0]));                        (* 1.5 | modulo: 0 -> decimal.InvalidOperation *)
  (1%nat, (false, SDividedBy, p_plain, VFloat FPInf, [VFloat FPInf]));                  (* inf / inf -> decimal.InvalidOperation *)
  (2%nat, (false, SSum, p_plain, VList [txt 1 3], []));                                 (* a non-numeric text in sum *)
  (2%nat, (false, SSum, p_plain, VList [VFloat FPInf; VFloat FNInf], []));              (* inf + -inf *)
  (3%nat, (false, SRangeLit, p_plain, VNone, [VInt 2]));                                (* (nil..2) -> TypeError *)
  (4%nat, (false, STablerow, p_plain, VList [VInt 1], [VNone]));                        (* tablerow cols: nil *)
  (5%nat, (false, STranslateCount, p_plain, VList [], []));                             (* translate count: an array *)
  (6%nat, (false, SContains, p_plain, VDict [1%N] [VInt 1], [VList [VInt 1]]));         (* hash contains array -> TypeError *)
  (7%nat, (true, SRootBracket, p_plain, VInt 1, []));                                   (* async: AssertionError *)
  (8%nat, (false, SCompact, p_plain, VList [VDict [1%N] [VInt 1]], [txt 2 1]));         (* KeyError *)
  (8%nat, (false, SUniq, p_plain, VList [txt 1 2], [VInt 7]));                          (* IndexError *)
  (9%nat, (false, SIndex, p_plain, VUndef, [VInt 1]));                                  (* AttributeError *)
  (10%nat, (false, SB64Decode, p_badtext, txt 1 4, []));                                (* UnicodeDecodeError *)
  (10%nat, (false, SB64UrlDecode, p_badtext, txt 1 1, []));                             (* ValueError, non-ASCII *)
  (10%nat, (false, SEncode, p_badtext, txt 1 2, []));                                   (* UnicodeEncodeError, lone surrogate *)
  (11%nat, (false, SJson, p_plain, VInt 1, [VInt ssize_bound]))                         (* OverflowError *)
].

Definition is_foreign (o : obs) : bool := match o with OForeign _ => true | _ => false end.

Definition witness_ok (w : nat * (bool * site * prims * value * list value)) : bool :=
  let '(k, (a, s, p, v, args)) := w in
  negb (has_huge v) && forallb (fun x => negb (has_huge x)) args
  && forallb (fun t => is_foreign (observe (render_site (all_but k) p t a s v args))
                       && negb (is_foreign (observe (render_site all_fixed p t a s v args)))) [Strict; Warn; Lax].

Transparent huge too_big_for_float ssize_bound.
Lemma each_repair_needed :
  forallb witness_ok repair_witnesses = true /\ forallb (fun k => existsb (fun w => Nat.eqb (fst w) k) repair_witnesses) (seq 0 12) = true.
Proof. split; vm_compute; reflexivity. Qed.

(* the unguarded statement is false of the repaired tree: an int beyond the digit limit, given or computed *)
Lemma contained_refuted :
  observe (render_site all_fixed p_plain Strict false SOutput (VInt huge_bound) []) = OForeign EValueError /\
  (let x := VInt (2 ^ 7400) in
   has_huge x = false /\ observe (render_site all_fixed p_plain Lax false STimes x [x]) = OForeign EValueError) /\
  observe (render_site all_fixed p_plain Warn true (SStrTotal 1 1) (txt 1 3) [VList [VInt (- huge_bound)]]) = OForeign EValueError.
Proof. repeat split; vm_compute; reflexivity. Qed.

(* the guard of contained_partial is satisfiable, on a case that reaches the converted exceptions *)
Lemma partial_nonvacuous :
  let v := VStr (SFloat FNan) 3 in
  has_huge v = false /\ (forall r, eval_site all_fixed p_plain false SCeil v [] = Ok r -> has_huge r = false) /\
  observe (render_site all_fixed p_plain Strict false SCeil v []) = OLiquid /\
  observe (render_site all_fixed p_plain Lax false SCeil v []) = OOk.
Proof. repeat split; try (vm_compute; reflexivity). intros r H. vm_compute in H. discriminate. Qed.
Opaque huge too_big_for_float ssize_bound.
