(* Termination of rendering: the context-depth bookkeeping that cuts recursive partials off.
     RenderContext.extend   (context.py): ContextDepthError when scope.size() > context_depth_limit, else push
     RenderContext.copy     (context.py): ContextDepthError when _copy_depth > context_depth_limit, else a fresh context
                                          with _copy_depth + 1 and a new scope chain (locals, globals, builtins, counters)
     include                (include_tag.py): extend, then BoundTemplate.render_with_context (which extends again)
     render                 (render_tag.py):  copy, then render_with_context in the new context
     call                   (macro_tag.py):   copy, then the macro's block in the new context (whose macro table is empty)
     for                    (for_tag.py):     context.loop -> extend
     if / unless / case / capture ...:        no bookkeeping, only Python frames
     render_with_context    (template.py):    per top-level node, a Liquid error goes to Environment.error
                                              (re-raised in strict mode, dropped otherwise) -- in partials too
     _build_block_stacks    (extends_tag.py): iterative walk up the extends chain with a seen set
   plus the Python frames each construct keeps on the stack while its body runs (constants measured on the
   implementation by the check).  Executable definitions only. *)
From LiquidVerif Require Import Prelude.

Inductive tnode :=
| TText                                   (* one character of output; anything that neither nests nor recurses *)
| TBlock (body : list tnode)              (* if / unless / case / capture / ifchanged *)
| TFor (n : nat) (body : list tnode)      (* n iterations *)
| TInclude (name : nat)
| TRender (name : nat)
| TCall (body : list tnode).              (* call of a macro with this body *)

Definition loader := list (list tnode).    (* template k is the k-th entry *)

Record limits := { context_depth_limit : nat }.

(* Python frames kept on the stack while the body of a construct runs *)
Record costs := {
  fr_base : nat;          (* frames below the first node of the top-level template (caller + render + render_with_context) *)
  fr_block : nat;         (* if node -> its block -> a child node *)
  fr_for : nat;
  fr_include : nat;       (* include node -> render_with_context -> a node of the partial *)
  fr_render : nat;
  fr_call : nat;
  fr_leaf : nat           (* an output statement evaluating a filter *)
}.

Definition initial_scope : nat := 4.       (* locals, globals, builtins, counters *)

(* outcome of a render call: characters written (they stay in the buffer when the call then raises), the largest number of
   frames in use at one of them, and the exception the call ended with, if any *)
Record out := { texts : N; peak : nat; raised : option exn }.
Definition ok (t : N) (p : nat) : out := {| texts := t; peak := p; raised := None |}.
Definition fail (e : exn) : out := {| texts := 0; peak := 0; raised := Some e |}.
(* a, which did not raise, followed by b *)
Definition join (a b : out) : out := {| texts := texts a + texts b; peak := Nat.max (peak a) (peak b); raised := raised b |}.
Definition clear (a : out) : out := {| texts := texts a; peak := peak a; raised := None |}.

Section Exec.
  Variable lax : bool.                     (* Mode.LAX / WARN: render_with_context drops Liquid errors *)
  Variable lim : nat.                      (* context_depth_limit *)
  Variable c : costs.
  Variable ld : loader.

  (* a then (unless a raised) k; None is fuel exhaustion *)
  Definition andthen (a : option out) (k : unit -> option out) : option out :=
    match a with
    | None => None
    | Some x => match raised x with
                | Some _ => Some x
                | None => match k tt with None => None | Some y => Some (join x y) end
                end
    end.

  Section Open.
    (* ex: the render method of a node.  sz = scope.size(), cd = _copy_depth, fr = frames in use when it is entered *)
    Variable ex : nat -> nat -> nat -> tnode -> option out.

    (* BlockNode.render: the first error propagates *)
    Fixpoint blk (sz cd fr : nat) (ns : list tnode) : option out :=
      match ns with
      | [] => Some (ok 0 0)
      | x :: r => andthen (ex sz cd fr x) (fun _ => blk sz cd fr r)
      end.

    (* Environment.error in the loop of render_with_context *)
    Definition handle_top (a : out) : out :=
      match raised a with Some e => if lax && is_liquid e then clear a else a | None => a end.

    Fixpoint top (sz cd fr : nat) (ns : list tnode) : option out :=
      match ns with
      | [] => Some (ok 0 0)
      | x :: r => andthen (option_map handle_top (ex sz cd fr x)) (fun _ => top sz cd fr r)
      end.

    (* render_with_context: extend, then the loop *)
    Definition rwc (sz cd fr : nat) (ns : list tnode) : option out :=
      if Nat.ltb lim sz then Some (fail EContextDepth) else top (S sz) cd fr ns.

    Fixpoint iter (k : nat) (sz cd fr : nat) (body : list tnode) : option out :=
      match k with
      | O => Some (ok 0 0)
      | S k' => andthen (blk sz cd fr body) (fun _ => iter k' sz cd fr body)
      end.

    Definition step (sz cd fr : nat) (n : tnode) : option out :=
      match n with
      | TText => Some (ok 1 (fr + fr_leaf c))
      | TBlock body => blk sz cd (fr + fr_block c) body
      | TFor k body =>
          if Nat.ltb lim sz then Some (fail EContextDepth) else iter k (S sz) cd (fr + fr_for c) body
      | TInclude name =>
          if Nat.ltb 0 cd then Some (fail EDisabledTag)     (* render and call copy the context with the include tag disabled *)
          else match nth_error ld name with
               | None => Some (fail ENotFound)
               | Some body => if Nat.ltb lim sz then Some (fail EContextDepth) else rwc (S sz) cd (fr + fr_include c) body
               end
      | TRender name =>
          match nth_error ld name with
          | None => Some (fail ENotFound)
          | Some body => if Nat.ltb lim cd then Some (fail EContextDepth) else rwc initial_scope (S cd) (fr + fr_render c) body
          end
      | TCall body =>
          if Nat.ltb lim cd then Some (fail EContextDepth) else blk initial_scope (S cd) (fr + fr_call c) body
      end.
  End Open.

  Fixpoint exec (f : nat) (sz cd fr : nat) (n : tnode) {struct f} : option out :=
    match f with O => None | S f' => step (exec f') sz cd fr n end.

  (* BoundTemplate.render of template [name]: render_with_context on a fresh context *)
  Definition render_template (f : nat) (name : nat) : option out :=
    match nth_error ld name with
    | None => Some (fail ENotFound)
    | Some body => rwc (exec f) initial_scope 0 (fr_base c) body
    end.
End Exec.

(* nesting depth of a node inside its own template *)
Fixpoint tdepth (n : tnode) : nat :=
  match n with
  | TText | TInclude _ | TRender _ => 0
  | TBlock b | TFor _ b | TCall b =>
      S ((fix ld (l : list tnode) : nat := match l with [] => 0 | x :: r => Nat.max (tdepth x) (ld r) end) b)
  end.
Fixpoint ldepth (l : list tnode) : nat := match l with [] => 0 | x :: r => Nat.max (tdepth x) (ldepth r) end.
Fixpoint lddepth (ld : loader) : nat := match ld with [] => 0 | t :: r => Nat.max (ldepth t) (lddepth r) end.

(* how many more templates can be entered from a state: the measure behind the fuel bound *)
Definition mu (lim sz cd : nat) : nat := (lim + 2 - cd) * (lim + 3) + (lim + 2 - sz).
Definition fuel_bound (lim : nat) (ld : loader) : nat := (lddepth ld + 2) * (mu lim 0 0 + 1).

(* ---- the extends chain (extends_tag._build_block_stacks): parent k = the template that template k extends ---- *)
Fixpoint nmem (x : nat) (l : list nat) : bool := match l with [] => false | y :: r => Nat.eqb x y || nmem x r end.

Fixpoint extends_chain (f : nat) (parent : list (option nat)) (seen : list nat) (cur : nat) : res nat :=
  match f with
  | O => OutOfFuel
  | S f' =>
      match nth_error parent cur with
      | None => Err ENotFound                           (* no such template *)
      | Some None => Ok cur                             (* no extends tag: this is the base template *)
      | Some (Some p) =>
          if nmem p seen then Err EInherit              (* circular extends *)
          else match nth_error parent p with
               | None => Err ENotFound
               | Some _ => extends_chain f' parent (p :: seen) p
               end
      end
  end.

Definition base_of (parent : list (option nat)) (leaf : nat) : res nat :=
  extends_chain (S (length parent)) parent [] leaf.

(* ---- the families the check runs: template 0 = d nested if blocks around [k] recursive tags, after one character ---- *)
Fixpoint nest (d : nat) (inner : list tnode) : list tnode :=
  match d with O => inner | S d' => [TBlock (nest d' inner)] end.

Inductive rkind := KInclude | KRender.
Definition rtag (k : rkind) : tnode := match k with KInclude => TInclude 0 | KRender => TRender 0 end.
Definition self_family (k : rkind) (d copies : nat) : loader := [TText :: nest d (repeat (rtag k) copies)].

(* frames measured on CPython 3.12 for the synchronous render path (the check re-measures them on every run) *)
Definition cpython_sync : costs :=
  {| fr_base := 2; fr_block := 5; fr_for := 5; fr_include := 3; fr_render := 3; fr_call := 5; fr_leaf := 5 |}.
Definition cpython_async : costs :=
  {| fr_base := 8; fr_block := 4; fr_for := 4; fr_include := 3; fr_render := 3; fr_call := 4; fr_leaf := 5 |}.
Definition recursion_limit : nat := 1000.

(* what the check compares: outcome class, number of characters, and the largest number of frames in use *)
Inductive tobs := TOk (texts : N) (peak : nat) | TErr (e : exn) | TFuel.
Record tcase := { tc_lax : bool; tc_lim : nat; tc_async : bool; tc_ld : loader }.

Definition run_terminate (t : tcase) : tobs :=
  match render_template (tc_lax t) (tc_lim t) (if tc_async t then cpython_async else cpython_sync) (tc_ld t)
          (fuel_bound (tc_lim t) (tc_ld t)) 0 with
  | Some o => match raised o with Some e => TErr e | None => TOk (texts o) (peak o) end
  | None => TFuel
  end.

(* expected: outcome class, characters, and -- when measured -- the frames seen by a probe at the deepest character *)
Definition tobs_eqb (a : tobs) (b : tobs * bool) : bool :=
  match a, fst b with
  | TOk t p, TOk t' p' => N.eqb t t' && (negb (snd b) || Nat.eqb p p')
  | TErr e, TErr e' => exn_eqb e e'
  | _, _ => false
  end.

(* the frames in use at the last character written before the depth limit cuts a self-recursive template off:
   a lower bound on what the recursion needs *)
Definition frames_needed (cs : costs) (lim : nat) (k : rkind) (d : nat) : nat :=
  let ld := self_family k d 1 in
  match render_template true lim cs ld (fuel_bound lim ld) 0 with Some o => peak o | None => 0 end.

(* rendering template 0 of an extends family: None = it renders, Some e = it raises e *)
Record xcase := { xc_parent : list (option nat) }.
Definition run_extends (x : xcase) : option exn :=
  match base_of (xc_parent x) 0 with Ok _ => None | Err e => Some e | OutOfFuel => Some EOtherForeign end.

(* ---- the Python stack.  A run that needs more frames than the interpreter provides overflows.  BoundTemplate.render /
   render_async catch the RecursionError once the stack has unwound and hand a ContextDepthError to Environment.error;
   Environment.from_string converts an overflow that happens while a partial is being parsed deep inside a render.
   convert = false is the behaviour before that repair (the RecursionError escaped). ---- *)
Definition overflow_exn (convert : bool) : exn := if convert then EContextDepth else ERecursionError.

(* strict-mode outcome of rendering a template that includes / renders itself from inside d nested blocks, on a stack of
   [stack] frames *)
Definition self_outcome (convert : bool) (stack lim : nat) (cs : costs) (k : rkind) (d : nat) : tobs :=
  if Nat.ltb stack (frames_needed cs lim k d) then TErr (overflow_exn convert)
  else let ld := self_family k d 1 in
       match render_template false lim cs ld (fuel_bound lim ld) 0 with
       | Some o => match raised o with Some e => TErr e | None => TOk (texts o) (peak o) end
       | None => TFuel
       end.
Definition self_outcome_old := self_outcome false.
