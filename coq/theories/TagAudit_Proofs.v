From LiquidVerif Require Import Prelude TagAudit.

(* ------------------------------------------------------------------ *)
(* membership                                                          *)

Lemma mem_In x l : mem x l = true <-> In x l.
Proof.
  induction l as [|y l IH]; simpl; [split; [discriminate|tauto]|].
  rewrite orb_true_iff, IH, str_eqb_eq. split; intros [H|H]; auto.
Qed.

Lemma mem_false_In x l : mem x l = false <-> ~ In x l.
Proof. rewrite <- mem_In. destruct (mem x l); split; congruence. Qed.

Lemma mem_app x a b : mem x (a ++ b) = mem x a || mem x b.
Proof. induction a as [|y a IH]; simpl; [reflexivity|]. rewrite IH, orb_assoc. reflexivity. Qed.

Lemma starts_end_app s : starts_end (s_end ++ s) = true.
Proof. reflexivity. Qed.

Lemma drop3_app s : drop3 (s_end ++ s) = s.
Proof. reflexivity. Qed.

Lemma forallb_In {A} (f : A -> bool) l x : forallb f l = true -> In x l -> f x = true.
Proof. rewrite forallb_forall. auto. Qed.

(* ------------------------------------------------------------------ *)
(* the main loop never fails (after the fix)                           *)

Lemma audit_loop_total e bt et : forall toks stack r,
  exists sr, audit_loop false e bt et toks stack r = Ok sr.
Proof.
  induction toks as [|t rest IH]; intros stack r; cbn [audit_loop]; [eauto|].
  destruct (mem t bt); [apply IH|].
  destruct (mem t et); [|apply IH].
  destruct stack; apply IH.
Qed.

Theorem audit_total e toks : exists r, audit e toks = Ok r.
Proof.
  unfold audit, audit_gen.
  destruct (audit_loop_total e (map drop3 (dedup (end_tags_of toks)) ++ block_names e)
              (dedup (end_tags_of toks)) toks [] empty_report) as [sr ->].
  cbn [bind]. eauto.
Qed.

(* ------------------------------------------------------------------ *)
(* facts read off wf_envb                                              *)

Section WF.
  Variable e : tagenv.
  Hypothesis Hwf : wf_envb e = true.

  Let H7 : forallb (fun ne => match snd ne with [] => true | en => str_eqb en (s_end ++ fst ne) end) (blocks e) = true
           /\ forallb (fun n => negb (starts_end n)) (registered e) = true
           /\ forallb (fun n => negb (starts_end n)) (all_inner e) = true
           /\ forallb (fun n => negb (mem n (inlines e))) (block_names e) = true
           /\ forallb (fun n => negb (is_loop_interrupt n)) (block_names e) = true
           /\ forallb (fun n => negb (mem n (block_names e))) (all_inner e) = true
           /\ nodupb (block_names e) = true.
  Proof. unfold wf_envb in Hwf. rewrite !andb_true_iff in Hwf. tauto. Qed.

  Lemma wf_end_shape n en : In (n, en) (blocks e) -> en = [] \/ en = s_end ++ n.
  Proof.
    intro Hin. destruct H7 as (Ha & _). pose proof (forallb_In _ _ _ Ha Hin) as H. cbn [fst snd] in H.
    destruct en as [|c en']; [left; reflexivity|right]. apply str_eqb_eq. exact H.
  Qed.

  Lemma wf_registered_noend n : In n (registered e) -> starts_end n = false.
  Proof. intro Hin. destruct H7 as (_ & Hb & _). apply negb_true_iff, (forallb_In _ _ _ Hb Hin). Qed.

  Lemma wf_block_noend n : In n (block_names e) -> starts_end n = false.
  Proof. intro H. apply wf_registered_noend. unfold registered. apply in_or_app. left. exact H. Qed.

  Lemma wf_inline_noend n : In n (inlines e) -> starts_end n = false.
  Proof. intro H. apply wf_registered_noend. unfold registered. apply in_or_app. right. exact H. Qed.

  Lemma wf_inner_noend n : In n (all_inner e) -> starts_end n = false.
  Proof. intro Hin. destruct H7 as (_ & _ & Hc & _). apply negb_true_iff, (forallb_In _ _ _ Hc Hin). Qed.

  Lemma wf_block_not_inline n : In n (block_names e) -> mem n (inlines e) = false.
  Proof. intro Hin. destruct H7 as (_ & _ & _ & Hd & _). apply negb_true_iff, (forallb_In _ _ _ Hd Hin). Qed.

  Lemma wf_block_not_interrupt n : In n (block_names e) -> is_loop_interrupt n = false.
  Proof. intro Hin. destruct H7 as (_ & _ & _ & _ & He & _). apply negb_true_iff, (forallb_In _ _ _ He Hin). Qed.

  (* every registered end tag is "end" ++ the name of its block *)
  Lemma registered_end_shape t : In t (registered_ends e) -> exists n, In n (block_names e) /\ t = s_end ++ n.
  Proof.
    unfold registered_ends, block_names. rewrite in_map_iff. intros ([n en] & Ht & Hin). cbn [fst snd] in Ht.
    exists n. split; [apply in_map_iff; exists (n, en); auto|].
    destruct (wf_end_shape n en Hin) as [->| ->]; subst t; reflexivity.
  Qed.

  Lemma end_of_shape top en : end_of (blocks e) top = Some en -> en = s_end ++ top.
  Proof.
    assert (Hgen : forall l, (forall n en, In (n, en) l -> en = [] \/ en = s_end ++ n) ->
                    end_of l top = Some en -> en = s_end ++ top).
    { induction l as [|[n en0] l IH]; intros Hl; cbn [end_of]; [discriminate|].
      destruct (str_eqb_spec n top) as [->|Hne].
      - intro E. inversion E; subst. destruct (Hl top en0 (or_introl eq_refl)) as [->| ->]; reflexivity.
      - apply IH. intros n' en' H'. apply Hl. right. exact H'. }
    apply Hgen. exact wf_end_shape.
  Qed.

  Lemma interrupt_not_registered_tag t : is_loop_interrupt t = true -> mem t (registered_tags e) = false.
  Proof.
    intro Hi. apply mem_false_In. unfold registered_tags. rewrite filter_In. intros [_ H].
    unfold is_loop_interrupt in Hi. rewrite Hi in H. discriminate.
  Qed.

  Lemma registered_tag_mem t : In t (registered e) -> is_loop_interrupt t = false -> mem t (registered_tags e) = true.
  Proof.
    intros Hin Hi. apply mem_In. unfold registered_tags. rewrite filter_In. split; [exact Hin|].
    unfold is_loop_interrupt in Hi. rewrite Hi. reflexivity.
  Qed.

  Lemma interrupt_noend t : is_loop_interrupt t = true -> starts_end t = false.
  Proof.
    unfold is_loop_interrupt. rewrite orb_true_iff, !str_eqb_eq. intros [->| ->]; reflexivity.
  Qed.

  Lemma enclosing_inner top t : mem top (enclosing e t) = true -> In t (all_inner e).
  Proof.
    rewrite mem_In. unfold enclosing. rewrite in_map_iff. intros ([b ts] & _ & Hin).
    rewrite filter_In in Hin. destruct Hin as [Hin Hm]. cbn [snd] in Hm.
    unfold all_inner. rewrite in_flat_map. exists (b, ts). split; [exact Hin|]. apply mem_In. exact Hm.
  Qed.

  (* ---------------------------------------------------------------- *)
  (* every end-looking token of a well-nested sequence is a registered end tag *)

  Lemma wn_end_tokens : forall toks stack, wellnested_from e toks stack = true ->
    forall t, In t toks -> starts_end t = true -> In t (registered_ends e).
  Proof.
    induction toks as [|t rest IH]; intros stack Hwn u Hin Hse; [destruct Hin|].
    cbn [wellnested_from] in Hwn.
    destruct (mem t (block_names e)) eqn:Eb.
    - destruct Hin as [<-|Hin]; [|exact (IH _ Hwn u Hin Hse)].
      rewrite (wf_block_noend t) in Hse by (apply mem_In; exact Eb). discriminate.
    - destruct (mem t (registered_ends e)) eqn:Ee.
      + destruct Hin as [<-|Hin]; [apply mem_In; exact Ee|].
        destruct stack as [|top stack']; [discriminate|].
        destruct (end_of (blocks e) top) as [en|]; [|discriminate].
        destruct (str_eqb en t); [|discriminate]. exact (IH _ Hwn u Hin Hse).
      + destruct (is_loop_interrupt t) eqn:Ei.
        * destruct (existsb (fun b => mem b stack) (enclosing e t)); [|discriminate].
          destruct Hin as [<-|Hin]; [|exact (IH _ Hwn u Hin Hse)].
          rewrite (interrupt_noend t Ei) in Hse. discriminate.
        * destruct (mem t (inlines e)) eqn:Eil.
          -- destruct Hin as [<-|Hin]; [|exact (IH _ Hwn u Hin Hse)].
             rewrite (wf_inline_noend t) in Hse by (apply mem_In; exact Eil). discriminate.
          -- destruct stack as [|top stack']; [discriminate|].
             destruct (mem top (enclosing e t)) eqn:Een; [|discriminate].
             destruct Hin as [<-|Hin]; [|exact (IH _ Hwn u Hin Hse)].
             rewrite (wf_inner_noend t (enclosing_inner top t Een)) in Hse. discriminate.
  Qed.

  (* ---------------------------------------------------------------- *)
  (* the loop on a well-nested sequence: nothing is reported, the stack is emptied *)

  Lemma loop_silent bt et :
    (forall x, mem x bt = mem x (block_names e)) ->
    (forall x, mem x et = true -> starts_end x = true) ->
    forall toks stack r,
    (forall t, In t toks -> starts_end t = true -> mem t et = true) ->
    wellnested_from e toks stack = true ->
    audit_loop false e bt et toks stack r = Ok ([], r).
  Proof.
    intros Hbt Het. induction toks as [|t rest IH]; intros stack r Hin Hwn.
    - cbn [wellnested_from] in Hwn. destruct stack; [reflexivity|discriminate].
    - assert (Hin' : forall u, In u rest -> starts_end u = true -> mem u et = true).
      { intros u Hu. apply Hin. right. exact Hu. }
      cbn [wellnested_from] in Hwn. cbn [audit_loop]. rewrite Hbt.
      destruct (mem t (block_names e)) eqn:Eb.
      + (* block tag *)
        assert (Hb : In t (block_names e)) by (apply mem_In; exact Eb).
        unfold classify. rewrite registered_tag_mem;
          [| unfold registered; apply in_or_app; left; exact Hb | apply wf_block_not_interrupt, Hb].
        apply IH; assumption.
      + destruct (mem t (registered_ends e)) eqn:Ee.
        * (* end tag *)
          assert (He : In t (registered_ends e)) by (apply mem_In; exact Ee).
          destruct (registered_end_shape t He) as (n & Hn & ->).
          rewrite (Hin (s_end ++ n) (or_introl eq_refl) (starts_end_app n)).
          destruct stack as [|top stack']; [discriminate|].
          destruct (end_of (blocks e) top) as [en|] eqn:Eo; [|discriminate].
          destruct (str_eqb_spec en (s_end ++ n)) as [E|_]; [|discriminate].
          apply end_of_shape in Eo. rewrite Eo in E. injection E as E. subst n.
          unfold pop_report. rewrite drop3_app, str_eqb_refl. apply IH; assumption.
        * assert (Hnet : mem t et = false).
          { destruct (mem t et) eqn:Em; [|reflexivity]. exfalso.
            pose proof (Het t Em) as Hse.
            (* an end-looking token that is not a registered end cannot occur in a well-nested list *)
            assert (Hwn' : wellnested_from e (t :: rest) stack = true).
            { cbn [wellnested_from]. rewrite Eb, Ee. exact Hwn. }
            pose proof (wn_end_tokens (t :: rest) stack Hwn' t (or_introl eq_refl) Hse) as Hr.
            apply mem_In in Hr. congruence. }
          rewrite Hnet.
          destruct (is_loop_interrupt t) eqn:Ei.
          -- destruct (existsb (fun b => mem b stack) (enclosing e t)) eqn:Eex; [|discriminate].
             unfold classify. rewrite (interrupt_not_registered_tag t Ei).
             destruct (enclosing e t) as [|b bs] eqn:Een; [discriminate|]. rewrite Eex. apply IH; assumption.
          -- destruct (mem t (inlines e)) eqn:Eil.
             ++ unfold classify. rewrite registered_tag_mem;
                  [| unfold registered; apply in_or_app; right; apply mem_In; exact Eil | exact Ei].
                apply IH; assumption.
             ++ destruct stack as [|top stack']; [discriminate|].
                destruct (mem top (enclosing e t)) eqn:Een; [|discriminate].
                unfold classify. destruct (mem t (registered_tags e)); [apply IH; assumption|].
                destruct (enclosing e t) as [|b bs] eqn:Eenc; [discriminate|].
                assert (Hex : existsb (fun b0 => mem b0 (top :: stack')) (b :: bs) = true).
                { apply existsb_exists. exists top. split; [apply mem_In; exact Een|].
                  cbn [mem]. rewrite str_eqb_refl. reflexivity. }
                rewrite Hex. apply IH; assumption.
  Qed.

  Lemma mem_dedup x l : mem x (dedup l) = mem x l.
  Proof.
    induction l as [|y l IH]; [reflexivity|]. cbn [dedup].
    destruct (mem y l) eqn:Ey; cbn [mem]; rewrite IH; [|reflexivity].
    destruct (str_eqb_spec x y) as [->|_]; [rewrite Ey; reflexivity|reflexivity].
  Qed.

  Lemma mem_end_tags x toks : mem x (dedup (end_tags_of toks)) = true <-> In x toks /\ starts_end x = true.
  Proof. rewrite mem_dedup, mem_In. unfold end_tags_of. apply filter_In. Qed.

  Lemma flat_map_nil {A B} (f : A -> list B) l : (forall x, In x l -> f x = []) -> flat_map f l = [].
  Proof.
    induction l as [|x l IH]; intro H; [reflexivity|]. cbn [flat_map].
    rewrite (H x (or_introl eq_refl)), IH; [reflexivity|]. intros y Hy. apply H. right. exact Hy.
  Qed.

  (* C21: a source the (tag-level) grammar accepts raises no alarm at all *)
  Theorem no_false_alarm toks : wellnested e toks = true -> audit e toks = Ok empty_report.
  Proof.
    intro Hwn. unfold wellnested in Hwn. unfold audit, audit_gen.
    set (et := dedup (end_tags_of toks)).
    assert (Het : forall x, mem x et = true -> starts_end x = true).
    { intros x Hx. apply mem_end_tags in Hx. tauto. }
    assert (Hreg : forall x, mem x et = true -> In x (registered_ends e)).
    { intros x Hx. apply mem_end_tags in Hx. destruct Hx as [Hin Hse]. exact (wn_end_tokens toks [] Hwn x Hin Hse). }
    assert (Hbt : forall x, mem x (map drop3 et ++ block_names e) = mem x (block_names e)).
    { intro x. rewrite mem_app. destruct (mem x (block_names e)) eqn:Eb; [apply orb_true_r|]. rewrite orb_false_r.
      apply mem_false_In. rewrite in_map_iff. intros (u & Hu & Hin).
      destruct (registered_end_shape u (Hreg u (proj2 (mem_In u et) Hin))) as (n & Hn & ->).
      rewrite drop3_app in Hu. subst n. apply mem_In in Hn. congruence. }
    rewrite (loop_silent _ et Hbt Het toks [] empty_report); [| |exact Hwn].
    - cbn [bind fst snd rev unclosed unexpected unknown empty_report app].
      rewrite flat_map_nil; [reflexivity|].
      intros t Ht. apply mem_In in Ht.
      destruct (registered_end_shape t (Hreg t Ht)) as (n & Hn & ->).
      unfold bad_end. rewrite drop3_app, (wf_block_not_inline n Hn).
      replace (mem (s_end ++ n) (registered_ends e)) with true by (symmetry; apply mem_In, Hreg, Ht).
      reflexivity.
    - intros t Hin Hse. apply mem_end_tags. auto.
  Qed.
End WF.

(* ------------------------------------------------------------------ *)
(* unknown tags are always reported                                    *)

Lemma loop_unknown_grows old e bt et : forall toks stack r sr,
  audit_loop old e bt et toks stack r = Ok sr -> forall x, In x (unknown r) -> In x (unknown (snd sr)).
Proof.
  induction toks as [|t rest IH]; intros stack r sr H x Hx; cbn [audit_loop] in H.
  - inversion H; subst. exact Hx.
  - assert (Hc : forall st, In x (unknown (classify e t st r))).
    { intro st. unfold classify. destruct (mem t (registered_tags e)); [exact Hx|].
      destruct (enclosing e t); [cbn; apply in_or_app; left; exact Hx|].
      destruct (existsb _ _); exact Hx. }
    destruct (mem t bt); [exact (IH _ _ _ H x (Hc _))|].
    destruct (mem t et).
    + destruct stack as [|top stack'].
      * destruct old; [discriminate|]. exact (IH _ _ _ H x Hx).
      * apply (IH _ _ _ H x). unfold pop_report. destruct (str_eqb top (drop3 t)); exact Hx.
    + exact (IH _ _ _ H x (Hc _)).
Qed.

Lemma loop_reports_unknown old e bt et t :
  mem t et = false -> mem t (registered_tags e) = false -> enclosing e t = [] ->
  forall toks stack r sr, In t toks -> audit_loop old e bt et toks stack r = Ok sr -> In t (unknown (snd sr)).
Proof.
  intros Het Hreg Henc. induction toks as [|u rest IH]; intros stack r sr Hin H; [destruct Hin|].
  cbn [audit_loop] in H. destruct Hin as [->|Hin].
  - rewrite Het in H.
    assert (Hc : forall st, In t (unknown (classify e t st r))).
    { intro st. unfold classify. rewrite Hreg, Henc. cbn. apply in_or_app. right. left. reflexivity. }
    destruct (mem t bt); exact (loop_unknown_grows _ _ _ _ _ _ _ _ H t (Hc _)).
  - destruct (mem u bt); [exact (IH _ _ _ Hin H)|].
    destruct (mem u et); [|exact (IH _ _ _ Hin H)].
    destruct stack as [|top stack']; [destruct old; [discriminate|]|]; exact (IH _ _ _ Hin H).
Qed.

(* a tag that is neither registered, nor an inner tag of any block, nor end-like is reported as unknown *)
Theorem unknown_reported e toks t r :
  In t toks -> starts_end t = false -> mem t (registered_tags e) = false -> enclosing e t = [] ->
  audit e toks = Ok r -> In t (unknown r).
Proof.
  intros Hin Hse Hreg Henc. unfold audit, audit_gen.
  destruct (audit_loop false e _ _ toks [] empty_report) as [sr| |] eqn:El; cbn [bind]; try discriminate.
  intro H. inversion H; subst. cbn [unknown]. apply in_or_app. left.
  assert (Hnet : mem t (dedup (end_tags_of toks)) = false).
  { destruct (mem t (dedup (end_tags_of toks))) eqn:Em; [|reflexivity].
    rewrite mem_dedup, mem_In in Em. unfold end_tags_of in Em. apply filter_In in Em. destruct Em. congruence. }
  exact (loop_reports_unknown false e _ _ t Hnet Hreg Henc toks [] empty_report sr Hin El).
Qed.

(* ------------------------------------------------------------------ *)
(* a block tag with no end tag anywhere is always reported as unclosed *)

Lemma count_app x a b : count x (a ++ b) = count x a + count x b.
Proof. induction a as [|y a IH]; simpl; [reflexivity|]. rewrite IH. lia. Qed.

Lemma count_rev x l : count x (rev l) = count x l.
Proof. induction l as [|y l IH]; simpl; [reflexivity|]. rewrite count_app, IH. simpl. lia. Qed.

Lemma classify_unclosed e t st r : unclosed (classify e t st r) = unclosed r.
Proof.
  unfold classify. destruct (mem t (registered_tags e)); [reflexivity|].
  destruct (enclosing e t); [reflexivity|]. destruct (existsb _ _); reflexivity.
Qed.

Lemma loop_unclosed_count old e bt et x :
  mem x bt = true -> mem x et = false ->
  (forall u, mem u et = true -> drop3 u <> x) ->
  forall toks stack r sr, audit_loop old e bt et toks stack r = Ok sr ->
  count x (unclosed (snd sr)) + count x (fst sr) = count x (unclosed r) + count x stack + count x toks.
Proof.
  intros Hbt Het Hno. induction toks as [|t rest IH]; intros stack r sr H; cbn [audit_loop] in H.
  - inversion H; subst. simpl. lia.
  - cbn [count]. destruct (str_eqb_spec x t) as [<-|Hne].
    + rewrite Hbt in H. rewrite (IH _ _ _ H), classify_unclosed. cbn [count]. rewrite str_eqb_refl. lia.
    + destruct (mem t bt).
      * rewrite (IH _ _ _ H), classify_unclosed. cbn [count]. destruct (str_eqb_spec x t); [contradiction|]. lia.
      * destruct (mem t et) eqn:Em.
        -- destruct stack as [|top stack'].
           ++ destruct old; [discriminate|]. rewrite (IH _ _ _ H). simpl. lia.
           ++ rewrite (IH _ _ _ H). unfold pop_report. cbn [count].
              destruct (str_eqb_spec top (drop3 t)) as [E|E].
              ** destruct (str_eqb_spec x top) as [->|_]; [exfalso; exact (Hno t Em (eq_sym E))|]. lia.
              ** cbn [unclosed]. rewrite count_app. cbn [count]. destruct (str_eqb x top); lia.
        -- rewrite (IH _ _ _ H), classify_unclosed. lia.
Qed.

Theorem unclosed_reported e toks x r :
  In x (block_names e) -> starts_end x = false ->
  (forall u, In u toks -> starts_end u = true -> drop3 u <> x) ->
  audit e toks = Ok r -> count x (unclosed r) = count x toks.
Proof.
  intros Hb Hse Hno. unfold audit, audit_gen.
  destruct (audit_loop false e _ _ toks [] empty_report) as [sr| |] eqn:El; cbn [bind]; try discriminate.
  intro H. inversion H; subst. cbn [unclosed]. rewrite count_app, count_rev.
  eapply loop_unclosed_count in El.
  - cbn in El. exact El.
  - rewrite mem_app. apply orb_true_iff. right. apply mem_In. exact Hb.
  - destruct (mem x (dedup (end_tags_of toks))) eqn:Em; [|reflexivity].
    rewrite mem_dedup, mem_In in Em. unfold end_tags_of in Em. apply filter_In in Em. destruct Em. congruence.
  - intros u Hu. rewrite mem_dedup, mem_In in Hu. unfold end_tags_of in Hu. apply filter_In in Hu.
    destruct Hu. apply Hno; assumption.
Qed.
