(* Lex_C20_Proofs.v — the offset invariant of the scanner (every token's start offset lies inside the source and,
   for output / expression / tag tokens, the token's value is found at that offset), the same for the inner tokens
   of a liquid tag, composition of offsets, and totality/correctness of the line-column computation. *)
From Coq Require Import ZArith NArith List Bool Lia ZifyBool.
From LiquidVerif Require Import Prelude Lex LexSpec Lex_Proofs.
Import ListNotations.
Arguments hy : simpl never.
Arguments nl : simpl never.
Arguments hash : simpl never.

(* ---------------------------------------------------------------- lengths *)
Lemma ws_len_le s : ws_len s <= length s.
Proof. induction s; simpl; [lia|]. destruct (is_space a); simpl; lia. Qed.

Lemma word_len_le s : word_len s <= length s.
Proof. induction s; simpl; [lia|]. destruct (is_word a); simpl; lia. Qed.

Lemma span_len_le f s : span_len f s <= length s.
Proof. induction s; simpl; [lia|]. destruct (f a); simpl; lia. Qed.

Lemma name_len_le s : name_len s <= length s.
Proof. unfold name_len. destruct s; [simpl; lia|]. destruct (N.eqb n hash); [simpl; lia|]. apply word_len_le. Qed.

Lemma prefixb_length p s : prefixb p s = true -> length p <= length s.
Proof.
  revert s; induction p as [|a p IH]; intros s H; simpl; [lia|].
  destruct s; simpl in *; [discriminate|]. apply andb_true_iff in H as [_ H]. apply IH in H. lia.
Qed.

Lemma skipn_len {A} k (s : list A) : length (skipn k s) = length s - k.
Proof. apply skipn_length. Qed.

Lemma skipn_cons_lt {A} k (s : list A) c l : skipn k s = c :: l -> S k <= length s.
Proof. intros H. pose proof (skipn_len k s) as E. rewrite H in E. simpl in E. lia. Qed.

Lemma close_bounds e s h n : close e s = Some (h, n) -> length e <= n /\ n <= length s.
Proof.
  unfold close. intros H. pose proof (ws_len_le s) as Hw. pose proof (skipn_len (ws_len s) s) as Hk.
  destruct (prefixb (hy :: e) (skipn (ws_len s) s)) eqn:P1.
  - inversion H; subst. apply prefixb_length in P1. simpl in P1. lia.
  - destruct (prefixb e (skipn (ws_len s) s)) eqn:P2; [|discriminate].
    inversion H; subst. apply prefixb_length in P2. lia.
Qed.

Lemma find_first_bounds {A} (f : str -> option (A * nat)) m :
  (forall x a n, f x = Some (a, n) -> m <= n /\ n <= length x) ->
  forall s j a n, find_first f s = Some (j, a, n) -> j + m <= n /\ n <= length s.
Proof.
  intros Hf. induction s as [|c s IH]; intros j a n H; simpl in H.
  - destruct (f []) as [[a0 n0]|] eqn:E; [|discriminate]. inversion H; subst. apply Hf in E. simpl in *. lia.
  - destruct (f (c :: s)) as [[a0 n0]|] eqn:E.
    + inversion H; subst. apply Hf in E. simpl in *. lia.
    + destruct (find_first f s) as [[[j0 a0] n0]|] eqn:E2; [|discriminate].
      inversion H; subst. destruct (IH _ _ _ eq_refl). simpl. lia.
Qed.

Lemma with_hyphen_inv {A} s k (f : nat -> option A) r :
  with_hyphen s k f = Some r -> f k = Some r \/ (f (S k) = Some r /\ S k <= length s).
Proof.
  unfold with_hyphen. destruct (skipn k s) as [|c l] eqn:E; auto.
  destruct (N.eqb c hy); auto. destruct (f (S k)) eqn:E2; auto.
  intros H. inversion H; subst. right. split; auto. eapply skipn_cons_lt; eauto.
Qed.

(* name, expression and closing delimiter lie inside the match, in this order *)
Lemma m_tag_bounds d s no nlen eo el h tot :
  m_tag d s = Some (no, nlen, eo, el, h, tot) ->
  no <= eo /\ eo + el + length (d_te d) <= tot /\ tot <= length s.
Proof.
  unfold m_tag. destruct (prefixb (d_ts d) s) eqn:P; [|discriminate]. apply prefixb_length in P.
  intros H. apply with_hyphen_inv in H.
  assert (G : forall k, k <= length s ->
     (let k2 := k + ws_len (skipn k s) in
      let nlen := name_len (skipn k2 s) in
      let k3 := k2 + nlen in
      let k4 := k3 + ws_len (skipn k3 s) in
      match find_first (close (d_te d)) (skipn k4 s) with
      | Some (j, h, n) => Some (k2, nlen, k4, j, h, k4 + n)
      | None => None
      end) = Some (no, nlen, eo, el, h, tot) -> no <= eo /\ eo + el + length (d_te d) <= tot /\ tot <= length s).
  { intros k Hk. cbv zeta.
    set (k2 := k + ws_len (skipn k s)). set (nl_ := name_len (skipn k2 s)).
    set (k3 := k2 + nl_). set (k4 := k3 + ws_len (skipn k3 s)).
    pose proof (ws_len_le (skipn k s)) as A1. rewrite skipn_len in A1.
    pose proof (name_len_le (skipn k2 s)) as A2. rewrite skipn_len in A2. fold nl_ in A2.
    pose proof (ws_len_le (skipn k3 s)) as A3. rewrite skipn_len in A3.
    destruct (find_first (close (d_te d)) (skipn k4 s)) as [[[j h0] n]|] eqn:FF; [|discriminate].
    intros E. inversion E; subst.
    destruct (find_first_bounds (close (d_te d)) _ (close_bounds (d_te d)) _ _ _ _ FF) as [B1 B2].
    rewrite skipn_len in B2. unfold k4, k3, k2 in *. lia. }
  destruct H as [H|[H Hk]]; eapply G; eauto.
Qed.

Lemma m_output_bounds d s eo el h tot :
  m_output d s = Some (eo, el, h, tot) -> eo + el + length (d_se d) <= tot /\ tot <= length s.
Proof.
  unfold m_output. destruct (prefixb (d_ss d) s) eqn:P; [|discriminate]. apply prefixb_length in P.
  intros H. apply with_hyphen_inv in H.
  assert (G : forall k, k <= length s ->
     (let k2 := k + ws_len (skipn k s) in
      match find_first (close (d_se d)) (skipn k2 s) with
      | Some (j, h, n) => Some (k2, j, h, k2 + n)
      | None => None
      end) = Some (eo, el, h, tot) -> eo + el + length (d_se d) <= tot /\ tot <= length s).
  { intros k Hk. cbv zeta. set (k2 := k + ws_len (skipn k s)).
    pose proof (ws_len_le (skipn k s)) as A1. rewrite skipn_len in A1.
    destruct (find_first (close (d_se d)) (skipn k2 s)) as [[[j h0] n]|] eqn:FF; [|discriminate].
    intros E. inversion E; subst.
    destruct (find_first_bounds (close (d_se d)) _ (close_bounds (d_se d)) _ _ _ _ FF) as [B1 B2].
    rewrite skipn_len in B2. unfold k2 in *. lia. }
  destruct H as [H|[H Hk]]; eapply G; eauto.
Qed.

Lemma match_at_MTag d q s a b c e h t :
  match_at d q s = MTag a b c e h t -> m_tag d s = Some (a, b, c, e, h, t).
Proof.
  unfold match_at.
  destruct (block d w_raw w_endraw s) as [[[[[? ?] ?] ?] ?]|]; [discriminate|].
  destruct (block d w_doc w_enddoc s) as [[[[[? ?] ?] ?] ?]|]; [discriminate|].
  destruct (m_comment d s) as [[[[? ?] ?] ?]|]; [discriminate|].
  destruct (m_output d s) as [[[[? ?] ?] ?]|]; [discriminate|].
  destruct (m_tag d s) as [[[[[[? ?] ?] ?] ?] ?]|].
  - intros H. inversion H. reflexivity.
  - destruct (content_from d (q_dollar q) (tl s)). discriminate.
Qed.

Lemma match_at_MOutput d q s a b h t :
  match_at d q s = MOutput a b h t -> m_output d s = Some (a, b, h, t).
Proof.
  unfold match_at.
  destruct (block d w_raw w_endraw s) as [[[[[? ?] ?] ?] ?]|]; [discriminate|].
  destruct (block d w_doc w_enddoc s) as [[[[[? ?] ?] ?] ?]|]; [discriminate|].
  destruct (m_comment d s) as [[[[? ?] ?] ?]|]; [discriminate|].
  destruct (m_output d s) as [[[[? ?] ?] ?]|].
  - intros H. inversion H. reflexivity.
  - destruct (m_tag d s) as [[[[[[? ?] ?] ?] ?] ?]|]; [discriminate|].
    destruct (content_from d (q_dollar q) (tl s)). discriminate.
Qed.

(* ---------------------------------------------------------------- the invariant *)
Definition exact_kind (k : kind) : bool := match k with KOutput | KExpr | KTag => true | _ => false end.

(* the start offset lies inside the source and, for output / expression / tag tokens, the value of the token is
   the text of the source at that offset *)
Definition tok_ok (src : str) (t : token) : Prop :=
  (t_start t < N.of_nat (length src))%N /\
  (exact_kind (t_kind t) = true -> sub src (N.to_nat (t_start t)) (length (t_value t)) = t_value t).

(* the position carried by the lexer's own syntax error lies inside the source *)
Definition item_ok (src : str) (i : item) : Prop :=
  match i with Tok t => tok_ok src t | LexErr p => (p < N.of_nat (length src))%N end.

Lemma firstn_length_firstn {A} l (x : list A) : firstn (length (firstn l x)) x = firstn l x.
Proof. revert x; induction l; intros x; simpl; auto. destruct x; simpl; auto. f_equal. apply IHl. Qed.

Lemma tok_sub pre s o l k : o < length s ->
  tok_ok (pre ++ s) {| t_kind := k; t_value := sub s o l; t_start := off (N.of_nat (length pre)) o |}.
Proof.
  intros Ho. split; cbn [t_start t_value t_kind].
  - unfold off. rewrite app_length. lia.
  - intros _. unfold off. replace (N.to_nat (N.of_nat (length pre) + N.of_nat o)) with (length pre + o) by lia.
    unfold sub. rewrite skipn_app_len_add. apply firstn_length_firstn.
Qed.

Lemma tok_at pre s v k : s <> [] -> k <> KOutput -> k <> KExpr -> k <> KTag ->
  tok_ok (pre ++ s) {| t_kind := k; t_value := v; t_start := N.of_nat (length pre) |}.
Proof.
  intros Hs ? ? ?. split; cbn [t_start t_value t_kind].
  - rewrite app_length. destruct s; [congruence|]. simpl. lia.
  - destruct k; simpl; congruence.
Qed.

Lemma tok_whole pre s tot : s <> [] ->
  tok_ok (pre ++ s) {| t_kind := KOutput; t_value := firstn tot s; t_start := N.of_nat (length pre) |}.
Proof.
  intros Hs. assert (0 < length s) as H0 by (destruct s; [congruence|simpl; lia]).
  pose proof (tok_sub pre s 0 tot KOutput H0) as H. unfold sub, off in H. simpl in H.
  rewrite N.add_0_r in H. exact H.
Qed.

Lemma nonempty_length (e : str) : nonempty e = true -> 1 <= length e.
Proof. destruct e; simpl; [discriminate|lia]. Qed.

Lemma step_items_ok d q pre s st out st' tot :
  nonempty (d_te d) = true -> nonempty (d_se d) = true -> s <> [] ->
  step d q (N.of_nat (length pre)) s st = (out, st', tot) ->
  (ls_cidx st <= N.of_nat (length pre))%N ->
  (forall i, In i out -> item_ok (pre ++ s) i) /\ (ls_cidx st' <= N.of_nat (length pre + tot))%N.
Proof.
  intros Hte Hse Hs H Hc. apply nonempty_length in Hte, Hse. unfold step in H.
  assert (Hc' : forall n, (ls_cidx st <= N.of_nat (length pre + n))%N) by (intros; lia).
  destruct (match_at d q s) as [h1 h2 bo bl t|h1 h2 bo bl t|bo bl h t|eo el h t|no nlen eo el h t|t rs] eqn:M;
    destruct (ls_depth st) as [|dep]; cbn [m_total] in H.
  all: try (inversion H; subst; clear H; split;
            [ intros i [E|Hin]; [subst i; apply tok_at; auto; discriminate | simpl in Hin; exact (match Hin with end)]
            | apply Hc' ]).
  all: try (inversion H; subst; clear H; split; [ intros i Hin; simpl in Hin; exact (match Hin with end) | apply Hc' ]).
  - (* output, depth 0 *)
    apply match_at_MOutput in M. apply m_output_bounds in M as [B1 B2].
    inversion H; subst; clear H. split; [|apply Hc'].
    intros i [E|[E|[]]]; subst i; cbn [item_ok]; [apply tok_whole; auto | apply tok_sub; lia].
  - (* tag, depth 0 *)
    apply match_at_MTag in M. apply m_tag_bounds in M as (B1 & B2 & B3).
    inversion H; subst; clear H. split.
    + intros i [E|Hin]; [subst i; apply tok_sub; lia|].
      destruct el; [destruct Hin|]. destruct Hin as [E|[]]. subst i. apply tok_sub; lia.
    + cbn [ls_cidx]. destruct (str_eqb (sub s no nlen) w_comment); [|apply Hc'].
      unfold off. lia.
  - (* tag, inside a comment *)
    apply match_at_MTag in M. apply m_tag_bounds in M as (B1 & B2 & B3).
    destruct (str_eqb (sub s no nlen) w_endcomment).
    + destruct dep.
      * inversion H; subst; clear H. split; [|cbn [ls_cidx]; lia].
        intros i [E|[E|[]]]; subst i; cbn [item_ok].
        -- split; cbn [t_start t_kind]; [|simpl; congruence].
           rewrite app_length. destruct s; [congruence|]. simpl. lia.
        -- apply tok_sub; lia.
      * inversion H; subst; clear H. split; [intros i []|apply Hc'].
    + destruct (str_eqb (sub s no nlen) w_comment); inversion H; subst; clear H; (split; [intros i []|apply Hc']).
  - (* content, depth 0 *)
    inversion H; subst; clear H. split; [|apply Hc'].
    intros i Hin.
    match type of Hin with In _ (match ?v with _ => _ end) => destruct v as [|c v'] eqn:Ev end; [destruct Hin|].
    destruct (starts_markup d q (c :: v')).
    + destruct Hin as [E|[]]. subst i. cbn [item_ok]. rewrite app_length. destruct s; [congruence|]. simpl. lia.
    + destruct Hin as [E|[]]. subst i. apply tok_at; auto; discriminate.
Qed.

Lemma go_items_ok d q src : nonempty (d_te d) = true -> nonempty (d_se d) = true ->
  forall s skip pre st, src = pre ++ s ->
  (ls_cidx st <= N.of_nat (length pre + skip))%N ->
  forall i, In i (go d q skip (N.of_nat (length pre)) s st) -> item_ok src i.
Proof.
  intros Hte Hse. induction s as [|c s IH]; intros skip pre st Hsrc Hc i Hin; [destruct Hin|].
  assert (Hp : N.succ (N.of_nat (length pre)) = N.of_nat (length (pre ++ [c]))) by (rewrite app_length; simpl; lia).
  assert (Hsrc' : src = (pre ++ [c]) ++ s) by (rewrite <- app_assoc; exact Hsrc).
  assert (Hne : c :: s <> []) by discriminate.
  cbn [go] in Hin. destruct skip as [|k].
  - rewrite Nat.add_0_r in Hc.
    destruct (step d q (N.of_nat (length pre)) (c :: s) st) as [[out st'] tot] eqn:E.
    destruct (step_items_ok _ _ _ _ _ _ _ _ Hte Hse Hne E Hc) as [H1 H2].
    apply in_app_or in Hin as [Hin|Hin]; [subst src; apply H1; auto|].
    rewrite Hp in Hin. eapply IH; [exact Hsrc' | | exact Hin].
    rewrite app_length. simpl. lia.
  - rewrite Hp in Hin. eapply IH; [exact Hsrc' | | exact Hin]. rewrite app_length. simpl. lia.
Qed.

Lemma items_result_in l ts t : items_result l = Ok ts -> In t ts -> In (Tok t) l.
Proof.
  revert ts. induction l as [|[t0|p] l IH]; intros ts H Hin; simpl in H.
  - inversion H; subst. destruct Hin.
  - destruct (items_result l) as [ts0| |] eqn:E; try discriminate. inversion H; subst.
    destruct Hin as [->|Hin]; [left; reflexivity|right; eapply IH; eauto].
  - discriminate.
Qed.

(* C20: every token of the template lexer points inside the source, and output / expression / tag tokens point at
   their own text *)
Theorem token_offsets : forall d q src ts, nonempty (d_te d) = true -> nonempty (d_se d) = true ->
  tokenize_q d q src = Ok ts -> forall t, In t ts -> tok_ok src t.
Proof.
  intros d q src ts Hte Hse H t Hin. unfold tokenize_q, scan in H.
  apply (go_items_ok d q src Hte Hse src 0 [] ls0 eq_refl ltac:(simpl; lia) (Tok t)).
  eapply items_result_in; eauto.
Qed.

(* the position of the lexer's own syntax error ("expected '}}', found end of file") lies inside the source *)
Theorem lexer_error_position : forall d q src p, nonempty (d_te d) = true -> nonempty (d_se d) = true ->
  In (LexErr p) (scan d q src) -> (p < N.of_nat (length src))%N.
Proof.
  intros d q src p Hte Hse Hin.
  exact (go_items_ok d q src Hte Hse src 0 [] ls0 eq_refl ltac:(simpl; lia) (LexErr p) Hin).
Qed.

(* ---------------------------------------------------------------- composition of offsets
   (expression tokens: parent_token.start_index + match.start(); liquid-tag inner tokens likewise) *)
Lemma sub_sub (src : str) a (v : str) m l :
  sub src a (length v) = v -> m + l <= length v -> sub src (a + m) l = sub v m l.
Proof.
  intros Hv Hl. unfold sub in *. rewrite skipn_add.
  transitivity (firstn l (skipn m (firstn (length v) (skipn a src)))); [|rewrite Hv; reflexivity].
  rewrite skipn_firstn_comm, firstn_firstn. f_equal. lia.
Qed.

(* ---------------------------------------------------------------- line / column *)
Fixpoint nsum (l : list N) : N := match l with [] => 0%N | x :: r => (x + nsum r)%N end.

Lemma nsum_line_lens : forall n s, length s <= n -> forall cur,
  nsum (line_lens cur s) = (cur + N.of_nat (length s))%N.
Proof.
  induction n; intros s Hn cur.
  - destruct s; [|simpl in Hn; lia]. simpl. destruct (N.eqb_spec cur 0); simpl; lia.
  - destruct s as [|c r]; [simpl; destruct (N.eqb_spec cur 0); simpl; lia|].
    simpl in Hn. cbn [line_lens]. destruct (is_linebreak c).
    + destruct r as [|c2 r2]; [simpl; lia|].
      destruct (N.eqb c 13 && N.eqb c2 10).
      * cbn [nsum]. rewrite IHn by (simpl in *; lia). simpl length. lia.
      * cbn [nsum]. rewrite IHn by (simpl in *; lia). simpl length. lia.
    + rewrite IHn by lia. simpl length. lia.
Qed.

Lemma find_line_spec : forall lens index cum lineno,
  (cum <= index)%N -> (index < cum + nsum lens)%N ->
  exists k c, find_line lens index cum lineno = Some ((lineno + N.of_nat k)%N, c)
              /\ k < length lens /\ (cum + nsum (firstn k lens) + c = index)%N /\ (c < nth k lens 0)%N.
Proof.
  induction lens as [|x lens IH]; intros index cum lineno H1 H2; simpl in H2; [lia|].
  cbn [find_line]. destruct (N.ltb_spec index (cum + x)) as [Hlt|Hge].
  - exists 0, (index - cum)%N. simpl. rewrite N.add_0_r. repeat split; lia.
  - destruct (IH index (cum + x)%N (N.succ lineno)) as (k & c & E & Hk & Hs & Hc); try lia.
    exists (S k), c. rewrite E. simpl. repeat split; try lia. f_equal. f_equal. lia.
Qed.

(* Span.line_col / LiquidError._error_context: for every index inside the source the line/column computation
   succeeds (no ValueError) and returns the 1-based number of the line that contains the index together with the
   index's distance from that line's first character *)
Theorem line_col_total : forall src index, (index < N.of_nat (length src))%N ->
  exists k c, line_col src index = Some (N.of_nat (S k), c)
              /\ k < length (line_lens 0 src)
              /\ (nsum (firstn k (line_lens 0 src)) + c = index)%N
              /\ (c < nth k (line_lens 0 src) 0)%N.
Proof.
  intros src index H. unfold line_col.
  destruct (find_line_spec (line_lens 0 src) index 0 1) as (k & c & E & Hk & Hs & Hc).
  - lia.
  - rewrite (nsum_line_lens (length src) src (le_n _) 0). lia.
  - exists k, c. rewrite E. repeat split; auto; try lia. f_equal. f_equal. lia.
Qed.

(* the lines partition the source *)
Theorem line_lens_cover : forall src, nsum (line_lens 0 src) = N.of_nat (length src).
Proof. intros. rewrite (nsum_line_lens (length src) src (le_n _) 0). lia. Qed.

(* ... and outside the source it is the ValueError of the implementation *)
Theorem line_col_out_of_range : forall src index, (N.of_nat (length src) <= index)%N -> line_col src index = None.
Proof.
  intros src index H. unfold line_col. pose proof (line_lens_cover src) as Hc.
  assert (G : forall lens cum lineno, (cum + nsum lens <= index)%N -> find_line lens index cum lineno = None).
  { induction lens as [|x lens IH]; intros cum lineno Hle; simpl in *; auto.
    destruct (N.ltb_spec index (cum + x)); [lia|]. apply IH. lia. }
  apply G. lia.
Qed.

(* ---------------------------------------------------------------- inner tokens of a liquid tag *)
Lemma liquid_name_len_le marker x : liquid_name_len marker x <= length x.
Proof.
  unfold liquid_name_len. destruct (nonempty marker && prefixb marker x) eqn:E.
  - apply andb_true_iff in E as [_ E]. apply prefixb_length; auto.
  - apply word_len_le.
Qed.

Lemma line_end_bounds x a n : line_end' x = Some (a, n) -> 0 <= n /\ n <= length x.
Proof.
  unfold line_end', line_end. pose proof (span_len_le is_blank_cr x) as Hk.
  pose proof (skipn_len (span_len is_blank_cr x) x) as Hl.
  destruct (skipn (span_len is_blank_cr x) x) as [|c r] eqn:E.
  - intros H. inversion H; subst. lia.
  - destruct (N.eqb c nl); [|discriminate]. intros H. inversion H; subst.
    pose proof (span_len_le (N.eqb nl) r). simpl in Hl. lia.
Qed.

Lemma liquid_match_bounds marker s no nlen eo el tot :
  liquid_match marker s = LExpr no nlen eo el tot -> no < length s /\ (el <> 0 -> eo < length s).
Proof.
  unfold liquid_match.
  set (k1 := span_len is_blank s). set (nl_ := liquid_name_len marker (skipn k1 s)).
  pose proof (span_len_le is_blank s) as A1. fold k1 in A1.
  pose proof (liquid_name_len_le marker (skipn k1 s)) as A2. fold nl_ in A2. rewrite skipn_len in A2.
  assert (Hskip : forall r, match span_len is_crlf s with 0 => LIllegal | S n => LSkip (S n) end = LExpr no nlen eo el tot -> r)
    by (intros r; destruct (span_len is_crlf s); discriminate).
  destruct nl_ as [|n] eqn:En; [apply Hskip|].
  set (k3 := k1 + S n + span_len is_blank (skipn (k1 + S n) s)).
  pose proof (span_len_le is_blank (skipn (k1 + S n) s)) as A3. rewrite skipn_len in A3.
  destruct (find_first line_end' (skipn k3 s)) as [[[j u] n']|] eqn:FF; [|apply Hskip].
  intros H. inversion H; subst.
  destruct (find_first_bounds line_end' 0 line_end_bounds _ _ _ _ FF) as [B1 B2]. rewrite skipn_len in B2.
  split; [lia|]. intros Hel. unfold k3 in *. lia.
Qed.

(* a token of the inner scan: its offset relative to the liquid tag's expression lies inside the expression, and its
   value is the text of the expression there *)
Definition inner_ok (base : N) (expr : str) (i : item) : Prop :=
  match i with
  | Tok t => exists o, t_start t = (base + N.of_nat o)%N /\ o < length expr /\ sub expr o (length (t_value t)) = t_value t
  | LexErr _ => True
  end.

Lemma inner_sub base pre s o l k : o < length s ->
  inner_ok base (pre ++ s) (Tok {| t_kind := k; t_value := sub s o l; t_start := off (base + N.of_nat (length pre)) o |}).
Proof.
  intros Ho. exists (length pre + o). cbn [t_start t_value]. repeat split.
  - unfold off. lia.
  - rewrite app_length. lia.
  - unfold sub. rewrite skipn_app_len_add. apply firstn_length_firstn.
Qed.

Lemma liquid_go_ok marker drop base expr : forall s skip pre, expr = pre ++ s ->
  forall i, In i (liquid_go marker drop skip (base + N.of_nat (length pre)) s) -> inner_ok base expr i.
Proof.
  induction s as [|c s IH]; intros skip pre Hexpr i Hin; [destruct Hin|].
  assert (Hp : N.succ (base + N.of_nat (length pre)) = (base + N.of_nat (length (pre ++ [c])))%N)
    by (rewrite app_length; simpl; lia).
  assert (Hexpr' : expr = (pre ++ [c]) ++ s) by (rewrite <- app_assoc; exact Hexpr).
  cbn [liquid_go] in Hin. destruct skip as [|k].
  - destruct (liquid_match marker (c :: s)) as [no nlen eo el tot|tot|] eqn:M.
    + apply liquid_match_bounds in M as [B1 B2].
      apply in_app_or in Hin as [Hin|Hin].
      * destruct (drop && str_eqb (sub (c :: s) no nlen) marker); [destruct Hin|].
        destruct Hin as [E|Hin]; [subst i expr; apply inner_sub; auto|].
        destruct el; [destruct Hin|]. destruct Hin as [E|[]]. subst i expr. apply inner_sub. apply B2. discriminate.
      * rewrite Hp in Hin. eapply IH; eauto.
    + rewrite Hp in Hin. eapply IH; eauto.
    + destruct Hin as [E|[]]. subst i. exact I.
  - rewrite Hp in Hin. eapply IH; eauto.
Qed.

(* C20: liquid-tag inner token offsets.  If the liquid tag's expression token (value expr, start base) points at its
   own text in the source, so does every inner tag / expression token *)
Theorem liquid_inner_offsets : forall d (src : str) base expr ts,
  sub src (N.to_nat base) (length expr) = expr ->
  liquid_tokens d base expr = Ok ts -> forall t, In t ts ->
  (N.to_nat (t_start t) < N.to_nat base + length expr) /\
  sub src (N.to_nat (t_start t)) (length (t_value t)) = t_value t.
Proof.
  intros d src base expr ts Hsrc H t Hin. unfold liquid_tokens in H.
  assert (G : forall marker drop, items_result (liquid_go marker drop 0 base expr) = Ok ts ->
              exists o, t_start t = (base + N.of_nat o)%N /\ o < length expr /\ sub expr o (length (t_value t)) = t_value t).
  { intros marker drop Hr. apply (items_result_in _ _ _ Hr) in Hin.
    pose proof (liquid_go_ok marker drop base expr expr 0 [] eq_refl (Tok t)) as K. simpl in K.
    rewrite N.add_0_r in K. apply K. exact Hin. }
  assert (exists o, t_start t = (base + N.of_nat o)%N /\ o < length expr /\ sub expr o (length (t_value t)) = t_value t)
    as (o & Hs & Ho & Hv) by (destruct (liquid_marker d); eapply G; eauto).
  rewrite Hs. replace (N.to_nat (base + N.of_nat o)) with (N.to_nat base + o) by lia. split; [lia|].
  rewrite <- Hv at 2. apply sub_sub; auto.
  assert (length (t_value t) <= length expr - o); [|lia].
  rewrite <- Hv. unfold sub. rewrite firstn_length, skipn_length. lia.
Qed.
