(* Proofs about the inheritance model (Inherit.v), including the blank-body rule. *)
From Coq Require Import ZArith List Bool Lia ZifyBool Arith.
From LiquidVerif Require Import Prelude PyPrims Inherit.
Import ListNotations.

(* ------------------------------------------------------------------------------------------ generalities *)
Section NodeInd.
  Variable P : node -> Prop.
  Hypothesis HText : forall s, P (Text s).
  Hypothesis HVar : forall x, P (Var x).
  Hypothesis HSuper : forall up, P (Super up).
  Hypothesis HBlock : forall name req en body, Forall P body -> P (Block name req en body).
  Hypothesis HFor : forall x items body, Forall P body -> P (For x items body).

  Fixpoint node_ind' (n : node) : P n :=
    match n with
    | Text s => HText s
    | Var x => HVar x
    | Super up => HSuper up
    | Block name req en body =>
        HBlock name req en body
          ((fix go (l : list node) : Forall P l :=
              match l with [] => Forall_nil P | m :: r => Forall_cons m (node_ind' m) (go r) end) body)
    | For x items body =>
        HFor x items body
          ((fix go (l : list node) : Forall P l :=
              match l with [] => Forall_nil P | m :: r => Forall_cons m (node_ind' m) (go r) end) body)
    end.
End NodeInd.

Lemma smem_In x l : smem x l = true <-> In x l.
Proof.
  induction l as [|y l IH]; simpl; [split; [discriminate | tauto]|].
  rewrite orb_true_iff, IH, str_eqb_eq. split; intros [H|H]; auto.
Qed.

Lemma alookup_In {V} k (l : list (str * V)) v : alookup k l = Some v -> In k (map fst l).
Proof.
  induction l as [|[k' v'] l IH]; simpl; [discriminate|].
  destruct (str_eqb_spec k k'); [intros _; left; congruence | intros H; right; auto].
Qed.

Lemma seq_res_cons {A} (f : A -> res str) a l :
  seq_res f (a :: l) = (do x <- f a; do y <- seq_res f l; Ok (x ++ y)).
Proof. reflexivity. Qed.

Lemma seq_res_not_oof {A} (f : A -> res str) l :
  Forall (fun a => f a <> OutOfFuel) l -> seq_res f l <> OutOfFuel.
Proof.
  induction 1 as [|a l Ha _ IH]; [discriminate|].
  rewrite seq_res_cons. destruct (f a); simpl; try congruence.
  destruct (seq_res f l); simpl; congruence.
Qed.

Lemma post_not_oof up r : r <> OutOfFuel -> post up r <> OutOfFuel.
Proof. destruct up, r; cbn; congruence. Qed.

Lemma wrap_not_oof b r : r <> OutOfFuel -> wrap b r <> OutOfFuel.
Proof. destruct b, r; cbn; congruence. Qed.

(* --------------------------------------------------------------------------- fuel: OutOfFuel is excluded *)
(* Every jump to another body either deepens the copy depth (bounded by L), or pushes on the scope of the context a
   block.super renders in (bounded by L), so the number of nested jumps is bounded by a function of L alone. *)
Definition key (L d s : nat) : nat := (L + 2 - d) * (L + 3) + (L + 2 - s).

Definition phi (L : nat) (c : ctx) : nat :=
  match c_block c with
  | Some (HSite _ s d _) => key L d s * 2
  | _ => key L (c_d c) (c_s c) * 2 + 1
  end.

Definition wf_ctx (L : nat) (c : ctx) : Prop :=
  match c_block c with
  | Some (HSite _ s d _) => c_d c = S d /\ d <= L
  | _ => True
  end.

Lemma key_step_d L d s s' : d <= L -> key L (S d) s' < key L d s.
Proof.
  intro H. unfold key.
  replace (L + 2 - d) with (S (L + 2 - S d)) by lia.
  rewrite Nat.mul_succ_l. lia.
Qed.

Lemma key_step_s L d s : s <= L -> key L d (S s) < key L d s.
Proof. intro H. unfold key. lia. Qed.

Lemma key_mono_s L d s s' : s <= s' -> key L d s' <= key L d s.
Proof. intro H. unfold key. lia. Qed.

Lemma exec_node_fuel sup nb L st f :
  (forall c body, wf_ctx L c -> phi L c < f -> exec_body f sup nb L st c body <> OutOfFuel) ->
  forall n c, wf_ctx L c -> phi L c < S f -> exec_node sup nb L st (exec_body f sup nb L st) c n <> OutOfFuel.
Proof.
  intros IHf. induction n as [s|x|up|name req en body IHb|x items body IHb] using node_ind'; intros c Hwf Hphi;
    cbn [exec_node]; try discriminate.
  - (* Super *)
    apply post_not_oof.
    unfold phi, wf_ctx in *. destruct (c_block c) as [[e s d ps|ps]|] eqn:Hb; try discriminate.
    + destruct ps as [|p rest]; [discriminate|]. destruct (L <? s) eqn:Hs; [discriminate|].
      apply IHf; unfold wf_ctx, phi; cbn; auto.
      pose proof (key_step_s L d s ltac:(lia)). lia.
    + destruct ps as [|p rest]; [discriminate|]. destruct (L <? c_s c) eqn:Hs; [discriminate|].
      apply IHf; unfold wf_ctx, phi; cbn; auto.
      pose proof (key_step_s L (c_d c) (c_s c) ltac:(lia)). lia.
  - (* Block *)
    destruct (slookup name st) as [|it rest].
    + destruct req; [discriminate|]. destruct (L <? c_s c) eqn:Hs; [discriminate|].
      apply IHf; unfold wf_ctx, phi in *; cbn; auto.
      destruct (c_block c) as [[e s d ps|ps]|] eqn:Hb.
      * destruct Hwf as [Hd HdL]. rewrite Hd.
        pose proof (key_step_d L d s (S (c_s c)) HdL). lia.
      * pose proof (key_step_s L (c_d c) (c_s c) ltac:(lia)). lia.
      * pose proof (key_step_s L (c_d c) (c_s c) ltac:(lia)). lia.
    + destruct (it_required it); [discriminate|]. destruct (L <? c_d c) eqn:Hd; [discriminate|].
      apply IHf; unfold wf_ctx, phi in *; cbn; [split; [reflexivity | lia]|].
      destruct (c_block c) as [[e s d ps|ps]|] eqn:Hb.
      * destruct Hwf as [Hd' HdL]. rewrite Hd'.
        pose proof (key_step_d L d s (c_s c) HdL). lia.
      * lia.
      * lia.
  - (* For *)
    destruct items as [|v0 items]; [discriminate|]. destruct (L <? c_s c) eqn:Hs; [discriminate|].
    apply seq_res_not_oof. apply Forall_forall. intros v _. apply wrap_not_oof.
    apply seq_res_not_oof. rewrite Forall_forall in *. intros m Hm.
    apply (IHb m Hm).
    + unfold wf_ctx in *; cbn. exact Hwf.
    + unfold phi in *; cbn. destruct (c_block c) as [[e s d ps|ps]|]; try lia.
      * pose proof (key_mono_s L (c_d c) (c_s c) (S (c_s c)) ltac:(lia)). lia.
      * pose proof (key_mono_s L (c_d c) (c_s c) (S (c_s c)) ltac:(lia)). lia.
Qed.

Lemma exec_body_fuel sup nb L st :
  forall fuel c body, wf_ctx L c -> phi L c < fuel -> exec_body fuel sup nb L st c body <> OutOfFuel.
Proof.
  induction fuel as [|f IH]; intros c body Hwf Hphi; [lia|].
  cbn [exec_body]. apply wrap_not_oof. unfold exec_nodes. apply seq_res_not_oof. apply Forall_forall. intros n _.
  apply exec_node_fuel; auto.
Qed.

Lemma exec_fuel sup nb L st : forall fuel c body, wf_ctx L c -> phi L c < fuel -> exec fuel sup nb L st c body <> OutOfFuel.
Proof.
  intros [|f] c body Hwf Hphi; [lia|].
  cbn [exec]. unfold exec_nodes. apply seq_res_not_oof. apply Forall_forall. intros n _.
  apply exec_node_fuel; auto. intros; now apply exec_body_fuel.
Qed.

(* the while loop of _build_block_stacks ends: `seen` grows by a new loader key on every round *)
Lemma build_fuel ld : forall fuel seen st t,
  NoDup seen -> incl seen (map fst ld) -> length ld < fuel + length seen ->
  build fuel ld seen st t <> OutOfFuel.
Proof.
  induction fuel as [|f IH]; intros seen st t Hnd Hincl Hlen.
  - pose proof (NoDup_incl_length Hnd Hincl) as H. rewrite map_length in H. lia.
  - cbn [build]. destruct (stack_blocks st t) as [[ext st']|e|] eqn:Hsb; cbn [bind]; try discriminate.
    + destruct ext as [p|]; [|discriminate].
      destruct (smem p seen) eqn:Hm; [discriminate|].
      unfold load. destruct (alookup p ld) as [t'|] eqn:Hl; cbn [bind]; [|discriminate].
      destruct (parse_ok t'); cbn [bind]; [|discriminate].
      apply IH.
      * constructor; auto. intro Hin. apply smem_In in Hin. congruence.
      * intros q [<-|Hq]; [eapply alookup_In; eauto | auto].
      * simpl. lia.
    + unfold stack_blocks in Hsb. destruct (1 <? length (textends t)); [discriminate|].
      destruct (has_dup (map bd_name (tblocks t))); discriminate.
Qed.

Lemma fuel_bound_phi L s : phi L {| c_env := []; c_s := s; c_d := 0; c_block := None |} < fuel_bound L.
Proof. unfold phi, fuel_bound, key; cbn. nia. Qed.

Theorem render_template_fuel sup nb L ld data t fuel :
  fuel_bound L <= fuel -> render_template fuel sup nb L ld data t <> OutOfFuel.
Proof.
  intro Hf. unfold render_template.
  destruct (L <? 4); [discriminate|]. destruct (split_extends t) as [pre ext].
  destruct (exec fuel sup nb L [] _ pre) as [a|e|] eqn:H1; cbn [bind]; try discriminate.
  - destruct ext; [|discriminate].
    destruct (build _ ld [] [] t) as [[base st]|e|] eqn:H2; cbn [bind]; try discriminate.
    + destruct (L <? 5); [discriminate|].
      destruct (exec fuel sup nb L st _ (tnodes base)) as [b|e|] eqn:H3; cbn [bind]; try discriminate.
      exfalso. revert H3. apply exec_fuel; [exact I|].
      pose proof (fuel_bound_phi L 6). unfold phi in *; cbn in *. lia.
    + exfalso. revert H2. apply build_fuel; [constructor | intros q [] | simpl; lia].
  - exfalso. revert H1. apply exec_fuel; [exact I|].
    pose proof (fuel_bound_phi L 5). unfold phi in *; cbn in *. lia.
Qed.

Theorem render_model_fuel sup nb L ld leaf data fuel :
  fuel_bound L <= fuel -> render_model fuel sup nb L ld leaf data <> OutOfFuel.
Proof.
  intro Hf. unfold render_model, load. destruct (alookup leaf ld) as [t|]; cbn [bind]; [|discriminate].
  destruct (parse_ok t); cbn [bind]; [|discriminate].
  now apply render_template_fuel.
Qed.

(* ------------------------------------------------------------------------------------- circular extends *)
(* an endless chain: some set of templates contains the start and, with each member, the parent it extends *)
Definition endless_chain (ld : loader) (t : template) : Prop :=
  exists S : template -> Prop, S t /\ forall u, S u -> exists p u', textends u = [p] /\ alookup p ld = Some u' /\ S u'.

Lemma stack_blocks_err st t e : stack_blocks st t = Err e -> e = EInherit.
Proof.
  unfold stack_blocks. destruct (1 <? length (textends t)); [congruence|].
  destruct (has_dup (map bd_name (tblocks t))); congruence.
Qed.

Lemma stack_blocks_ok st t ext st' :
  stack_blocks st t = Ok (ext, st') ->
  ext = hd_error (textends t) /\ st' = fold_left store_block (tblocks t) st /\
  length (textends t) <= 1 /\ has_dup (map bd_name (tblocks t)) = false.
Proof.
  unfold stack_blocks. destruct (1 <? length (textends t)) eqn:H1; [discriminate|].
  destruct (has_dup (map bd_name (tblocks t))) eqn:H2; [discriminate|].
  intro H; inversion H; subst. repeat split; auto. lia.
Qed.

Lemma build_endless ld (S : template -> Prop) :
  (forall u, S u -> exists p u', textends u = [p] /\ alookup p ld = Some u' /\ S u') ->
  forall fuel seen st t, S t -> build fuel ld seen st t = OutOfFuel \/ build fuel ld seen st t = Err EInherit.
Proof.
  intros HS. induction fuel as [|f IH]; intros seen st t Ht; [left; reflexivity|].
  cbn [build]. destruct (stack_blocks st t) as [[ext st']|e|] eqn:Hsb; cbn [bind].
  - apply stack_blocks_ok in Hsb. destruct Hsb as (-> & _ & _ & _).
    destruct (HS t Ht) as (p & u' & Hext & Hl & Hu'). rewrite Hext. cbn [hd_error].
    destruct (smem p seen); [right; reflexivity|].
    unfold load. rewrite Hl. destruct (parse_ok u'); cbn [bind]; [|right; reflexivity].
    apply IH; assumption.
  - apply stack_blocks_err in Hsb. subst. right; reflexivity.
  - left; reflexivity.
Qed.

Lemma split_extends_true t : textends t <> [] -> snd (split_extends t) = true.
Proof.
  induction t as [|[n|p] t IH]; cbn; [congruence | | reflexivity].
  intro H. destruct (split_extends t) as [pre e]. cbn in *. auto.
Qed.

Lemma split_extends_none t : textends t = [] -> split_extends t = (tnodes t, false).
Proof.
  induction t as [|[n|p] t IH]; cbn; [reflexivity | | discriminate].
  intro H. rewrite (IH H). reflexivity.
Qed.

Theorem cycle_rejected fuel sup nb L ld data t a :
  endless_chain ld t -> 4 <= L ->
  exec fuel sup nb L [] {| c_env := data; c_s := 5; c_d := 0; c_block := None |} (fst (split_extends t)) = Ok a ->
  render_template fuel sup nb L ld data t = Err EInherit.
Proof.
  intros (Q & Ht & HQ) HL Hpre. unfold render_template.
  destruct (L <? 4) eqn:E; [lia|].
  destruct (HQ t Ht) as (p & u' & Hext & _).
  pose proof (split_extends_true t ltac:(congruence)) as Hs.
  destruct (split_extends t) as [pre ext]. cbn [fst snd] in *. subst ext. rewrite Hpre. cbn [bind].
  destruct (build_endless ld Q HQ (S (S (length ld))) [] [] t Ht) as [H|H].
  - exfalso. revert H. apply build_fuel; [constructor | intros q [] | simpl; lia].
  - rewrite H. reflexivity.
Qed.

(* ----------------------------------------------------------------------- the stacks are the chain's definitions *)
Definition item_of (b : bdef) : item := {| it_body := bd_body b; it_required := bd_required b |}.

(* all definitions of `name` in the templates `ch`, most derived first *)
Definition items_from (ch : list template) (name : str) : list item :=
  flat_map (fun t => match find_block name t with Some b => [item_of b] | None => [] end) ch.

Lemma first_def_items ch name :
  match first_def ch name with
  | Some (b, above) => items_from ch name = item_of b :: items_from above name
  | None => items_from ch name = []
  end.
Proof.
  induction ch as [|t r IH]; cbn; [reflexivity|].
  destruct (find_block name t) as [b|]; cbn; [reflexivity|].
  destruct (first_def r name) as [[b ab]|]; exact IH.
Qed.

Lemma slookup_stack_append name k it st :
  slookup name (stack_append k it st) = if str_eqb name k then slookup name st ++ [it] else slookup name st.
Proof.
  unfold slookup. induction st as [|[k' l] st IH]; cbn.
  - destruct (str_eqb name k); reflexivity.
  - destruct (str_eqb_spec k k') as [->|Hkk']; cbn.
    + destruct (str_eqb_spec name k') as [->|Hn]; reflexivity.
    + destruct (str_eqb_spec name k') as [->|Hn].
      * destruct (str_eqb_spec k' k); [congruence | reflexivity].
      * exact IH.
Qed.

Lemma store_block_lookup name st b :
  slookup name (store_block st b) =
  if str_eqb name (bd_name b) then slookup name st ++ [item_of b] else slookup name st.
Proof.
  unfold store_block. rewrite slookup_stack_append.
  destruct (str_eqb name (bd_name b)); [|reflexivity].
  f_equal. unfold item_of. f_equal. f_equal.
  destruct (slookup (bd_name b) st), (bd_required b); reflexivity.
Qed.

(* the `required` flag stored in a stack is the flag written on the block tag *)
Corollary store_block_required_is_flag st b :
  exists rest, slookup (bd_name b) (store_block st b) = rest ++ [item_of b].
Proof. rewrite store_block_lookup, str_eqb_refl. eauto. Qed.

Lemma fold_store_lookup name bs : forall st,
  slookup name (fold_left store_block bs st) =
  slookup name st ++ map item_of (filter (fun b => str_eqb name (bd_name b)) bs).
Proof.
  induction bs as [|b bs IH]; intro st; cbn; [now rewrite app_nil_r|].
  rewrite IH, store_block_lookup. destruct (str_eqb name (bd_name b)); cbn; [now rewrite <- app_assoc | reflexivity].
Qed.

Lemma filter_nodup name bs :
  has_dup (map bd_name bs) = false ->
  filter (fun b => str_eqb name (bd_name b)) bs =
  match find (fun b => str_eqb name (bd_name b)) bs with Some b => [b] | None => [] end.
Proof.
  induction bs as [|b bs IH]; cbn; [reflexivity|].
  rewrite orb_false_iff. intros [Hm Hd].
  destruct (str_eqb_spec name (bd_name b)) as [->|Hn]; [|auto].
  f_equal. clear IH Hd. induction bs as [|b' bs IH]; cbn in *; [reflexivity|].
  rewrite orb_false_iff in Hm. destruct Hm as [H1 H2]. rewrite H1. auto.
Qed.

Lemma stack_template_lookup name st t :
  has_dup (map bd_name (tblocks t)) = false ->
  slookup name (fold_left store_block (tblocks t) st) = slookup name st ++ items_from [t] name.
Proof.
  intro Hd. rewrite fold_store_lookup, (filter_nodup _ _ Hd). unfold items_from, find_block. cbn.
  destruct (find _ (tblocks t)); cbn; now rewrite ?app_nil_r.
Qed.

Lemma items_from_cons t ch name : items_from (t :: ch) name = items_from [t] name ++ items_from ch name.
Proof. unfold items_from. cbn. now rewrite app_nil_r. Qed.

(* ------------------------------------------------------------------------------------------- chains *)
Lemma chain_from_det ld t c1 : chain_from ld t c1 -> forall c2, chain_from ld t c2 -> c1 = c2.
Proof.
  induction 1 as [t Ht|t p t' rest Ht Hl Hc IH]; intros c2 H2; inversion H2; subst; try congruence.
  assert (p0 = p) by congruence. subst. assert (t'0 = t') by congruence. subst.
  f_equal. auto.
Qed.

Lemma chain_from_head ld t c : chain_from ld t c -> exists r, c = t :: r.
Proof. destruct 1; eauto. Qed.

Definition dup_bad (t : template) : bool := has_dup (map bd_name (tblocks t)).
Definition chain_bad (chain : list template) : bool :=
  existsb dup_bad chain || existsb (fun u => negb (parse_ok u)) (tl chain).

Definition seen_ok (ld : loader) (seen : list str) (n : nat) : Prop :=
  forall q, In q seen -> exists tq cq, alookup q ld = Some tq /\ chain_from ld tq cq /\ n <= length cq.

Lemma last_default {A} (a : A) l d d' : last (a :: l) d = last (a :: l) d'.
Proof. revert a. induction l as [|b l IH]; intro a; [reflexivity|]. exact (IH b). Qed.

Lemma chain_bad_cons t t' r :
  chain_bad (t :: t' :: r) = dup_bad t || negb (parse_ok t') || chain_bad (t' :: r).
Proof.
  unfold chain_bad. cbn [existsb tl].
  destruct (dup_bad t), (dup_bad t'), (parse_ok t'), (existsb dup_bad r),
    (existsb (fun u => negb (parse_ok u)) r); reflexivity.
Qed.

Lemma build_chain ld t chain :
  chain_from ld t chain ->
  forall fuel seen st, seen_ok ld seen (length chain) ->
  build fuel ld seen st t = OutOfFuel \/
  (chain_bad chain = true /\ build fuel ld seen st t = Err EInherit) \/
  (chain_bad chain = false /\ exists st', build fuel ld seen st t = Ok (last chain t, st') /\
     forall name, slookup name st' = slookup name st ++ items_from chain name).
Proof.
  induction 1 as [t Ht|t p t' rest Ht Hl Hc IH]; intros fuel seen st Hseen.
  - destruct fuel as [|f]; [left; reflexivity|]. right. cbn [build]. unfold stack_blocks, chain_bad, dup_bad. rewrite Ht. cbn.
    destruct (has_dup (map bd_name (tblocks t))) eqn:Hd; cbn; [left; auto|].
    right. split; [reflexivity|]. eexists; split; [reflexivity|].
    intro name. now apply stack_template_lookup.
  - destruct fuel as [|f]; [left; reflexivity|]. cbn [build]. unfold stack_blocks. rewrite Ht. cbn [length Nat.ltb Nat.leb hd_error].
    destruct (chain_from_head _ _ _ Hc) as [r' ->]. rewrite chain_bad_cons.
    fold (dup_bad t).
    destruct (dup_bad t) eqn:Hd; cbn [bind orb]; [right; left; auto|].
    destruct (smem p seen) eqn:Hm.
    { (* impossible in a finite chain *)
      exfalso. apply smem_In in Hm. destruct (Hseen p Hm) as (tq & cq & Hq & Hcq & Hlen).
      assert (tq = t') by congruence. subst. rewrite (chain_from_det _ _ _ Hcq _ Hc) in Hlen. simpl in Hlen. lia. }
    unfold load. rewrite Hl.
    destruct (parse_ok t') eqn:Hp; cbn [bind negb orb]; [|right; left; auto].
    assert (Hs' : seen_ok ld (p :: seen) (length (t' :: r'))).
    { intros q [<-|Hq]; [exists t', (t' :: r'); auto|].
      destruct (Hseen q Hq) as (tq & cq & ? & ? & ?). exists tq, cq. repeat split; auto. simpl in *. lia. }
    destruct (IH f (p :: seen) (fold_left store_block (tblocks t) st) Hs') as [H|[[Hb H]|[Hb (st' & H & Hst)]]].
    + left; exact H.
    + right; left. auto.
    + right; right. split; [exact Hb|]. exists st'. split.
      { rewrite H. f_equal. f_equal. change (last (t :: t' :: r') t) with (last (t' :: r') t). apply last_default. }
      intro name. rewrite Hst. rewrite stack_template_lookup; [|exact Hd].
      rewrite (items_from_cons t (t' :: r')). now rewrite app_assoc.
Qed.

(* ----------------------------------------------------------------------------- model = specification *)
Definition good (r : res str) : Prop := r <> OutOfFuel /\ r <> Err EContextDepth.

Lemma seq_res_sim {A} (f g : A -> res str) l :
  Forall (fun a => forall r, f a = r -> good r -> g a = r) l ->
  forall r, seq_res f l = r -> good r -> seq_res g l = r.
Proof.
  induction 1 as [|a l Ha _ IH]; intros r Hr Hg; [exact Hr|].
  rewrite seq_res_cons in *. destruct (f a) as [x|e|] eqn:Hfa; cbn [bind] in Hr.
  - rewrite (Ha _ eq_refl) by (split; discriminate). cbn [bind].
    destruct (seq_res f l) as [y|e|] eqn:Hfl; cbn [bind] in Hr.
    + rewrite (IH _ eq_refl) by (split; discriminate). exact Hr.
    + rewrite (IH (Err e) eq_refl); [exact Hr|]. subst r. exact Hg.
    + subst r. exfalso. apply (proj1 Hg). reflexivity.
  - rewrite (Ha (Err e) eq_refl); [exact Hr|]. subst r. exact Hg.
  - subst r. exfalso. apply (proj1 Hg). reflexivity.
Qed.

Lemma wrap_sim b X Y r :
  (forall r', X = r' -> good r' -> Y = r') -> wrap b X = r -> good r -> wrap b Y = r.
Proof.
  intros H Hr Hg. destruct b; cbn [wrap] in *; [|auto].
  unfold discard in *. destruct X as [x|e|]; cbn [bind] in Hr.
  - rewrite (H (Ok x) eq_refl) by (split; discriminate). exact Hr.
  - rewrite (H (Err e) eq_refl); [exact Hr|]. subst r. exact Hg.
  - subst r. exfalso. apply (proj1 Hg). reflexivity.
Qed.

Lemma post_sim up X Y r :
  (forall r', X = r' -> good r' -> Y = r') -> post up X = r -> good r -> post up Y = r.
Proof.
  intros H Hr Hg. destruct up; cbn [post] in *; [|auto].
  destruct X as [x|e|]; cbn [bind] in Hr.
  - rewrite (H (Ok x) eq_refl) by (split; discriminate). exact Hr.
  - rewrite (H (Err e) eq_refl); [exact Hr|]. subst r. exact Hg.
  - subst r. exfalso. apply (proj1 Hg). reflexivity.
Qed.

Definition parents_of (h : handle) : list item := match h with HSite _ _ _ ps => ps | HCur ps => ps end.

Definition Rh (h : option handle) (cur : option scur) : Prop :=
  match h, cur with
  | None, None => True
  | Some h, Some cur =>
      parents_of h = items_from (sc_above cur) (sc_name cur) /\
      match h, sc_site cur with
      | HSite e _ _ _, Some e' => e = e'
      | HCur _, None => True
      | HCur [], Some _ => True
      | _, _ => False
      end
  | _, _ => False
  end.

Definition R (c : ctx) (sc : sctx) : Prop := c_env c = sc_env sc /\ Rh (c_block c) (sc_cur sc).

Ltac solveR :=
  split; [cbn; auto; congruence
         | cbn; repeat split; auto; try reflexivity; try (destruct (items_from _ _); exact I)].

Section Sim.
  Variable sup : bool.
  Variable nb : node -> bool.
  Variable L : nat.
  Variable st : stacks.
  Variable chain : list template.
  Hypothesis SC : forall name, slookup name st = items_from chain name.

  Lemma sim_node f :
    (forall c sc body r, R c sc -> exec_body f sup nb L st c body = r -> good r -> spec_body f sup nb chain sc body = r) ->
    forall n c sc r, R c sc -> exec_node sup nb L st (exec_body f sup nb L st) c n = r -> good r ->
                     spec_node sup nb chain (spec_body f sup nb chain) sc n = r.
  Proof.
    intro IHf. induction n as [s|x|up|name req en body IHb|x items body IHb] using node_ind';
      intros c sc r [Henv Hblk] Hr Hg; cbn [exec_node spec_node] in *.
    - exact Hr.
    - rewrite <- Henv. exact Hr.
    - (* Super *)
      revert Hr Hg. apply post_sim. clear r. intros r Hr Hg.
      unfold Rh in Hblk. destruct (c_block c) as [h|], (sc_cur sc) as [cur|]; try contradiction; [|exact Hr].
      destruct Hblk as [Hps Hsite].
      pose proof (first_def_items (sc_above cur) (sc_name cur)) as Hfd.
      destruct h as [e s d ps|ps]; cbn [parents_of] in Hps.
      + destruct (sc_site cur) as [e'|] eqn:Hs; [subst e'|contradiction].
        destruct ps as [|p rest].
        * destruct (first_def (sc_above cur) (sc_name cur)) as [[b ab]|]; [congruence | exact Hr].
        * destruct (first_def (sc_above cur) (sc_name cur)) as [[b ab]|]; [|congruence].
          rewrite Hfd in Hps. inversion Hps; subst p rest.
          destruct (L <? s); [subst r; exfalso; apply (proj2 Hg); reflexivity|].
          eapply IHf; [|exact Hr|exact Hg]. solveR.
      + destruct ps as [|p rest].
        * destruct (first_def (sc_above cur) (sc_name cur)) as [[b ab]|]; [congruence | exact Hr].
        * destruct (first_def (sc_above cur) (sc_name cur)) as [[b ab]|]; [|congruence].
          rewrite Hfd in Hps. inversion Hps; subst p rest.
          destruct (sc_site cur) eqn:Hs; [contradiction|].
          destruct (L <? c_s c); [subst r; exfalso; apply (proj2 Hg); reflexivity|].
          eapply IHf; [|exact Hr|exact Hg]. solveR.
    - (* Block *)
      rewrite SC in Hr. pose proof (first_def_items chain name) as Hfd.
      destruct (first_def chain name) as [[b ab]|].
      + rewrite Hfd in Hr. cbn [item_of it_required it_body] in Hr.
        destruct (bd_required b); [exact Hr|].
        destruct (L <? c_d c); [subst r; exfalso; apply (proj2 Hg); reflexivity|].
        eapply IHf; [|exact Hr|exact Hg]. solveR.
      + rewrite Hfd in Hr. cbn [bd_required bd_body].
        destruct req; [exact Hr|].
        destruct (L <? c_s c); [subst r; exfalso; apply (proj2 Hg); reflexivity|].
        eapply IHf; [|exact Hr|exact Hg]. solveR.
    - (* For *)
      destruct items as [|v0 items]; [exact Hr|].
      destruct (L <? c_s c); [subst r; exfalso; apply (proj2 Hg); reflexivity|].
      revert r Hr Hg. apply seq_res_sim. apply Forall_forall. intros v _ r Hr Hg.
      revert Hr Hg. apply wrap_sim.
      apply seq_res_sim. rewrite Forall_forall in *. intros m Hm r' Hr Hg.
      eapply (IHb m Hm); [|exact Hr|exact Hg]. split; cbn; [congruence | exact Hblk].
  Qed.

  Lemma sim_body : forall fuel c sc body r,
    R c sc -> exec_body fuel sup nb L st c body = r -> good r -> spec_body fuel sup nb chain sc body = r.
  Proof.
    induction fuel as [|f IH]; intros c sc body r HR Hr Hg; [subst r; exfalso; apply (proj1 Hg); reflexivity|].
    cbn [exec_body spec_body] in *. unfold exec_nodes in Hr. revert Hr Hg. apply wrap_sim.
    apply seq_res_sim. apply Forall_forall. intros n _ r' Hr Hg.
    eapply sim_node; eauto.
  Qed.

  Lemma sim : forall fuel c sc body r,
    R c sc -> exec fuel sup nb L st c body = r -> good r -> spec_exec fuel sup nb chain sc body = r.
  Proof.
    intros [|f] c sc body r HR Hr Hg; [subst r; exfalso; apply (proj1 Hg); reflexivity|].
    cbn [exec spec_exec] in *. unfold exec_nodes in Hr. revert r Hr Hg.
    apply seq_res_sim. apply Forall_forall. intros n _ r Hr Hg.
    eapply sim_node; eauto. intros; eapply sim_body; eauto.
  Qed.
End Sim.

Lemma R_top data : R {| c_env := data; c_s := 5; c_d := 0; c_block := None |} {| sc_env := data; sc_cur := None |}.
Proof. split; exact I || reflexivity. Qed.

Lemma existsb_template_bad t rest :
  parse_ok t = true -> existsb template_bad (t :: rest) = chain_bad (t :: rest).
Proof.
  intro Hp. unfold chain_bad, template_bad. cbn. rewrite Hp. cbn. rewrite orb_false_r. fold (dup_bad t).
  destruct (dup_bad t); cbn; [reflexivity|].
  induction rest as [|u rest IH]; cbn; [reflexivity|].
  rewrite IH. unfold dup_bad.
  destruct (has_dup (map bd_name (tblocks u))), (parse_ok u), (existsb (fun t0 => has_dup (map bd_name (tblocks t0))) rest),
    (existsb (fun u0 => negb (parse_ok u0)) rest); reflexivity.
Qed.

(* chains of at least two templates: the rendered result is the documented one *)
Theorem model_is_spec_chain fuel sup nb L ld leaf t chain data :
  alookup leaf ld = Some t -> chain_from ld t chain -> 2 <= length chain ->
  good (render_model fuel sup nb L ld leaf data) ->
  render_spec fuel sup nb chain data = render_model fuel sup nb L ld leaf data.
Proof.
  intros Hl Hc Hlen Hg. destruct (chain_from_head _ _ _ Hc) as [parents ->].
  unfold render_model, load in *. rewrite Hl in *. unfold render_spec.
  destruct (parse_ok t) eqn:Hp; cbn [bind negb] in *; [|reflexivity].
  destruct parents as [|t1 parents]; [simpl in Hlen; lia|].
  inversion Hc as [|? p t' rest Hext Hlp Hc']; subst.
  unfold render_template in *. destruct (L <? 4); [exfalso; apply (proj2 Hg); reflexivity|].
  pose proof (split_extends_true t ltac:(congruence)) as Hs.
  destruct (split_extends t) as [pre ext]. cbn [fst snd] in *. subst ext.
  set (c5 := {| c_env := data; c_s := 5; c_d := 0; c_block := None |}) in *.
  destruct (exec fuel sup nb L [] c5 pre) as [a|e|] eqn:Hpre; cbn [bind] in Hg |- *.
  2: { rewrite (sim sup nb L [] [] (fun _ => eq_refl) fuel c5 _ pre (Err e) (R_top data) Hpre Hg). reflexivity. }
  2: { exfalso; apply (proj1 Hg); reflexivity. }
  rewrite (sim sup nb L [] [] (fun _ => eq_refl) fuel c5 _ pre (Ok a) (R_top data) Hpre) by (split; discriminate).
  cbn [bind]. rewrite (existsb_template_bad t (t1 :: parents) Hp).
  assert (Hseen : seen_ok ld [] (length (t :: t1 :: parents))) by (intros q []).
  destruct (build_chain ld t _ Hc (S (S (length ld))) [] [] Hseen) as [H|[[Hb H]|[Hb (st' & H & Hst)]]].
  - exfalso. revert H. apply build_fuel; [constructor | intros q [] | simpl; lia].
  - rewrite Hb, H. reflexivity.
  - rewrite Hb, H in *. cbn [bind] in *.
    destruct (L <? 5); [exfalso; apply (proj2 Hg); reflexivity|].
    set (c6 := {| c_env := data; c_s := 6; c_d := 0; c_block := None |}) in *.
    assert (HR6 : R c6 {| sc_env := data; sc_cur := None |}) by (split; exact I || reflexivity).
    destruct (exec fuel sup nb L st' c6 (tnodes (last (t :: t1 :: parents) t))) as [b|e|] eqn:Hb2; cbn [bind] in Hg |- *.
    + rewrite (sim sup nb L st' _ Hst fuel c6 _ _ (Ok b) HR6 Hb2) by (split; discriminate). reflexivity.
    + rewrite (sim sup nb L st' _ Hst fuel c6 _ _ (Err e) HR6 Hb2 Hg). reflexivity.
    + exfalso; apply (proj1 Hg); reflexivity.
Qed.

(* a template without extends, with unique block names *)
Theorem model_is_spec_standalone fuel sup nb L ld leaf t data :
  alookup leaf ld = Some t -> textends t = [] -> dup_bad t = false ->
  good (render_model fuel sup nb L ld leaf data) ->
  render_spec fuel sup nb [t] data = render_model fuel sup nb L ld leaf data.
Proof.
  intros Hl Hext Hd Hg. unfold render_model, load in *. rewrite Hl in *. unfold render_spec, template_bad.
  fold (dup_bad t). rewrite Hd.
  destruct (parse_ok t) eqn:Hp; cbn [bind negb orb] in *; [|reflexivity].
  unfold render_template in *. destruct (L <? 4); [exfalso; apply (proj2 Hg); reflexivity|].
  rewrite (split_extends_none t Hext) in *.
  set (c5 := {| c_env := data; c_s := 5; c_d := 0; c_block := None |}) in *.
  destruct (exec fuel sup nb L [] c5 (tnodes t)) as [a|e|] eqn:Hpre; cbn [bind] in Hg |- *.
  - apply (sim sup nb L [] [] (fun _ => eq_refl) fuel c5 _ _ (Ok a) (R_top data) Hpre). split; discriminate.
  - apply (sim sup nb L [] [] (fun _ => eq_refl) fuel c5 _ _ (Err e) (R_top data) Hpre Hg).
  - exfalso; apply (proj1 Hg); reflexivity.
Qed.

(* ---------------------------------------------------------------------------------- required blocks *)
(* whenever a block tag is reached while a chain is in effect and the most-derived definition of its name carries
   `required`, RequiredBlockError is raised -- whatever the tag itself says *)
Theorem required_not_overridden sup nb L st chain jump c name req en body b above :
  (forall n, slookup n st = items_from chain n) ->
  first_def chain name = Some (b, above) -> bd_required b = true ->
  exec_node sup nb L st jump c (Block name req en body) = Err ERequiredBlock.
Proof.
  intros SC Hfd Hreq. cbn [exec_node]. rewrite SC.
  pose proof (first_def_items chain name) as H. rewrite Hfd in H. rewrite H.
  cbn [item_of it_required]. rewrite Hreq. reflexivity.
Qed.

(* ... and a required block of a template rendered on its own *)
Theorem required_standalone sup nb L jump c name en body :
  exec_node sup nb L [] jump c (Block name true en body) = Err ERequiredBlock.
Proof. reflexivity. Qed.

Lemma render_template_chain fuel sup nb L ld data t chain a :
  chain_from ld t chain -> 2 <= length chain -> 4 <= L ->
  exec fuel sup nb L [] {| c_env := data; c_s := 5; c_d := 0; c_block := None |} (fst (split_extends t)) = Ok a ->
  (chain_bad chain = true /\ render_template fuel sup nb L ld data t = Err EInherit) \/
  (chain_bad chain = false /\ exists st, (forall n, slookup n st = items_from chain n) /\
     render_template fuel sup nb L ld data t =
     if L <? 5 then Err EContextDepth
     else do b <- exec fuel sup nb L st {| c_env := data; c_s := 6; c_d := 0; c_block := None |} (tnodes (last chain t));
          Ok (a ++ b)).
Proof.
  intros Hc Hlen HL Hpre. unfold render_template. destruct (L <? 4) eqn:E4; [lia|].
  assert (Hext : textends t <> []).
  { inversion Hc; subst; [simpl in Hlen; lia | congruence]. }
  pose proof (split_extends_true t Hext) as Hs.
  destruct (split_extends t) as [pre ext]. cbn [fst snd] in *. subst ext. rewrite Hpre. cbn [bind].
  assert (Hseen : seen_ok ld [] (length chain)) by (intros q []).
  destruct (build_chain ld t _ Hc (S (S (length ld))) [] [] Hseen) as [H|[[Hb H]|[Hb (st' & H & Hst)]]].
  - exfalso. revert H. apply build_fuel; [constructor | intros q [] | simpl; lia].
  - left. rewrite H. auto.
  - right. split; [exact Hb|]. exists st'. split; [exact Hst|]. rewrite H. reflexivity.
Qed.

Theorem required_top fuel sup nb L ld data t chain a name req en body sfx b above :
  chain_from ld t chain -> 2 <= length chain -> 5 <= L -> chain_bad chain = false ->
  exec (S fuel) sup nb L [] {| c_env := data; c_s := 5; c_d := 0; c_block := None |} (fst (split_extends t)) = Ok a ->
  tnodes (last chain t) = Block name req en body :: sfx ->
  first_def chain name = Some (b, above) -> bd_required b = true ->
  render_template (S fuel) sup nb L ld data t = Err ERequiredBlock.
Proof.
  intros Hc Hlen HL Hbad Hpre Hroot Hfd Hreq.
  destruct (render_template_chain (S fuel) sup nb L ld data t chain a Hc Hlen ltac:(lia) Hpre) as [[Hb _]|[_ (st & SC & ->)]]; [congruence|].
  destruct (L <? 5) eqn:E5; [lia|]. rewrite Hroot. cbn [exec]. unfold exec_nodes. rewrite seq_res_cons.
  rewrite (required_not_overridden sup nb L st chain _ _ name req en body b above SC Hfd Hreq). reflexivity.
Qed.

(* ------------------------------------------------------- duplicate names / mismatched endblock in a chain *)
Theorem chain_rejected fuel sup nb L ld data t chain a :
  chain_from ld t chain -> 2 <= length chain -> 4 <= L -> chain_bad chain = true ->
  exec fuel sup nb L [] {| c_env := data; c_s := 5; c_d := 0; c_block := None |} (fst (split_extends t)) = Ok a ->
  render_template fuel sup nb L ld data t = Err EInherit.
Proof.
  intros Hc Hlen HL Hbad Hpre.
  destruct (render_template_chain fuel sup nb L ld data t chain a Hc Hlen HL Hpre) as [[_ H]|[Hb _]]; [exact H | congruence].
Qed.

Theorem leaf_endblock_mismatch fuel sup nb L ld leaf t data :
  alookup leaf ld = Some t -> parse_ok t = false -> render_model fuel sup nb L ld leaf data = Err EInherit.
Proof. intros Hl Hp. unfold render_model, load. rewrite Hl, Hp. reflexivity. Qed.

(* what parse_ok and dup_bad mean *)
Lemma has_dup_spec names : has_dup names = false <-> NoDup names.
Proof.
  induction names as [|n r IH]; cbn; [split; [constructor | reflexivity]|].
  rewrite orb_false_iff, IH. split.
  - intros [Hm Hr]. constructor; auto. intro Hin. apply smem_In in Hin. congruence.
  - intro H. inversion H; subst. split; auto. destruct (smem n r) eqn:E; [apply smem_In in E; contradiction | reflexivity].
Qed.

(* ------------------------------------------------------------ after the extends tag only blocks matter *)
Lemma tblocks_app a b : tblocks (a ++ b) = tblocks a ++ tblocks b.
Proof. unfold tblocks. apply flat_map_app. Qed.
Lemma textends_app a b : textends (a ++ b) = textends a ++ textends b.
Proof. unfold textends. apply flat_map_app. Qed.

Lemma split_extends_pre pn p post : split_extends (map TNode pn ++ TExtends p :: post) = (pn, true).
Proof. induction pn as [|n pn IH]; cbn; [reflexivity|]. rewrite IH. reflexivity. Qed.

Theorem after_extends_ignored fuel sup nb L ld data pn p post post' :
  tblocks post = tblocks post' -> textends post = textends post' ->
  render_template fuel sup nb L ld data (map TNode pn ++ TExtends p :: post) =
  render_template fuel sup nb L ld data (map TNode pn ++ TExtends p :: post').
Proof.
  intros Hb He. unfold render_template. rewrite !split_extends_pre.
  destruct (L <? 4); [reflexivity|].
  destruct (exec fuel sup nb L [] _ pn); cbn [bind]; try reflexivity.
  assert (Hbuild : build (S (S (length ld))) ld [] [] (map TNode pn ++ TExtends p :: post) =
                   build (S (S (length ld))) ld [] [] (map TNode pn ++ TExtends p :: post')).
  { cbn [build]. unfold stack_blocks.
    rewrite !tblocks_app, !textends_app.
    change (TExtends p :: post) with ([TExtends p] ++ post). change (TExtends p :: post') with ([TExtends p] ++ post').
    rewrite !tblocks_app, !textends_app, Hb, He.
    destruct (1 <? _); cbn [bind]; [reflexivity|].
    destruct (has_dup _); cbn [bind]; [reflexivity|].
    assert (Hnone : textends (map TNode pn) = []) by (clear; induction pn; cbn; auto).
    rewrite Hnone. cbn [app textends flat_map hd_error]. reflexivity. }
  rewrite Hbuild. reflexivity.
Qed.

(* ------------------------------------------------------ the specification does not depend on the fuel *)
Lemma seq_res_mono {A} (f g : A -> res str) l :
  Forall (fun a => forall r, f a = r -> r <> OutOfFuel -> g a = r) l ->
  forall r, seq_res f l = r -> r <> OutOfFuel -> seq_res g l = r.
Proof.
  induction 1 as [|a l Ha _ IH]; intros r Hr Hg; [exact Hr|].
  rewrite seq_res_cons in *. destruct (f a) as [x|e|] eqn:Hfa; cbn [bind] in Hr.
  - rewrite (Ha _ eq_refl) by discriminate. cbn [bind].
    destruct (seq_res f l) as [y|e|] eqn:Hfl; cbn [bind] in Hr.
    + rewrite (IH _ eq_refl) by discriminate. exact Hr.
    + rewrite (IH (Err e) eq_refl) by discriminate. exact Hr.
    + subst r; exfalso; apply Hg; reflexivity.
  - rewrite (Ha (Err e) eq_refl) by discriminate. exact Hr.
  - subst r; exfalso; apply Hg; reflexivity.
Qed.

Lemma wrap_mono b X Y r :
  (forall r', X = r' -> r' <> OutOfFuel -> Y = r') -> wrap b X = r -> r <> OutOfFuel -> wrap b Y = r.
Proof.
  intros H Hr Hg. destruct b; cbn [wrap] in *; [|auto].
  unfold discard in *. destruct X as [x|e|]; cbn [bind] in Hr.
  - rewrite (H (Ok x) eq_refl) by discriminate. exact Hr.
  - rewrite (H (Err e) eq_refl) by discriminate. exact Hr.
  - subst r; exfalso; apply Hg; reflexivity.
Qed.

Lemma post_mono up X Y r :
  (forall r', X = r' -> r' <> OutOfFuel -> Y = r') -> post up X = r -> r <> OutOfFuel -> post up Y = r.
Proof.
  intros H Hr Hg. destruct up; cbn [post] in *; [|auto].
  destruct X as [x|e|]; cbn [bind] in Hr.
  - rewrite (H (Ok x) eq_refl) by discriminate. exact Hr.
  - rewrite (H (Err e) eq_refl) by discriminate. exact Hr.
  - subst r; exfalso; apply Hg; reflexivity.
Qed.

Lemma spec_node_mono sup nb chain f f' :
  (forall c body r, spec_body f sup nb chain c body = r -> r <> OutOfFuel -> spec_body f' sup nb chain c body = r) ->
  forall n c r, spec_node sup nb chain (spec_body f sup nb chain) c n = r -> r <> OutOfFuel ->
                spec_node sup nb chain (spec_body f' sup nb chain) c n = r.
Proof.
  intro IHf. induction n as [s|x|up|name req en body IHb|x items body IHb] using node_ind'; intros c r Hr Hg;
    cbn [spec_node] in *; try exact Hr.
  - revert Hr Hg. apply post_mono. clear r. intros r Hr Hg.
    destruct (sc_cur c) as [cur|]; [|exact Hr].
    destruct (first_def (sc_above cur) (sc_name cur)) as [[b ab]|]; [|exact Hr]. now apply IHf.
  - destruct (match first_def chain name with Some r0 => r0 | None => _ end) as [b ab].
    destruct (bd_required b); [exact Hr|]. now apply IHf.
  - revert r Hr Hg. apply seq_res_mono. apply Forall_forall. intros v _ r Hr Hg. revert Hr Hg. apply wrap_mono.
    apply seq_res_mono. rewrite Forall_forall in *. intros m Hm r' Hr Hg. now apply (IHb m Hm).
Qed.

Theorem spec_body_mono sup nb chain : forall f f' c body r,
  f <= f' -> spec_body f sup nb chain c body = r -> r <> OutOfFuel -> spec_body f' sup nb chain c body = r.
Proof.
  induction f as [|f IH]; intros f' c body r Hle Hr Hg; [cbn in Hr; subst r; exfalso; apply Hg; reflexivity|].
  destruct f' as [|f']; [lia|]. cbn [spec_body] in *. revert Hr Hg. apply wrap_mono.
  apply seq_res_mono. apply Forall_forall. intros n _ r' Hr Hg.
  eapply (spec_node_mono sup nb chain f f'); [|exact Hr|exact Hg]. intros c' body' r'' H1 H2. apply IH; [lia|exact H1|exact H2].
Qed.

Theorem spec_exec_mono sup nb chain : forall f f' c body r,
  f <= f' -> spec_exec f sup nb chain c body = r -> r <> OutOfFuel -> spec_exec f' sup nb chain c body = r.
Proof.
  intros [|f] f' c body r Hle Hr Hg; [cbn in Hr; subst r; exfalso; apply Hg; reflexivity|].
  destruct f' as [|f']; [lia|]. cbn [spec_exec] in *. revert r Hr Hg.
  apply seq_res_mono. apply Forall_forall. intros n _ r Hr Hg.
  eapply (spec_node_mono sup nb chain f f'); [|exact Hr|exact Hg]. intros c' body' r' H1 H2.
  eapply spec_body_mono; [|exact H1|exact H2]. lia.
Qed.

Theorem render_spec_mono sup nb f f' chain data r :
  f <= f' -> render_spec f sup nb chain data = r -> r <> OutOfFuel -> render_spec f' sup nb chain data = r.
Proof.
  intros Hle Hr Hg. unfold render_spec in *. destruct chain as [|leaf parents]; [exact Hr|].
  destruct (negb (parse_ok leaf)); [exact Hr|].
  destruct parents as [|t1 parents].
  - destruct (template_bad leaf); [exact Hr|]. eapply spec_exec_mono; eauto.
  - destruct (spec_exec f sup nb [] _ (fst (split_extends leaf))) as [a|e|] eqn:H1; cbn [bind] in Hr.
    + rewrite (spec_exec_mono sup nb [] f f' _ _ (Ok a) Hle H1) by discriminate. cbn [bind].
      destruct (existsb template_bad _); [exact Hr|].
      destruct (spec_exec f sup nb (leaf :: t1 :: parents) _ _) as [b|e|] eqn:H2; cbn [bind] in Hr.
      * rewrite (spec_exec_mono sup nb _ f f' _ _ (Ok b) Hle H2) by discriminate. exact Hr.
      * rewrite (spec_exec_mono sup nb _ f f' _ _ (Err e) Hle H2) by discriminate. exact Hr.
      * subst r; exfalso; apply Hg; reflexivity.
    + rewrite (spec_exec_mono sup nb [] f f' _ _ (Err e) Hle H1) by discriminate. exact Hr.
    + subst r; exfalso; apply Hg; reflexivity.
Qed.

(* ------------------------------------------- blank bodies never swallow a block: placeholders and overrides *)
(* a node that is, or contains under loops, a block tag *)
Fixpoint has_block (n : node) : bool :=
  match n with
  | Block _ _ _ _ => true
  | For _ _ body => existsb has_block body
  | _ => false
  end.

Lemma has_block_not_blank : forall n, has_block n = true -> node_blank n = false.
Proof.
  induction n as [s|x|up|name req en body IHb|x items body IHb] using node_ind'; cbn; try discriminate; [reflexivity|].
  intro H. apply existsb_exists in H. destruct H as (m & Hin & Hm).
  rewrite Forall_forall in IHb. specialize (IHb m Hin Hm).
  destruct (forallb node_blank body) eqn:E; [|reflexivity].
  rewrite forallb_forall in E. rewrite (E m Hin) in IHb. discriminate.
Qed.

(* a body in which a block tag occurs (directly or under loops) is never rendered into the null buffer *)
Theorem block_never_blank sup body : existsb has_block body = true -> body_blank sup node_blank body = false.
Proof.
  intro H. apply existsb_exists in H. destruct H as (m & Hin & Hm). unfold body_blank.
  destruct (forallb node_blank body) eqn:E; [|now rewrite andb_false_r].
  rewrite forallb_forall in E. specialize (E m Hin). rewrite (has_block_not_blank m Hm) in E. discriminate.
Qed.

(* ... so a loop around a block tag renders every iteration of its body to the real buffer *)
Corollary loop_around_block_kept sup L st jump c x v items body :
  existsb has_block body = true -> (L <? c_s c) = false ->
  exec_node sup node_blank L st jump c (For x (v :: items) body) =
  seq_res (fun v => seq_res (exec_node sup node_blank L st jump
                               {| c_env := (x, v) :: c_env c; c_s := S (c_s c); c_d := c_d c; c_block := c_block c |}) body)
          (v :: items).
Proof. intros Hb Hs. cbn [exec_node]. rewrite Hs, (block_never_blank sup body Hb). reflexivity. Qed.

(* a reached block tag renders the most-derived definition; its own body (the default, the placeholder) plays no part *)
Theorem override_rendered sup nb L st chain jump c name req en dflt b above :
  (forall n, slookup n st = items_from chain n) ->
  first_def chain name = Some (b, above) -> bd_required b = false -> (L <? c_d c) = false ->
  exec_node sup nb L st jump c (Block name req en dflt) =
  jump {| c_env := c_env c; c_s := 4; c_d := S (c_d c);
          c_block := Some (HSite (c_env c) (c_s c) (c_d c) (items_from above name)) |} (bd_body b).
Proof.
  intros SC Hfd Hreq Hd. cbn [exec_node]. rewrite SC.
  pose proof (first_def_items chain name) as H. rewrite Hfd in H. rewrite H.
  cbn [item_of it_required it_body]. rewrite Hreq, Hd. reflexivity.
Qed.

(* end to end: a placeholder with ANY default as the only content of a loop in the root, overridden in the leaf by plain
   content: every iteration renders the override *)
Definition is_plain (n : node) : bool := match n with Text _ | Var _ => true | _ => false end.
Definition plain_out (e : env) (body : list node) : str :=
  concat_str (map (fun n => match n with Text s => s | Var y => show_var e y | _ => [] end) body).

Lemma plain_no_blocks body : forallb is_plain body = true -> flat_map blocks_of_node body = [].
Proof.
  induction body as [|n r IH]; cbn; [reflexivity|]. rewrite andb_true_iff. intros [Hn Hr].
  destruct n; cbn in *; try discriminate; auto.
Qed.

Lemma plain_endblock_ok body : forallb is_plain body = true -> forallb endblock_ok_node body = true.
Proof.
  induction body as [|n r IH]; cbn; [reflexivity|]. rewrite andb_true_iff. intros [Hn Hr].
  destruct n; cbn in *; try discriminate; auto.
Qed.

Lemma plain_exec sup nb L st jump c body :
  forallb is_plain body = true -> exec_nodes sup nb L st jump c body = Ok (plain_out (c_env c) body).
Proof.
  unfold exec_nodes, plain_out. induction body as [|n r IH]; cbn [forallb]; [reflexivity|].
  rewrite andb_true_iff. intros [Hn Hr]. rewrite seq_res_cons, (IH Hr).
  destruct n; cbn in *; try discriminate; reflexivity.
Qed.

Lemma seq_res_all_ok {A} (F : A -> res str) (G : A -> str) l :
  (forall v, F v = Ok (G v)) -> seq_res F l = Ok (concat_str (map G l)).
Proof.
  intro H. induction l as [|v l IH]; [reflexivity|]. rewrite seq_res_cons, H, IH. reflexivity.
Qed.

Definition ph_leaf (root a : str) (ov : list node) : template := [TExtends root; TNode (Block a false None ov)].
Definition ph_root (a x : str) (items : list Z) (dflt : list node) : template :=
  [TNode (For x items [Block a false None dflt])].

Theorem placeholder_in_loop fuel sup L ld rootn a x items dflt ov data :
  alookup rootn ld = Some (ph_root a x items dflt) ->
  parse_ok (ph_root a x items dflt) = true -> dup_bad (ph_root a x items dflt) = false ->
  forallb is_plain ov = true -> 6 <= L ->
  render_template (S (S (S fuel))) sup node_blank L ld data (ph_leaf rootn a ov) =
  Ok (concat_str (map (fun v => if body_blank sup node_blank ov then [] else plain_out ((x, v) :: data) ov) items)).
Proof.
  intros Hl Hp Hd Hov HL.
  set (leaf := ph_leaf rootn a ov). set (root := ph_root a x items dflt) in *.
  assert (Hc : chain_from ld leaf [leaf; root]).
  { eapply chain_step; [reflexivity | exact Hl | apply chain_root; reflexivity]. }
  assert (Hbad : chain_bad [leaf; root] = false).
  { unfold chain_bad. cbn [existsb tl]. rewrite Hd, Hp. unfold dup_bad, leaf, ph_leaf, tblocks. cbn.
    rewrite (plain_no_blocks ov Hov). reflexivity. }
  destruct (render_template_chain (S (S (S fuel))) sup node_blank L ld data leaf [leaf; root] []
              Hc ltac:(simpl; lia) ltac:(lia) eq_refl) as [[Hb _]|[_ (st & SC & ->)]]; [congruence|].
  destruct (L <? 5) eqn:E5; [lia|].
  change (tnodes (last [leaf; root] leaf)) with [For x items [Block a false None dflt]].
  cbn [exec]. unfold exec_nodes at 1. rewrite seq_res_cons. cbn [seq_res app].
  destruct items as [|v0 items]; [reflexivity|].
  rewrite loop_around_block_kept by (reflexivity || (cbn; lia)).
  assert (Hfd : first_def [leaf; root] a = Some ({| bd_name := a; bd_required := false; bd_body := ov |}, [root])).
  { cbn. unfold find_block, leaf, ph_leaf, tblocks. cbn. rewrite str_eqb_refl. reflexivity. }
  assert (Hone : forall v, seq_res (exec_node sup node_blank L st (exec_body (S (S fuel)) sup node_blank L st)
             {| c_env := (x, v) :: data; c_s := 7; c_d := 0; c_block := None |}) [Block a false None dflt]
           = Ok (if body_blank sup node_blank ov then [] else plain_out ((x, v) :: data) ov)).
  { intro v. rewrite seq_res_cons. cbn [seq_res].
    rewrite (override_rendered sup node_blank L st [leaf; root] _ _ a false None dflt _ _ SC Hfd eq_refl)
      by (cbn; destruct (L <? 0) eqn:E; [lia | reflexivity]).
    cbn [exec_body bd_body]. rewrite (plain_exec _ _ _ _ _ _ ov Hov). cbn [c_env].
    destruct (body_blank sup node_blank ov); cbn; now rewrite ?app_nil_r. }
  cbn [c_env c_s c_d c_block].
  rewrite (seq_res_all_ok _ _ (v0 :: items) Hone). cbn [bind]. now rewrite app_nil_r.
Qed.
