(* Expressions owned by tags: identifiers, loop expressions, argument lists, when-lists, cycle, include, render, assign --
   and the theorem for every payload. *)
From LiquidVerif Require Import Prelude PyPrims Cond CondPrint Cond_Proofs CondParen CondParen_Proofs StrLit PathSyntax PathSyntax_Proofs ExprSyntax ExprSyntax_Proofs.

Section Tags.
  Variable is_prop : str -> bool.
  Hypothesis is_prop_not_kw : forall s, is_prop s = true -> is_kw s = false.
  Local Notation print_path := (PathSyntax.print_path is_prop).
  Local Notation print_prim := (ExprSyntax.print_prim is_prop).
  Local Notation print_ident := (ExprSyntax.print_ident is_prop).
  Local Notation print_expr := (ExprSyntax.print_expr is_prop).
  Local Notation print_payload := (ExprSyntax.print_payload is_prop).
  Local Notation pprim_rt := (pprim_roundtrip is_prop is_prop_not_kw).

  (* ---- identifiers (path.quote_identifier / parse_identifier) ---- *)
  Lemma print_ident_path s : print_ident s = map of_ptok (print_path [SName s]).
  Proof.
    unfold ExprSyntax.print_ident, PathSyntax.print_path. cbn [PathSyntax.print_segs PathSyntax.print_seg]. destruct (is_prop s); reflexivity.
  Qed.

  Lemma ident_prim s rest : follow_ok rest -> pprim (print_ident s ++ rest) = Ok (PPath [SName s], rest).
  Proof.
    intro Hf. rewrite print_ident_path. apply (pprim_rt (PPath [SName s]) rest); [reflexivity|exact Hf].
  Qed.

  Lemma ident_roundtrip allow_q s rest : follow_ok rest -> allow_q || negb (ends_q s) = true ->
    parse_ident allow_q (print_ident s ++ rest) = Ok (s, rest).
  Proof.
    intros Hf Hq. unfold parse_ident. rewrite (ident_prim s rest Hf). cbn [bind fst snd].
    destruct allow_q; [reflexivity|]. cbn [orb negb andb] in *. apply negb_true_iff in Hq. rewrite Hq. reflexivity.
  Qed.

  (* a bare word (an alias) is read as the identifier it spells *)
  Lemma word_ident s rest : follow_ok rest -> parse_ident true (EWord s :: rest) = Ok (s, rest).
  Proof.
    intro Hf. unfold parse_ident, pprim, pfuel. cbn [length ExprSyntax.parse_prim].
    rewrite (word_path s rest Hf). reflexivity.
  Qed.

  (* ---- loop expressions ---- *)
  Inductive litem := LKey (k : etok) (p : prim) | LRev.
  Definition print_item (i : litem) : list etok := match i with LKey k p => k :: EColon :: print_prim p | LRev => [EReversed] end.
  Definition apply_item (l : loopx) (i : litem) : loopx := match i with LKey k p => set_loop l k p | LRev => set_rev l end.
  Definition item_ok (i : litem) : bool := match i with LKey k p => loop_key k && wf_prim p | LRev => true end.
  Definition lfollow (rest : list etok) : bool :=
    match rest with [] => true | t :: _ => match t with ELimit | EOffset | ECols | EReversed => true | _ => false end end.
  Lemma lfollow_ok rest : lfollow rest = true -> follow_ok rest.
  Proof. destruct rest as [|[] r]; cbn; intro; try discriminate; trivial. Qed.

  Lemma loop_items : forall items l fuel, forallb item_ok items = true -> length items < fuel ->
    parse_loop_args fuel l (flat_map print_item items) = Ok (fold_left apply_item items l).
  Proof.
    induction items as [|i items IH]; intros l fuel Hok Hfu; (destruct fuel as [|f]; [cbn in Hfu; lia|]); [reflexivity|].
    cbn [forallb] in Hok. apply andb_true_iff in Hok. destruct Hok as [Hi Hitems].
    assert (Hnext : lfollow (flat_map print_item items) = true).
    { destruct items as [|[k p|] r]; try reflexivity. cbn [forallb item_ok] in Hitems. apply andb_true_iff in Hitems. destruct Hitems as [Hk _].
      apply andb_true_iff in Hk. destruct Hk as [Hk _]. destruct k; try discriminate Hk; reflexivity. }
    cbn [flat_map fold_left]. destruct i as [k p|].
    - cbn [item_ok] in Hi. apply andb_true_iff in Hi. destruct Hi as [Hk Hp].
      pose proof (pprim_rt p _ Hp (lfollow_ok _ Hnext)) as Hpp.
      destruct (print_prim_head is_prop is_prop_not_kw p Hp) as (t & r & Ht & Hst & _).
      assert (Hnc : is_continue (hd_tok (print_prim p ++ flat_map print_item items)) = false).
      { rewrite Ht. cbn. destruct t; try discriminate Hst; reflexivity. }
      cbn [print_item app apply_item].
      destruct k; try discriminate Hk; cbn [ExprSyntax.parse_loop_args is_reversed loop_key is_colon hd_tok hd_error tl is_offset andb];
        rewrite ?Hnc; rewrite Hpp; cbn [bind fst snd]; apply IH; try assumption; cbn [length] in Hfu; lia.
    - cbn [print_item app apply_item ExprSyntax.parse_loop_args is_reversed]. apply IH; [assumption|cbn [length] in Hfu; lia].
  Qed.

  Definition items_of (l : loopx) : list litem :=
    match lp_limit l with Some p => [LKey ELimit p] | None => [] end ++ match lp_offset l with Some p => [LKey EOffset p] | None => [] end
    ++ match lp_cols l with Some p => [LKey ECols p] | None => [] end ++ (if lp_rev l then [LRev] else []).

  Lemma loop_roundtrip l : wf_loop l = true -> parse_loop (ExprSyntax.print_loop is_prop l) = Ok l.
  Proof.
    intro Hwf. destruct l as [id it lim off cols rv]. unfold wf_loop in Hwf. cbn [lp_iter lp_limit lp_offset lp_cols] in Hwf.
    repeat (apply andb_true_iff in Hwf; destruct Hwf as [Hwf ?]).
    unfold parse_loop, ExprSyntax.print_loop. cbn [lp_id lp_iter lp_limit lp_offset lp_cols lp_rev].
    rewrite (ident_roundtrip true id (EIn :: _) eq_refl eq_refl). cbn [bind fst snd].
    set (l0 := {| lp_id := id; lp_iter := it; lp_limit := None; lp_offset := None; lp_cols := None; lp_rev := false |}).
    set (full := {| lp_id := id; lp_iter := it; lp_limit := lim; lp_offset := off; lp_cols := cols; lp_rev := rv |}).
    assert (Hitems : print_opt is_prop ELimit lim ++ print_opt is_prop EOffset off ++ print_opt is_prop ECols cols ++ (if rv then [EReversed] else [])
                     = flat_map print_item (items_of full)).
    { unfold items_of, full. cbn [lp_limit lp_offset lp_cols lp_rev]. destruct lim, off, cols, rv; reflexivity. }
    assert (Hok : forallb item_ok (items_of full) = true).
    { unfold items_of, full. cbn [lp_limit lp_offset lp_cols lp_rev].
      destruct lim, off, cols, rv; cbn [wf_opt] in *; cbn [app forallb item_ok loop_key andb]; rewrite ?Hwf, ?H, ?H0, ?H1; reflexivity. }
    assert (Hfold : fold_left apply_item (items_of full) l0 = full).
    { unfold items_of, full, l0. cbn [lp_limit lp_offset lp_cols lp_rev]. destruct lim, off, cols, rv; reflexivity. }
    rewrite Hitems.
    assert (Hlf : lfollow (flat_map print_item (items_of full)) = true).
    { unfold items_of, full. cbn [lp_limit lp_offset lp_cols lp_rev]. destruct lim, off, cols, rv; reflexivity. }
    rewrite (pprim_rt it _ Hwf (lfollow_ok _ Hlf)). cbn [bind fst snd].
    assert (Hnc : skip_comma (flat_map print_item (items_of full)) = flat_map print_item (items_of full)).
    { destruct (flat_map print_item (items_of full)) as [|[] r] eqn:E; try reflexivity. cbn in Hlf. discriminate. }
    rewrite Hnc. fold l0. rewrite (loop_items (items_of full) l0 _ Hok).
    - rewrite Hfold. reflexivity.
    - clear. induction (items_of full) as [|i r IH]; [cbn; lia|]. cbn [flat_map length]. rewrite app_length. destruct i; cbn [print_item length]; lia.
  Qed.

  (* ---- keyword arguments (include, render) ---- *)
  Local Notation print_kwarg := (ExprSyntax.print_kwarg is_prop).
  Definition kfollow (rest : list etok) : bool := match rest with [] => true | EComma :: _ => true | _ => false end.

  Lemma kwargs_loop : forall l acc fuel (lead : bool), l <> [] -> wf_kwargs l = true -> length l < fuel ->
    parse_kwargs_loop fuel acc ((if lead then [EComma] else []) ++ join [EComma] (map print_kwarg l)) = Ok (rev acc ++ l).
  Proof.
    induction l as [|[k p] l IH]; intros acc fuel lead Hne Hwf Hfu; [congruence|].
    unfold wf_kwargs in Hwf. cbn [forallb fst snd] in Hwf. apply andb_true_iff in Hwf. destruct Hwf as [Hkp Hl].
    apply andb_true_iff in Hkp. destruct Hkp as [Hk Hp]. unfold wf_name in Hk. apply negb_true_iff in Hk.
    destruct fuel as [|f]; [lia|].
    assert (Hstrip : forall X, skip_comma ((if lead then [EComma] else []) ++ print_kwarg (k, p) ++ X) = print_kwarg (k, p) ++ X).
    { intro X. unfold ExprSyntax.print_kwarg. cbn [fst snd]. rewrite (word_tok_word k Hk). destruct lead; reflexivity. }
    destruct l as [|b l'].
    - cbn [map join]. rewrite <- (app_nil_r (print_kwarg (k, p))). cbn [ExprSyntax.parse_kwargs_loop]. rewrite Hstrip.
      unfold ExprSyntax.print_kwarg. cbn [fst snd]. rewrite (word_tok_word k Hk). cbn [app].
      rewrite (pprim_rt p [] Hp I). cbn [bind fst snd hd_tok hd_error is_eword].
      destruct f as [|f']; [cbn [length] in Hfu; lia|]. reflexivity.
    - cbn [map]. rewrite join_cons2. cbn [ExprSyntax.parse_kwargs_loop]. rewrite Hstrip.
      unfold ExprSyntax.print_kwarg at 1. cbn [fst snd]. rewrite (word_tok_word k Hk). cbn [app].
      rewrite (pprim_rt p (EComma :: _) Hp eq_refl). cbn [bind fst snd hd_tok hd_error is_eword].
      change (print_kwarg b :: map print_kwarg l') with (map print_kwarg (b :: l')).
      pose proof (IH ((k, p) :: acc) f true ltac:(discriminate) Hl ltac:(cbn [length] in *; lia)) as IH'. cbn [app] in IH'. rewrite IH'.
      cbn [rev]. rewrite <- app_assoc. reflexivity.
  Qed.

  Lemma kwargs_roundtrip l : wf_kwargs l = true -> parse_kwargs (ExprSyntax.print_kwargs is_prop l) = Ok l.
  Proof.
    intro Hwf. destruct l as [|a l]; [reflexivity|]. unfold parse_kwargs, ExprSyntax.print_kwargs.
    apply (kwargs_loop (a :: l) [] _ false ltac:(discriminate) Hwf).
    assert (Hlen : forall m : list (str * prim), m <> [] -> length m <= length (join [EComma] (map print_kwarg m))).
    { induction m as [|x m IHm]; [congruence|]. intros _. destruct m as [|y m'].
      - cbn [map join length]. unfold ExprSyntax.print_kwarg. cbn [length]. lia.
      - cbn [map]. rewrite join_cons2. cbn [map] in IHm. rewrite !app_length. specialize (IHm ltac:(discriminate)). cbn [length] in *.
        unfold ExprSyntax.print_kwarg at 1. cbn [length]. lia. }
    specialize (Hlen (a :: l) ltac:(discriminate)). cbn [skip_comma]. lia.
  Qed.

  Lemma kwargs_follow l : kfollow (ExprSyntax.print_kwargs is_prop l) = true.
  Proof. destruct l; reflexivity. Qed.
  Lemma kfollow_ok rest : kfollow rest = true -> follow_ok rest.
  Proof. destruct rest as [|[] r]; cbn; intro; try discriminate; trivial. Qed.

  (* ---- positional arguments (cycle) and when-lists ---- *)
  Lemma join_prims_head (l : list prim) : l <> [] -> forallb wf_prim l = true ->
    exists t r, join [EComma] (map print_prim l) = t :: r /\ pstart t = true.
  Proof.
    intros Hne Hwf. destruct l as [|p l]; [congruence|]. cbn [forallb] in Hwf. apply andb_true_iff in Hwf. destruct Hwf as [Hp _].
    destruct (print_prim_head is_prop is_prop_not_kw p Hp) as (t & r & Ht & Hst & _).
    destruct l as [|q l']; cbn [map]; [cbn [join]|rewrite join_cons2]; rewrite Ht; eexists _, _; split; try reflexivity; exact Hst.
  Qed.

  Lemma posargs_loop : forall l acc fuel (lead : bool), l <> [] -> forallb wf_prim l = true -> length l < fuel ->
    parse_posargs fuel acc ((if lead then [EComma] else []) ++ join [EComma] (map print_prim l)) = Ok (rev acc ++ l).
  Proof.
    induction l as [|p l IH]; intros acc fuel lead Hne Hwf Hfu; [congruence|].
    pose proof Hwf as Hwf0. cbn [forallb] in Hwf. apply andb_true_iff in Hwf. destruct Hwf as [Hp Hl].
    destruct fuel as [|f]; [lia|].
    destruct (join_prims_head (p :: l) Hne Hwf0) as (t & r & Ht & Hst).
    assert (Hstrip : skip_comma ((if lead then [EComma] else []) ++ join [EComma] (map print_prim (p :: l))) = join [EComma] (map print_prim (p :: l))).
    { rewrite Ht. destruct lead; [reflexivity|]. cbn [app]. destruct t; try discriminate Hst; reflexivity. }
    assert (Hm : forall (A : Type) (x y : A), match join [EComma] (map print_prim (p :: l)) with [] => x | _ :: _ => y end = y)
      by (intros; rewrite Ht; reflexivity).
    cbn [ExprSyntax.parse_posargs]. rewrite Hstrip, Hm.
    destruct l as [|q l'].
    - cbn [map join]. rewrite <- (app_nil_r (print_prim p)). rewrite (pprim_rt p [] Hp I).
      cbn [bind fst snd]. destruct f as [|f']; [cbn [length] in Hfu; lia|]. reflexivity.
    - cbn [map]. rewrite join_cons2. cbn [app]. rewrite (pprim_rt p (EComma :: _) Hp eq_refl).
      cbn [bind fst snd]. change (print_prim q :: map print_prim l') with (map print_prim (q :: l')).
      pose proof (IH (p :: acc) f true ltac:(discriminate) Hl ltac:(cbn [length] in *; lia)) as IH'. cbn [app] in IH' |- *. rewrite IH'. cbn [rev]. rewrite <- app_assoc. reflexivity.
  Qed.

  Lemma join_prims_length (l : list prim) : forallb wf_prim l = true -> length l <= length (join [EComma] (map print_prim l)).
  Proof.
    induction l as [|p l IH]; intro Hwf; [cbn; lia|]. cbn [forallb] in Hwf. apply andb_true_iff in Hwf. destruct Hwf as [Hp Hl].
    destruct (print_prim_head is_prop is_prop_not_kw p Hp) as (t & r & Ht & _).
    destruct l as [|q l']; [cbn [map join length]; rewrite Ht; cbn [length]; lia|].
    cbn [map]. rewrite join_cons2. cbn [map] in IH. rewrite !app_length, Ht. specialize (IH Hl). cbn [length] in *. lia.
  Qed.

  Lemma when_loop : forall l acc fuel, forallb wf_prim l = true -> length l < fuel ->
    parse_when_loop fuel acc (flat_map (fun p => EComma :: print_prim p) l) = Ok (rev acc ++ l).
  Proof.
    induction l as [|p l IH]; intros acc fuel Hwf Hfu; (destruct fuel as [|f]; [cbn in Hfu; lia|]).
    - cbn. rewrite app_nil_r. reflexivity.
    - cbn [forallb] in Hwf. apply andb_true_iff in Hwf. destruct Hwf as [Hp Hl]. cbn [flat_map app ExprSyntax.parse_when_loop].
      rewrite (pprim_rt p _ Hp).
      + cbn [fst snd]. rewrite (IH (p :: acc) f Hl ltac:(cbn [length] in Hfu; lia)). cbn [rev]. rewrite <- app_assoc. reflexivity.
      + destruct l; cbn; trivial.
  Qed.

  Lemma join_flat (l : list prim) p : join [EComma] (map print_prim (p :: l)) = print_prim p ++ flat_map (fun q => EComma :: print_prim q) l.
  Proof.
    revert p. induction l as [|q l IH]; intro p; [cbn; rewrite app_nil_r; reflexivity|].
    cbn [map]. rewrite join_cons2. cbn [map] in IH. rewrite IH. reflexivity.
  Qed.

  Lemma when_roundtrip l : l <> [] -> forallb wf_prim l = true -> parse_when (join [EComma] (map print_prim l)) = Ok l.
  Proof.
    intros Hne Hwf. destruct l as [|p l]; [congruence|]. pose proof (join_prims_length (p :: l) Hwf) as Hlen.
    cbn [forallb] in Hwf. apply andb_true_iff in Hwf. destruct Hwf as [Hp Hl].
    unfold parse_when. rewrite join_flat in *. rewrite (pprim_rt p _ Hp) by (destruct l; cbn; trivial). cbn [bind fst snd].
    apply (when_loop l [p] _ Hl). cbn [length] in Hlen. lia.
  Qed.

  (* ---- cycle ---- *)
  Lemma one_token_print p : one_token p = true -> wf_prim p = true -> exists t, print_prim p = [t].
  Proof.
    destruct p as [z|s|s| | | | | |l|a b]; intros Ho Hw; try discriminate; try (eexists; reflexivity).
    destruct l as [|[s|z|q] [|g l']]; try discriminate. cbn [ExprSyntax.print_prim]. rewrite <- (print_ident_path s). unfold ExprSyntax.print_ident. destruct (is_prop s); eexists; reflexivity.
  Qed.

  Lemma cycle_roundtrip g args : wf_payload (YCycle g args) = true -> parse_cycle (ExprSyntax.print_cycle is_prop g args) = Ok (YCycle g args).
  Proof.
    cbn [wf_payload]. intro Hwf. apply andb_true_iff in Hwf. destruct Hwf as [Hg Ha].
    assert (Hne : args <> []) by (destruct args; [discriminate|discriminate]).
    assert (Hwa : forallb wf_prim args = true) by (destruct args; [discriminate|exact Ha]).
    pose proof (posargs_loop args [] _ false Hne Hwa (le_n_S _ _ (join_prims_length args Hwa))) as Hpos. cbn [app rev] in Hpos.
    unfold parse_cycle, ExprSyntax.print_cycle. destruct g as [p|].
    - apply andb_true_iff in Hg. destruct Hg as [Ho Hp]. destruct (one_token_print p Ho Hp) as (t & Ht).
      pose proof (pprim_rt p (EColon :: join [EComma] (map print_prim args)) Hp eq_refl) as Hpp.
      rewrite Ht in Hpp |- *. cbn [app] in Hpp |- *. cbn [tl hd_tok hd_error is_colon]. rewrite Hpp. cbn [bind fst snd].
      rewrite Hpos. destruct args; [congruence|reflexivity].
    - cbn [app].
      assert (Hc : is_colon (hd_tok (tl (join [EComma] (map print_prim args)))) = false).
      { destruct args as [|p l]; [congruence|]. rewrite join_flat. apply hd_tl_not_colon.
        - cbn [forallb] in Hwa. apply andb_true_iff in Hwa. destruct Hwa as [Hp _].
          destruct (print_prim_head is_prop is_prop_not_kw p Hp) as (t & r & Ht & _). rewrite Ht. discriminate.
        - apply print_prim_no_colon.
        - destruct l; reflexivity. }
      rewrite Hc. cbn [bind fst snd]. rewrite Hpos. destruct args; [congruence|reflexivity].
  Qed.

  (* ---- include / render ---- *)
  Definition bfollow (rest : list etok) : bool := match rest with [] => true | EComma :: _ => true | _ => false end.

  Lemma bind_roundtrip (lp : bool) v a rest : wf_path v = true -> wf_alias a = true -> kfollow rest = true ->
    parse_bind true ((if lp then EFor else EWith) :: map of_ptok (print_path v) ++ print_alias a ++ rest) = Ok (Some (lp, v, a), rest).
  Proof.
    intros Hv Ha Hk. destruct (wf_path_inv is_prop is_prop_not_kw v Hv) as (Hne & Hwl & t & r & Ht & Hst).
    assert (Hf : follow_ok (print_alias a ++ rest)) by (destruct a; [reflexivity|apply kfollow_ok, Hk]).
    pose proof (path_e_roundtrip is_prop is_prop_not_kw v (print_alias a ++ rest) Hne Hwl Hf) as Hpath.
    assert (Hhd : match hd_tok (map of_ptok (print_path v) ++ print_alias a ++ rest) with
                  | Some (EWord _) => true | Some (EIdentStr _) | Some ELBr => true | _ => false end = true).
    { rewrite Ht. destruct t; try discriminate Hst; reflexivity. }
    unfold parse_bind. destruct lp; cbn [tl]; rewrite Hhd, Hpath; cbn [bind fst snd]; clear Hhd Hpath Hf.
    all: destruct a as [s|];
      [ cbn [wf_alias] in Ha; unfold wf_name in Ha; apply negb_true_iff in Ha; cbn [print_alias app]; rewrite (word_tok_word s Ha);
        cbn [hd_tok hd_error is_eword]; rewrite (word_ident s rest (kfollow_ok rest Hk)); reflexivity
      | cbn [print_alias app]; destruct rest as [|[] r0]; try discriminate Hk; reflexivity ].
  Qed.

  Lemma nobind_roundtrip rest : kfollow rest = true -> parse_bind true rest = Ok (None, rest).
  Proof. destruct rest as [|[] r]; intro H; try discriminate H; reflexivity. Qed.

  Lemma include_roundtrip i : wf_payload (YInclude i) = true -> parse_include true (ExprSyntax.print_include is_prop i) = Ok i.
  Proof.
    destruct i as [name bnd args]. cbn [wf_payload in_name in_bind in_args]. intro Hwf.
    apply andb_true_iff in Hwf. destruct Hwf as [Hwf Hargs]. apply andb_true_iff in Hwf. destruct Hwf as [Hname Hbind].
    unfold parse_include, ExprSyntax.print_include. cbn [in_name in_bind in_args].
    assert (Hn : wf_prim name = true) by (destruct name; try discriminate; exact Hname).
    assert (Hfollow : follow_ok (match bnd with Some (v, a) => EWith :: map of_ptok (print_path v) ++ print_alias a | None => [] end
                                 ++ ExprSyntax.print_kwargs is_prop args)).
    { destruct bnd as [[v a]|]; [reflexivity|]. apply kfollow_ok, kwargs_follow. }
    rewrite (pprim_rt name _ Hn Hfollow). cbn [bind fst snd].
    assert (Hb : parse_bind true (match bnd with Some (v, a) => EWith :: map of_ptok (print_path v) ++ print_alias a | None => [] end
                                  ++ ExprSyntax.print_kwargs is_prop args)
                 = Ok (match bnd with Some (v, a) => Some (false, v, a) | None => None end, ExprSyntax.print_kwargs is_prop args)).
    { destruct bnd as [[v a]|].
      - apply andb_true_iff in Hbind. destruct Hbind as [Hv Ha]. cbn [app]. rewrite <- !app_assoc.
        apply (bind_roundtrip false v a _ Hv Ha (kwargs_follow args)).
      - apply nobind_roundtrip, kwargs_follow. }
    destruct name; try discriminate Hname; rewrite Hb; cbn [bind fst snd]; rewrite (kwargs_roundtrip args Hargs); cbn [bind];
      destruct bnd as [[v a]|]; reflexivity.
  Qed.

  Lemma render_roundtrip r : wf_payload (YRender r) = true -> parse_render true (ExprSyntax.print_render is_prop r) = Ok r.
  Proof.
    destruct r as [name bnd args]. cbn [wf_payload rd_name rd_bind rd_args]. intro Hwf.
    apply andb_true_iff in Hwf. destruct Hwf as [Hwf Hargs]. apply andb_true_iff in Hwf. destruct Hwf as [Hname Hbind].
    unfold parse_render, ExprSyntax.print_render. cbn [rd_name rd_bind rd_args].
    set (bindT := match bnd with Some (lp, v, a) => (if lp then EFor else EWith) :: map of_ptok (print_path v) ++ print_alias a | None => [] end).
    assert (Hfollow : follow_ok (bindT ++ ExprSyntax.print_kwargs is_prop args)).
    { subst bindT. destruct bnd as [[[[] v] a]|]; try reflexivity. apply kfollow_ok, kwargs_follow. }
    assert (Hb : parse_bind true (bindT ++ ExprSyntax.print_kwargs is_prop args) = Ok (bnd, ExprSyntax.print_kwargs is_prop args)).
    { subst bindT. destruct bnd as [[[lp v] a]|].
      - apply andb_true_iff in Hbind. destruct Hbind as [Hv Ha]. cbn [app]. rewrite <- !app_assoc.
        apply (bind_roundtrip lp v a _ Hv Ha (kwargs_follow args)).
      - apply nobind_roundtrip, kwargs_follow. }
    destruct name as [s|s]; cbn [ExprSyntax.print_rname].
    - change [EStr s] with (print_prim (PStr s)). rewrite (pprim_rt (PStr s) _ Hname Hfollow). cbn [bind fst snd]. rewrite Hb. cbn [bind fst snd].
      rewrite (kwargs_roundtrip args Hargs). reflexivity.
    - rewrite (ident_prim s _ Hfollow). cbn [bind fst snd]. rewrite Hb. cbn [bind fst snd].
      rewrite (kwargs_roundtrip args Hargs). reflexivity.
  Qed.

  (* ================= every payload ================= *)
  (* C04 (expressions): for EVERY well-formed expression payload of a tag or output statement -- any number of filters and
     arguments, any nesting of paths and ranges, any condition tree in a ternary -- the parser reads back from the tokens
     the serialiser writes exactly the tree that was serialised *)
  Theorem payload_roundtrip y : wf_payload y = true -> parse_payload (kind_of y) (print_payload y) = Ok y.
  Proof.
    intro Hwf. destruct y as [e|n e|l|p|l|g a|i|r|s]; cbn [kind_of ExprSyntax.print_payload]; unfold parse_payload, parse_payload_gen.
    - rewrite (expr_roundtrip is_prop is_prop_not_kw e Hwf). reflexivity.
    - cbn [wf_payload] in Hwf. apply andb_true_iff in Hwf. destruct Hwf as [Hq He].
      rewrite (ident_roundtrip false n (EAssign :: _) eq_refl Hq). cbn [bind fst snd]. rewrite (expr_roundtrip is_prop is_prop_not_kw e He). reflexivity.
    - rewrite (loop_roundtrip l Hwf). reflexivity.
    - cbn [wf_payload] in Hwf. rewrite <- (app_nil_r (print_prim p)). rewrite (pprim_rt p [] Hwf I). reflexivity.
    - cbn [wf_payload] in Hwf. rewrite (when_roundtrip l); [reflexivity|destruct l; discriminate|destruct l; [discriminate|exact Hwf]].
    - apply cycle_roundtrip, Hwf.
    - rewrite (include_roundtrip i Hwf). reflexivity.
    - rewrite (render_roundtrip r Hwf). reflexivity.
    - rewrite <- (app_nil_r (print_ident s)). rewrite (ident_roundtrip true s [] I eq_refl). reflexivity.
  Qed.

  (* capture reads an identifier and requires the end of the expression *)
  Theorem capture_roundtrip s : parse_payload KCapture (print_payload (YIdent s)) = Ok (YIdent s).
  Proof.
    cbn [ExprSyntax.print_payload]. unfold parse_payload, parse_payload_gen.
    rewrite <- (app_nil_r (print_ident s)). rewrite (ident_roundtrip true s [] I eq_refl). reflexivity.
  Qed.

  (* hence the re-parsed payload IS the original one (same meaning on every data), and serialising it again gives the same tokens *)
  Corollary payload_same_meaning y : wf_payload y = true ->
    exists y', parse_payload (kind_of y) (print_payload y) = Ok y' /\ y' = y /\ print_payload y' = print_payload y.
  Proof. intro H. exists y. rewrite (payload_roundtrip y H). repeat split. Qed.
End Tags.

(* ================= the implementation's is_property, and the recorded / repaired defects ================= *)
Lemma expr_is_prop_not_kw s : expr_is_prop s = true -> is_kw s = false.
Proof. unfold expr_is_prop. intro H. apply andb_true_iff in H. destruct H as [_ H]. apply negb_true_iff in H. exact H. Qed.

Theorem std_payload_roundtrip y : wf_payload y = true -> parse_payload (kind_of y) (print_payload expr_is_prop y) = Ok y.
Proof. apply payload_roundtrip, expr_is_prop_not_kw. Qed.

(* a parsed payload has the kind that was asked for (capture yields an identifier payload) *)
Lemma parse_kind k ts y : parse_payload k ts = Ok y -> kind_of y = k \/ (k = KCapture /\ exists s, y = YIdent s).
Proof.
  unfold parse_payload, parse_payload_gen, parse_cycle. intro H.
  destruct k; cbn [bind] in H;
    repeat match type of H with
           | bind ?r _ = Ok _ => destruct r as [?x| |]; cbn [bind] in H; try discriminate H
           | match ?x with _ => _ end = Ok _ => destruct x; try discriminate H
           end;
    inversion H; subst; try (left; reflexivity). right. split; [reflexivity|]. eexists. reflexivity.
Qed.

(* serialising, parsing again and serialising once more is the identity on the text, for every source whose tree is well formed *)
Theorem xreprint_fixpoint c y : parse_payload (xc_kind c) (xc_toks c) = Ok y -> wf_payload y = true -> run_xreprint c = run_xprint c.
Proof.
  intros Hp Hwf. unfold run_xreprint, run_xprint. rewrite Hp.
  destruct (parse_kind _ _ _ Hp) as [Hk|[Hk [s ->]]].
  - rewrite <- Hk. rewrite (std_payload_roundtrip y Hwf). reflexivity.
  - rewrite Hk. rewrite (capture_roundtrip expr_is_prop expr_is_prop_not_kw s). reflexivity.
Qed.

From Coq Require Import String.
Local Open Scope string_scope. Local Open Scope list_scope.
Definition v1 (x : string) : prim := PPath [SName (lit x)].

(* the recorded finding: nil prints as nothing.  As a filter argument the text does not parse ... *)
Theorem nil_argument_refuted :
  let y := YExpr (XFilt {| fe_left := v1 "x"; fe_filters := [{| f_name := lit "default"; f_args := [AKw (lit "k") PNil; APos (PInt 1)] |}] |}) in
  parse_payload KExpr (print_payload expr_is_prop y) = Err ESyntax.
Proof. vm_compute. reflexivity. Qed.

(* ... and so does a when-list in strict mode (`when 1, nil, 2` is written `when 1, , 2`); before fix C03-when-list-strict -- and
   still in lax mode -- it parsed to a SHORTER list, `when 1` *)
Theorem nil_when_refuted :
  parse_payload KWhen (print_payload expr_is_prop (YWhen [PInt 1; PNil; PInt 2])) = Err ESyntax /\
  parse_when_old (print_payload expr_is_prop (YWhen [PInt 1; PNil; PInt 2])) = Ok [PInt 1].
Proof. vm_compute. split; reflexivity. Qed.

(* before fix C04-1 a path segment named like a keyword was written in dotted form: x['if'] -> x.if *)
Theorem old_keyword_segment_refuted :
  let y := YExpr (XFilt {| fe_left := PPath [SName (lit "x"); SName (lit "if")]; fe_filters := [] |}) in
  wf_payload y = true /\ print_payload old_is_prop y = [EWord (lit "x"); EDot; EIf] /\
  parse_payload KExpr (print_payload old_is_prop y) = Err ESyntax.
Proof. vm_compute. repeat split. Qed.

(* before fix C04-2 an identifier was written as it is: increment ['if'] -> increment if *)
Theorem old_identifier_refuted :
  print_ident_old (lit "if") = [EIf] /\ parse_payload KIdent (print_ident_old (lit "if")) = Err ESyntax /\
  parse_payload KIdent (print_payload expr_is_prop (YIdent (lit "if"))) = Ok (YIdent (lit "if")).
Proof. vm_compute. repeat split. Qed.

(* before fix C04-3 include / render wanted a WORD after `with`: include 'p' with 1x -> with ['1x'] was rejected *)
Theorem old_bound_variable_refuted :
  let y := YInclude {| in_name := PStr (lit "p"); in_bind := Some ([SName (lit "1x")], None); in_args := [] |} in
  wf_payload y = true /\ parse_payload_gen false KInclude (print_payload expr_is_prop y) = Err ESyntax.
Proof. vm_compute. split; reflexivity. Qed.

(* before fix C04-4 a filter argument could not begin with a quoted name: x | f: a? -> x | f: ['a?'] was rejected *)
Theorem old_filter_argument_refuted :
  let y := YExpr (XFilt {| fe_left := v1 "x"; fe_filters := [{| f_name := lit "f"; f_args := [APos (v1 "a?")] |}] |}) in
  wf_payload y = true /\ parse_payload_gen false KExpr (print_payload expr_is_prop y) = Err ESyntax.
Proof. vm_compute. split; reflexivity. Qed.

(* the well-formedness guard is satisfiable by a payload that uses every construct *)
Definition big_expr : expr :=
  XTern {| fe_left := PPath [SName (lit "x"); SName (lit "if"); SIdx 0; SNested [SName (lit "y"); SName (lit "a b")]];
           fe_filters := [{| f_name := lit "f"; f_args := [APos (PRange (PInt 1) (v1 "n")); AKw (lit "k") (PStr (lit "it's")); APos PTrue] |};
                          {| f_name := lit "g"; f_args := [] |}] |}
        (BOr (BAnd (BVar (lit "a")) (BNot (BVar (lit "b")))) (BCmp OEq (BVar (lit "c")) (BLit VEmpty)))
        (Some (PFloat (lit "1.5"), [{| f_name := lit "h"; f_args := [AKw (lit "j") PBlank] |}]))
        [{| f_name := lit "t"; f_args := [APos (PInt 2)] |}; {| f_name := lit "u"; f_args := [] |}].
Example big_payloads_wf :
  forallb wf_payload
    [YExpr big_expr; YAssign (lit "a b") big_expr;
     YLoop {| lp_id := lit "if"; lp_iter := PRange (PInt 1) (v1 "n"); lp_limit := Some (PInt 2); lp_offset := Some (PStr (lit "continue"));
              lp_cols := Some (v1 "c"); lp_rev := true |};
     YCase (v1 "x"); YWhen [PInt 1; PStr (lit "a"); v1 "y"]; YCycle (Some (PStr (lit "g h"))) [PInt 1; v1 "x"];
     YInclude {| in_name := PStr (lit "p"); in_bind := Some ([SName (lit "1x"); SIdx 0], Some (lit "y")); in_args := [(lit "k", v1 "v"); (lit "j", PInt 2)] |};
     YRender {| rd_name := RIdent (lit "a b"); rd_bind := Some (true, [SName (lit "xs")], Some (lit "y")); rd_args := [(lit "k", PEmpty)] |};
     YIdent (lit "limit")] = true.
Proof. vm_compute. reflexivity. Qed.

(* `offset:continue` is read as the string 'continue', which is what str() then writes *)
Example offset_continue :
  run_xprint {| xc_kind := KLoop; xc_toks := [EWord (lit "i"); EIn; EWord (lit "xs"); EOffset; EColon; EContinue; EReversed] |}
  = Some [EWord (lit "i"); EIn; EWord (lit "xs"); EOffset; EColon; EStr (lit "continue"); EReversed].
Proof. vm_compute. reflexivity. Qed.
