(* MacroCall_Proofs.v -- C27 deepening: what a call binds, where and when its expressions are evaluated, the macro
   table, partials, and with blocks under errors.  Proofs about MacroCall.v / MacroArgs.v / Scope.v. *)
From Coq Require Import Lia.
From LiquidVerif Require Import Prelude PyPrims Scope Scope_Proofs MacroCall.
From LiquidVerif Require MacroArgs MacroArgs_Proofs.

Module MA := MacroArgs.
Module MP := MacroArgs_Proofs.

(* ------------------------------------------------------------------ *)
(* Part A: the binding, for any kind of argument                       *)
Section Binding.
  Context {E : Type}.
  Notation params := (@MA.params E).

  (* keys of a list in order of first occurrence *)
  Fixpoint remove_str (k : str) (l : list str) : list str :=
    match l with [] => [] | x :: r => if str_eqb k x then remove_str k r else x :: remove_str k r end.
  Fixpoint dedup (l : list str) : list str :=
    match l with [] => [] | x :: r => x :: remove_str x (dedup r) end.

  Lemma alookup_has_key_false {V} k (l : list (str * V)) : MA.has_key k l = false -> alookup k l = None.
  Proof.
    induction l as [|[k' v] l IH]; cbn; [reflexivity|].
    destruct (str_eqb k k'); cbn; [discriminate|exact IH].
  Qed.

  (* the value of parameter number i + j in the documented binding *)
  Lemma spec_args_lookup (ps : params) : forall i j pos (kws : list (str * E)) p d,
    NoDup (map fst ps) -> nth_error ps j = Some (p, d) ->
    alookup p (MA.spec_args ps i pos kws) =
    Some (match MA.last_kw p kws with
          | Some v => Some v
          | None => match nth_error pos (i + j) with Some e => Some e | None => d end
          end).
  Proof.
    induction ps as [|[n d0] ps IH]; intros i j pos kws p d Hnd Hj; [destruct j; discriminate|].
    cbn [MA.spec_args]. inversion Hnd as [|? ? Hnotin Hnd']; subst. cbn [alookup].
    destruct j as [|j].
    - cbn in Hj. inversion Hj; subst. rewrite str_eqb_refl. rewrite Nat.add_0_r. reflexivity.
    - cbn [nth_error] in Hj. destruct (str_eqb_spec p n) as [->|Hne].
      + exfalso. apply Hnotin. apply nth_error_In in Hj. change n with (fst (n, d)). apply in_map. exact Hj.
      + rewrite (IH (S i) j pos kws p d Hnd' Hj). replace (S i + j) with (i + S j) by lia. reflexivity.
  Qed.

  (* C27: parameter number j gets the LAST keyword argument of its name, else the j-th positional argument, else its
     default, else nothing -- a keyword beats the positional argument in the same slot *)
  Theorem bind_param (ps : params) pos (kws : list (str * E)) j p d :
    NoDup (map fst ps) -> nth_error ps j = Some (p, d) ->
    alookup p (MA.b_args (MA.bind ps pos kws)) =
    Some (match MA.last_kw p kws with
          | Some v => Some v
          | None => match nth_error pos j with Some e => Some e | None => d end
          end).
  Proof.
    intros Hnd Hj. rewrite (MP.bind_is_spec ps pos kws Hnd). cbn [MA.spec_bind MA.b_args].
    apply (spec_args_lookup ps 0 j pos kws p d Hnd Hj).
  Qed.

  (* the parameters keep their order, whatever is passed *)
  Lemma spec_args_keys (ps : params) : forall i pos (kws : list (str * E)), map fst (MA.spec_args ps i pos kws) = map fst ps.
  Proof. induction ps as [|[n d] ps IH]; intros; cbn; [reflexivity|]. f_equal. apply IH. Qed.

  Theorem bind_param_names (ps : params) pos (kws : list (str * E)) :
    NoDup (map fst ps) -> map fst (MA.b_args (MA.bind ps pos kws)) = map fst ps.
  Proof. intro Hnd. rewrite (MP.bind_is_spec ps pos kws Hnd). apply spec_args_keys. Qed.

  (* C27: args holds exactly the positional arguments beyond the parameters, in order; a positional argument whose
     slot was taken by a keyword is dropped, it does not move into args *)
  Theorem bind_excess (ps : params) pos (kws : list (str * E)) :
    NoDup (map fst ps) -> MA.b_excess (MA.bind ps pos kws) = skipn (length ps) pos.
  Proof. intro Hnd. rewrite (MP.bind_is_spec ps pos kws Hnd). reflexivity. Qed.

  (* ---- kwargs ---- *)
  Lemma alookup_remove_key {V} x k (l : list (str * V)) :
    alookup x (MA.remove_key k l) = if str_eqb x k then None else alookup x l.
  Proof.
    induction l as [|[k' v] l IH]; cbn; [destruct (str_eqb x k); reflexivity|].
    destruct (str_eqb_spec k k') as [->|Hne]; cbn.
    - rewrite IH. destruct (str_eqb x k'); reflexivity.
    - rewrite IH. destruct (str_eqb_spec x k') as [->|Hx]; [|reflexivity].
      destruct (str_eqb_spec k' k); [congruence|reflexivity].
  Qed.

  Lemma last_kw_cons k k' v (r : list (str * E)) :
    MA.last_kw k ((k', v) :: r) = match MA.last_kw k r with Some x => Some x | None => if str_eqb k k' then Some v else None end.
  Proof. reflexivity. Qed.

  (* C27: kwargs maps every keyword name that is NOT a parameter to the LAST value given for it, and holds nothing else *)
  Theorem kwexcess_lookup (ps : params) : forall (kws : list (str * E)) k,
    alookup k (MA.spec_kwexcess ps kws) = if MA.has_key k ps then None else MA.last_kw k kws.
  Proof.
    induction kws as [|[k0 v0] r IH]; intro k; [cbn; destruct (MA.has_key k ps); reflexivity|].
    cbn [MA.spec_kwexcess]. rewrite last_kw_cons.
    destruct (MA.has_key k0 ps) eqn:H0.
    - rewrite IH. destruct (MA.has_key k ps) eqn:Hk; [reflexivity|].
      destruct (MA.last_kw k r); [reflexivity|].
      destruct (str_eqb_spec k k0) as [->|]; [congruence|reflexivity].
    - cbn [alookup]. destruct (str_eqb_spec k k0) as [->|Hne].
      + rewrite H0. destruct (MA.last_kw k0 r); reflexivity.
      + rewrite alookup_remove_key, IH. destruct (str_eqb_spec k k0); [congruence|].
        destruct (MA.has_key k ps); [reflexivity|]. destruct (MA.last_kw k r); reflexivity.
  Qed.

  Lemma remove_key_keys {V} k (l : list (str * V)) : map fst (MA.remove_key k l) = remove_str k (map fst l).
  Proof.
    induction l as [|[k' v] l IH]; cbn; [reflexivity|].
    destruct (str_eqb k k'); cbn; [exact IH|f_equal; exact IH].
  Qed.

  (* ... in order of FIRST appearance *)
  Theorem kwexcess_keys (ps : params) : forall (kws : list (str * E)),
    map fst (MA.spec_kwexcess ps kws) = dedup (map fst (filter (fun kv => negb (MA.has_key (fst kv) ps)) kws)).
  Proof.
    induction kws as [|[k0 v0] r IH]; [reflexivity|].
    cbn [MA.spec_kwexcess filter fst]. destruct (MA.has_key k0 ps); cbn [negb]; [exact IH|].
    cbn [map fst dedup]. f_equal. rewrite remove_key_keys, IH. reflexivity.
  Qed.

  Lemma remove_str_not_in k l : ~ In k (remove_str k l).
  Proof.
    induction l as [|x l IH]; cbn; [tauto|]. destruct (str_eqb_spec k x) as [->|Hne]; [exact IH|].
    cbn. intros [H|H]; [congruence|exact (IH H)].
  Qed.

  Lemma remove_str_subset k x l : In x (remove_str k l) -> In x l.
  Proof.
    induction l as [|y l IH]; cbn; [tauto|]. destruct (str_eqb k y); cbn; [auto|]. intros [H|H]; auto.
  Qed.

  Lemma remove_str_nodup k l : NoDup l -> NoDup (remove_str k l).
  Proof.
    induction 1 as [|x l Hx Hnd IH]; cbn; [constructor|].
    destruct (str_eqb k x); [exact IH|]. constructor; [|exact IH]. intro H. apply Hx. eapply remove_str_subset, H.
  Qed.

  Lemma dedup_nodup l : NoDup (dedup l).
  Proof.
    induction l as [|x l IH]; cbn; constructor.
    - apply remove_str_not_in.
    - apply remove_str_nodup, IH.
  Qed.

  Theorem kwexcess_nodup (ps : params) (kws : list (str * E)) : NoDup (map fst (MA.spec_kwexcess ps kws)).
  Proof. rewrite kwexcess_keys. apply dedup_nodup. Qed.

  Theorem bind_kwexcess (ps : params) pos (kws : list (str * E)) :
    NoDup (map fst ps) -> MA.b_kwexcess (MA.bind ps pos kws) = MA.spec_kwexcess ps kws.
  Proof. intro Hnd. rewrite (MP.bind_is_spec ps pos kws Hnd). reflexivity. Qed.
End Binding.

(* ------------------------------------------------------------------ *)
(* Part B: evaluation of the bound expressions, over Scope.v's values  *)

Lemma dict_set_same {V} k (v : V) l : MA.dict_set k v l = dict_set k v l.
Proof. induction l as [|[k' v'] l IH]; cbn; [reflexivity|]. destruct (str_eqb k k'); [reflexivity|]. rewrite IH. reflexivity. Qed.

Lemma last_named_is_last_kw x (a : list (str * expr)) : last_named x a = MA.last_kw x a.
Proof. induction a as [|[k e] r IH]; cbn; [reflexivity|]. rewrite IH. reflexivity. Qed.

Lemma alookup_In {V} k (v : V) l : alookup k l = Some v -> In (k, v) l.
Proof.
  induction l as [|[k' v'] l IH]; cbn; [discriminate|].
  destruct (str_eqb_spec k k') as [->|Hne]; intro H; [inversion H; left; reflexivity|right; exact (IH H)].
Qed.

Lemma nodup_snoc {A} (l : list A) k : NoDup l -> ~ In k l -> NoDup (l ++ [k]).
Proof.
  induction 1 as [|x l Hx Hnd IH]; intro Hk; cbn; [repeat constructor; tauto|].
  constructor.
  - rewrite in_app_iff. cbn. intros [H|[H|[]]]; [tauto|]. subst. apply Hk. left. reflexivity.
  - apply IH. intro H. apply Hk. right. exact H.
Qed.

Lemma dict_set_nodup {V} k (v : V) (l : list (str * V)) : NoDup (map fst l) -> NoDup (map fst (MA.dict_set k v l)).
Proof.
  intro Hnd. destruct (MA.has_key k l) eqn:Hk.
  - rewrite (MP.dict_set_keys k v l Hk). exact Hnd.
  - rewrite (MP.dict_set_absent k v l Hk), map_app. cbn.
    apply nodup_snoc; [exact Hnd|]. intro Hx. apply MP.has_key_In in Hx. congruence.
Qed.

(* Parameter.parse: the parameter names of a macro are distinct, whatever was written *)
Theorem norm_params_nodup ps : NoDup (map fst (norm_params ps)).
Proof.
  unfold norm_params.
  assert (G : forall acc : list (str * option expr), NoDup (map fst acc) ->
              NoDup (map fst (fold_left (fun a p => MA.dict_set (fst p) (snd p) a) ps acc))).
  { induction ps as [|[p d] ps IH]; intros acc Hacc; cbn; [exact Hacc|].
    apply IH. apply dict_set_nodup. exact Hacc. }
  apply G. constructor.
Qed.

(* ... and a signature written without a repeated name is kept as it is *)
Lemma fold_dict_set_fresh (ps : list (str * option expr)) : forall acc,
  NoDup (map fst acc ++ map fst ps) ->
  fold_left (fun a p => MA.dict_set (fst p) (snd p) a) ps acc = acc ++ ps.
Proof.
  induction ps as [|[p d] ps IH]; intros acc Hnd; cbn; [rewrite app_nil_r; reflexivity|].
  assert (Hk : MA.has_key p acc = false).
  { destruct (MA.has_key p acc) eqn:Hk; [|reflexivity]. exfalso. apply MP.has_key_In in Hk.
    cbn in Hnd.
    apply NoDup_remove_2 in Hnd. apply Hnd. apply in_or_app. left. exact Hk. }
  rewrite (MP.dict_set_absent p d acc Hk). rewrite IH.
  - rewrite <- app_assoc. reflexivity.
  - rewrite map_app. cbn. rewrite <- app_assoc. exact Hnd.
Qed.

Theorem norm_params_id ps : NoDup (map fst ps) -> norm_params ps = ps.
Proof. intro H. unfold norm_params. rewrite fold_dict_set_fresh; [reflexivity|exact H]. Qed.

Section Evaluation.
  Variable uk : ukind.
  Variable c : ctx.          (* the CALLER's context, as it is when the call tag is rendered *)

  Lemma bind_eval_lookup : forall args acc nm,
    bind_eval uk c args acc = Ok nm -> NoDup (map fst args) ->
    (forall p oe, In (p, oe) args -> exists v, eval_opt uk c oe = Ok v /\ alookup p nm = Some v) /\
    (forall x, ~ In x (map fst args) -> alookup x nm = alookup x acc).
  Proof.
    induction args as [|[p oe] r IH]; intros acc nm H Hnd.
    - cbn in H. inversion H; subst. split; [intros ? ? []|reflexivity].
    - cbn [bind_eval] in H. unfold bind in H. fold (eval_opt uk c oe) in H.
      destruct (eval_opt uk c oe) as [v| |] eqn:Ev; try discriminate.
      inversion Hnd as [|? ? Hp Hnd']; subst.
      destruct (IH _ _ H Hnd') as [IH1 IH2]. split.
      + intros q oq [Heq|Hin].
        * inversion Heq; subst. exists v. split; [exact Ev|].
          rewrite (IH2 q Hp). apply alookup_dict_set_same.
        * apply IH1, Hin.
      + intros x Hx. cbn in Hx. rewrite IH2 by tauto. apply alookup_dict_set_other. intro; subst; tauto.
  Qed.

  Lemma eval_kwargs_nodup : forall l acc kx,
    eval_kwargs uk c l acc = Ok kx -> NoDup (map fst acc ++ map fst l) ->
    map fst kx = map fst acc ++ map fst l /\
    (forall k e, In (k, e) l -> exists v, eval_expr uk c e = Ok v /\ alookup k kx = Some v) /\
    (forall x, ~ In x (map fst l) -> alookup x kx = alookup x acc).
  Proof.
    induction l as [|[k e] r IH]; intros acc kx H Hnd.
    - cbn in H. inversion H; subst. cbn. rewrite app_nil_r. split; [reflexivity|split; [intros ? ? []|reflexivity]].
    - cbn [eval_kwargs] in H. unfold bind in H. destruct (eval_expr uk c e) as [v| |] eqn:Ev; try discriminate.
      assert (Hk : MA.has_key k acc = false).
      { destruct (MA.has_key k acc) eqn:Hk; [|reflexivity]. exfalso. apply MP.has_key_In in Hk.
        cbn in Hnd. apply NoDup_remove_2 in Hnd. apply Hnd, in_or_app. left. exact Hk. }
      rewrite <- dict_set_same, (MP.dict_set_absent k v acc Hk) in H.
      assert (Hnd2 : NoDup (map fst (acc ++ [(k, v)]) ++ map fst r)).
      { rewrite map_app. cbn. rewrite <- app_assoc. exact Hnd. }
      destruct (IH _ _ H Hnd2) as (K1 & K2 & K3).
      assert (Hkr : ~ In k (map fst r)).
      { cbn in Hnd. apply NoDup_remove_2 in Hnd. intro Hin. apply Hnd, in_or_app. right. exact Hin. }
      repeat split.
      + rewrite K1, map_app. cbn. rewrite <- app_assoc. reflexivity.
      + intros k' e' [Heq|Hin]; [|apply K2, Hin]. inversion Heq; subst. exists v. split; [exact Ev|].
        rewrite (K3 k' Hkr). rewrite <- (MP.dict_set_absent k' v acc Hk), dict_set_same. apply alookup_dict_set_same.
      + intros x Hx. cbn in Hx. rewrite K3 by tauto.
        rewrite <- (MP.dict_set_absent k v acc Hk), dict_set_same. apply alookup_dict_set_other. intro; subst; tauto.
  Qed.

  (* the value a parameter has inside the macro: the expression the documented rule chooses for it, evaluated in the
     CALLER's context c -- also when that expression is the parameter's DEFAULT *)
  Theorem call_namespace_param ps pos kws nm j p d :
    NoDup (map fst ps) -> call_namespace uk c ps pos kws = Ok nm -> nth_error ps j = Some (p, d) ->
    exists v, eval_opt uk c (chosen p j d pos kws) = Ok v /\ alookup p nm = Some v.
  Proof.
    intros Hnd H Hj. unfold call_namespace, bind in H.
    destruct (eval_args uk c _) as [xs| |]; try discriminate.
    destruct (eval_kwargs uk c _ []) as [kx| |]; try discriminate.
    pose proof (bind_param_names ps pos kws Hnd) as Hkeys.
    destruct (bind_eval_lookup _ _ _ H ltac:(rewrite Hkeys; exact Hnd)) as [B1 _].
    pose proof (bind_param ps pos kws j p d Hnd Hj) as Hp. apply alookup_In in Hp.
    unfold chosen. rewrite last_named_is_last_kw. exact (B1 _ _ Hp).
  Qed.

  Lemma s_args_ne_kwargs : s_args <> s_kwargs.
  Proof. intro H. vm_compute in H. discriminate. Qed.

  (* args: the positional arguments beyond the parameters, in order, each evaluated in the caller's context *)
  Theorem call_namespace_args ps pos kws nm :
    NoDup (map fst ps) -> call_namespace uk c ps pos kws = Ok nm -> ~ In s_args (map fst ps) ->
    exists xs, eval_args uk c (skipn (length ps) pos) = Ok xs /\ alookup s_args nm = Some (VList xs).
  Proof.
    intros Hnd H Hn. unfold call_namespace, bind in H. rewrite (bind_excess ps pos kws Hnd) in H.
    destruct (eval_args uk c _) as [xs| |]; try discriminate.
    destruct (eval_kwargs uk c _ []) as [kx| |]; try discriminate.
    pose proof (bind_param_names ps pos kws Hnd) as Hkeys.
    destruct (bind_eval_lookup _ _ _ H ltac:(rewrite Hkeys; exact Hnd)) as [_ B2].
    exists xs. split; [reflexivity|]. rewrite B2 by (rewrite Hkeys; exact Hn). cbn [alookup]. rewrite str_eqb_refl. reflexivity.
  Qed.

  (* kwargs: the keyword arguments naming no parameter -- names in order of first appearance, each with the value of
     its LAST occurrence, evaluated in the caller's context; keywords naming a parameter are not in it *)
  Theorem call_namespace_kwargs ps pos kws nm :
    NoDup (map fst ps) -> call_namespace uk c ps pos kws = Ok nm -> ~ In s_kwargs (map fst ps) ->
    exists kx, alookup s_kwargs nm = Some (VDict kx) /\
      map fst kx = dedup (map fst (filter (fun kv => negb (MA.has_key (fst kv) ps)) kws)) /\
      forall k, match (if MA.has_key k ps then None else last_named k kws) with
                | Some e => exists v, eval_expr uk c e = Ok v /\ alookup k kx = Some v
                | None => alookup k kx = None
                end.
  Proof.
    intros Hnd H Hn. unfold call_namespace, bind in H. rewrite (bind_kwexcess ps pos kws Hnd) in H.
    destruct (eval_args uk c _) as [xs| |]; try discriminate.
    destruct (eval_kwargs uk c _ []) as [kx| |] eqn:Ek; try discriminate.
    pose proof (bind_param_names ps pos kws Hnd) as Hkeys.
    destruct (bind_eval_lookup _ _ _ H ltac:(rewrite Hkeys; exact Hnd)) as [_ B2].
    destruct (eval_kwargs_nodup _ _ _ Ek ltac:(cbn; apply kwexcess_nodup)) as (K1 & K2 & K3).
    exists kx. repeat split.
    - rewrite B2 by (rewrite Hkeys; exact Hn). cbn [alookup].
      destruct (str_eqb_spec s_kwargs s_args) as [Heq|_]; [exfalso; apply s_args_ne_kwargs; congruence|].
      rewrite str_eqb_refl. reflexivity.
    - rewrite K1. cbn. apply kwexcess_keys.
    - intro k. pose proof (kwexcess_lookup ps kws k) as Hl. rewrite <- last_named_is_last_kw in Hl.
      destruct (if MA.has_key k ps then None else last_named k kws) as [e|].
      + apply alookup_In in Hl. exact (K2 _ _ Hl).
      + rewrite K3; [reflexivity|]. intro Hin. apply in_map_iff in Hin. destruct Hin as [[k' e'] [Hk' Hin]]. cbn in Hk'. subst k'.
        assert (exists e0, alookup k (MA.spec_kwexcess ps kws) = Some e0) as [e0 He0]; [|congruence].
        clear -Hin. induction (MA.spec_kwexcess ps kws) as [|[k1 e1] l IH]; [destruct Hin|]. cbn.
        destruct (str_eqb_spec k k1); [eexists; reflexivity|]. destruct Hin as [Heq|Hin]; [congruence|exact (IH Hin)].
  Qed.

  (* ---- with: every argument is evaluated in the context OUTSIDE the block; a repeated name keeps its last value ---- *)
  Theorem eval_kwargs_lookup : forall args acc nw x,
    eval_kwargs uk c args acc = Ok nw ->
    match last_named x args with
    | Some e => exists v, eval_expr uk c e = Ok v /\ alookup x nw = Some v
    | None => alookup x nw = alookup x acc
    end.
  Proof.
    induction args as [|[k e] r IH]; intros acc nw x H.
    - cbn in H. inversion H; subst. reflexivity.
    - cbn [eval_kwargs] in H. unfold bind in H. destruct (eval_expr uk c e) as [v| |] eqn:Ev; try discriminate.
      specialize (IH _ _ x H). cbn [last_named]. destruct (last_named x r) as [e'|]; [exact IH|].
      rewrite IH, alookup_dict_set. destruct (str_eqb x k); [exists v; split; [exact Ev|reflexivity]|reflexivity].
  Qed.

  (* ... left to right: the tag fails exactly when some argument fails, with the error of the FIRST such argument *)
  Theorem eval_kwargs_first_error : forall args acc x,
    eval_kwargs uk c args acc = Err x ->
    exists pre k e post, args = pre ++ (k, e) :: post /\ eval_expr uk c e = Err x /\
      forall k' e', In (k', e') pre -> exists v, eval_expr uk c e' = Ok v.
  Proof.
    induction args as [|[k e] r IH]; intros acc x H; [discriminate|].
    cbn [eval_kwargs] in H. unfold bind in H. destruct (eval_expr uk c e) as [v|y|] eqn:Ev; try discriminate.
    - destruct (IH _ _ H) as (pre & k1 & e1 & post & -> & He & Hpre).
      exists ((k, e) :: pre), k1, e1, post. repeat split; [exact He|].
      intros k' e' [Heq|Hin]; [inversion Heq; subst; eexists; exact Ev|exact (Hpre _ _ Hin)].
    - inversion H; subst. exists [], k, e, r. repeat split; [exact Ev|intros ? ? []].
  Qed.
End Evaluation.

(* with the default undefined type no evaluation raises: a call always gets its namespace *)
Lemma eval_expr_default_total c e : exists v, eval_expr UDefault c e = Ok v.
Proof. destruct e as [l|p]; cbn; [eexists; reflexivity|apply eval_path_default_total]. Qed.

Theorem call_namespace_default_total c ps pos kws : exists nm, call_namespace UDefault c ps pos kws = Ok nm.
Proof.
  unfold call_namespace, bind.
  assert (A : forall es, exists xs, eval_args UDefault c es = Ok xs).
  { induction es as [|e es [xs IH]]; cbn; [eexists; reflexivity|].
    destruct (eval_expr_default_total c e) as [v ->]. unfold bind. rewrite IH. eexists; reflexivity. }
  assert (K : forall l acc, exists kx, eval_kwargs UDefault c l acc = Ok kx).
  { induction l as [|[k e] l IH]; intro acc; cbn; [eexists; reflexivity|].
    destruct (eval_expr_default_total c e) as [v ->]. unfold bind. apply IH. }
  assert (B : forall l acc, exists nm, bind_eval UDefault c l acc = Ok nm).
  { induction l as [|[p [e|]] l IH]; intro acc; cbn; [eexists; reflexivity| |]; unfold bind.
    - destruct (eval_expr_default_total c e) as [v ->]. apply IH.
    - apply IH. }
  destruct (A (MA.b_excess (MA.bind ps pos kws))) as [xs ->].
  destruct (K (MA.b_kwexcess (MA.bind ps pos kws)) []) as [kx ->]. apply B.
Qed.

(* ------------------------------------------------------------------ *)
(* Part C: the interpreter -- the macro table, calls, partials, with   *)

(* the variables a call's expressions can see are those of the caller; the macro table plays no part *)
Lemma eval_expr_set_macros uk c m e : eval_expr uk (set_macros c m) e = eval_expr uk c e.
Proof.
  assert (S : forall root ks, eval_simple uk (set_macros c m) root ks = eval_simple uk c root ks) by reflexivity.
  destruct e as [l|[root segs]]; [reflexivity|]. cbn [eval_expr]. unfold eval_path. cbn [p_segs p_root].
  assert (G : eval_segs uk (set_macros c m) segs = eval_segs uk c segs).
  { induction segs as [|[st k|r ks] segs IH]; cbn [eval_segs]; [reflexivity| |]; rewrite IH; [reflexivity|].
    rewrite S. reflexivity. }
  rewrite G. reflexivity.
Qed.

Lemma call_namespace_set_macros uk c m ps pos kws :
  call_namespace uk (set_macros c m) ps pos kws = call_namespace uk c ps pos kws.
Proof.
  unfold call_namespace.
  assert (A : forall es, eval_args uk (set_macros c m) es = eval_args uk c es).
  { induction es as [|e es IH]; cbn [eval_args]; [reflexivity|]. rewrite eval_expr_set_macros, IH. reflexivity. }
  assert (K : forall l acc, eval_kwargs uk (set_macros c m) l acc = eval_kwargs uk c l acc).
  { induction l as [|[k e] l IH]; intro acc; cbn [eval_kwargs]; [reflexivity|]. rewrite eval_expr_set_macros.
    unfold bind. destruct (eval_expr uk c e); [apply IH|reflexivity|reflexivity]. }
  assert (B : forall l acc, bind_eval uk (set_macros c m) l acc = bind_eval uk c l acc).
  { induction l as [|[p [e|]] l IH]; intro acc; cbn [bind_eval]; [reflexivity| |].
    - rewrite eval_expr_set_macros. unfold bind. destruct (eval_expr uk c e); [apply IH|reflexivity|reflexivity].
    - unfold bind. apply IH. }
  rewrite A. unfold bind. destruct (eval_args uk c _); [|reflexivity|reflexivity].
  rewrite K. destruct (eval_kwargs uk c _ []); [|reflexivity|reflexivity]. apply B.
Qed.

Section Exec.
  Variable E : env.
  Notation uk := (e_uk E).

  (* ---- the macro table ---- *)
  (* a macro tag evaluates nothing and prints nothing: it (re)binds its name to (parameters, block) *)
  Theorem macro_defines f name ps body c :
    mexec (S f) E (NMacro name ps body) c = Done (set_macros c (dict_set name (ps, body) (macros c))) [] Normal.
  Proof. reflexivity. Qed.

  (* the LATEST definition rendered is the one in force; other names are untouched *)
  Theorem macro_table_after_definition name ps body c x :
    alookup x (macros (set_macros c (dict_set name (ps, body) (macros c)))) =
    if str_eqb x name then Some (ps, body) else alookup x (macros c).
  Proof. cbn. apply alookup_dict_set. Qed.

  (* a name with no definition rendered so far: the call prints the undefined value -- nothing with the default
     undefined type, UndefinedError with a strict one; no argument is evaluated *)
  Theorem call_undefined f name a c :
    alookup name (macros c) = None ->
    mexec (S f) E (NCall name a) c = if strict_kind uk then Done c [] (Raise EUndefined) else Done c [] Normal.
  Proof.
    intro H. unfold mexec. cbn [mexec_gen mexec_step]. unfold call_step. rewrite H. cbn.
    destruct (strict_kind uk); reflexivity.
  Qed.

  (* a defined name: the namespace is computed in the caller's context c, the block runs in a copy holding only that
     namespace and the global data (plus the macro table), and the caller's context comes back unchanged *)
  Theorem call_defined f name a c ps body :
    alookup name (macros c) = Some (ps, body) ->
    mexec (S f) E (NCall name a) c =
    lift (call_namespace uk c (norm_params ps) (call_pos a) (call_kws a)) c (fun nm =>
      match seq_nodes (mexec f E) body (copy_call c nm) with Fuel => Fuel | Done _ out s => Done c out s end).
  Proof. intro H. unfold mexec. cbn [mexec_gen mexec_step]. unfold call_step. rewrite H. reflexivity. Qed.

  Theorem call_ctx_unchanged f name a c c' o s : mexec f E (NCall name a) c = Done c' o s -> c' = c.
  Proof.
    destruct f as [|f]; [discriminate|]. unfold mexec. cbn [mexec_gen mexec_step]. unfold call_step.
    destruct (alookup name (macros c)) as [[ps body]|]; unfold lift.
    - destruct (call_namespace uk c _ _ _); [|intro H; inversion H; reflexivity|discriminate].
      destruct (seq_nodes _ body _); [|discriminate]. intro H; inversion H; reflexivity.
    - destruct (to_output uk VUndef); [|intro H; inversion H; reflexivity|discriminate]. intro H; inversion H; reflexivity.
  Qed.

  (* NO STATE IS KEPT ON THE CALL NODE: executing a definition and then a call -- from ANY context, whatever was defined,
     called or bound by this very call node before -- binds against the definition just rendered and the caller's
     variables; the macro table itself does not influence the namespace *)
  Theorem call_uses_current_definition f name ps body a c :
    seq_nodes (mexec (S f) E) [NMacro name ps body; NCall name a] c =
    let c1 := set_macros c (dict_set name (ps, body) (macros c)) in
    lift (call_namespace uk c (norm_params ps) (call_pos a) (call_kws a)) c1 (fun nm =>
      match seq_nodes (mexec f E) body (copy_call c1 nm) with Fuel => Fuel | Done _ out s => Done c1 out s end).
  Proof.
    cbn [seq_nodes]. rewrite macro_defines. cbn zeta.
    rewrite (call_defined f name a _ ps body) by (cbn; apply alookup_dict_set_same).
    rewrite call_namespace_set_macros. unfold lift.
    destruct (call_namespace uk c _ _ _) as [nm|x|]; [|reflexivity|reflexivity].
    destruct (seq_nodes (mexec f E) body _) as [c2 o2 s2|]; [|reflexivity].
    destruct s2; cbn; rewrite ?app_nil_r; reflexivity.
  Qed.

  (* ---- a macro's block ---- *)
  Theorem macro_block_sees_macros c nm : macros (copy_call c nm) = macros c.
  Proof. reflexivity. Qed.
  Theorem macro_block_saw_no_macro_old c nm : macros (copy_call_old c nm) = [].
  Proof. reflexivity. Qed.
  (* its variables: the namespace in front of the ROOT globals; none of the caller's block scopes or assigned names *)
  Theorem macro_block_scope c nm :
    scopes (copy_call c nm) = [] /\ locals (copy_call c nm) = [] /\ gl (copy_call c nm) = nm :: base c /\
    disabled (copy_call c nm) = [TInclude; TBlock].
  Proof. repeat split. Qed.

  (* ---- partials ---- *)
  (* render: whatever the partial does -- define macros, assign -- the caller's context is what it was *)
  Theorem render_ctx_unchanged f name var args c c' o s : mexec f E (NRender name var args) c = Done c' o s -> c' = c.
  Proof.
    destruct f as [|f]; [discriminate|]. unfold mexec. cbn [mexec_gen mexec_step exec_step].
    destruct (alookup name (e_loader E)) as [body|]; [|intro H; inversion H; reflexivity].
    unfold lift. destruct (eval_kwargs uk c args []) as [na|x|]; [|intro H; inversion H; reflexivity|discriminate].
    destruct var as [[[p lp] alias]|].
    - destruct (eval_path uk c p) as [v|x|]; [|intro H; inversion H; reflexivity|discriminate].
      destruct (if lp then arraylike uk v else ANot).
      + match goal with |- match ?X with _ => _ end = _ -> _ => destruct X; [|discriminate] end. intro H; inversion H; reflexivity.
      + match goal with |- match ?X with _ => _ end = _ -> _ => destruct X; [|discriminate] end. intro H; inversion H; reflexivity.
      + intro H; inversion H; reflexivity.
    - match goal with |- match ?X with _ => _ end = _ -> _ => destruct X; [|discriminate] end. intro H; inversion H; reflexivity.
  Qed.

  (* include: the partial's nodes run on the caller's own context (one namespace pushed, popped afterwards) *)
  Theorem include_runs_in_place f name body c :
    is_disabled TInclude c = false -> alookup name (e_loader E) = Some body ->
    mexec (S f) E (NInclude name None []) c = after (run_template (e_mode E) true true (mexec f E) body (push c [])) pop.
  Proof. intros Hd Hl. unfold mexec. cbn [mexec_gen mexec_step exec_step]. rewrite Hd, Hl. reflexivity. Qed.

  (* ... so a macro defined by an included partial can be called after the include tag *)
  Theorem include_defines_macro f name m ps b c :
    is_disabled TInclude c = false -> alookup name (e_loader E) = Some [NMacro m ps b] ->
    exists c', mexec (S (S f)) E (NInclude name None []) c = Done c' [] Normal /\
      alookup m (macros c') = Some (ps, b) /\ scopes c' = scopes c /\ locals c' = locals c.
  Proof.
    intros Hd Hl. rewrite (include_runs_in_place _ _ _ _ Hd Hl).
    unfold run_template. cbn [tmpl_nodes]. rewrite macro_defines. cbn.
    eexists. split; [reflexivity|]. cbn. split; [apply alookup_dict_set_same|split; reflexivity].
  Qed.

  (* include cannot be used in a macro's block *)
  Theorem include_disabled_in_macro_block f name var args c nm :
    mexec (S f) E (NInclude name var args) (copy_call c nm) = Done (copy_call c nm) [] (Raise EDisabledTag).
  Proof. reflexivity. Qed.

  (* ---- balance: after ANY node, on ANY signal, the pushed namespaces are what they were ---- *)
  Lemma mexec_step_frame cp run : frame_ok run -> frame_ok (mexec_step cp E run).
  Proof.
    intros Hrun n c c' o s H.
    destruct n; try exact (exec_step_frame E run Hrun _ c c' o s H).
    cbn [mexec_step] in H. unfold call_step in H.
    destruct (alookup name (macros c)) as [[ps body]|].
    - eapply lift_frame; [|exact H]. intros nm Hm. cbv beta in Hm.
      destruct (seq_nodes run body (cp c nm)); [|discriminate]. inversion Hm; subst. apply same_frame_refl.
    - eapply lift_frame; [|exact H]. intros t Ht. cbv beta in Ht. inversion Ht; subst. apply same_frame_refl.
  Qed.

  Theorem mexec_frame f : frame_ok (mexec f E).
  Proof.
    induction f as [|f IH]; [intros n c c' o s H; discriminate|].
    unfold mexec in *. cbn [mexec_gen]. apply mexec_step_frame. exact IH.
  Qed.

  (* a with block's names are gone after the block however it ends -- normally, by break / continue, or by an ERROR
     raised anywhere inside (also inside a nested with block): every name then resolves through the scopes as before *)
  Theorem with_restores_scopes f args body c c' o s x :
    mexec f E (NWith args body) c = Done c' o s ->
    scopes c' = scopes c /\ gl c' = gl c /\ first_hit x (scopes c') = first_hit x (scopes c).
  Proof. intro H. apply mexec_frame in H. destruct H as (A & B & _ & _). rewrite A, B. repeat split. Qed.

  (* the with tag itself: namespace from the OUTER context, pushed for the block, popped after it *)
  Theorem with_step f args body c :
    mexec (S f) E (NWith args body) c =
    lift (eval_kwargs uk c args []) c (fun nw => after (seq_nodes (mexec f E) body (push c nw)) pop).
  Proof. reflexivity. Qed.

  (* lax mode: a Liquid error ends the top-level node it escapes from; what that node had written stays, the following
     nodes are rendered from the context it left -- whose pushed namespaces are, by mexec_frame, those before the node *)
  Theorem lax_continues_after_error p f n rest c c1 o1 e :
    mexec f E n c = Done c1 o1 (Raise e) -> is_liquid e = true ->
    tmpl_nodes MLax p (mexec f E) (n :: rest) c =
      match tmpl_nodes MLax p (mexec f E) rest c1 with Fuel => Fuel | Done c2 o2 s2 => Done c2 (o1 ++ o2) s2 end
    /\ scopes c1 = scopes c.
  Proof.
    intros H He. split; [|apply mexec_frame in H; apply H].
    cbn [tmpl_nodes]. rewrite H. cbn. rewrite He. reflexivity.
  Qed.
End Exec.
