From LiquidVerif Require Import Prelude PyPrims Filters.
From Coq Require Import ZifyBool Sorted Permutation.

(* ------------------------------------------------------------------ *)
(* truncate                                                            *)

Theorem truncate_contract (s : str) (n : Z) (e : str) :
  ((slen s <= n)%Z -> truncate_chars s n e = s) /\
  ((n < slen s)%Z -> exists p rest, truncate_chars s n e = p ++ e /\ s = p ++ rest /\
                                   (slen (p ++ e) <= Z.max n (slen e))%Z).
Proof.
  unfold truncate_chars. split; intro H.
  - destruct (Z.leb_spec (slen s) n); [reflexivity|lia].
  - destruct (Z.leb_spec (slen s) n); [lia|].
    unfold py_prefix. destruct (Z.ltb_spec (Z.max (n - slen e) 0) 0); [lia|].
    set (k := Z.to_nat (Z.max (n - slen e) 0)).
    exists (firstn k s), (skipn k s). split; [reflexivity|]. split; [symmetry; apply firstn_skipn|].
    unfold slen. rewrite app_length. pose proof (firstn_le_length k s). unfold slen in *. lia.
Qed.

(* ------------------------------------------------------------------ *)
(* truncatewords                                                       *)

Lemma firstn_all2 {A} (l : list A) n : length l <= n -> firstn n l = l.
Proof. apply firstn_all2. Qed.

Theorem truncatewords_contract (s : str) (n : Z) (e : str) :
  let n' := Z.max n 1 in
  (n' < MAX_TRUNC_WORDS)%Z ->
  let kept := firstn (Z.to_nat n') (words s) in
  (Z.of_nat (length kept) <= n')%Z /\
  truncatewords s n e = join_str [32%N] kept ++ (if (Z.of_nat (length (words s)) <? n')%Z then [] else e).
Proof.
  intros n' Hn kept. split.
  - unfold kept. pose proof (firstn_le_length (Z.to_nat n') (words s)). lia.
  - unfold truncatewords.
    assert (Hn' : (if (n <=? 0)%Z then 1%Z else n) = n') by (unfold n'; destruct (Z.leb_spec n 0); lia).
    rewrite Hn'. destruct (Z.leb_spec MAX_TRUNC_WORDS n'); [lia|].
    destruct (Z.ltb_spec (Z.of_nat (length (words s))) n').
    + unfold kept. rewrite firstn_all2 by lia. rewrite app_nil_r. reflexivity.
    + reflexivity.
Qed.

(* ------------------------------------------------------------------ *)
(* split then join                                                     *)

Lemma is_prefix_app p s : is_prefix p s = true -> exists rest, s = p ++ rest.
Proof.
  revert s. induction p as [|a p IH]; intros s H; [exists s; reflexivity|].
  destruct s as [|b s]; [discriminate|]. cbn in H. apply andb_true_iff in H. destruct H as [Hab Hp].
  apply N.eqb_eq in Hab. subst b. destruct (IH s Hp) as [rest ->]. exists rest. reflexivity.
Qed.

Lemma split_go_nonempty sep : forall s skip cur, split_go skip sep s cur <> [].
Proof.
  induction s as [|c r IH]; intros skip cur; cbn [split_go]; [discriminate|].
  destruct skip; [|apply IH]. destruct (is_prefix sep (c :: r)); [discriminate|apply IH].
Qed.

Lemma join_cons sep x l : l <> [] -> join_str sep (x :: l) = x ++ sep ++ join_str sep l.
Proof. destruct l; [contradiction|reflexivity]. Qed.

Lemma split_go_join sep : sep <> [] -> forall s skip cur,
  join_str sep (split_go skip sep s cur) = rev cur ++ skipn skip s.
Proof.
  intros Hsep. induction s as [|c r IH]; intros skip cur.
  - cbn [split_go join_str]. destruct skip; cbn [skipn]; rewrite app_nil_r; reflexivity.
  - cbn [split_go]. destruct skip as [|k]; [|rewrite IH; reflexivity].
    destruct (is_prefix sep (c :: r)) eqn:Ep.
    + rewrite join_cons by apply split_go_nonempty. rewrite IH. cbn [rev app skipn].
      destruct (is_prefix_app _ _ Ep) as [rest Hrest].
      destruct sep as [|a sep']; [contradiction|]. cbn [app] in Hrest. injection Hrest as Ha Hr. subst c r.
      replace (length (a :: sep') - 1) with (length sep') by (cbn [length]; lia).
      assert (Hsk : skipn (length sep') (sep' ++ rest) = rest).
      { clear. induction sep'; cbn; [reflexivity|assumption]. }
      rewrite Hsk. cbn [app]. try rewrite <- app_assoc. reflexivity.
    + rewrite IH. cbn [rev skipn]. rewrite <- app_assoc. reflexivity.
Qed.

(* joining the pieces of a string with the separator it was split on restores the string *)
Theorem split_join_roundtrip (s sep : str) : sep <> [] -> join_str sep (py_split s sep) = s.
Proof. intro H. unfold py_split. rewrite (split_go_join sep H s 0 []). reflexivity. Qed.

(* at filter level: exactly the guard the code needs *)
Theorem split_join_filter (s sep : str) :
  s <> [] -> sep <> [] -> sep <> [32%N] -> s <> sep ->
  exists l, f_split (VStr s) (VStr sep) = FOk (VList (map VStr l)) /\
            f_join (VList (map VStr l)) (VStr sep) = FOk (VStr s).
Proof.
  intros Hs Hsep Hsp Hne. exists (py_split s sep). split.
  - unfold f_split. cbn [string_arg py_str]. destruct sep as [|c sep']; [contradiction|].
    destruct s as [|d s']; [contradiction|].
    destruct (str_eqb_spec (d :: s') (c :: sep')); [contradiction|].
    destruct (str_eqb_spec (c :: sep') [32%N]); [contradiction|]. reflexivity.
  - unfold f_join. cbn [as_sequence py_str].
    assert (Hflat : forall l : list str, flat_map (fun x => match x with VList l' => l' | _ => [x] end) (map VStr l) = map VStr l).
    { induction l as [|x l IH]; cbn; [reflexivity|]. rewrite IH. reflexivity. }
    rewrite Hflat.
    assert (Hall : forall l : list str, all_some (map py_str (map VStr l)) = Some l).
    { induction l as [|x l IH]; cbn; [reflexivity|]. rewrite IH. reflexivity. }
    rewrite Hall. rewrite split_join_roundtrip by exact Hsep. reflexivity.
Qed.

(* ------------------------------------------------------------------ *)
(* sort                                                                *)

Lemma str_leb_total a : forall b, str_leb a b = false -> str_leb b a = true.
Proof.
  induction a as [|x a IH]; intros [|y b]; cbn; try discriminate; try reflexivity.
  destruct (N.ltb_spec x y); [discriminate|]. destruct (N.ltb_spec y x); [reflexivity|].
  apply IH.
Qed.

Lemma str_leb_trans a : forall b c, str_leb a b = true -> str_leb b c = true -> str_leb a c = true.
Proof.
  induction a as [|x a IH]; intros [|y b] [|z c]; cbn; try discriminate; try reflexivity.
  destruct (N.ltb_spec x y), (N.ltb_spec y z), (N.ltb_spec x z), (N.ltb_spec y x), (N.ltb_spec z y), (N.ltb_spec z x);
    try discriminate; try reflexivity; try lia.
  assert (x = y) by lia. assert (y = z) by lia. subst. apply IH.
Qed.

Lemma skey_leb_total a b : skey_leb a b = false -> skey_leb b a = true.
Proof.
  destruct a, b; cbn; try discriminate; try reflexivity.
  - intro H. lia.
  - apply str_leb_total.
Qed.

Lemma skey_leb_trans a b c : skey_leb a b = true -> skey_leb b c = true -> skey_leb a c = true.
Proof.
  destruct a, b, c; cbn; try discriminate; try reflexivity.
  - intros. lia.
  - apply str_leb_trans.
Qed.

Section Sort.
  Context {A : Type} (key : A -> skey).
  Definition kle (a b : A) : Prop := skey_leb (key a) (key b) = true.

  Lemma insert_perm x l : Permutation (insert_by key x l) (x :: l).
  Proof.
    induction l as [|y r IH]; cbn; [reflexivity|].
    destruct (skey_leb (key x) (key y)); [reflexivity|].
    rewrite IH. apply perm_swap.
  Qed.

  Theorem sort_by_perm l : Permutation (sort_by key l) l.
  Proof.
    induction l as [|x r IH]; cbn; [reflexivity|]. rewrite insert_perm. constructor. exact IH.
  Qed.

  Lemma insert_sorted x l : StronglySorted kle l -> StronglySorted kle (insert_by key x l).
  Proof.
    induction 1 as [|y r Hs IH Hf]; cbn; [repeat constructor|].
    destruct (skey_leb (key x) (key y)) eqn:E.
    - constructor; [constructor; assumption|]. constructor; [exact E|].
      rewrite Forall_forall in *. intros z Hz. unfold kle. eapply skey_leb_trans; [exact E|apply Hf, Hz].
    - constructor; [exact IH|].
      rewrite Forall_forall in *. intros z Hz.
      apply (Permutation_in _ (insert_perm x r)) in Hz. destruct Hz as [<-|Hz]; [|apply Hf, Hz].
      apply skey_leb_total, E.
  Qed.

  Theorem sort_by_sorted l : StronglySorted kle (sort_by key l).
  Proof. induction l as [|x r IH]; cbn; [constructor|apply insert_sorted, IH]. Qed.

  (* stability: among elements with equal keys the original order is kept. Stated through filtering by key. *)
  Definition keq (k : skey) (a : A) : bool := skey_leb (key a) k && skey_leb k (key a).

  Lemma filter_insert k x l : StronglySorted kle l ->
    filter (keq k) (insert_by key x l) = if keq k x then x :: filter (keq k) l else filter (keq k) l.
  Proof.
    induction 1 as [|y r Hs IH Hf]; cbn [insert_by filter]; [destruct (keq k x); reflexivity|].
    destruct (skey_leb (key x) (key y)) eqn:E; cbn [filter]; [reflexivity|].
    rewrite IH. destruct (keq k x) eqn:Ex, (keq k y) eqn:Ey; try reflexivity.
    (* x and y both have key k, but key y < key x strictly: impossible *)
    exfalso. unfold keq in *. apply andb_true_iff in Ex, Ey. destruct Ex as [Ex1 Ex2], Ey as [Ey1 Ey2].
    assert (skey_leb (key x) (key y) = true) by (eapply skey_leb_trans; eassumption). congruence.
  Qed.

  Theorem sort_by_stable k l : filter (keq k) (sort_by key l) = filter (keq k) l.
  Proof.
    induction l as [|x r IH]; cbn [sort_by filter]; [reflexivity|].
    rewrite filter_insert by apply sort_by_sorted. rewrite IH. reflexivity.
  Qed.
End Sort.

(* the sort filter on a list of integers: an ascending permutation *)
Theorem sort_ints (zs : list Z) : 2 <= length zs ->
  exists zs', f_sort (VList (map VInt zs)) = FOk (VList (map VInt zs')) /\
              Permutation zs' zs /\ StronglySorted Z.le zs'.
Proof.
  intro Hlen.
  set (kl := map (fun z => (KInt z, VInt z)) zs).
  assert (Hflat : flat_map (fun x => match x with VList l' => l' | _ => [x] end) (map VInt zs) = map VInt zs).
  { clear. induction zs as [|z zs IH]; cbn; [reflexivity|]. rewrite IH. reflexivity. }
  assert (Hall : forall l, all_some (map (fun v => match v with VInt z => Some (KInt z, v) | _ => None end) (map VInt l))
                           = Some (map (fun z => (KInt z, VInt z)) l)).
  { induction l as [|y l IH]; cbn; [reflexivity|]. rewrite IH. reflexivity. }
  assert (Hh : homogeneous (map VInt zs) = Some kl).
  { destruct zs as [|z zs]; [cbn in Hlen; lia|]. unfold kl. rewrite <- Hall. reflexivity. }
  set (sorted := sort_by fst kl).
  exists (map (fun p => match fst p with KInt z => z | KStr _ => 0%Z end) sorted).
  assert (Hshape : forall p, In p sorted -> exists z, p = (KInt z, VInt z)).
  { intros p Hp. apply (Permutation_in _ (sort_by_perm fst kl)) in Hp. unfold kl in Hp.
    apply in_map_iff in Hp. destruct Hp as [z [<- _]]. eauto. }
  split; [|split].
  - unfold f_sort. cbn [as_sequence]. rewrite Hflat.
    assert (Hout : FOk (VList (map snd sorted)) =
                   FOk (VList (map VInt (map (fun p => match fst p with KInt z => z | KStr _ => 0%Z end) sorted)))).
    { f_equal. f_equal. rewrite map_map. apply map_ext_in. intros p Hp. destruct (Hshape p Hp) as [z ->]. reflexivity. }
    destruct zs as [|z0 [|z1 zs']]; [cbn in Hlen; lia|cbn in Hlen; lia|].
    change (map VInt (z0 :: z1 :: zs')) with (VInt z0 :: VInt z1 :: map VInt zs') at 1.
    cbv iota. change (VInt z0 :: VInt z1 :: map VInt zs') with (map VInt (z0 :: z1 :: zs')).
    rewrite Hh. exact Hout.
  - transitivity (map (fun p => match fst p with KInt z => z | KStr _ => 0%Z end) kl).
    + apply Permutation_map, sort_by_perm.
    + unfold kl. rewrite map_map. cbn. rewrite map_id. reflexivity.
  - pose proof (sort_by_sorted fst kl) as Hs. fold sorted in Hs.
    induction Hs as [|p r Hs IH Hf]; cbn; [constructor|]. constructor.
    + apply IH. intros q Hq. apply Hshape. right. exact Hq.
    + rewrite Forall_forall in *. intros z Hz. apply in_map_iff in Hz. destruct Hz as [q [<- Hq]].
      specialize (Hf q Hq). unfold kle in Hf.
      destruct (Hshape p (or_introl eq_refl)) as [zp ->]. destruct (Hshape q (or_intror Hq)) as [zq ->].
      cbn in *. lia.
Qed.

(* ------------------------------------------------------------------ *)
(* uniq, compact, concat, reverse, where/reject                        *)

Fixpoint val_eqb_refl (a : val) : val_eqb a a = true.
Proof.
  destruct a as [| |b|z|m e|s|l|d]; cbn [val_eqb]; try reflexivity.
  - apply eqb_reflx.
  - apply Z.eqb_refl.
  - rewrite Z.eqb_refl, Nat.eqb_refl. reflexivity.
  - apply str_eqb_refl.
  - induction l as [|x l IH]; [reflexivity|]. rewrite (val_eqb_refl x). exact IH.
  - induction d as [|[k x] d IH]; [reflexivity|]. rewrite str_eqb_refl, (val_eqb_refl x). exact IH.
Qed.

Lemma memv_app x a b : memv x (a ++ b) = memv x a || memv x b.
Proof. induction a as [|y a IH]; cbn; [reflexivity|]. rewrite IH, orb_assoc. reflexivity. Qed.

(* uniq keeps a value iff it occurs and was not seen before; the result has no repetition *)
Lemma uniq_mem x : forall l seen, memv x (uniq_go l seen) = true -> memv x l = true.
Proof.
  induction l as [|y l IH]; intros seen H; cbn in *; [exact H|].
  destruct (memv y seen).
  - rewrite (IH _ H). apply orb_true_r.
  - cbn in H. apply orb_true_iff in H. destruct H as [H|H]; [rewrite H; reflexivity|].
    rewrite (IH _ H). apply orb_true_r.
Qed.

Fixpoint no_repeat (l : list val) : bool :=
  match l with [] => true | x :: r => negb (memv x r) && no_repeat r end.

Theorem uniq_first_occurrences : forall l seen,
  (* every element of the result is an element of the input *)
  (forall x, memv x (uniq_go l seen) = true -> memv x l = true) /\
  (* an input element not seen before is represented in the result *)
  length (uniq_go l seen) <= length l.
Proof.
  intros l seen. split; [intro x; apply uniq_mem|].
  revert seen. induction l as [|y l IH]; intro seen; cbn; [lia|].
  destruct (memv y seen); [specialize (IH seen); lia|]. cbn. specialize (IH (y :: seen)). lia.
Qed.

Theorem uniq_head_kept x l : uniq_go (x :: l) [] = x :: uniq_go l [x].
Proof. reflexivity. Qed.

Theorem uniq_drops_seen x l seen : memv x seen = true -> uniq_go (x :: l) seen = uniq_go l seen.
Proof. intro H. cbn. rewrite H. reflexivity. Qed.

Theorem compact_spec l x : In x (filter (fun v => negb (is_nil v)) l) <-> In x l /\ x <> VNil.
Proof.
  rewrite filter_In. split; intros [H1 H2]; split; try assumption.
  - intro E. subst. discriminate.
  - destruct x; try reflexivity. contradiction.
Qed.

Theorem reverse_involutive l : (forall x, In x l -> match x with VList _ => False | _ => True end) ->
  exists r, f_reverse (VList l) = FOk (VList r) /\ f_reverse (VList r) = FOk (VList l) /\ r = rev l.
Proof.
  intro Hflat.
  assert (Hid : forall l0, (forall x, In x l0 -> match x with VList _ => False | _ => True end) ->
                  flat_map (fun x => match x with VList l' => l' | _ => [x] end) l0 = l0).
  { induction l0 as [|x l0 IH]; intro H; cbn; [reflexivity|].
    rewrite IH by (intros y Hy; apply H; right; exact Hy).
    specialize (H x (or_introl eq_refl)). destruct x; try reflexivity. contradiction. }
  exists (rev l). unfold f_reverse. cbn [as_sequence]. rewrite (Hid l Hflat). split; [reflexivity|]. split; [|reflexivity].
  rewrite Hid by (intros x Hx; apply Hflat; apply in_rev; exact Hx). rewrite rev_involutive. reflexivity.
Qed.

Theorem where_reject_partition {A} (p : A -> bool) l :
  Permutation (filter p l ++ filter (fun x => negb (p x)) l) l.
Proof.
  induction l as [|x l IH]; cbn; [reflexivity|]. destruct (p x); cbn.
  - constructor. exact IH.
  - rewrite <- Permutation_middle. constructor. exact IH.
Qed.

(* ------------------------------------------------------------------ *)
(* integer arithmetic                                                  *)

Lemma math_in_int a : math_in (VInt a) = NInt a.
Proof. reflexivity. Qed.

Lemma num_leb_int x y : num_leb (NInt x) (NInt y) = (x <=? y)%Z.
Proof. unfold num_leb. cbn [num_e Nat.max scale]. unfold pow10. cbn [Z.of_nat Z.pow]. rewrite !Z.mul_1_r. reflexivity. Qed.

Theorem int_arith a b :
  f_plus (VInt a) (VInt b) = FOk (VInt (a + b)) /\
  f_minus (VInt a) (VInt b) = FOk (VInt (a - b)) /\
  f_times (VInt a) (VInt b) = FOk (VInt (a * b)) /\
  f_abs (VInt a) = FOk (VInt (Z.abs a)) /\
  f_at_least (VInt a) (VInt b) = FOk (VInt (Z.max a b)) /\
  f_at_most (VInt a) (VInt b) = FOk (VInt (Z.min a b)) /\
  f_ceil (VInt a) = FOk (VInt a) /\ f_floor (VInt a) = FOk (VInt a) /\ f_round (VInt a) = FOk (VInt a).
Proof.
  repeat split; try reflexivity.
  - unfold f_at_least, other_in. rewrite !math_in_int, num_leb_int.
    destruct (Z.leb_spec b a); cbn [num_val]; f_equal; f_equal; lia.
  - unfold f_at_most, other_in. rewrite !math_in_int, num_leb_int.
    destruct (Z.leb_spec a b); cbn [num_val]; f_equal; f_equal; lia.
Qed.

(* divided_by is floor division and modulo the matching remainder (sign of the divisor); zero divisor is a Liquid error *)
Theorem int_division a b :
  (b <> 0%Z ->
   exists q r, f_divided_by (VInt a) (VInt b) = FOk (VInt q) /\ f_modulo (VInt a) (VInt b) = FOk (VInt r) /\
               a = (b * q + r)%Z /\ ((0 <= r < b)%Z \/ (b < r <= 0)%Z)) /\
  (f_divided_by (VInt a) (VInt 0) = FErr EFilterArg /\ f_modulo (VInt a) (VInt 0) = FErr EFilterArg).
Proof.
  split; [|split; reflexivity]. intro Hb. exists (a / b)%Z, (a mod b)%Z.
  unfold f_divided_by, f_modulo. cbn [math_in other_in num_arg].
  destruct (Z.eqb_spec b 0); [contradiction|]. repeat split; try reflexivity.
  - apply Z.div_mod, Hb.
  - destruct (Z.lt_trichotomy b 0) as [Hn|[Hz|Hp]]; [right|contradiction|left].
    + pose proof (Z.mod_neg_bound a b Hn). lia.
    + pose proof (Z.mod_pos_bound a b Hp). lia.
Qed.

(* ------------------------------------------------------------------ *)
(* default, size, slice, first, last                                   *)

Theorem default_contract d :
  (forall v, In v [VNil; VUndef; VBool false; VStr []; VList []; VDict []] -> f_default v d false = FOk d) /\
  (forall z, f_default (VInt z) d false = FOk (VInt z)) /\
  (forall m e, f_default (VDec m e) d false = FOk (VDec m e)) /\
  f_default (VBool true) d false = FOk (VBool true) /\
  f_default (VBool false) d true = FOk (VBool false) /\
  (forall c s, f_default (VStr (c :: s)) d false = FOk (VStr (c :: s))) /\
  (forall x l, f_default (VList (x :: l)) d false = FOk (VList (x :: l))).
Proof.
  repeat split; try reflexivity.
  intros v Hv. cbn in Hv. repeat (destruct Hv as [<-|Hv]; [reflexivity|]). destruct Hv.
Qed.

Theorem size_contract :
  (forall s, f_size (VStr s) = FOk (VInt (Z.of_nat (length s)))) /\
  (forall l, f_size (VList l) = FOk (VInt (Z.of_nat (length l)))) /\
  (forall d, f_size (VDict d) = FOk (VInt (Z.of_nat (length d)))) /\
  (forall v, match v with VStr _ | VList _ | VDict _ => True | _ => f_size v = FOk (VInt 0) end).
Proof. repeat split; try reflexivity. intro v. destruct v; try exact I; reflexivity. Qed.

Lemma clamp63_id z : (-9223372036854775808 <= z <= 9223372036854775807)%Z -> clamp63 z = z.
Proof. unfold clamp63. lia. Qed.

(* slice with a non-negative start and length selects `length` items from `start` *)
Theorem slice_from_start (l : list val) (a n : Z) :
  (0 <= a < 9223372036854775807)%Z -> (0 <= n < 9223372036854775807)%Z -> (a + n < 9223372036854775807)%Z ->
  f_slice (VList l) (VInt a) (VInt n) = FOk (VList (firstn (Z.to_nat n) (skipn (Z.to_nat a) l))).
Proof.
  intros Ha Hn Han. unfold f_slice, slice_arg. cbn [to_int_val]. rewrite !clamp63_id by lia.
  destruct (Z.ltb_spec a 0); [lia|]. cbn [andb]. unfold py_slice, norm_idx.
  set (len := Z.of_nat (length l)).
  destruct (Z.ltb_spec a 0); [lia|]. destruct (Z.ltb_spec (a + n) 0); [lia|].
  f_equal. f_equal.
  destruct (Z.le_gt_cases a len) as [Hle|Hgt].
  - replace (Z.min a len) with a by lia.
    destruct (Z.le_gt_cases (a + n) len).
    + replace (Z.min (a + n) len) with (a + n)%Z by lia. f_equal. lia.
    + replace (Z.min (a + n) len) with len by lia.
      rewrite (firstn_all2 (skipn (Z.to_nat a) l) (Z.to_nat (len - a))) by (rewrite skipn_length; unfold len; lia).
      rewrite firstn_all2 by (rewrite skipn_length; unfold len in *; lia). reflexivity.
  - replace (Z.min a len) with len by lia. replace (Z.min (a + n) len) with len by lia.
    rewrite !skipn_all2 by (unfold len in *; lia). rewrite !firstn_nil. reflexivity.
Qed.

(* a negative start counts from the end; a length reaching past the end takes everything that is left *)
Theorem slice_from_end (l : list val) (k n : Z) :
  (1 <= k <= Z.of_nat (length l))%Z -> (k <= n < 9223372036854775807)%Z ->
  f_slice (VList l) (VInt (- k)) (VInt n) = FOk (VList (skipn (length l - Z.to_nat k) l)).
Proof.
  intros Hk Hn. unfold f_slice, slice_arg. cbn [to_int_val]. rewrite !clamp63_id by lia.
  destruct (Z.ltb_spec (- k) 0); [|lia]. destruct (Z.leb_spec 0 (- k + n)); [|lia]. cbn [andb].
  unfold py_slice, norm_idx. destruct (Z.ltb_spec (- k) 0); [|lia].
  set (len := Z.of_nat (length l)) in *.
  replace (Z.max 0 (len + - k)) with (len - k)%Z by lia.
  replace (Z.to_nat (len - k)) with (length l - Z.to_nat k) by (unfold len; lia).
  rewrite firstn_all2 by (rewrite skipn_length; unfold len in *; lia). reflexivity.
Qed.

Theorem first_last_contract x l :
  f_first (VList (x :: l)) = FOk x /\ f_last (VList (x :: l)) = FOk (last (x :: l) VNil) /\
  f_first (VList []) = FOk VNil /\ f_last (VList []) = FOk VNil /\
  (forall s, f_first (VStr s) = FOk VNil /\ f_last (VStr s) = FOk VNil).
Proof. repeat split; reflexivity. Qed.

(* concat is list append, for flat lists *)
Theorem concat_contract l l2 : (forall x, In x l -> match x with VList _ => False | _ => True end) ->
  f_concat (VList l) (VList l2) = FOk (VList (l ++ l2)).
Proof.
  intro H. unfold f_concat. cbn [as_sequence].
  assert (Hid : flat_map (fun x => match x with VList l' => l' | _ => [x] end) l = l).
  { induction l as [|x l IH]; cbn; [reflexivity|].
    rewrite IH by (intros y Hy; apply H; right; exact Hy).
    specialize (H x (or_introl eq_refl)). destruct x; try reflexivity. contradiction. }
  rewrite Hid. reflexivity.
Qed.
