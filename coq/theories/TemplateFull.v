(* Whole templates with STRUCTURED payloads: the composition of the tag-structure model (TagTree.v: the block parser and the
   shape of every Node.__str__, expression text opaque) with the expression model (ExprSyntax.v: the payload of every tag and
   output statement, token level) and the condition model (Cond.v / CondParen.v: if / elsif / unless).
   A tag's expression is TEXT at the tag level and a TOKEN LIST at the expression level; the two are related by the expression
   lexer.  Here the lexer and its right inverse are parameters: [lex : str -> res (list etok)] and [render : list etok -> str]
   (what __str__ does when it joins the pieces with spaces).  The round-trip theorem assumes, for the payloads that occur in the
   tree, [lex (render ts) = Ok ts] -- this is NOT discharged by ExprLex.v (a character-level model of _tokenize.py with its own
   token record and no theorem about serialised text); it is what the harness's tokenisers of serialised text check case by case.
   Executable definitions only. *)
From Coq Require Import String.
From LiquidVerif Require Import Prelude PyPrims Cond CondPrint CondParen StrLit PathSyntax TagTree ExprSyntax.
Local Open Scope string_scope. Local Open Scope list_scope.

(* the expression of a tag: a payload of ExprSyntax, a condition, nothing (else, ifchanged, break, continue, end tags), or text the
   expression model does not look into (the body of a liquid tag, an inline comment) *)
Inductive fpay := FP (y : payload) | FCond (c : bexpr) | FNone | FOpaque (s : str).

Inductive fnode :=
| FText (s : str) | FRaw (s : str) | FComment (s : str)
| FOut (e : expr)
| FInline (name : str) (p : fpay)
| FBlock (name : str) (p : fpay) (body : list fnode) (secs : list (str * fpay * list fnode)).

(* which parser a tag's parse method applies to its expression *)
Inductive tpk := PK (k : pkind) | PKCond | PKNone | PKOpaque.

Definition std_tpk_table : list (str * tpk) :=
  [ (slit "if", PKCond); (slit "elsif", PKCond); (slit "unless", PKCond); (slit "else", PKNone);
    (slit "case", PK KCase); (slit "when", PK KWhen); (slit "for", PK KLoop); (slit "tablerow", PK KLoop);
    (slit "capture", PK KCapture); (slit "ifchanged", PKNone);
    (slit "assign", PK KAssign); (slit "echo", PK KExpr); (slit "cycle", PK KCycle); (slit "increment", PK KIdent);
    (slit "decrement", PK KIdent); (slit "include", PK KInclude); (slit "render", PK KRender);
    (slit "liquid", PKOpaque); (slit "#", PKOpaque); (slit "break", PKNone); (slit "continue", PKNone) ].
Definition std_tpk (n : str) : tpk := match alookup n std_tpk_table with Some k => k | None => PKOpaque end.

Section All.
  Context {A : Type} (P : A -> Prop).
  Fixpoint all (l : list A) : Prop := match l with [] => True | x :: r => P x /\ all r end.
End All.

Section ResMap.
  Context {A B : Type} (f : A -> res B).
  Fixpoint res_map (l : list A) : res (list B) :=
    match l with
    | [] => Ok []
    | x :: r => match f x with
                | Ok y => match res_map r with Ok ys => Ok (y :: ys) | Err e => Err e | OutOfFuel => OutOfFuel end
                | Err e => Err e
                | OutOfFuel => OutOfFuel
                end
    end.
End ResMap.

Section Full.
  Variable is_prop : str -> bool.
  Variable render : list etok -> str.
  Variable lex : str -> res (list etok).
  Variable tag_kind : str -> tagkind.       (* the tag register (TagTree) *)
  Variable tpk_of : str -> tpk.

  (* ---- serialiser: the tree with every payload written out, as tag-level tokens ---- *)
  Definition pay_toks (p : fpay) : list etok :=
    match p with FP y => print_payload is_prop y | FCond c => map ECond (print2 c) | _ => [] end.
  Definition pay_text (p : fpay) : str :=
    match p with FOpaque s => s | FNone => [] | _ => render (pay_toks p) end.

  Fixpoint unstruct (n : fnode) : node :=
    match n with
    | FText s => NText s | FRaw s => NRaw s | FComment s => NComment s
    | FOut e => NOut (render (print_expr is_prop e))
    | FInline name p => NInline name (pay_text p)
    | FBlock name p body secs =>
        NBlock name (pay_text p) (map unstruct body) (map (fun s => (fst (fst s), pay_text (snd (fst s)), map unstruct (snd s))) secs)
    end.
  Definition print_template_full (t : list fnode) : list ttok := print_nodes (map unstruct t).

  (* ---- parser: Parser.parse_block on the tag-level tokens, then each tag's own parse method on its expression ---- *)
  Definition decode_pay (name : str) (e : str) : res fpay :=
    match tpk_of name with
    | PK k => do ts <- lex e; do y <- parse_payload k ts; Ok (FP y)
    | PKCond => do ts <- lex e; do c <- Cond.parse flags_on (map to_ctok ts); Ok (FCond c)
    | PKNone => match e with [] => Ok FNone | _ => Err ESyntax end
    | PKOpaque => Ok (FOpaque e)
    end.

  Fixpoint decode (n : node) : res fnode :=
    match n with
    | NText s => Ok (FText s) | NRaw s => Ok (FRaw s) | NComment s => Ok (FComment s)
    | NOut e => do ts <- lex e; do x <- parse_expr true ts; Ok (FOut x)
    | NInline name e => do p <- decode_pay name e; Ok (FInline name p)
    | NBlock name e body secs =>
        do p <- decode_pay name e;
        do b <- res_map decode body;
        do ss <- res_map (fun s => do sp <- decode_pay (fst (fst s)) (snd (fst s)); do sb <- res_map decode (snd s);
                                   Ok (fst (fst s), sp, sb)) secs;
        Ok (FBlock name p b ss)
    end.

  Definition parse_template_full (ts : list ttok) : res (list fnode) :=
    do ns <- parse_template tag_kind ts; res_map decode ns.

  (* ---- well-formedness ---- *)
  (* the payload is what the tag's parser produces (capture's parser yields an identifier payload), it is well formed, and the
     expression lexer reads its serialisation back token by token *)
  Definition kind_fits (k : pkind) (y : payload) : Prop := k = kind_of y \/ (k = KCapture /\ exists s, y = YIdent s).
  Definition pay_ok (name : str) (p : fpay) : Prop :=
    match tpk_of name, p with
    | PK k, FP y => wf_payload y = true /\ kind_fits k y /\ lex (render (print_payload is_prop y)) = Ok (print_payload is_prop y)
    | PKCond, FCond c => lex (render (map ECond (print2 c))) = Ok (map ECond (print2 c))
    | PKNone, FNone => True
    | PKOpaque, FOpaque _ => True
    | _, _ => False
    end.
  Fixpoint ok (n : fnode) : Prop :=
    match n with
    | FOut e => wf_expr e = true /\ lex (render (print_expr is_prop e)) = Ok (print_expr is_prop e)
    | FInline name p => pay_ok name p
    | FBlock name p body secs =>
        pay_ok name p /\ all ok body /\ all (fun s => pay_ok (fst (fst s)) (snd (fst s)) /\ all ok (snd s)) secs
    | _ => True
    end.
  (* a whole template: the shape is well formed for the tag register (TagTree.wf_nodes does not look at expression text) and
     every payload is fine *)
  Definition wf_full (t : list fnode) : Prop := wf_nodes tag_kind (map unstruct t) = true /\ all ok t.

  (* ---- the serialiser at token level on both levels (what the correspondence compares) ---- *)
End Full.

Inductive ftok :=
| GText (s : str) | GRaw (s : str) | GComment (s : str)
| GOut (ts : list etok)
| GTag (name : str) (ts : list etok)
| GTagText (name : str) (s : str).          (* liquid, inline comment *)

Section FullToks.
  Variable is_prop : str -> bool.
  Definition ptag (name : str) (p : fpay) : ftok :=
    match p with FOpaque s => GTagText name s | _ => GTag name (pay_toks is_prop p) end.
  Fixpoint fprint (n : fnode) : list ftok :=
    match n with
    | FText s => [GText s] | FRaw s => [GRaw s] | FComment s => [GComment s]
    | FOut e => [GOut (print_expr is_prop e)]
    | FInline name p => [ptag name p]
    | FBlock name p body secs =>
        ptag name p :: flat_map fprint body
        ++ flat_map (fun s => ptag (fst (fst s)) (snd (fst s)) :: flat_map fprint (snd s)) secs
        ++ [GTag (endname name) []]
    end.
  Definition fprint_all (t : list fnode) : list ftok := flat_map fprint t.
  (* the tag-level token a two-level token stands for *)
  Definition ftok_ttok (render : list etok -> str) (t : ftok) : ttok :=
    match t with
    | GText s => KText s | GRaw s => KRaw s | GComment s => KComment s
    | GOut ts => KOut (render ts)
    | GTag name ts => KTag name (match ts with [] => [] | _ => render ts end)
    | GTagText name s => KTag name s
    end.
End FullToks.

(* ================= correspondence ================= *)
(* the expression lexer as a table: the harness tokenises every expression text of the source (its own tokeniser of source text)
   and hands the pairs over *)
Definition lex_tab (tab : list (str * list etok)) (s : str) : res (list etok) :=
  match alookup s tab with Some ts => Ok ts | None => Err ESyntax end.

Definition ftok_eqb (a b : ftok) : bool :=
  match a, b with
  | GText x, GText y | GRaw x, GRaw y | GComment x, GComment y => str_eqb x y
  | GOut x, GOut y => list_eqb etok_eqb x y
  | GTag n x, GTag m y => str_eqb n m && list_eqb etok_eqb x y
  | GTagText n x, GTagText m y => str_eqb n m && str_eqb x y
  | _, _ => false
  end.

(* source: tag-level tokens (expression text as in the source) + the table; observation: str() of the parsed template as
   two-level tokens (None: the parser rejects the source) *)
Record gcase := { gc_toks : list ttok; gc_tab : list (str * list etok) }.
Definition run_gprint (c : gcase) : option (list ftok) :=
  match parse_template_full (lex_tab (gc_tab c)) std_kind std_tpk (gc_toks c) with
  | Ok t => Some (fprint_all expr_is_prop t)
  | _ => None
  end.
Definition run_gprint_eqb (a b : option (list ftok)) : bool := option_eqb (list_eqb ftok_eqb) a b.
