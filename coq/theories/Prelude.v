(* Prelude: shared vocabulary of all models.  No proofs about the system here. *)
From Coq Require Export List Bool Arith ZArith NArith Lia.
Export ListNotations.

(* Python str = list of Unicode code points *)
Definition str := list N.

Fixpoint str_eqb (a b : str) : bool :=
  match a, b with
  | [], [] => true
  | x :: a', y :: b' => N.eqb x y && str_eqb a' b'
  | _, _ => false
  end.

Lemma str_eqb_spec a b : reflect (a = b) (str_eqb a b).
Proof.
  revert b; induction a as [|x a IH]; intros [|y b]; simpl; try (constructor; congruence).
  destruct (N.eqb_spec x y) as [->|Hn]; simpl.
  - destruct (IH b) as [->|Hn]; constructor; congruence.
  - constructor; congruence.
Qed.

Lemma str_eqb_refl a : str_eqb a a = true.
Proof. destruct (str_eqb_spec a a); congruence. Qed.

Lemma str_eqb_eq a b : str_eqb a b = true <-> a = b.
Proof. destruct (str_eqb_spec a b); split; congruence. Qed.

(* Exceptions the properties name.  Liquid classes first, then foreign ones. *)
Inductive exn :=
| ELiquid            (* any other LiquidError subclass *)
| ESyntax | EType | EUndefined | EDisabledTag | ENotFound | ENoSuchFilter | EFilterArg
| ELoopLimit | EOutputLimit | ENamespaceLimit | EContextDepth   (* ResourceLimitError subclasses *)
| EInherit | ERequiredBlock
| EValueError | ETypeError | EOverflowError | EIndexError | EKeyError | EAssertionError
| EArithmeticError | ERecursionError | EUnicodeError | EOSError | ERuntimeError | EOtherForeign.

Definition is_liquid (e : exn) : bool :=
  match e with
  | EValueError | ETypeError | EOverflowError | EIndexError | EKeyError | EAssertionError
  | EArithmeticError | ERecursionError | EUnicodeError | EOSError | ERuntimeError | EOtherForeign => false
  | _ => true
  end.

Definition is_resource_limit (e : exn) : bool :=
  match e with ELoopLimit | EOutputLimit | ENamespaceLimit | EContextDepth => true | _ => false end.

Definition exn_eqb (a b : exn) : bool :=
  match a, b with
  | ELiquid, ELiquid | ESyntax, ESyntax | EType, EType | EUndefined, EUndefined
  | EDisabledTag, EDisabledTag | ENotFound, ENotFound | ENoSuchFilter, ENoSuchFilter
  | EFilterArg, EFilterArg | ELoopLimit, ELoopLimit | EOutputLimit, EOutputLimit
  | ENamespaceLimit, ENamespaceLimit | EContextDepth, EContextDepth | EInherit, EInherit
  | ERequiredBlock, ERequiredBlock | EValueError, EValueError | ETypeError, ETypeError
  | EOverflowError, EOverflowError | EIndexError, EIndexError | EKeyError, EKeyError
  | EAssertionError, EAssertionError | EArithmeticError, EArithmeticError
  | ERecursionError, ERecursionError | EUnicodeError, EUnicodeError | EOSError, EOSError
  | ERuntimeError, ERuntimeError | EOtherForeign, EOtherForeign => true
  | _, _ => false
  end.

Lemma exn_eqb_eq a b : exn_eqb a b = true <-> a = b.
Proof. destruct a, b; simpl; split; intro H; try reflexivity; try discriminate. Qed.

(* Outcomes.  Fuel exhaustion is a separate constructor and never a normal value. *)
Inductive res (A : Type) := Ok (a : A) | Err (e : exn) | OutOfFuel.
Arguments Ok {A} a. Arguments Err {A} e. Arguments OutOfFuel {A}.

Definition bind {A B} (r : res A) (f : A -> res B) : res B :=
  match r with Ok a => f a | Err e => Err e | OutOfFuel => OutOfFuel end.
Notation "'do' x <- r ; k" := (bind r (fun x => k)) (at level 200, x pattern, r at level 100, k at level 200).

(* Correspondence support: indices (as N) at which the model's observation
   differs from the implementation's.  The comparison happens inside Coq. *)
Section Mismatch.
  Context {C M O : Type} (run : C -> M) (eqb : M -> O -> bool).
  Fixpoint mismatches_from (i : N) (cs : list C) (es : list O) : list N :=
    match cs, es with
    | c :: cs', e :: es' =>
        if eqb (run c) e then mismatches_from (N.succ i) cs' es'
        else i :: mismatches_from (N.succ i) cs' es'
    | [], [] => []
    | _, _ => [i]       (* length disagreement is itself a mismatch *)
    end.
  Definition mismatches := mismatches_from 0%N.
End Mismatch.

Fixpoint list_eqb {A} (eqb : A -> A -> bool) (a b : list A) : bool :=
  match a, b with
  | [], [] => true
  | x :: a', y :: b' => eqb x y && list_eqb eqb a' b'
  | _, _ => false
  end.

Lemma list_eqb_eq {A} (eqb : A -> A -> bool) (H : forall x y, eqb x y = true <-> x = y) a b :
  list_eqb eqb a b = true <-> a = b.
Proof.
  revert b; induction a as [|x a IH]; intros [|y b]; simpl; try (split; congruence).
  rewrite andb_true_iff, H, IH. split; [intros [-> ->]; reflexivity | intro E; inversion E; auto].
Qed.

Definition option_eqb {A} (eqb : A -> A -> bool) (a b : option A) : bool :=
  match a, b with Some x, Some y => eqb x y | None, None => true | _, _ => false end.

(* association lists keyed by str *)
Fixpoint alookup {V} (k : str) (l : list (str * V)) : option V :=
  match l with
  | [] => None
  | (k', v) :: l' => if str_eqb k k' then Some v else alookup k l'
  end.
