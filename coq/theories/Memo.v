(* Memo.v — the process-wide memo tables behind Environment.from_string / Template():
     get_lexer                 lru_cache(maxsize=128) keyed on the six delimiter strings          (liquid/lex.py)
     get_parser                lru_cache(maxsize=128) keyed on the environment object             (liquid/parser.py)
                               (Environment.__hash__ hashes 7 fields and only selects the bucket; equality is
                                object identity, so the key is the identity of the environment)
     get_implicit_environment  lru_cache(maxsize=10) keyed on all keyword arguments of Template() (liquid/environment.py)
   and histories of environment creations, registrations and parses.  Executable definitions only. *)
From LiquidVerif Require Import Prelude Lex.

(* ---------------------------------------------------------------- functools.lru_cache *)
Section Cache.
  Context {K V : Type}.
  Variable keqb : K -> K -> bool.

  Definition cache := list (K * V).          (* most recently used first *)

  Fixpoint clookup (k : K) (c : cache) : option V :=
    match c with
    | [] => None
    | (k', v) :: r => if keqb k k' then Some v else clookup k r
    end.

  Fixpoint cremove (k : K) (c : cache) : cache :=
    match c with
    | [] => []
    | (k', v) :: r => if keqb k k' then cremove k r else (k', v) :: cremove k r
    end.

  (* a hit returns the stored value and makes the entry the most recent one; a miss calls f, stores the result and
     drops the least recently used entries beyond maxsize *)
  Definition cached (maxsize : nat) (f : K -> V) (c : cache) (k : K) : V * cache :=
    match clookup k c with
    | Some v => (v, (k, v) :: cremove k c)
    | None => let v := f k in (v, firstn maxsize ((k, v) :: c))
    end.
End Cache.

(* ---------------------------------------------------------------- configurations and environments *)
Definition delims_eqb (a b : delims) : bool :=
  str_eqb (d_ts a) (d_ts b) && str_eqb (d_te a) (d_te b) && str_eqb (d_ss a) (d_ss b)
  && str_eqb (d_se a) (d_se b) && str_eqb (d_cs a) (d_cs b) && str_eqb (d_ce a) (d_ce b).

(* the keyword arguments of Environment() / Template(): delimiters, template_comments, and everything else
   (tolerance, undefined, strict_filters, autoescape, loader, globals, extra) as one opaque value *)
Record cfg := { cf_delims : delims; cf_comments : bool; cf_rest : N }.

Definition cfg_eqb (a b : cfg) : bool :=
  delims_eqb (cf_delims a) (cf_delims b) && Bool.eqb (cf_comments a) (cf_comments b) && N.eqb (cf_rest a) (cf_rest b).

(* Environment.__init__: without template_comments the comment delimiters are blanked *)
Definition eff_delims (c : cfg) : delims :=
  if cf_comments c then cf_delims c
  else {| d_ts := d_ts (cf_delims c); d_te := d_te (cf_delims c); d_ss := d_ss (cf_delims c);
          d_se := d_se (cf_delims c); d_cs := []; d_ce := [] |}.

(* what an environment object holds: its configuration and its own tag and filter registers *)
Record envdata := { ed_cfg : cfg; ed_tags : list str; ed_filters : list str }.

Definition lexer := str -> res (list token).
Definition compile_lexer (d : delims) : lexer := tokenize d.       (* compile_liquid_rules + partial(_tokenize_template) *)

Record pstate := {
  ps_envs : list envdata;                       (* the heap of environment objects; identity = position *)
  ps_lexers : @cache delims lexer;              (* get_lexer *)
  ps_parsers : @cache nat nat;                  (* get_parser: environment identity -> Parser(env) (holds that identity) *)
  ps_implicit : @cache cfg nat                  (* get_implicit_environment: kwargs -> environment identity *)
}.

Definition ps0 : pstate := {| ps_envs := []; ps_lexers := []; ps_parsers := []; ps_implicit := [] |}.

Inductive op :=
| NewEnv (c : cfg) (tags filters : list str)     (* Environment(kwargs c), builtin registration *)
| AddTag (e : nat) (t : str)                     (* env.add_tag *)
| AddFilter (e : nat) (f : str)                  (* env.add_filter *)
| Parse (e : nat) (src : str)                    (* env.from_string(src) *)
| Implicit (c : cfg) (tags filters : list str) (src : str).   (* Template(src, kwargs c) *)

(* what determines the outcome of a parse: the token stream and the environment the Parser works for *)
Definition presult : Type := res (list token) * option envdata.

Definition fresh_parse (ed : envdata) (src : str) : presult :=
  (compile_lexer (eff_delims (ed_cfg ed)) src, Some ed).

Fixpoint set_nth {A} (n : nat) (f : A -> A) (l : list A) : list A :=
  match l with
  | [] => []
  | x :: r => match n with O => f x :: r | S n' => x :: set_nth n' f r end
  end.

(* Environment._parse: parser = get_parser(self); tokens = self.tokenizer()(source); parser.parse(tokens) *)
Definition do_parse (s : pstate) (e : nat) (src : str) : presult * pstate :=
  match nth_error (ps_envs s) e with
  | None => ((Err EOtherForeign, None), s)
  | Some ed =>
      let '(p, parsers') := cached Nat.eqb 128 (fun i => i) (ps_parsers s) e in
      let '(lx, lexers') := cached delims_eqb 128 compile_lexer (ps_lexers s) (eff_delims (ed_cfg ed)) in
      ((lx src, nth_error (ps_envs s) p),
       {| ps_envs := ps_envs s; ps_lexers := lexers'; ps_parsers := parsers'; ps_implicit := ps_implicit s |})
  end.

Definition step_op (s : pstate) (o : op) : option presult * pstate :=
  match o with
  | NewEnv c tags filters =>
      (None, {| ps_envs := ps_envs s ++ [{| ed_cfg := c; ed_tags := tags; ed_filters := filters |}];
                ps_lexers := ps_lexers s; ps_parsers := ps_parsers s; ps_implicit := ps_implicit s |})
  | AddTag e t =>
      (None, {| ps_envs := set_nth e (fun ed => {| ed_cfg := ed_cfg ed; ed_tags := t :: ed_tags ed; ed_filters := ed_filters ed |}) (ps_envs s);
                ps_lexers := ps_lexers s; ps_parsers := ps_parsers s; ps_implicit := ps_implicit s |})
  | AddFilter e f =>
      (None, {| ps_envs := set_nth e (fun ed => {| ed_cfg := ed_cfg ed; ed_tags := ed_tags ed; ed_filters := f :: ed_filters ed |}) (ps_envs s);
                ps_lexers := ps_lexers s; ps_parsers := ps_parsers s; ps_implicit := ps_implicit s |})
  | Parse e src => let '(r, s') := do_parse s e src in (Some r, s')
  | Implicit c tags filters src =>
      (* get_implicit_environment(kwargs): a hit reuses the cached environment, a miss creates one *)
      match clookup cfg_eqb c (ps_implicit s) with
      | Some e =>
          let s1 := {| ps_envs := ps_envs s; ps_lexers := ps_lexers s; ps_parsers := ps_parsers s;
                       ps_implicit := (c, e) :: cremove cfg_eqb c (ps_implicit s) |} in
          let '(r, s') := do_parse s1 e src in (Some r, s')
      | None =>
          let e := length (ps_envs s) in
          let s1 := {| ps_envs := ps_envs s ++ [{| ed_cfg := c; ed_tags := tags; ed_filters := filters |}];
                       ps_lexers := ps_lexers s; ps_parsers := ps_parsers s;
                       ps_implicit := firstn 10 ((c, e) :: ps_implicit s) |} in
          let '(r, s') := do_parse s1 e src in (Some r, s')
      end
  end.

Fixpoint run_ops (s : pstate) (ops : list op) : list (option presult) * pstate :=
  match ops with
  | [] => ([], s)
  | o :: r => let '(x, s1) := step_op s o in let '(xs, s2) := run_ops s1 r in (x :: xs, s2)
  end.

(* the same history with every memo table emptied before every operation (what a fresh process would compute) *)
Definition forget (s : pstate) : pstate :=
  {| ps_envs := ps_envs s; ps_lexers := []; ps_parsers := []; ps_implicit := ps_implicit s |}.
