(* C25, second part: case and whitespace filters, strip_newlines, sort_natural, map, default, first/last.
   The number filters are in Filters2_Num_Proofs.v. *)
From Coq Require Import String.
From LiquidVerif Require Import Prelude PyPrims Filters Filters_Proofs Filters2.
From Coq Require Import ZifyBool Sorted Permutation.
Local Open Scope string_scope. Local Open Scope list_scope.

(* ------------------------------------------------------------------ *)
(* upcase, downcase, capitalize (ASCII)                                *)

Definition is_lower (c : N) : Prop := (97 <= c <= 122)%N.
Definition is_upper (c : N) : Prop := (65 <= c <= 90)%N.

(* a lower-case letter moves to the upper-case letter 32 places below, every other character stays *)
Theorem up_char c : (is_lower c -> up c = (c - 32)%N /\ is_upper (up c)) /\ (~ is_lower c -> up c = c).
Proof. unfold is_lower, is_upper, up. split; intro H; destruct ((97 <=? c) && (c <=? 122))%N eqn:E; lia. Qed.

Theorem low_char c : (is_upper c -> low c = (c + 32)%N /\ is_lower (low c)) /\ (~ is_upper c -> low c = c).
Proof. unfold is_lower, is_upper, low. split; intro H; destruct ((65 <=? c) && (c <=? 90))%N eqn:E; lia. Qed.

Lemma up_up c : up (up c) = up c.
Proof. unfold up. destruct ((97 <=? c) && (c <=? 122))%N eqn:E; [|rewrite E; reflexivity].
  destruct ((97 <=? c - 32) && (c - 32 <=? 122))%N eqn:E2; lia. Qed.
Lemma low_low c : low (low c) = low c.
Proof. unfold low. destruct ((65 <=? c) && (c <=? 90))%N eqn:E; [|rewrite E; reflexivity].
  destruct ((65 <=? c + 32) && (c + 32 <=? 90))%N eqn:E2; lia. Qed.
Lemma low_up c : low (up c) = low c.
Proof. unfold low, up. destruct ((97 <=? c) && (c <=? 122))%N eqn:E.
  - destruct ((65 <=? c - 32) && (c - 32 <=? 90))%N eqn:E2; destruct ((65 <=? c) && (c <=? 90))%N eqn:E3; lia.
  - reflexivity. Qed.
Lemma up_low c : up (low c) = up c.
Proof. unfold low, up. destruct ((65 <=? c) && (c <=? 90))%N eqn:E.
  - destruct ((97 <=? c + 32) && (c + 32 <=? 122))%N eqn:E2; destruct ((97 <=? c) && (c <=? 122))%N eqn:E3; lia.
  - reflexivity. Qed.

(* upcase works character by character, leaves no lower-case letter, is idempotent and does not disturb a
   case-insensitive comparison *)
Theorem upcase_contract (s : str) :
  length (map up s) = length s /\
  (forall i, nth i (map up s) 0%N = up (nth i s 0%N)) /\
  Forall (fun c => ~ is_lower c) (map up s) /\
  map up (map up s) = map up s /\
  map low (map up s) = map low s.
Proof.
  split; [apply map_length|]. split; [intro i; apply (map_nth up s 0%N)|]. split; [|split].
  - apply Forall_forall. intros c Hc. apply in_map_iff in Hc. destruct Hc as [d [<- _]].
    unfold is_lower, up. destruct ((97 <=? d) && (d <=? 122))%N eqn:E; lia.
  - rewrite map_map. apply map_ext. apply up_up.
  - rewrite map_map. apply map_ext. apply low_up.
Qed.

Theorem downcase_contract (s : str) :
  length (map low s) = length s /\
  (forall i, nth i (map low s) 0%N = low (nth i s 0%N)) /\
  Forall (fun c => ~ is_upper c) (map low s) /\
  map low (map low s) = map low s /\
  map up (map low s) = map up s.
Proof.
  split; [apply map_length|]. split; [intro i; apply (map_nth low s 0%N)|]. split; [|split].
  - apply Forall_forall. intros c Hc. apply in_map_iff in Hc. destruct Hc as [d [<- _]].
    unfold is_upper, low. destruct ((65 <=? d) && (d <=? 90))%N eqn:E; lia.
  - rewrite map_map. apply map_ext. apply low_low.
  - rewrite map_map. apply map_ext. apply up_low.
Qed.

(* capitalize: first character upper-cased, the rest lower-cased *)
Theorem capitalize_contract :
  capitalize_s [] = [] /\
  (forall c r, capitalize_s (c :: r) = up c :: map low r) /\
  (forall s, length (capitalize_s s) = length s) /\
  (forall s, capitalize_s (capitalize_s s) = capitalize_s s).
Proof.
  split; [reflexivity|]. split; [reflexivity|]. split.
  - intros [|c r]; cbn; [reflexivity|]. rewrite map_length. reflexivity.
  - intros [|c r]; cbn; [reflexivity|]. rewrite up_up. f_equal. rewrite map_map. apply map_ext. apply low_low.
Qed.

(* what the string filters do with values that are not strings: nil and undefined are the empty string, an int its decimal
   digits, a boolean Python's True / False *)
Theorem string_filter_inputs (f : str -> str) :
  (forall s, str_filter1 f (VStr s) = FOk (VStr (f s))) /\
  str_filter1 f VNil = FOk (VStr (f [])) /\ str_filter1 f VUndef = FOk (VStr (f [])) /\
  (forall z, str_filter1 f (VInt z) = FOk (VStr (f (Z_to_str z)))) /\
  (forall b, str_filter1 f (VBool b) = FOk (VStr (f (if b then lit "True" else lit "False")))).
Proof. repeat split; reflexivity. Qed.

(* ------------------------------------------------------------------ *)
(* lstrip, rstrip, strip                                               *)

Definition all_space (s : str) : Prop := Forall (fun c => is_space c = true) s.
Definition starts_nonspace (s : str) : Prop := match s with c :: _ => is_space c = false | [] => True end.
Definition ends_nonspace (s : str) : Prop := starts_nonspace (rev s).

(* lstrip removes exactly the longest leading run of whitespace *)
Theorem lstrip_contract (s : str) :
  exists a, s = a ++ lstrip_s s /\ all_space a /\ starts_nonspace (lstrip_s s).
Proof.
  induction s as [|c r IH].
  - exists []. repeat split; constructor.
  - cbn [lstrip_s]. destruct (is_space c) eqn:E.
    + destruct IH as [a [H1 [H2 H3]]]. exists (c :: a). split; [cbn; rewrite <- H1; reflexivity|].
      split; [constructor; assumption|exact H3].
    + exists []. split; [reflexivity|]. split; [constructor|exact E].
Qed.

Lemma all_space_rev a : all_space a -> all_space (rev a).
Proof. unfold all_space. rewrite !Forall_forall. intros H c Hc. apply H. apply in_rev. exact Hc. Qed.

Theorem rstrip_contract (s : str) :
  exists b, s = rstrip_s s ++ b /\ all_space b /\ ends_nonspace (rstrip_s s).
Proof.
  unfold rstrip_s, ends_nonspace. destruct (lstrip_contract (rev s)) as [a [H1 [H2 H3]]].
  exists (rev a). split; [|split].
  - rewrite <- rev_app_distr, <- H1, rev_involutive. reflexivity.
  - apply all_space_rev, H2.
  - rewrite rev_involutive. exact H3.
Qed.

(* strip: the input is whitespace, then the result, then whitespace; the result neither starts nor ends with whitespace *)
Theorem strip_contract (s : str) :
  exists a b, s = a ++ strip_s s ++ b /\ all_space a /\ all_space b /\
              starts_nonspace (strip_s s) /\ ends_nonspace (strip_s s).
Proof.
  unfold strip_s. destruct (lstrip_contract s) as [a [H1 [H2 H3]]].
  destruct (rstrip_contract (lstrip_s s)) as [b [H4 [H5 H6]]].
  exists a, b. split; [rewrite <- H4; exact H1|]. split; [exact H2|]. split; [exact H5|]. split; [|exact H6].
  destruct (rstrip_s (lstrip_s s)) as [|x t] eqn:E; [exact I|].
  rewrite H4 in H3. cbn in H3. exact H3.
Qed.

(* ------------------------------------------------------------------ *)
(* strip_newlines                                                      *)

(* the documented behaviour, as a relation: every LF goes, together with a CR directly in front of it; nothing else *)
Inductive SN : str -> str -> Prop :=
| SN_nil : SN [] []
| SN_lf r o : SN r o -> SN (10%N :: r) o
| SN_crlf r o : SN r o -> SN (13%N :: 10%N :: r) o
| SN_keep c r o : c <> 10%N -> (c = 13%N -> hd 0%N r <> 10%N) -> SN r o -> SN (c :: r) (c :: o).

Lemma strip_newlines_SN_len : forall n s, length s <= n -> SN s (strip_newlines_s s).
Proof.
  induction n as [|n IH]; intros s Hl.
  - destruct s; [constructor|cbn in Hl; lia].
  - destruct s as [|c r]; [constructor|]. cbn [strip_newlines_s]. cbn in Hl.
    destruct (N.eqb_spec c 10).
    + subst. apply SN_lf. apply IH. lia.
    + destruct (N.eqb_spec c 13).
      * subst. destruct r as [|d r'].
        -- apply SN_keep; [lia|cbn; lia|constructor].
        -- destruct (N.eqb_spec d 10).
           ++ subst. apply SN_crlf. apply IH. cbn in Hl. lia.
           ++ apply SN_keep; [lia|cbn; intros _; exact n1|apply IH; lia].
      * apply SN_keep; [exact n0|intro; contradiction|apply IH; lia].
Qed.

Theorem strip_newlines_sound s : SN s (strip_newlines_s s).
Proof. apply (strip_newlines_SN_len (length s)). lia. Qed.

Theorem SN_functional s o : SN s o -> forall o', SN s o' -> o = o'.
Proof.
  induction 1 as [|r o H IH|r o H IH|c r o Hc Hcr H IH]; intros o' H'.
  - inversion H'. reflexivity.
  - inversion H' as [|r1 o1 H1|r1 o1 H1|c1 r1 o1 Hc1 Hcr1 H1]; subst; [apply IH; assumption|congruence].
  - inversion H' as [|r1 o1 H1|r1 o1 H1|c1 r1 o1 Hc1 Hcr1 H1]; subst; [apply IH; assumption|].
    exfalso. apply Hcr1; reflexivity.
  - inversion H' as [|r1 o1 H1|r1 o1 H1|c1 r1 o1 Hc1 Hcr1 H1]; subst.
    + congruence.
    + exfalso. apply Hcr; reflexivity.
    + f_equal. apply IH. assumption.
Qed.

Lemma SN_no_lf s o : SN s o -> ~ In 10%N o.
Proof.
  induction 1 as [|r o H IH|r o H IH|c r o Hc Hcr H IH]; cbn; try assumption; [tauto|].
  intros [E|E]; [apply Hc; exact E|apply IH; exact E].
Qed.

Lemma SN_id s : ~ In 10%N s -> SN s s.
Proof.
  induction s as [|c r IH]; intro H; [constructor|].
  apply SN_keep.
  - intro E. apply H. left. exact E.
  - intros _. destruct r as [|d r']; cbn; [lia|]. intro E. apply H. right. left. exact E.
  - apply IH. intro E. apply H. right. exact E.
Qed.

Lemma SN_filter s o : SN s o ->
  filter (fun c => negb (c =? 10)%N && negb (c =? 13)%N) o = filter (fun c => negb (c =? 10)%N && negb (c =? 13)%N) s.
Proof.
  induction 1 as [|r o H IH|r o H IH|c r o Hc Hcr H IH].
  - reflexivity.
  - change (10%N :: r) with ([10%N] ++ r). rewrite filter_app. exact IH.
  - change (13%N :: 10%N :: r) with ([13%N; 10%N] ++ r). rewrite filter_app. exact IH.
  - cbn [filter]. destruct (N.eqb_spec c 10); [contradiction|]. cbn [negb andb].
    destruct (N.eqb_spec c 13); cbn [negb]; [exact IH|]. rewrite IH. reflexivity.
Qed.

(* the result is the one string the relation allows; it contains no LF; a string without LF is returned unchanged (so the
   filter is idempotent); characters other than CR and LF are all kept, in order *)
Theorem strip_newlines_contract (s : str) :
  (forall o, SN s o <-> o = strip_newlines_s s) /\
  ~ In 10%N (strip_newlines_s s) /\
  (~ In 10%N s -> strip_newlines_s s = s) /\
  strip_newlines_s (strip_newlines_s s) = strip_newlines_s s /\
  filter (fun c => negb (c =? 10)%N && negb (c =? 13)%N) (strip_newlines_s s) =
  filter (fun c => negb (c =? 10)%N && negb (c =? 13)%N) s.
Proof.
  assert (Hnl : ~ In 10%N (strip_newlines_s s)) by (eapply SN_no_lf, strip_newlines_sound).
  assert (Hid : forall t, ~ In 10%N t -> strip_newlines_s t = t).
  { intros t Ht. symmetry. eapply SN_functional; [apply SN_id, Ht|apply strip_newlines_sound]. }
  split; [|split; [exact Hnl|split; [apply Hid|split; [apply Hid, Hnl|]]]].
  - intro o. split; [intro H; eapply SN_functional; [exact H|apply strip_newlines_sound]|intros ->; apply strip_newlines_sound].
  - apply SN_filter, strip_newlines_sound.
Qed.

(* ------------------------------------------------------------------ *)
(* sort_natural                                                        *)

(* the comparison key of an item: the lower-cased text of the item *)
Definition lkey (v : val) : str := match py_str v with Some s => map low s | None => [] end.
Definition nat_key (v : val) : skey := KStr (lkey v).

Lemma insert_by_map {A} (g : A -> skey) x l :
  insert_by fst (g x, x) (map (fun y => (g y, y)) l) = map (fun y => (g y, y)) (insert_by g x l).
Proof. induction l as [|y l IH]; cbn; [reflexivity|]. destruct (skey_leb (g x) (g y)); cbn; [reflexivity|]. rewrite IH. reflexivity. Qed.

Lemma sort_by_map {A} (g : A -> skey) l :
  sort_by fst (map (fun y => (g y, y)) l) = map (fun y => (g y, y)) (sort_by g l).
Proof. induction l as [|x l IH]; cbn; [reflexivity|]. rewrite IH. apply insert_by_map. Qed.

Lemma flat_id l : (forall x, In x l -> match x with VList _ => False | _ => True end) ->
  flat_map (fun x => match x with VList l' => l' | _ => [x] end) l = l.
Proof.
  induction l as [|x l IH]; intro H; cbn; [reflexivity|].
  rewrite IH by (intros y Hy; apply H; right; exact Hy).
  specialize (H x (or_introl eq_refl)). destruct x; try reflexivity. contradiction.
Qed.

Lemma sort_natural_eq l :
  (forall x, In x l -> match x with VList _ => False | _ => True end) ->
  (forall x, In x l -> py_str x <> None) ->
  f_sort_natural (VList l) = FOk (VList (sort_by nat_key l)).
Proof.
  intros Hflat Hp. unfold f_sort_natural. cbn [as_sequence]. rewrite (flat_id l Hflat).
  assert (Hall : all_some (map (fun x => match py_str x with Some s => Some (KStr (map low s), x) | None => None end) l)
                 = Some (map (fun y => (nat_key y, y)) l)).
  { clear Hflat. induction l as [|x l IH]; [reflexivity|]. cbn [map all_some].
    assert (Hx := Hp x (or_introl eq_refl)). unfold nat_key at 1, lkey at 1. destruct (py_str x) eqn:E; [|contradiction].
    rewrite IH by (intros y Hy; apply Hp; right; exact Hy). reflexivity. }
  rewrite Hall. rewrite sort_by_map. rewrite map_map. cbn [snd]. rewrite map_id. reflexivity.
Qed.

Lemma str_leb_antisym a : forall b, str_leb a b = true -> str_leb b a = true -> a = b.
Proof.
  induction a as [|x a IH]; intros [|y b]; cbn; try discriminate; try reflexivity.
  destruct (N.ltb_spec x y); destruct (N.ltb_spec y x); try discriminate; try lia.
  intros H1 H2. assert (x = y) by lia. subst. f_equal. apply IH; assumption.
Qed.

(* two items have the same key exactly when their lower-cased texts are equal *)
Definition same_key (k : str) (x : val) : bool := str_leb (lkey x) k && str_leb k (lkey x).

Lemma same_key_eq k x : same_key k x = true <-> lkey x = k.
Proof.
  unfold same_key. split.
  - intro H. apply andb_true_iff in H. destruct H. apply str_leb_antisym; assumption.
  - intros <-. assert (H : str_leb (lkey x) (lkey x) = true).
    { destruct (str_leb (lkey x) (lkey x)) eqn:E; [reflexivity|]. pose proof (str_leb_total _ _ E) as E2. congruence. }
    rewrite H. reflexivity.
Qed.

(* sort_natural returns a new list with the same items, in ascending order of the lower-cased text of the items
   (case-insensitive; nil sorts as none, numbers as their digits), items with equal keys in their original order *)
Theorem sort_natural_contract (l : list val) :
  (forall x, In x l -> match x with VList _ => False | _ => True end) ->
  (forall x, In x l -> py_str x <> None) ->
  exists l', f_sort_natural (VList l) = FOk (VList l') /\
             Permutation l' l /\
             StronglySorted (fun a b => str_leb (lkey a) (lkey b) = true) l' /\
             (forall k, filter (same_key k) l' = filter (same_key k) l).
Proof.
  intros Hflat Hp. exists (sort_by nat_key l). split; [apply sort_natural_eq; assumption|].
  split; [apply sort_by_perm|]. split; [exact (sort_by_sorted nat_key l)|].
  intro k. exact (sort_by_stable nat_key (KStr k) l).
Qed.

Theorem sort_natural_keys :
  (forall s, lkey (VStr s) = map low s) /\
  (forall s, lkey (VStr (map up s)) = lkey (VStr s)) /\
  lkey VNil = lit "none" /\
  (forall z, lkey (VInt z) = map low (Z_to_str z)) /\
  lkey (VBool true) = lit "true" /\ lkey (VBool false) = lit "false".
Proof.
  repeat split; try reflexivity. intro s. unfold lkey. cbn [py_str]. rewrite map_map. apply map_ext. apply low_up.
Qed.

(* ------------------------------------------------------------------ *)
(* map                                                                 *)

Definition prop_or_nil (k : str) (d : list (str * val)) : val :=
  match alookup k d with Some x => x | None => VNil end.

(* over an array of hashes map returns, item for item, the value of the property, nil where the hash has no such property *)
Theorem map_hashes (ds : list (list (str * val))) (k : str) :
  f_map2 (VList (map VDict ds)) (VStr k) = FOk (VList (map (prop_or_nil k) ds)).
Proof.
  unfold f_map2. cbn [py_str as_sequence].
  assert (Hflat : flat_map (fun x => match x with VList l' => l' | _ => [x] end) (map VDict ds) = map VDict ds).
  { induction ds as [|d ds IH]; cbn; [reflexivity|]. rewrite IH. reflexivity. }
  rewrite Hflat. clear Hflat.
  assert (Hitems : map_items k (map VDict ds) = MOk (map (prop_or_nil k) ds)).
  { induction ds as [|d ds IH]; cbn; [reflexivity|]. rewrite IH. reflexivity. }
  rewrite Hitems. reflexivity.
Qed.

(* a single hash counts as an array of one hash; undefined as the empty array; a nil item makes the whole result nil
   and a number among the items is an error (FilterError) - whichever comes first *)
Theorem map_other_inputs (k : str) :
  (forall d, f_map2 (VDict d) (VStr k) = FOk (VList [prop_or_nil k d])) /\
  f_map2 VUndef (VStr k) = FOk (VList []) /\
  (forall ds rest, f_map2 (VList (map VDict ds ++ VNil :: rest)) (VStr k) = FOk VNil) /\
  (forall ds z rest, f_map2 (VList (map VDict ds ++ VInt z :: rest)) (VStr k) = FErr ELiquid).
Proof.
  split; [reflexivity|]. split; [reflexivity|].
  assert (Hflat : forall ds x rest, match x with VList _ => False | _ => True end ->
            exists rest', flat_map (fun x => match x with VList l' => l' | _ => [x] end) (map VDict ds ++ x :: rest)
                          = map VDict ds ++ x :: rest').
  { intros ds x rest Hx. rewrite flat_map_app. cbn [flat_map].
    assert (H : flat_map (fun x => match x with VList l' => l' | _ => [x] end) (map VDict ds) = map VDict ds).
    { induction ds as [|d ds IH]; cbn; [reflexivity|]. rewrite IH. reflexivity. }
    rewrite H. eexists. destruct x; try contradiction; reflexivity. }
  split.
  - intros ds rest. unfold f_map2. cbn [py_str as_sequence]. destruct (Hflat ds VNil rest I) as [rest' ->].
    assert (H : map_items k (map VDict ds ++ VNil :: rest') = MNone).
    { induction ds as [|d ds IH]; cbn; [reflexivity|]. rewrite IH. reflexivity. }
    rewrite H. reflexivity.
  - intros ds z rest. unfold f_map2. cbn [py_str as_sequence]. destruct (Hflat ds (VInt z) rest I) as [rest' ->].
    assert (H : map_items k (map VDict ds ++ VInt z :: rest') = MErr).
    { induction ds as [|d ds IH]; cbn; [reflexivity|]. rewrite IH. reflexivity. }
    rewrite H. reflexivity.
Qed.

(* ------------------------------------------------------------------ *)
(* default, first, last: every value                                   *)

(* the values for which the default is used *)
Definition blank (v : val) (allow_false : bool) : bool :=
  match v with
  | VNil | VUndef => true
  | VBool false => negb allow_false
  | VStr [] | VList [] | VDict [] => true
  | _ => false
  end.

(* default returns its argument exactly for nil, undefined, false (unless allow_false) and empty values, and its input,
   unchanged, for every other value; allow_false counts only when it is the boolean true *)
Theorem default_all (v d : val) :
  (forall af, f_default v d af = FOk (if blank v af then d else v)) /\
  (forall afv, f_default2 v d afv = FOk (if blank v (match afv with VBool true => true | _ => false end) then d else v)).
Proof.
  assert (H : forall af, f_default v d af = FOk (if blank v af then d else v)).
  { intro af. destruct v as [| |[|]|z|m e|[|c s]|[|x l]|[|p l]]; try reflexivity; destruct af; reflexivity. }
  split; [exact H|]. intro afv. unfold f_default2. apply H.
Qed.

(* first of a hash is its first (key, value) pair, last of a hash is nil (a hash has no item -1); strings, numbers,
   booleans and nil have neither *)
Theorem first_last_others :
  (forall k x d, f_first (VDict ((k, x) :: d)) = FOk (VList [VStr k; x])) /\
  f_first (VDict []) = FOk VNil /\
  (forall d, f_last (VDict d) = FOk VNil) /\
  (forall v, match v with VList _ | VDict _ | VUndef => True | _ => f_first v = FOk VNil /\ f_last v = FOk VNil end).
Proof. repeat split; try reflexivity. intro v. destruct v; try exact I; split; reflexivity. Qed.
