(* ExprLex_Proofs.v — offsets of expression tokens (C20): every token (and the token of the tokenizer's own syntax
   error) starts inside the expression, and its value is the expression text at start + value_offset, where the
   offset is 0 except for strings (after the quote) and bracketed identifiers (after "[", whitespace, and for strings
   the quote); string tokens are enclosed by their quote; composition with the template-level offsets. *)
From Coq Require Import ZArith NArith List Bool Lia ZifyBool.
From LiquidVerif Require Import Prelude Lex LexSpec Lex_Proofs Lex_C20_Proofs ExprLex.
Import ListNotations.

(* ---------------------------------------------------------------- where the value sits inside the match *)
Lemma m_identindex_voff r vo vl tot : m_identindex r = Some (vo, vl, tot) -> vo = 1 + ws_len r.
Proof.
  unfold m_identindex. destruct (span_len is_digit _); [discriminate|].
  destruct (hd_is c_rbrack _); [|discriminate]. intros H. inversion H. reflexivity.
Qed.

Lemma m_identstring_voff r vo vl tot : m_identstring r = Some (vo, vl, tot) -> vo = 2 + ws_len r.
Proof.
  unfold m_identstring. destruct (skipn (ws_len r) r) as [|q x]; [discriminate|].
  destruct (is_quote q); [|discriminate].
  destruct (find_first (qclose_bracket q) x) as [[[j u] n]|]; [|discriminate].
  intros H. inversion H. lia.
Qed.

Lemma ematch_voff s k vo vl tot : ematch s = EM k vo vl tot -> vo = value_offset k (tl s).
Proof.
  unfold ematch. destruct s as [|c r]; [discriminate|]. cbn [tl].
  destruct (N.eqb c c_lparen && rl_ahead r); [intros H; inversion H; reflexivity|].
  destruct (if N.eqb c c_lbrack then m_identindex r else None) as [[[vo1 vl1] tot1]|] eqn:E1.
  { intros H. inversion H; subst. destruct (N.eqb c c_lbrack); [|discriminate].
    apply m_identindex_voff in E1. exact E1. }
  destruct (if N.eqb c c_lbrack then m_identstring r else None) as [[[vo2 vl2] tot2]|] eqn:E2.
  { intros H. inversion H; subst. destruct (N.eqb c c_lbrack); [|discriminate].
    apply m_identstring_voff in E2. exact E2. }
  destruct (if is_quote c then find_first (qclose c) r else None) as [[[j u] n]|]; [intros H; inversion H; reflexivity|].
  destruct (prefixb [c_dot; c_dot] (c :: r)); [intros H; inversion H; reflexivity|].
  destruct (m_number (c :: r)) as [[k0 n0]|] eqn:En.
  { intros H. inversion H; subst. unfold m_number in En.
    destruct (span_len is_digit _); [discriminate|].
    destruct (hd_is c_dot _ && negb (hd_is c_dot _)); [inversion En; reflexivity|].
    destruct (skipn _ _) as [|c0 ?]; [inversion En; reflexivity|].
    destruct (is_word c0); [discriminate|]. inversion En; reflexivity. }
  destruct (N.eqb c c_dot); [intros H; inversion H; reflexivity|].
  destruct (is_word c).
  { intros H. inversion H. destruct (is_keyword _); reflexivity. }
  repeat (match goal with |- context [if ?b then _ else _] => destruct b end;
          try (intros H; inversion H; reflexivity)).
  all: try discriminate.
  all: destruct (op_kind _) as [k1|] eqn:Eo; [|discriminate]; intros H; inversion H; subst;
       unfold op_kind in Eo;
       repeat (match type of Eo with context [if ?b then _ else _] => destruct b end; try (inversion Eo; reflexivity));
       discriminate.
Qed.

(* ---------------------------------------------------------------- the invariant *)
Definition eitem_ok (base : N) (src : str) (i : eitem) : Prop :=
  match i with
  | ETok t => exists o, e_start t = (base + N.of_nat o)%N /\ o < length src /\
                        sub src (o + value_offset (e_kind t) (skipn (S o) src)) (length (e_value t)) = e_value t
  | EErrIllegal v p | EErrOp v p =>
      exists o, p = (base + N.of_nat o)%N /\ o < length src /\ sub src o (length v) = v
  end.

Lemma sub_in_app pre s o l : sub (pre ++ s) (length pre + o) (length (sub s o l)) = sub s o l.
Proof. unfold sub. rewrite skipn_app_len_add. apply firstn_length_firstn. Qed.

Lemma skipn_S_app_cons (pre : str) c s : skipn (S (length pre)) (pre ++ c :: s) = s.
Proof. induction pre; simpl; auto. Qed.

Lemma ego_ok base src : forall s skip pre, src = pre ++ s ->
  forall i, In i (ego skip (base + N.of_nat (length pre)) s) -> eitem_ok base src i.
Proof.
  induction s as [|c s IH]; intros skip pre Hsrc i Hin; [destruct Hin|].
  assert (Hp : N.succ (base + N.of_nat (length pre)) = (base + N.of_nat (length (pre ++ [c])))%N)
    by (rewrite app_length; simpl; lia).
  assert (Hsrc' : src = (pre ++ [c]) ++ s) by (rewrite <- app_assoc; exact Hsrc).
  assert (Hlt : length pre < length src) by (subst src; rewrite app_length; simpl; lia).
  cbn [ego] in Hin. destruct skip as [|k].
  - destruct (ematch (c :: s)) as [kd vo vl tot|tot|tot|] eqn:M.
    + destruct Hin as [E|Hin].
      * subst i. exists (length pre). cbn [e_start e_kind e_value]. repeat split; auto.
        apply ematch_voff in M. cbn [tl] in M. subst vo src.
        rewrite skipn_S_app_cons. apply sub_in_app.
      * rewrite Hp in Hin. eapply IH; eauto.
    + rewrite Hp in Hin. eapply IH; eauto.
    + destruct Hin as [E|[]]. subst i. exists (length pre). repeat split; auto.
      subst src. pose proof (sub_in_app pre (c :: s) 0 tot) as Hs. rewrite Nat.add_0_r in Hs. exact Hs.
    + destruct Hin as [E|[]]. subst i. exists (length pre). repeat split; auto.
      subst src. pose proof (sub_in_app pre (c :: s) 0 1) as Hs. rewrite Nat.add_0_r in Hs. exact Hs.
  - rewrite Hp in Hin. eapply IH; eauto.
Qed.

(* C20: every expression token, and the token of the tokenizer's own syntax error, points inside the expression at
   its own text *)
Theorem expr_token_offsets : forall base src i, In i (etokenize base src) -> eitem_ok base src i.
Proof.
  intros base src i Hin. unfold etokenize in Hin.
  pose proof (ego_ok base src src 0 [] eq_refl i) as K. simpl in K. rewrite N.add_0_r in K. auto.
Qed.

(* ---------------------------------------------------------------- string tokens are enclosed by their quote *)
Lemma find_first_hit {A} (f : str -> option (A * nat)) : forall s j a n,
  find_first f s = Some (j, a, n) -> exists m, f (skipn j s) = Some (a, m) /\ n = j + m /\ j <= length s.
Proof.
  induction s as [|c s IH]; intros j a n H; simpl in H.
  - destruct (f []) as [[a0 n0]|] eqn:E; [|discriminate]. inversion H; subst. exists n. simpl. auto.
  - destruct (f (c :: s)) as [[a0 n0]|] eqn:E.
    + inversion H; subst. exists n. simpl. repeat split; auto. lia.
    + destruct (find_first f s) as [[[j0 a0] n0]|] eqn:E2; [|discriminate].
      inversion H; subst. destruct (IH _ _ _ eq_refl) as (m & Hm & Hn & Hj).
      exists m. simpl. repeat split; auto; lia.
Qed.

Lemma ematch_string s vo vl tot : ematch s = EM EString vo vl tot ->
  exists q, is_quote q = true /\ sub s 0 1 = [q] /\ sub s (1 + vl) 1 = [q] /\ tot = vl + 2.
Proof.
  unfold ematch. destruct s as [|c r]; [discriminate|].
  destruct (N.eqb c c_lparen && rl_ahead r); [discriminate|].
  destruct (if N.eqb c c_lbrack then m_identindex r else None) as [[[vo1 vl1] tot1]|]; [discriminate|].
  destruct (if N.eqb c c_lbrack then m_identstring r else None) as [[[vo2 vl2] tot2]|]; [discriminate|].
  destruct (is_quote c) eqn:Q.
  - destruct (find_first (qclose c) r) as [[[j u] n]|] eqn:FF.
    + intros H. inversion H; subst. apply find_first_hit in FF as (m & Hm & Hn & Hj).
      exists c. repeat split; auto.
      * unfold qclose in Hm. unfold sub. cbn [skipn plus]. destruct (skipn vl r) as [|c' x]; [discriminate|].
        destruct (N.eqb_spec c' c); [|discriminate]. subst. reflexivity.
      * unfold qclose in Hm. destruct (skipn vl r) as [|c' x]; [discriminate|].
        destruct (N.eqb c' c); [|discriminate]. inversion Hm. lia.
    + (* no closing quote: the rule fails and no later rule produces a string *)
      destruct (prefixb [c_dot; c_dot] (c :: r)); [discriminate|].
      destruct (m_number (c :: r)) as [[k0 n0]|] eqn:En.
      { intros H. inversion H; subst. unfold m_number in En.
        destruct (span_len is_digit _); [discriminate|].
        destruct (hd_is c_dot _ && negb (hd_is c_dot _)); [discriminate|].
        destruct (skipn _ _) as [|c0 ?]; [discriminate|]. destruct (is_word c0); discriminate. }
      destruct (N.eqb c c_dot); [discriminate|].
      destruct (is_word c); [intros H; inversion H; destruct (is_keyword _); discriminate|].
      repeat (match goal with |- context [if ?b then _ else _] => destruct b end; try discriminate).
      all: destruct (op_kind _) as [k1|] eqn:Eo; [|discriminate]; intros H; inversion H; subst;
           unfold op_kind in Eo;
           repeat (match type of Eo with context [if ?b then _ else _] => destruct b end; try discriminate).
  - destruct (prefixb [c_dot; c_dot] (c :: r)); [discriminate|].
    destruct (m_number (c :: r)) as [[k0 n0]|] eqn:En.
    { intros H. inversion H; subst. unfold m_number in En.
      destruct (span_len is_digit _); [discriminate|].
      destruct (hd_is c_dot _ && negb (hd_is c_dot _)); [discriminate|].
      destruct (skipn _ _) as [|c0 ?]; [discriminate|]. destruct (is_word c0); discriminate. }
    destruct (N.eqb c c_dot); [discriminate|].
    destruct (is_word c); [intros H; inversion H; destruct (is_keyword _); discriminate|].
    repeat (match goal with |- context [if ?b then _ else _] => destruct b end; try discriminate).
    all: destruct (op_kind _) as [k1|] eqn:Eo; [|discriminate]; intros H; inversion H; subst;
         unfold op_kind in Eo;
         repeat (match type of Eo with context [if ?b then _ else _] => destruct b end; try discriminate).
Qed.

(* ---------------------------------------------------------------- composition with the template lexer *)
(* If the expression token (value expr, absolute start base) points at its own text in the template source, every
   token of the expression points at its own text in the template source (offsets: parent start + match start). *)
Theorem expr_tokens_in_source : forall (src : str) base expr t,
  sub src (N.to_nat base) (length expr) = expr ->
  In (ETok t) (etokenize base expr) ->
  let o := N.to_nat (e_start t) - N.to_nat base in
  N.to_nat base <= N.to_nat (e_start t) < N.to_nat base + length expr /\
  sub src (N.to_nat (e_start t) + value_offset (e_kind t) (skipn (S o) expr)) (length (e_value t)) = e_value t.
Proof.
  intros src base expr t Hsrc Hin o.
  destruct (expr_token_offsets base expr _ Hin) as (o' & Hs & Ho & Hv).
  assert (o = o') by (unfold o; lia). subst o'. split; [lia|].
  replace (N.to_nat (e_start t)) with (N.to_nat base + o) by lia. rewrite <- Nat.add_assoc.
  set (m := o + value_offset (e_kind t) (skipn (S o) expr)) in *.
  destruct (le_lt_dec m (length expr)) as [Hm|Hm].
  - rewrite <- Hv at 2. apply sub_sub; auto.
    assert (length (e_value t) <= length expr - m); [|lia].
    rewrite <- Hv. unfold sub. rewrite firstn_length, skipn_length. lia.
  - assert (E : e_value t = []).
    { rewrite <- Hv. unfold sub. rewrite skipn_all2 by lia. apply firstn_nil. }
    rewrite E. unfold sub. reflexivity.
Qed.
