From LiquidVerif Require Import Prelude PyPrims Cond CondPrint.

(* ------------------------------------------------------------------ *)
(* truthiness, equality, ordering                                      *)

Theorem truthy_spec v : truthy v = false <-> (v = VBool false \/ v = VNil \/ v = VUndef).
Proof.
  destruct v as [| |[|]| | | | | | | |]; cbn; split; intro H; try discriminate; try tauto;
    try (destruct H as [H|[H|H]]; discriminate).
Qed.

Lemma num_eqb_sym m1 e1 m2 e2 : num_eqb m1 e1 m2 e2 = num_eqb m2 e2 m1 e1.
Proof. unfold num_eqb. apply Z.eqb_sym. Qed.

Fixpoint py_eq_sym (a : val) : forall b, py_eq a b = py_eq b a.
Proof.
  destruct a as [| |x|x|m e|s|l|d|a1 b1| |]; intros [| |y|y|m' e'|s'|l'|d'|a2 b2| |]; cbn [py_eq]; try reflexivity;
    try apply Z.eqb_sym; try apply num_eqb_sym; try (destruct x, y; reflexivity).
  - destruct (str_eqb_spec s s'), (str_eqb_spec s' s); congruence.
  - revert l'. induction l as [|u l IH]; intros [|w l']; try reflexivity.
    rewrite (py_eq_sym u w), IH. reflexivity.
  - revert d'. induction d as [|[k u] d IH]; intros [|[k' w] d']; try reflexivity.
    rewrite (py_eq_sym u w), IH.
    destruct (str_eqb_spec k k'), (str_eqb_spec k' k); try congruence; reflexivity.
  - rewrite (Z.eqb_sym a1 a2), (Z.eqb_sym b1 b2).
    rewrite (andb_comm (range_len a1 b1 =? 0)%Z). reflexivity.
Qed.

(* == is symmetric on the whole value universe, empty and blank included *)
Theorem liq_eq_sym a b : liq_eq a b = liq_eq b a.
Proof.
  destruct a as [| |x|x|m e|s|l|d|a1 b1| |], b as [| |y|y|m' e'|s'|l'|d'|a2 b2| |];
    cbn [liq_eq empty_eq blank_eq is_empty_coll]; try reflexivity;
    try apply py_eq_sym; try (destruct x, y; reflexivity).
Qed.

(* the documented equality table *)
Theorem liq_eq_table :
  (* booleans equal only booleans *)
  (forall b v, liq_eq (VBool b) v = match v with VBool b' => Bool.eqb b b' | _ => false end) /\
  (* nil and undefined are equal to each other and to nothing else *)
  (forall v, liq_eq VNil v = match v with VNil | VUndef => true | _ => false end) /\
  (* empty equals exactly the empty string, array and hash (and itself) *)
  (forall v, liq_eq VEmpty v = match v with VEmpty | VStr [] | VList [] | VDict [] => true | _ => false end) /\
  (* blank additionally equals whitespace-only strings *)
  (forall s, liq_eq VBlank (VStr s) = forallb is_space s) /\
  (* numbers compare by value across integers and decimals *)
  (forall z m e, liq_eq (VInt z) (VDec m e) = Z.eqb (z * pow10 e) m) /\
  (forall x y, liq_eq (VInt x) (VInt y) = Z.eqb x y) /\
  (* strings by content; a string never equals a number *)
  (forall s t, liq_eq (VStr s) (VStr t) = str_eqb s t) /\ (forall s z, liq_eq (VStr s) (VInt z) = false).
Proof.
  repeat split.
  - intros b v. destruct v; try reflexivity. destruct b, b0; reflexivity.
  - intros v. destruct v; reflexivity.
  - intros v. destruct v as [| | | | |[|]|[|]|[|]| | |]; reflexivity.
  - intros z m e. cbn. unfold num_eqb, pow10. cbn [Z.of_nat Z.pow]. rewrite Z.mul_1_r. reflexivity.
Qed.

(* ordering: defined for two strings and for two numbers, false when a boolean is involved, a Liquid type error otherwise *)
Definition is_number (v : val) : bool := match v with VInt _ | VDec _ _ => true | _ => false end.
Definition is_string (v : val) : bool := match v with VStr _ => true | _ => false end.
Definition is_boolean (v : val) : bool := match v with VBool _ => true | _ => false end.

Theorem liq_lt_spec a b :
  (is_string a && is_string b = true -> exists r, liq_lt a b = Ok r) /\
  (is_number a && is_number b = true -> exists r, liq_lt a b = Ok r) /\
  (is_boolean a || is_boolean b = true -> is_string a && is_string b = false -> liq_lt a b = Ok false) /\
  (is_string a && is_string b = false -> is_number a && is_number b = false -> is_boolean a || is_boolean b = false ->
   liq_lt a b = Err EType).
Proof.
  destruct a, b; cbn; repeat split; intros; try discriminate; eauto.
Qed.

(* ------------------------------------------------------------------ *)
(* the parser groups and/or from the right, comparisons bind tighter   *)

Definition is_infix (t : tok) : bool := match t with TAnd | TOr | TOp _ => true | _ => false end.

Lemma mk_infix_none t l r : is_infix t = false -> mk_infix t l r = None.
Proof. destruct t; cbn; intro; try reflexivity; discriminate. Qed.

Lemma infix_prec t : is_infix t = true -> 2 <= prec t.
Proof. destruct t as [| | | | | | |[]|]; cbn; intro; try discriminate; lia. Qed.

Definition stops (p : nat) (rest : list tok) : Prop :=
  match rest with [] => True | t :: _ => prec t < p \/ is_infix t = false end.
Definition stops1 (rest : list tok) : Prop :=
  match rest with [] => True | t :: _ => is_infix t = false end.

Lemma ploop_stop rec p g left rest : stops p rest -> ploop rec p (S g) left rest = Ok (left, rest).
Proof.
  intro H. destruct rest as [|t r]; [reflexivity|]. cbn [ploop].
  destruct (Nat.ltb_spec (prec t) p); [reflexivity|].
  destruct H as [H|H]; [lia|]. rewrite mk_infix_none by exact H. reflexivity.
Qed.

Lemma stops_le p q rest : stops p rest -> p <= q -> stops q rest.
Proof. destruct rest as [|t r]; cbn; [trivial|]. intros [H|H] Hpq; [left; lia|right; exact H]. Qed.

Lemma stops_low p rest : stops p rest -> p <= 2 -> stops1 rest.
Proof.
  destruct rest as [|t r]; cbn; [trivial|]. intros [H|H] Hp; [|exact H].
  destruct (is_infix t) eqn:E; [|reflexivity]. pose proof (infix_prec t E). lia.
Qed.

Lemma stops1_any p rest : stops1 rest -> stops p rest.
Proof. destruct rest; cbn; [trivial|]. intro H. right. exact H. Qed.

Fixpoint size (e : bexpr) : nat :=
  match e with
  | BLit _ | BVar _ => 1
  | BNot a => S (size a)
  | BAnd a b | BOr a b | BCmp _ a b => S (size a + size b)
  end.

Definition body (e : bexpr) : list tok :=
  match e with
  | BLit v => [TLit v]
  | BVar x => [TVar x]
  | BNot a => TNot :: pr CRight a
  | BAnd a b => pr CLeft a ++ TAnd :: pr CRight b
  | BOr a b => pr CLeft a ++ TOr :: pr CRight b
  | BCmp op a b => pr COperand a ++ TOp op :: pr COperand b
  end.

Lemma pr_body c e : pr c e = wrap (wraps c e) (body e).
Proof. destruct e; reflexivity. Qed.

Lemma pr_right e : pr CRight e = body e.
Proof. rewrite pr_body. reflexivity. Qed.

Definition fits (p : nat) (e : bexpr) : Prop :=
  match e with
  | BAnd _ _ | BOr _ _ => p <= 2
  | BCmp op _ _ => p <= prec (TOp op)
  | _ => True
  end.

Definition okrest (e : bexpr) (p : nat) (rest : list tok) : Prop :=
  stops p rest /\ match e with BNot _ => stops1 rest | _ => True end.

Lemma fits_one e : fits 1 e.
Proof. destruct e as [| | | | |[] ? ?]; cbn; lia. Qed.

Definition atom_or_wrapped (c : pctx) (e : bexpr) : Prop :=
  wraps c e = true \/ match e with BLit _ | BVar _ => True | _ => False end.

Section RoundTrip.
  Variable n : nat.
  Hypothesis IH : forall e, size e <= n -> forall fuel p rest,
    4 * size e <= fuel -> fits p e -> okrest e p rest ->
    pp flags_on fuel p (body e ++ rest) = Ok (e, rest).

  Lemma prim_sub c a rest f : size a <= n -> 4 * size a <= f -> atom_or_wrapped c a ->
    primary (pp flags_on f) flags_on (pr c a ++ rest) = Ok (a, rest).
  Proof.
    intros Hs Hf Haw. rewrite pr_body. destruct (wraps c a) eqn:Ew.
    - unfold wrap. cbn [app primary flags_on allow_parens].
      rewrite <- app_assoc. cbn [app].
      rewrite (IH a Hs f 1 (TRParen :: rest) Hf (fits_one a)).
      + reflexivity.
      + split; [right; reflexivity|]. destruct a; try exact I. reflexivity.
    - destruct Haw as [H|H]; [congruence|]. destruct a; try contradiction; reflexivity.
  Qed.

  Lemma sub_operand y q rest fuel : size y <= n -> 4 * size y + 2 <= fuel -> stops q rest ->
    pp flags_on fuel q (pr COperand y ++ rest) = Ok (y, rest).
  Proof.
    intros Hs Hf Hst. destruct fuel as [|f]; [lia|]. cbn [pp].
    rewrite (prim_sub COperand y rest f Hs ltac:(lia)).
    - cbn [bind fst snd]. destruct f as [|g]; [lia|]. apply ploop_stop, Hst.
    - unfold atom_or_wrapped. destruct y; cbn; auto.
  Qed.

  Lemma step_infix f p g left t r y rest' e :
    is_infix t = true -> p <= prec t ->
    pp flags_on f (prec t) r = Ok (y, rest') -> mk_infix t left y = Some e ->
    ploop (pp flags_on f) p (S g) left (t :: r) = ploop (pp flags_on f) p g e rest'.
  Proof.
    intros Hi Hp Hr He. cbn [ploop].
    destruct (Nat.ltb_spec (prec t) p); [lia|].
    assert (Hsome : exists e0, mk_infix t left left = Some e0) by (destruct t; try discriminate; cbn; eauto).
    destruct Hsome as [e0 ->]. rewrite Hr. cbn [bind fst snd]. rewrite He. reflexivity.
  Qed.
End RoundTrip.

Lemma parse_body : forall n e, size e <= n -> forall fuel p rest,
  4 * size e <= fuel -> fits p e -> okrest e p rest ->
  pp flags_on fuel p (body e ++ rest) = Ok (e, rest).
Proof.
  induction n as [|n IHn]; intros e Hs; [destruct e; cbn in Hs; lia|].
  assert (IH : forall e', size e' <= n -> forall fuel p rest, 4 * size e' <= fuel -> fits p e' -> okrest e' p rest ->
                 pp flags_on fuel p (body e' ++ rest) = Ok (e', rest)) by exact IHn.
  intros fuel p rest Hf Hfit [Hst Hnot].
  destruct fuel as [|f]; [destruct e; cbn in Hf; lia|]. cbn [pp].
  destruct e as [v|x|a|a b|a b|op a b].
  - (* literal *) cbn [body app primary bind fst snd]. destruct f as [|g]; [cbn in Hf; lia|]. apply ploop_stop, Hst.
  - (* variable *) cbn [body app primary bind fst snd]. destruct f as [|g]; [cbn in Hf; lia|]. apply ploop_stop, Hst.
  - (* not *)
    cbn [size] in Hs, Hf. cbn [body app primary flags_on allow_not]. rewrite pr_right.
    rewrite (IH a ltac:(lia) f 1 rest ltac:(lia) (fits_one a)).
    + cbn [bind fst snd]. destruct f as [|g]; [lia|]. apply ploop_stop, Hst.
    + split; [apply stops1_any, Hnot|]. destruct a; try exact I. exact Hnot.
  - (* and *)
    cbn [size] in Hs, Hf. cbn [fits] in Hfit. cbn [body]. rewrite pr_right, <- app_assoc. cbn [app].
    assert (Hb : pp flags_on f 2 (body b ++ rest) = Ok (b, rest)).
    { apply IH; [lia|lia| |].
      - destruct b as [| | | | |[] ? ?]; cbn; lia.
      - split; [apply (stops_le p); [exact Hst|lia]|]. destruct b; try exact I. apply (stops_low p); assumption. }
    destruct a as [v|x|a1|a1 a2|a1 a2|op x y].
    + cbn [pr wraps wrap app primary bind fst snd].
      destruct f as [|g]; [lia|]. rewrite (step_infix (S g) p g _ TAnd _ b rest (BAnd (BLit v) b)); try reflexivity; try exact Hb; try (cbn [prec]; lia).
      destruct g as [|g']; [lia|]. apply ploop_stop, Hst.
    + cbn [pr wraps wrap app primary bind fst snd].
      destruct f as [|g]; [lia|]. rewrite (step_infix (S g) p g _ TAnd _ b rest (BAnd (BVar x) b)); try reflexivity; try exact Hb; try (cbn [prec]; lia).
      destruct g as [|g']; [lia|]. apply ploop_stop, Hst.
    + rewrite (prim_sub n IH CLeft (BNot a1) _ f); [|cbn [size] in *; lia|cbn [size] in *; lia|left; reflexivity].
      cbn [bind fst snd]. destruct f as [|g]; [lia|].
      rewrite (step_infix (S g) p g _ TAnd _ b rest (BAnd (BNot a1) b)); try reflexivity; try exact Hb; try (cbn [prec]; lia).
      destruct g as [|g']; [cbn [size] in *; lia|]. apply ploop_stop, Hst.
    + rewrite (prim_sub n IH CLeft (BAnd a1 a2) _ f); [|cbn [size] in *; lia|cbn [size] in *; lia|left; reflexivity].
      cbn [bind fst snd]. destruct f as [|g]; [lia|].
      rewrite (step_infix (S g) p g _ TAnd _ b rest (BAnd (BAnd a1 a2) b)); try reflexivity; try exact Hb; try (cbn [prec]; lia).
      destruct g as [|g']; [cbn [size] in *; lia|]. apply ploop_stop, Hst.
    + rewrite (prim_sub n IH CLeft (BOr a1 a2) _ f); [|cbn [size] in *; lia|cbn [size] in *; lia|left; reflexivity].
      cbn [bind fst snd]. destruct f as [|g]; [lia|].
      rewrite (step_infix (S g) p g _ TAnd _ b rest (BAnd (BOr a1 a2) b)); try reflexivity; try exact Hb; try (cbn [prec]; lia).
      destruct g as [|g']; [cbn [size] in *; lia|]. apply ploop_stop, Hst.
    + (* left operand is an unparenthesised comparison *)
      cbn [size] in Hs, Hf.
      replace (pr CLeft (BCmp op x y)) with (pr COperand x ++ TOp op :: pr COperand y) by reflexivity.
      rewrite <- app_assoc. cbn [app].
      rewrite (prim_sub n IH COperand x _ f); [|lia|lia|unfold atom_or_wrapped; destruct x; cbn; auto].
      cbn [bind fst snd]. destruct f as [|g]; [lia|].
      assert (Hy : pp flags_on (S g) (prec (TOp op)) (pr COperand y ++ TAnd :: body b ++ rest) = Ok (y, TAnd :: body b ++ rest)).
      { apply (sub_operand n IH); [lia|lia|]. left. destruct op; cbn; lia. }
      rewrite (step_infix (S g) p g x (TOp op) (pr COperand y ++ TAnd :: body b ++ rest) y (TAnd :: body b ++ rest) (BCmp op x y));
        try reflexivity; try exact Hy; [|destruct op; cbn; lia].
      destruct g as [|g1]; [lia|].
      rewrite (step_infix (S (S g1)) p g1 _ TAnd _ b rest (BAnd (BCmp op x y) b)); try reflexivity; try exact Hb; try (cbn [prec]; lia).
      destruct g1 as [|g2]; [lia|]. apply ploop_stop, Hst.
  - (* or: the same argument *)
    cbn [size] in Hs, Hf. cbn [fits] in Hfit. cbn [body]. rewrite pr_right, <- app_assoc. cbn [app].
    assert (Hb : pp flags_on f 2 (body b ++ rest) = Ok (b, rest)).
    { apply IH; [lia|lia| |].
      - destruct b as [| | | | |[] ? ?]; cbn; lia.
      - split; [apply (stops_le p); [exact Hst|lia]|]. destruct b; try exact I. apply (stops_low p); assumption. }
    destruct a as [v|x|a1|a1 a2|a1 a2|op x y].
    + cbn [pr wraps wrap app primary bind fst snd].
      destruct f as [|g]; [lia|]. rewrite (step_infix (S g) p g _ TOr _ b rest (BOr (BLit v) b)); try reflexivity; try exact Hb; try (cbn [prec]; lia).
      destruct g as [|g']; [lia|]. apply ploop_stop, Hst.
    + cbn [pr wraps wrap app primary bind fst snd].
      destruct f as [|g]; [lia|]. rewrite (step_infix (S g) p g _ TOr _ b rest (BOr (BVar x) b)); try reflexivity; try exact Hb; try (cbn [prec]; lia).
      destruct g as [|g']; [lia|]. apply ploop_stop, Hst.
    + rewrite (prim_sub n IH CLeft (BNot a1) _ f); [|cbn [size] in *; lia|cbn [size] in *; lia|left; reflexivity].
      cbn [bind fst snd]. destruct f as [|g]; [lia|].
      rewrite (step_infix (S g) p g _ TOr _ b rest (BOr (BNot a1) b)); try reflexivity; try exact Hb; try (cbn [prec]; lia).
      destruct g as [|g']; [cbn [size] in *; lia|]. apply ploop_stop, Hst.
    + rewrite (prim_sub n IH CLeft (BAnd a1 a2) _ f); [|cbn [size] in *; lia|cbn [size] in *; lia|left; reflexivity].
      cbn [bind fst snd]. destruct f as [|g]; [lia|].
      rewrite (step_infix (S g) p g _ TOr _ b rest (BOr (BAnd a1 a2) b)); try reflexivity; try exact Hb; try (cbn [prec]; lia).
      destruct g as [|g']; [cbn [size] in *; lia|]. apply ploop_stop, Hst.
    + rewrite (prim_sub n IH CLeft (BOr a1 a2) _ f); [|cbn [size] in *; lia|cbn [size] in *; lia|left; reflexivity].
      cbn [bind fst snd]. destruct f as [|g]; [lia|].
      rewrite (step_infix (S g) p g _ TOr _ b rest (BOr (BOr a1 a2) b)); try reflexivity; try exact Hb; try (cbn [prec]; lia).
      destruct g as [|g']; [cbn [size] in *; lia|]. apply ploop_stop, Hst.
    + cbn [size] in Hs, Hf.
      replace (pr CLeft (BCmp op x y)) with (pr COperand x ++ TOp op :: pr COperand y) by reflexivity.
      rewrite <- app_assoc. cbn [app].
      rewrite (prim_sub n IH COperand x _ f); [|lia|lia|unfold atom_or_wrapped; destruct x; cbn; auto].
      cbn [bind fst snd]. destruct f as [|g]; [lia|].
      assert (Hy : pp flags_on (S g) (prec (TOp op)) (pr COperand y ++ TOr :: body b ++ rest) = Ok (y, TOr :: body b ++ rest)).
      { apply (sub_operand n IH); [lia|lia|]. left. destruct op; cbn; lia. }
      rewrite (step_infix (S g) p g x (TOp op) (pr COperand y ++ TOr :: body b ++ rest) y (TOr :: body b ++ rest) (BCmp op x y));
        try reflexivity; try exact Hy; [|destruct op; cbn; lia].
      destruct g as [|g1]; [lia|].
      rewrite (step_infix (S (S g1)) p g1 _ TOr _ b rest (BOr (BCmp op x y) b)); try reflexivity; try exact Hb; try (cbn [prec]; lia).
      destruct g1 as [|g2]; [lia|]. apply ploop_stop, Hst.
  - (* comparison *)
    cbn [size] in Hs, Hf. cbn [fits] in Hfit. cbn [body]. rewrite <- app_assoc. cbn [app].
    rewrite (prim_sub n IH COperand a _ f); [|lia|lia|unfold atom_or_wrapped; destruct a; cbn; auto].
    cbn [bind fst snd]. destruct f as [|g]; [lia|].
    assert (Hy : pp flags_on (S g) (prec (TOp op)) (pr COperand b ++ rest) = Ok (b, rest)).
    { apply (sub_operand n IH); [lia|lia|]. apply (stops_le p); assumption. }
    rewrite (step_infix (S g) p g a (TOp op) (pr COperand b ++ rest) b rest (BCmp op a b)); try reflexivity; try exact Hy; try exact Hfit.
    destruct g as [|g1]; [lia|]. apply ploop_stop, Hst.
Qed.

Lemma pr_length c e : size e <= length (pr c e).
Proof.
  revert c. induction e as [v|x|a IHa|a IHa b IHb|a IHa b IHb|op a IHa b IHb]; intro c; rewrite pr_body;
    destruct (wraps c _); cbn [wrap body size length]; rewrite ?app_length; cbn [length];
    rewrite ?app_length; cbn [length].
  all: try lia.
  all: try (specialize (IHa CRight); lia).
  all: try (pose proof (IHa CLeft); pose proof (IHb CRight); lia).
  all: try (pose proof (IHa COperand); pose proof (IHb COperand); lia).
Qed.

(* C04 / C12: printing a condition and parsing it back gives the SAME tree, for every tree *)
Theorem parse_print_roundtrip e : parse flags_on (print e) = Ok e.
Proof.
  unfold parse, print. rewrite pr_right.
  pose proof (pr_length CRight e) as Hl. rewrite pr_right in Hl.
  rewrite <- (app_nil_r (body e)) at 2.
  rewrite (parse_body (size e) e (le_n _) (4 * length (body e) + 4) 1 []).
  - reflexivity.
  - lia.
  - apply fits_one.
  - split; [exact I|]. destruct e; exact I.
Qed.

(* and/or chains group from the right *)
Fixpoint chain (first : bexpr) (rest : list (bool * bexpr)) : bexpr :=
  match rest with
  | [] => first
  | (is_and, x) :: r => if is_and then BAnd first (chain x r) else BOr first (chain x r)
  end.

Definition atom (e : bexpr) : Prop := match e with BLit _ | BVar _ => True | _ => False end.

Fixpoint chain_toks (first : bexpr) (rest : list (bool * bexpr)) : list tok :=
  body first ++ match rest with
                | [] => []
                | (is_and, x) :: r => (if is_and then TAnd else TOr) :: chain_toks x r
                end.

Theorem and_or_right_assoc first rest :
  atom first -> Forall (fun p => atom (snd p)) rest ->
  parse flags_on (chain_toks first rest) = Ok (chain first rest).
Proof.
  intros Ha Hr.
  assert (H : chain_toks first rest = print (chain first rest)).
  { revert first Ha. induction Hr as [|[is_and x] r Hx Hr IH]; intros first Ha.
    - cbn. rewrite app_nil_r. unfold print. rewrite pr_right. reflexivity.
    - cbn [chain_toks chain]. rewrite (IH x Hx). unfold print.
      destruct is_and; rewrite (pr_right (_ first _)); cbn [body];
        (replace (pr CLeft first) with (body first) by (destruct first; try contradiction; reflexivity)); reflexivity. }
  rewrite H. apply parse_print_roundtrip.
Qed.
