(* Limits_Proofs.v — part 1: structure lemmas, the generic preservation theorem, and the unary invariants
   (C06 bound, C07 output bound, C07 namespace bound).  Part 2 (Limits_Sim_Proofs.v) has the static
   characterisation of the loop limit and the two-run simulation (C08). *)
From Coq Require Import ZArith NArith List Bool Lia ZifyBool.
From LiquidVerif Require Import Prelude PyPrims Limits.
Import ListNotations.
Local Open Scope Z_scope.

(* ------------------------------------------------------------------ induction over nests *)
Section NodeInd.
  Variables (P : node -> Prop) (Q : list node -> Prop).
  Hypotheses
    (HText : forall t, P (Text t)) (HEcho : forall x, P (Echo x)) (HAssign : forall x t, P (Assign x t))
    (HCapture : forall x b, Q b -> P (Capture x b)) (HIfChanged : forall b, Q b -> P (IfChanged b))
    (HFor : forall n b, Q b -> P (For n b)) (HTablerow : forall n b, Q b -> P (Tablerow n b))
    (HInclude : forall b, Q b -> P (Include b)) (HIncludeArr : forall n b, Q b -> P (IncludeArr n b))
    (HRender : forall b, Q b -> P (Render b)) (HRenderFor : forall n b, Q b -> P (RenderFor n b))
    (HCall : forall b, Q b -> P (Call b))
    (HBlock : forall b, Q b -> P (Block b)) (HBlockD : forall b, Q b -> P (BlockD b))
    (HSuper : forall b, Q b -> P (Super b)) (HSuperU : P SuperU)
    (HNil : Q []) (HCons : forall x r, P x -> Q r -> Q (x :: r)).

  Fixpoint node_ind' (nd : node) : P nd :=
    let fix go (l : list node) : Q l :=
      match l with [] => HNil | x :: r => HCons x r (node_ind' x) (go r) end in
    match nd with
    | Text t => HText t | Echo x => HEcho x | Assign x t => HAssign x t
    | Capture x b => HCapture x b (go b) | IfChanged b => HIfChanged b (go b)
    | For n b => HFor n b (go b) | Tablerow n b => HTablerow n b (go b)
    | Include b => HInclude b (go b) | IncludeArr n b => HIncludeArr n b (go b)
    | Render b => HRender b (go b) | RenderFor n b => HRenderFor n b (go b)
    | Call b => HCall b (go b)
    | Block b => HBlock b (go b) | BlockD b => HBlockD b (go b)
    | Super b => HSuper b (go b) | SuperU => HSuperU
    end.

  Fixpoint list_node_ind' (l : list node) : Q l :=
    match l with [] => HNil | x :: r => HCons x r (node_ind' x) (list_node_ind' r) end.
End NodeInd.

(* ------------------------------------------------------------------ unfolding *)
Lemma exec_eq v md lim nd f :
  exec v md lim nd f =
  match nd with
  | Text t => seq (m_leaf (f_tp f)) (m_write lim t)
  | Echo x => fun s => m_write lim (lookup x s) s
  | Assign x t => m_assign v lim x t
  | Capture x body => fun s => in_child (block v md lim body (f_freeze f (s_buf s))) (fun val => m_assign v lim x val) s
  | IfChanged body => fun s => in_child (block v md lim body (f_freeze f (s_buf s))) (m_ifchanged lim) s
  | For n body =>
      if (n =? 0)%N then ret
      else seq (guard (loop_exceeded v lim f n) XLoop)
          (seq (guard (depth_exceeded lim f) XDepth)
               (iter 1 (N.to_nat n) (fun _ => block v md lim body (f_for f n))))
  | Tablerow n body =>
      seq (guard (loop_exceeded v lim f n) XLoop)
     (seq (m_write lim tr_open)
     (seq (guard (depth_exceeded lim f) XDepth)
     (seq (iter 1 (N.to_nat n) (fun k => seq (m_write lim (td_open k)) (seq (block v md lim body (f_scale v (f_ext f) n)) (m_write lim td_close))))
          (m_write lim tr_close))))
  | Include body =>
      seq (guard (f_no_include f) XDisabled)
     (seq (nest_guard md lim body)
     (seq (guard (depth_exceeded lim f) XDepth)
          (partial v md lim body (f_ext f))))
  | IncludeArr n body =>
      seq (guard (f_no_include f) XDisabled)
     (seq (nest_guard md lim body)
     (seq (guard (depth_exceeded lim f) XDepth)
     (seq (guard (loop_exceeded v lim (f_ext f) n) XLoop)
          (iter 1 (N.to_nat n) (fun _ => partial v md lim body (f_scale v (f_ext f) n))))))
  | Render body =>
      seq (nest_guard md lim body)
     (seq (guard (copy_exceeded lim f) XDepth)
          (in_ctx (partial v md lim body (f_copy f))))
  | RenderFor n body =>
      seq (nest_guard md lim body)
     (seq (guard (copy_exceeded lim f) XDepth)
     (seq (guard (loop_exceeded v lim (f_copy f) n) XLoop)
          (if v_item v
           then iter 1 (N.to_nat n) (fun _ => in_ctx (partial v md lim body (f_scale v (f_copy f) n)))
           else in_ctx (iter 1 (N.to_nat n) (fun _ => partial v md lim body (f_scale v (f_copy f) n))))))
  | Call body =>
      seq (guard (copy_exceeded lim f) XDepth)
          (in_ctx (block v md lim body (f_call f)))
  | Block body =>
      seq (guard (f_no_block f) XDisabled)
     (seq (guard (copy_exceeded lim f) XDepth)
          (in_blk (block v md lim body (f_blk f))))
  | BlockD body =>
      seq (guard (f_no_block f) XDisabled)
     (seq (guard (depth_exceeded lim f) XDepth)
          (block v md lim body (f_sup_set (f_ext f) SupNone)))
  | Super body =>
      match f_sup f with
      | SupNone => ret
      | SupHere =>
          in_sup lim f (seq (guard (depth_exceeded lim f) XDepth) (block v md lim body (f_sup_set (f_ext f) SupHere)))
      | SupBase b =>
          in_sup lim f (in_base v (seq (guard (depth_exceeded lim (f_base v b f)) XDepth) (block v md lim body (f_ext (f_base v b f)))))
      end
  | SuperU => ret
  end.
Proof. destruct nd; reflexivity. Qed.

Lemma exec_list_cons v md lim x r f : exec_list v md lim (x :: r) f = seq (exec v md lim x f) (exec_list v md lim r f).
Proof. reflexivity. Qed.

Lemma run_nodes_cons v md lim x r f :
  run_nodes v md lim (x :: r) f = seq (handle md (exec v md lim x f)) (run_nodes v md lim r f).
Proof. reflexivity. Qed.

(* ------------------------------------------------------------------ inversion of the combinators (successful runs) *)
Lemma seq_ok (a b : M) s s' : seq a b s = LOk s' -> exists s1, a s = LOk s1 /\ b s1 = LOk s'.
Proof. unfold seq. destruct (a s) as [s1|e s1|]; try discriminate. eauto. Qed.

Lemma guard_ok b e s s' : guard b e s = LOk s' -> b = false /\ s' = s.
Proof. unfold guard. destruct b; intro H; inversion H; auto. Qed.

Lemma nestd_guard_ok md d s s' : nestd_guard md d s = LOk s' -> d = false /\ s' = s.
Proof. unfold nestd_guard. destruct d; [destruct (tolerant md); discriminate|]. intro H; inversion H; auto. Qed.

Lemma nest_guard_ok md lim body s s' : nest_guard md lim body s = LOk s' -> nest_exceeded lim body = false /\ s' = s.
Proof. unfold nest_guard. apply nestd_guard_ok. Qed.

Lemma in_null_ok (m : M) s s' : in_null m s = LOk s' -> exists s1, m (set_buf s BNull) = LOk s1 /\ s' = set_buf s1 (s_buf s).
Proof. unfold in_null. destruct (m _) as [s1|e s1|]; intro H; inversion H. eauto. Qed.

Lemma in_childb_ok cb (m : M) k s s' :
  in_childb cb m k s = LOk s' ->
  exists s1, m (set_buf s cb) = LOk s1 /\ k (buf_text (s_buf s1)) (set_buf s1 (s_buf s)) = LOk s'.
Proof. unfold in_childb. destruct (m _) as [s1|e s1|]; intro H; try discriminate. eauto. Qed.

Lemma in_child_ok (m : M) k s s' :
  in_child m k s = LOk s' ->
  exists s1, m (set_buf s (child_of (s_buf s))) = LOk s1 /\ k (buf_text (s_buf s1)) (set_buf s1 (s_buf s)) = LOk s'.
Proof. unfold in_child. apply in_childb_ok. Qed.

Lemma in_ctx_ok (m : M) s s' :
  in_ctx m s = LOk s' -> exists s1, m (set_cx s (cx_copy (s_cx s))) = LOk s1 /\ s' = set_cx s1 (s_cx s).
Proof. unfold in_ctx. destruct (m _) as [s1|e s1|]; intro H; inversion H. eauto. Qed.

Lemma in_blk_ok (m : M) s s' :
  in_blk m s = LOk s' -> exists s1, m (set_cx s (cx_blk (s_cx s))) = LOk s1 /\ leave_blk s1 = Some s'.
Proof.
  unfold in_blk. destruct (m _) as [s1|e s1|]; try discriminate.
  destruct (leave_blk s1) eqn:El; intro H; inversion H. subst. eauto.
Qed.

Lemma in_base_ok v (m : M) s s' :
  in_base v m s = LOk s' ->
  exists cb s1, cx_base v (s_cx s) = Some cb /\ m (set_cx s cb) = LOk s1 /\ s' = set_cx s1 (cx_back v (s_cx s) (s_cx s1)).
Proof.
  unfold in_base. destruct (cx_base v (s_cx s)) as [cb|]; try discriminate.
  destruct (m _) as [s1|e s1|] eqn:Em; intro H; inversion H. exists cb, s1. auto.
Qed.

Lemma iter_first (body : Z -> M) n k s s' :
  iter k (S n) body s = LOk s' -> exists s1, body k s = LOk s1.
Proof. simpl. intro H. apply seq_ok in H. destruct H as (s1 & H1 & _). eauto. Qed.

(* in STRICT mode the per-node handler is the identity *)
Lemma handle_strict (m : M) s : handle Strict m s = m s.
Proof. unfold handle. destruct (m s); reflexivity. Qed.

Lemma handle_out_strict (m : M) s : handle_out Strict m s = m s.
Proof. unfold handle_out. destruct (m s); reflexivity. Qed.

Lemma run_nodes_strict v lim l f s : run_nodes v Strict lim l f s = exec_list v Strict lim l f s.
Proof.
  revert s. induction l as [|x r IH]; intro s; [reflexivity|].
  rewrite run_nodes_cons, exec_list_cons. unfold seq. rewrite handle_strict.
  destruct (exec v Strict lim x f s); auto.
Qed.

(* ------------------------------------------------------------------ generic preservation, all modes *)
(* A frame invariant I (re-established by every construct for the frame it passes down), a state invariant P for
   the states a run continues from, and a condition E for the states carried by errors.  In WARN/LAX mode the
   render continues from error states, so E must give P back there; in STRICT mode E may be anything. *)
Section Preserve.
  Variables (v : variant) (md : mode) (lim : limits).
  Variable I : frame -> Prop.
  Variables P E : st -> Prop.

  Definition post (r : lres st) : Prop :=
    match r with LOk s' => P s' | LErr _ s' => E s' | LFuel => True end.
  Definition H (m : M) : Prop := forall s, P s -> post (m s).

  Hypothesis I_ext : forall f, I f -> I (f_ext f).
  Hypothesis I_for : forall f n, I f -> (n =? 0)%N = false -> loop_exceeded v lim f n = false -> I (f_for f n).
  Hypothesis I_scale : forall f n, I f -> (n =? 0)%N = false -> loop_exceeded v lim f n = false -> I (f_scale v f n).
  Hypothesis I_copy : forall f, I f -> I (f_copy f).
  Hypothesis I_call : forall f, I f -> I (f_call f).
  Hypothesis I_blk : forall f, I f -> I (f_blk f).
  Hypothesis I_sup_set : forall f u, I f -> u = SupNone \/ u = SupHere -> I (f_sup_set f u).
  Hypothesis I_base : forall f b, I f -> f_sup f = SupBase b -> I (f_base v b f).
  Hypothesis I_freeze : forall f s, I f -> P s -> I (f_freeze f (s_buf s)).
  Hypothesis H_leaf : forall f, I f -> H (m_leaf (f_tp f)).
  Hypothesis H_write : forall t, H (m_write lim t).
  Hypothesis H_assign : forall x val, H (m_assign v lim x val).
  Hypothesis P_null : forall s, P s -> P (set_buf s BNull).
  Hypothesis P_child : forall s, P s -> P (set_buf s (child_of (s_buf s))).
  Hypothesis P_sup : forall f s, I f -> P s -> P (set_buf s (sup_buf f s)).
  Hypothesis P_restore : forall s s1, P s -> P s1 -> P (set_buf s1 (s_buf s)).
  Hypothesis E_restore : forall s s1, P s -> E s1 -> E (set_buf s1 (s_buf s)).
  Hypothesis P_ifch : forall s i, P s -> P (set_cx s (cx_ifch (s_cx s) i)).
  Hypothesis P_copy_in : forall s, P s -> P (set_cx s (cx_copy (s_cx s))).
  Hypothesis P_copy_out : forall s s1, P s -> P s1 -> P (set_cx s1 (s_cx s)).
  Hypothesis E_copy_out : forall s s1, P s -> E s1 -> E (set_cx s1 (s_cx s)).
  Hypothesis P_blk_in : forall s, P s -> P (set_cx s (cx_blk (s_cx s))).
  Hypothesis P_blk_out : forall s1 s2, P s1 -> leave_blk s1 = Some s2 -> P s2.
  Hypothesis E_blk_out : forall s1 s2, E s1 -> leave_blk s1 = Some s2 -> E s2.
  Hypothesis P_base_in : forall s cb, P s -> cx_base v (s_cx s) = Some cb -> P (set_cx s cb).
  Hypothesis P_base_out : forall s cb s1, P s -> cx_base v (s_cx s) = Some cb -> P s1 -> P (set_cx s1 (cx_back v (s_cx s) (s_cx s1))).
  Hypothesis E_base_out : forall s cb s1, P s -> cx_base v (s_cx s) = Some cb -> E s1 -> E (set_cx s1 (cx_back v (s_cx s) (s_cx s1))).
  Hypothesis P_E : forall s, P s -> E s.
  Hypothesis E_P : tolerant md = true -> forall s, E s -> P s.

  Lemma H_ret : H ret.
  Proof. intros s HP. exact HP. Qed.

  Lemma H_seq a b : H a -> H b -> H (seq a b).
  Proof. intros Ha Hb s HP. unfold seq. specialize (Ha s HP). destruct (a s) as [s1|e s1|]; simpl in *; [apply Hb; exact Ha|exact Ha|exact Logic.I]. Qed.

  Lemma H_guard g e : H (guard g e).
  Proof. intros s HP. unfold guard. destruct g; simpl; auto. Qed.

  Lemma H_nestd_guard d : H (nestd_guard md d).
  Proof. intros s HP. unfold nestd_guard. destruct d; [destruct (tolerant md)|]; simpl; auto. Qed.

  Lemma H_nest_guard body : H (nest_guard md lim body).
  Proof. apply H_nestd_guard. Qed.

  Lemma H_iter body : (forall k, H (body k)) -> forall n k, H (iter k n body).
  Proof. intros Hb. induction n as [|n IH]; intro k; simpl; [apply H_ret|]. apply H_seq; auto. Qed.

  Lemma H_in_null m : H m -> H (in_null m).
  Proof.
    intros Hm s HP. unfold in_null. specialize (Hm (set_buf s BNull) (P_null s HP)).
    destruct (m _) as [s1|e s1|]; simpl in *; auto.
  Qed.

  (* at one state: the new buffer may depend on it *)
  Lemma H_in_childb_at cb m k s : P s -> P (set_buf s cb) -> H m -> (forall val, H (k val)) -> post (in_childb cb m k s).
  Proof.
    intros HP HPc Hm Hk. unfold in_childb. specialize (Hm (set_buf s cb) HPc).
    destruct (m _) as [s1|e s1|]; simpl in *; auto. apply Hk. auto.
  Qed.

  Lemma H_in_child m k : H m -> (forall val, H (k val)) -> H (in_child m k).
  Proof. intros Hm Hk s HP. unfold in_child. apply H_in_childb_at; auto. Qed.

  Lemma H_in_sup f m : I f -> H m -> H (in_sup lim f m).
  Proof. intros HI Hm s HP. unfold in_sup. apply H_in_childb_at; auto. Qed.

  Lemma H_in_ctx m : H m -> H (in_ctx m).
  Proof.
    intros Hm s HP. unfold in_ctx. specialize (Hm _ (P_copy_in s HP)).
    destruct (m _) as [s1|e s1|]; simpl in *; auto.
  Qed.

  Lemma H_in_blk m : H m -> H (in_blk m).
  Proof.
    intros Hm s HP. unfold in_blk. specialize (Hm _ (P_blk_in s HP)).
    destruct (m _) as [s1|e s1|]; simpl in *; auto.
    - destruct (leave_blk s1) eqn:El; simpl; eauto.
    - destruct (leave_blk s1) eqn:El; simpl; eauto.
  Qed.

  Lemma H_in_base m : H m -> H (in_base v m).
  Proof.
    intros Hm s HP. unfold in_base. destruct (cx_base v (s_cx s)) as [cb|] eqn:Eb; [|exact Logic.I].
    specialize (Hm _ (P_base_in s cb HP Eb)).
    destruct (m _) as [s1|e s1|]; simpl in *; eauto.
  Qed.

  Lemma H_handle m : H m -> H (handle md m).
  Proof.
    intros Hm s HP. unfold handle. specialize (Hm s HP). destruct (m s) as [s1|e s1|]; simpl in *; auto.
    destruct (tolerant md) eqn:T; simpl; auto.
  Qed.

  Lemma H_handle_out m : H m -> H (handle_out md m).
  Proof.
    intros Hm s HP. unfold handle_out. specialize (Hm s HP). destruct (m s) as [s1|e s1|]; simpl in *; auto.
    destruct (tolerant md) eqn:T; simpl; auto.
  Qed.

  Lemma H_fun (F : st -> M) : (forall s0, P s0 -> H (F s0)) -> H (fun s => F s s).
  Proof. intros HF s HP. apply (HF s HP s HP). Qed.

  Lemma H_ifchanged val : H (m_ifchanged lim val).
  Proof.
    intros s HP. unfold m_ifchanged. destruct (str_eqb val (s_ifch s)); [exact HP|].
    apply H_write. apply P_ifch; exact HP.
  Qed.

  Definition keeps (m : frame -> M) : Prop := forall f, I f -> H (m f).

  Lemma keeps_block body : keeps (exec_list v md lim body) -> keeps (block v md lim body).
  Proof.
    intros Hl f HI. unfold block. destruct (blank_list body); [|apply Hl; exact HI].
    apply (H_fun (fun s0 => in_null (exec_list v md lim body (f_freeze f (s_buf s0))))).
    intros s0 HP0. apply H_in_null. apply Hl. apply I_freeze; assumption.
  Qed.

  Lemma keeps_run_nodes body : (forall x, In x body -> keeps (exec v md lim x)) -> keeps (run_nodes v md lim body).
  Proof.
    induction body as [|x r IH]; intros Hx f HI; [apply H_ret|].
    rewrite run_nodes_cons. apply H_seq.
    - apply H_handle. apply Hx; [left; reflexivity|exact HI].
    - apply IH; [|exact HI]. intros y Hy. apply Hx. right; exact Hy.
  Qed.

  Lemma keeps_partial body : keeps (run_nodes v md lim body) -> keeps (partial v md lim body).
  Proof. intros Hl f HI. unfold partial. apply H_seq; [apply H_guard|]. apply Hl. apply I_ext; exact HI. Qed.

  (* the list part of the induction carries both readings of a list: as a block and as a template *)
  Definition keepsQ (l : list node) : Prop := keeps (exec_list v md lim l) /\ keeps (run_nodes v md lim l).

  Lemma iter_zero n (body : Z -> M) : (n =? 0)%N = true -> iter 1 (N.to_nat n) body = ret.
  Proof. intro Hn. assert (n = 0%N) by lia. subst n. reflexivity. Qed.

  Theorem exec_keeps : forall nd, keeps (exec v md lim nd).
  Proof.
    apply (node_ind' (fun nd => keeps (exec v md lim nd)) keepsQ); unfold keeps.
    - (* Text *) intros t f HI. rewrite exec_eq. apply H_seq; [apply H_leaf; exact HI|apply H_write].
    - (* Echo *) intros x f HI. rewrite exec_eq. apply (H_fun (fun s0 => m_write lim (lookup x s0))). intros s0 _. apply H_write.
    - (* Assign *) intros x t f HI. rewrite exec_eq. apply H_assign.
    - (* Capture *) intros x b [IH _] f HI. rewrite exec_eq.
      apply (H_fun (fun s0 => in_child (block v md lim b (f_freeze f (s_buf s0))) (fun val => m_assign v lim x val))).
      intros s0 HP0. apply H_in_child; [apply (keeps_block b IH); apply I_freeze; assumption|]. intro val. apply H_assign.
    - (* IfChanged *) intros b [IH _] f HI. rewrite exec_eq.
      apply (H_fun (fun s0 => in_child (block v md lim b (f_freeze f (s_buf s0))) (m_ifchanged lim))).
      intros s0 HP0. apply H_in_child; [apply (keeps_block b IH); apply I_freeze; assumption|]. intro val. apply H_ifchanged.
    - (* For *) intros n b [IH _] f HI. rewrite exec_eq. destruct (n =? 0)%N eqn:En; [apply H_ret|].
      intros s HP. unfold seq at 1. unfold guard at 1. destruct (loop_exceeded v lim f n) eqn:G; [simpl; auto|].
      revert s HP. apply H_seq; [apply H_guard|]. apply H_iter. intro k. apply (keeps_block b IH). apply I_for; auto.
    - (* Tablerow *) intros n b [IH _] f HI. rewrite exec_eq.
      intros s HP. unfold seq at 1. unfold guard at 1. destruct (loop_exceeded v lim f n) eqn:G; [simpl; auto|].
      revert s HP. apply H_seq; [apply H_write|]. apply H_seq; [apply H_guard|]. apply H_seq; [|apply H_write].
      destruct (n =? 0)%N eqn:En; [rewrite (iter_zero n _ En); apply H_ret|].
      apply H_iter. intro k. apply H_seq; [apply H_write|]. apply H_seq; [|apply H_write].
      apply (keeps_block b IH). apply I_scale; auto.
    - (* Include *) intros b [_ IH] f HI. rewrite exec_eq.
      apply H_seq; [apply H_guard|]. apply H_seq; [apply H_nest_guard|]. apply H_seq; [apply H_guard|].
      apply (keeps_partial b IH). auto.
    - (* IncludeArr *) intros n b [_ IH] f HI. rewrite exec_eq.
      apply H_seq; [apply H_guard|]. apply H_seq; [apply H_nest_guard|]. apply H_seq; [apply H_guard|].
      intros s HP. unfold seq at 1. unfold guard at 1. destruct (loop_exceeded v lim (f_ext f) n) eqn:G; [simpl; auto|].
      revert s HP. destruct (n =? 0)%N eqn:En; [rewrite (iter_zero n _ En); apply H_ret|].
      apply H_iter. intro k. apply (keeps_partial b IH). apply I_scale; auto.
    - (* Render *) intros b [_ IH] f HI. rewrite exec_eq.
      apply H_seq; [apply H_nest_guard|]. apply H_seq; [apply H_guard|].
      apply H_in_ctx. apply (keeps_partial b IH). auto.
    - (* RenderFor *) intros n b [_ IH] f HI. rewrite exec_eq.
      apply H_seq; [apply H_nest_guard|]. apply H_seq; [apply H_guard|].
      intros s HP. unfold seq at 1. unfold guard at 1. destruct (loop_exceeded v lim (f_copy f) n) eqn:G; [simpl; auto|].
      revert s HP. destruct (n =? 0)%N eqn:En.
      { rewrite !(iter_zero n _ En). destruct (v_item v); [apply H_ret|apply H_in_ctx; apply H_ret]. }
      assert (Hp : H (partial v md lim b (f_scale v (f_copy f) n))).
      { apply (keeps_partial b IH). apply I_scale; auto. }
      destruct (v_item v).
      + apply H_iter. intro k. apply H_in_ctx. exact Hp.
      + apply H_in_ctx. apply H_iter. intro k. exact Hp.
    - (* Call *) intros b [IH _] f HI. rewrite exec_eq.
      apply H_seq; [apply H_guard|]. apply H_in_ctx. apply (keeps_block b IH). auto.
    - (* Block *) intros b [IH _] f HI. rewrite exec_eq.
      apply H_seq; [apply H_guard|]. apply H_seq; [apply H_guard|]. apply H_in_blk. apply (keeps_block b IH). auto.
    - (* BlockD *) intros b [IH _] f HI. rewrite exec_eq.
      apply H_seq; [apply H_guard|]. apply H_seq; [apply H_guard|]. apply (keeps_block b IH). auto.
    - (* Super *) intros b [IH _] f HI. rewrite exec_eq. destruct (f_sup f) as [| |bf] eqn:Es.
      + apply H_ret.
      + apply H_in_sup; [exact HI|]. apply H_seq; [apply H_guard|]. apply (keeps_block b IH). auto.
      + apply H_in_sup; [exact HI|]. apply H_in_base. apply H_seq; [apply H_guard|]. apply (keeps_block b IH). auto.
    - (* SuperU *) intros f HI. rewrite exec_eq. apply H_ret.
    - (* nil *) split; intros f HI; apply H_ret.
    - (* cons *) intros x r IHx [IHr1 IHr2]. split; intros f HI.
      + rewrite exec_list_cons. apply H_seq; [apply IHx|apply IHr1]; exact HI.
      + rewrite run_nodes_cons. apply H_seq; [apply H_handle; apply IHx|apply IHr2]; exact HI.
  Qed.

  Corollary run_nodes_keeps : forall l, keeps (run_nodes v md lim l).
  Proof. intro l. apply keeps_run_nodes. intros x _. apply exec_keeps. Qed.

  Corollary partial_keeps : forall l, keeps (partial v md lim l).
  Proof. intro l. apply keeps_partial, run_nodes_keeps. Qed.

  (* the whole render: whatever it returns - a result, or an error with the state it was raised in *)
  Corollary run_post chain main glob sizes : I frame0 -> P (st0 glob sizes) -> post (run_prog v md lim chain main glob sizes).
  Proof.
    intros HI HP. unfold run_prog. destruct chain as [|d0 loaded].
    - pose proof (H_nest_guard main (st0 glob sizes) HP) as Hg.
      destruct (nest_guard md lim main (st0 glob sizes)) as [s1|e s1|]; simpl in *; auto.
      apply (partial_keeps main frame0 HI s1 Hg).
    - pose proof (H_nestd_guard (d0 >? l_nest lim) (st0 glob sizes) HP) as Hg.
      destruct (nestd_guard md (d0 >? l_nest lim) (st0 glob sizes)) as [s1|e s1|]; simpl in *; auto.
      revert s1 Hg. apply H_seq; [apply H_guard|]. apply H_handle_out. apply H_seq; [apply H_nestd_guard|].
      apply partial_keeps. apply I_ext; exact HI.
  Qed.
End Preserve.

(* ------------------------------------------------------------------ arithmetic helpers *)
Lemma fold_mul_scale l a b : fold_left N.mul l (a * b)%N = (fold_left N.mul l a * b)%N.
Proof.
  revert a. induction l as [|x l IH]; intro a; simpl; [reflexivity|].
  replace (a * b * x)%N with (a * x * b)%N by lia. apply IH.
Qed.

(* the repairs, whichever way render-for makes its contexts *)
Definition is_repaired (v : variant) : Prop :=
  v_carry v = true /\ v_zero v = true /\ v_rollback v = true /\ v_super_loop v = true /\ v_super_ns v = true.
Lemma repaired_is_repaired : is_repaired repaired.
Proof. repeat split; reflexivity. Qed.

Lemma loop_limit_repaired v lim : is_repaired v -> loop_limit v lim = l_loop lim.
Proof. intros (_ & Hz & _). unfold loop_limit. rewrite Hz. destruct (l_loop lim) as [[|p]|]; reflexivity. Qed.

Lemma ns_limit_repaired v lim : is_repaired v -> ns_limit v lim = l_ns lim.
Proof. intros (_ & Hz & _). unfold ns_limit. rewrite Hz. destruct (l_ns lim) as [[|p|p]|]; reflexivity. Qed.

Lemma utf8_len_pos c : 1 <= utf8_len c <= 4.
Proof. unfold utf8_len. repeat match goal with |- context [if ?b then _ else _] => destruct b end; lia. Qed.

Lemma utf8_bytes_nonneg s : 0 <= utf8_bytes s.
Proof. induction s as [|c s IH]; simpl; [lia|]. pose proof (utf8_len_pos c). lia. Qed.

Lemma utf8_bytes_app a b : utf8_bytes (a ++ b) = utf8_bytes a + utf8_bytes b.
Proof. induction a as [|c a IH]; simpl; lia. Qed.

Lemma utf8_bytes_rev a : utf8_bytes (rev a) = utf8_bytes a.
Proof. induction a as [|c a IH]; simpl; [reflexivity|]. rewrite utf8_bytes_app. simpl. lia. Qed.

Lemma utf8_bytes_rev_append a b : utf8_bytes (rev_append a b) = utf8_bytes a + utf8_bytes b.
Proof. rewrite rev_append_rev, utf8_bytes_app, utf8_bytes_rev. reflexivity. Qed.

(* a write, accepted or refused, touches nothing but the buffer *)
Lemma m_write_frame lim t s :
  match m_write lim t s with
  | LOk s' | LErr _ s' =>
      s_leaf s' = s_leaf s /\ s_nslog s' = s_nslog s /\ s_cx s' = s_cx s /\ s_sizes s' = s_sizes s /\ s_glob s' = s_glob s
  | LFuel => True
  end.
Proof. unfold m_write. destruct (buf_write _ _ _) as [[|] b]; simpl; auto 6. Qed.

(* an assignment, accepted or refused, leaves the buffer and the leaf log alone *)
Lemma m_assign_frame v lim x val s :
  match m_assign v lim x val s with
  | LOk s' | LErr _ s' => s_buf s' = s_buf s /\ s_leaf s' = s_leaf s
  | LFuel => True
  end.
Proof.
  unfold m_assign. destruct (s_sizes s); [exact Logic.I|].
  destruct (ns_limit v lim); [destruct (_ >? _); [destruct (v_rollback v)|]|]; simpl; auto.
Qed.

(* repaired: a refused assignment leaves the namespace - and every other attribute of the context - exactly as it was *)
Lemma m_assign_refused_keeps_locals v lim x val s e s' :
  v_rollback v = true -> m_assign v lim x val s = LErr e s' -> s_cx s' = s_cx s /\ s_nslog s' = s_nslog s.
Proof.
  intros Hr. unfold m_assign. destruct (s_sizes s); [discriminate|].
  destruct (ns_limit v lim); [destruct (_ >? _)|]; try discriminate. rewrite Hr. intro H; inversion H; subst; simpl; auto.
Qed.

(* ------------------------------------------------------------------ C06: the loop limit bounds the true product, in every mode *)
Section LoopBound.
  Variables (v : variant) (md : mode) (lim : limits) (L : N).
  Hypothesis Hv : is_repaired v.
  Hypothesis HL : l_loop lim = Some L.

  (* block.super from a block-scoped copy divides the copy's iterations by the base context's: exact *)
  Definition sup_ok (f : frame) : Prop :=
    match f_sup f with SupBase b => (1 <= bkb b)%N /\ exists k, bk f = (bkb b * k)%N | _ => True end.
  Definition linv (f : frame) : Prop := bk f = f_tp f /\ (1 <= f_tp f <= L)%N /\ sup_ok f.
  Definition leafP (s : st) : Prop := Forall (fun p => (p <= L)%N) (s_leaf s).

  Lemma not_exceeded f n : loop_exceeded v lim f n = false -> (bk f * n <= L)%N.
  Proof.
    unfold loop_exceeded. rewrite (loop_limit_repaired v lim Hv), HL. intro H.
    replace (n * f_carry f)%N with (f_carry f * n)%N in H by lia. rewrite fold_mul_scale in H. unfold bk. lia.
  Qed.

  Lemma bk_for f n : bk (f_for f n) = (bk f * n)%N.
  Proof. unfold bk, f_for; cbn [f_loops f_carry fold_left]. apply fold_mul_scale. Qed.
  Lemma bk_scale f n : bk (f_scale v f n) = (bk f * n)%N.
  Proof. unfold bk, f_scale; cbn [f_loops f_carry]. destruct Hv as (Hc & _). rewrite Hc. apply fold_mul_scale. Qed.

  Lemma linv_mul f f' n :
    linv f -> (n =? 0)%N = false -> (bk f * n <= L)%N ->
    bk f' = (bk f * n)%N -> f_tp f' = (f_tp f * n)%N -> f_sup f' = f_sup f -> linv f'.
  Proof.
    intros (Hb & Ht & Hs) Hn He Hbk Htp Hsup. unfold linv, sup_ok in *. rewrite Hbk, Htp, Hsup, Hb in *.
    split; [reflexivity|]. split; [nia|].
    destruct (f_sup f) as [| |b]; auto. destruct Hs as (H1 & k & Hk). split; [exact H1|]. exists (k * n)%N. rewrite Hk. lia.
  Qed.

  Lemma linv_for f n : linv f -> (n =? 0)%N = false -> loop_exceeded v lim f n = false -> linv (f_for f n).
  Proof. intros HI Hn He. apply not_exceeded in He. apply (linv_mul f _ n HI Hn He (bk_for f n)); reflexivity. Qed.

  Lemma linv_scale f n : linv f -> (n =? 0)%N = false -> loop_exceeded v lim f n = false -> linv (f_scale v f n).
  Proof. intros HI Hn He. apply not_exceeded in He. apply (linv_mul f _ n HI Hn He (bk_scale f n)); reflexivity. Qed.

  Lemma linv_ext f : linv f -> linv (f_ext f).
  Proof. intros (Hb & Ht & Hs). split; [exact Hb|split; [exact Ht|exact Hs]]. Qed.
  Lemma linv_copy f : linv f -> linv (f_copy f).
  Proof. intros (Hb & Ht & _). split; [exact Hb|split; [exact Ht|exact Logic.I]]. Qed.
  Lemma linv_call f : linv f -> linv (f_call f).
  Proof. intros (Hb & Ht & _). split; [exact Hb|split; [exact Ht|exact Logic.I]]. Qed.
  Lemma linv_blk f : linv f -> linv (f_blk f).
  Proof.
    intros (Hb & Ht & _). unfold linv, sup_ok, f_blk. cbn [f_sup f_tp]. split; [exact Hb|]. split; [exact Ht|].
    unfold bkb, bk in *. cbn [b_loops b_carry f_loops f_carry fold_left]. rewrite Hb. split; [lia|]. exists 1%N. lia.
  Qed.
  Lemma linv_sup_set f u : linv f -> u = SupNone \/ u = SupHere -> linv (f_sup_set f u).
  Proof. intros (Hb & Ht & _) [->| ->]; (split; [exact Hb|split; [exact Ht|exact Logic.I]]). Qed.
  Lemma linv_freeze f b : linv f -> linv (f_freeze f b).
  Proof. intros (Hb & Ht & Hs). split; [exact Hb|split; [exact Ht|exact Hs]]. Qed.

  (* the parent block runs in the base context under exactly the iterations of the overriding block *)
  Lemma linv_base f b : linv f -> f_sup f = SupBase b -> linv (f_base v b f).
  Proof.
    intros (Hb & Ht & Hs) Es. unfold sup_ok in Hs. rewrite Es in Hs. destruct Hs as (H1 & k & Hk).
    unfold linv, sup_ok, f_base, bk. cbn [f_loops f_carry f_tp f_sup]. split; [|split; [exact Ht|exact Logic.I]].
    rewrite fold_mul_scale. fold (bkb b). unfold enclosing. destruct Hv as (_ & _ & _ & Hsl & _). rewrite Hsl.
    rewrite <- Hb, Hk.
    assert (Hk1 : (1 <= k)%N) by (destruct k; [rewrite N.mul_0_r in Hk; lia|lia]).
    rewrite (N.max_r 1 (bkb b)) by lia. rewrite (N.max_r 1 (bkb b * k)) by nia.
    rewrite (N.mul_comm (bkb b) k) at 1. rewrite N.div_mul by lia. rewrite N.max_r by lia. reflexivity.
  Qed.

  (* whatever the render returns - its result, or the error that escaped with the state at that point - every leaf
     execution logged so far had a true product <= L; errors dropped on the way (WARN/LAX) included *)
  Theorem run_leaf_bound chain main glob sizes :
    (1 <= L)%N ->
    match run_prog v md lim chain main glob sizes with
    | LOk s | LErr _ s => leafP s
    | LFuel => True
    end.
  Proof.
    intro H1.
    apply (run_post v md lim linv leafP leafP);
      auto using linv_ext, linv_for, linv_scale, linv_copy, linv_call, linv_blk, linv_sup_set, linv_base, linv_freeze.
    - intros f (_ & Ht & _) s HP. simpl. unfold leafP; simpl. constructor; [lia|auto].
    - intros t s HP. pose proof (m_write_frame lim t s) as Fr. unfold leafP in *.
      destruct (m_write lim t s) as [s'|e s'|]; simpl; auto; destruct Fr as (-> & _); exact HP.
    - intros x val s HP. pose proof (m_assign_frame v lim x val s) as Fr. unfold leafP in *.
      destruct (m_assign v lim x val s) as [s'|e s'|]; simpl; auto; destruct Fr as (_ & ->); exact HP.
    - intros s1 s2 HP. unfold leave_blk. destruct (cx_unblk (s_cx s1)); intro Hq; inversion Hq; subst. exact HP.
    - intros s1 s2 HP. unfold leave_blk. destruct (cx_unblk (s_cx s1)); intro Hq; inversion Hq; subst. exact HP.
    - split; [reflexivity|]. split; [simpl; lia|exact Logic.I].
    - constructor.
  Qed.
End LoopBound.

(* ------------------------------------------------------------------ C07: namespace sizes, in every mode *)
Section NsBound.
  Variables (v : variant) (md : mode) (lim : limits).
  Hypothesis Hv : is_repaired v.

  (* in every context, suspended ones included, the carry the engine holds IS the measured size of everything else
     that is alive *)
  Fixpoint chain_ok (l : list oent) : Prop :=
    match l with [] => True | o :: r => o_nsc o = outer_total r + o_anc o /\ chain_ok r end.
  Definition nsinv (c : cx) : Prop := x_nsc c = outer_total (x_outer c) + x_anc c /\ chain_ok (x_outer c).
  Definition ns_ok (p : Z * Z) : Prop := fst p = snd p /\ forall M, l_ns lim = Some M -> fst p <= M.
  Definition nsP (s : st) : Prop := Forall ns_ok (s_nslog s) /\ nsinv (s_cx s).

  Lemma nsinv_live c : nsinv c -> cx_live c = cx_size c.
  Proof. intros [Hn _]. unfold cx_live, cx_size. lia. Qed.

  Theorem run_ns_bound chain main glob sizes :
    match run_prog v md lim chain main glob sizes with
    | LOk s | LErr _ s => nsP s
    | LFuel => True
    end.
  Proof.
    destruct Hv as (_ & _ & Hr & _ & Hsn).
    apply (run_post v md lim (fun _ => True) nsP nsP); auto.
    - intros f _ s HP. exact HP.
    - intros t s HP. pose proof (m_write_frame lim t s) as Fr. unfold nsP in *.
      destruct (m_write lim t s) as [s'|e s'|]; simpl; auto; destruct Fr as (_ & -> & -> & _); exact HP.
    - intros x val s [HP HI]. unfold m_assign. destruct (s_sizes s) as [|z rest]; [exact Logic.I|].
      rewrite (ns_limit_repaired v lim Hv). rewrite Hr.
      set (c' := cx_locals (s_cx s) (lset x (val, z) (x_locals (s_cx s)))).
      assert (HI' : nsinv c') by (destruct HI as [Ha Hb]; split; [exact Ha|exact Hb]).
      pose proof (nsinv_live c' HI') as Hlive.
      destruct (l_ns lim) as [M|] eqn:EM.
      + destruct (_ >? _) eqn:E0; simpl; [split; [exact HP|exact HI]|]. split; [|exact HI']. cbn [s_nslog]. constructor; [|exact HP].
        split; cbn [fst snd]; [exact Hlive|]. intros M' HM'. rewrite EM in HM'. inversion HM'; subst. lia.
      + simpl. split; [|exact HI']. cbn [s_nslog]. constructor; [|exact HP].
        split; cbn [fst snd]; [exact Hlive|]. intros M' HM'. rewrite EM in HM'. discriminate.
    - (* isolated copy *) intros s [HP [Ha Hb]]. split; [exact HP|]. unfold nsinv, cx_copy, cx_size, cx_live; simpl. split; [lia|exact Logic.I].
    - intros s s1 [HP HI] [HP1 HI1]. split; assumption.
    - intros s s1 [HP HI] [HP1 HI1]. split; assumption.
    - (* block-scoped copy *) intros s [HP [Ha Hb]]. split; [exact HP|]. unfold nsinv, cx_blk, cx_size; simpl. split; [lia|]. split; [exact Ha|exact Hb].
    - intros s1 s2 [HP [Ha Hb]]. unfold leave_blk, cx_unblk. destruct (x_outer (s_cx s1)) as [|o rest] eqn:Eo; intro Hq; inversion Hq; subst.
      split; [exact HP|]. simpl in Hb. destruct Hb as [Hb1 Hb2]. split; simpl; assumption.
    - intros s1 s2 [HP [Ha Hb]]. unfold leave_blk, cx_unblk. destruct (x_outer (s_cx s1)) as [|o rest] eqn:Eo; intro Hq; inversion Hq; subst.
      split; [exact HP|]. simpl in Hb. destruct Hb as [Hb1 Hb2]. split; simpl; assumption.
    - (* block.super: the base context resumes *) intros s cb [HP [Ha Hb]]. unfold cx_base. destruct (x_outer (s_cx s)) as [|o rest] eqn:Eo; intro Hq; inversion Hq; subst.
      split; [exact HP|]. simpl in Hb. destruct Hb as [Hb1 Hb2]. rewrite Hsn. split; simpl; [lia|exact Hb2].
    - (* ... and is suspended again *) intros s cb s1 [HP [Ha Hb]] Hq [HP1 _]. split; [exact HP1|].
      unfold cx_base in Hq. unfold cx_back. destruct (x_outer (s_cx s)) as [|o rest] eqn:Eo; [discriminate|].
      simpl in Hb. destruct Hb as [Hb1 Hb2]. rewrite Hsn. split; simpl; [lia|]. split; [exact Hb1|exact Hb2].
    - intros s cb s1 [HP [Ha Hb]] Hq [HP1 _]. split; [exact HP1|].
      unfold cx_base in Hq. unfold cx_back. destruct (x_outer (s_cx s)) as [|o rest] eqn:Eo; [discriminate|].
      simpl in Hb. destruct Hb as [Hb1 Hb2]. rewrite Hsn. split; simpl; [lia|]. split; [exact Hb1|exact Hb2].
    - split; [constructor|]. split; simpl; [reflexivity|exact Logic.I].
  Qed.
End NsBound.

(* ------------------------------------------------------------------ C07: output bytes, in every mode *)
Section OutBound.
  Variables (v : variant) (md : mode) (lim : limits).

  (* every limited buffer, at every moment: the text holds at most `size` bytes and at most its own limit
     (output_stream_limit - carried size; nothing at all if that is negative).  Refused writes (dropped in
     WARN/LAX mode) grow the size, never the text: the limit is checked BEFORE the text is written. *)
  Definition bufinv (b : buf) : Prop :=
    match b with
    | BNull => True
    | BLim base size rt =>
        utf8_bytes rt <= size /\ 0 <= base /\ forall L, l_out lim = Some L -> utf8_bytes rt <= Z.max 0 (L - base)
    end.
  Definition bufP (s : st) : Prop := bufinv (s_buf s).
  (* the size a block's buffer had when it was last seen *)
  Definition bsz_ok (f : frame) : Prop := match f_bsz f with Some z => 0 <= z | None => True end.

  Lemma bufinv_size b : bufinv b -> 0 <= cur_size b.
  Proof. destruct b as [|base size rt]; simpl; [lia|]. intros (Hs & _). pose proof (utf8_bytes_nonneg rt). lia. Qed.

  Lemma bufinv_fresh base : 0 <= base -> bufinv (BLim base 0 []).
  Proof. intro Hb. simpl. repeat split; try lia. Qed.

  Lemma buf_write_inv b t : bufinv b -> bufinv (snd (buf_write (l_out lim) b t)).
  Proof.
    intros Hb. unfold buf_write. destruct t as [|c t]; [exact Hb|].
    destruct b as [|base size rt]; [exact Logic.I|].
    destruct Hb as (Hs & Hbase & Hl). pose proof (utf8_bytes_nonneg (c :: t)) as Hn.
    destruct (l_out lim) as [L|] eqn:EL.
    - destruct (_ >? _) eqn:E0; cbn [snd bufinv].
      + repeat split; try lia. intros L' HL'. rewrite EL in HL'. inversion HL'; subst. apply Hl. reflexivity.
      + rewrite utf8_bytes_rev_append. repeat split; try lia. intros L' HL'. rewrite EL in HL'. inversion HL'; subst. lia.
    - cbn [snd bufinv]. rewrite utf8_bytes_rev_append. repeat split; try lia. intros L' HL'. rewrite EL in HL'. discriminate.
  Qed.

  Theorem run_out_inv chain main glob sizes :
    match run_prog v md lim chain main glob sizes with
    | LOk s | LErr _ s => bufP s
    | LFuel => True
    end.
  Proof.
    apply (run_post v md lim bsz_ok bufP bufP); auto.
    1-5: (intros; exact Logic.I).
    - (* freeze *) intros f s HI HP. unfold bsz_ok, f_freeze in *. cbn [f_bsz]. destruct (f_bsz f); [exact HI|]. apply bufinv_size. exact HP.
    - intros f _ s HP. exact HP.
    - intros t s HP. unfold m_write. pose proof (buf_write_inv (s_buf s) t HP) as Hw.
      destruct (buf_write (l_out lim) (s_buf s) t) as [[|] b]; simpl in *; exact Hw.
    - intros x val s HP. pose proof (m_assign_frame v lim x val s) as Fr. unfold bufP in *.
      destruct (m_assign v lim x val s) as [s'|e s'|]; simpl; auto; destruct Fr as (-> & _); exact HP.
    - intros s HP. exact Logic.I.
    - intros s HP. unfold bufP; simpl. apply bufinv_fresh. apply bufinv_size. exact HP.
    - intros f s HI HP. unfold bufP, sup_buf; simpl. apply bufinv_fresh. unfold bsz_ok in HI. destruct (f_bsz f); [exact HI|]. apply bufinv_size. exact HP.
    - intros s1 s2 HP. unfold leave_blk. destruct (cx_unblk (s_cx s1)); intro Hq; inversion Hq; subst. exact HP.
    - intros s1 s2 HP. unfold leave_blk. destruct (cx_unblk (s_cx s1)); intro Hq; inversion Hq; subst. exact HP.
    - exact Logic.I.
    - unfold bufP; simpl. repeat split; try lia.
  Qed.

  (* C07, first clause, for EVERY completed render whatever the mode *)
  Theorem run_out_bound chain main glob sizes s L :
    l_out lim = Some L -> 0 <= L -> run_prog v md lim chain main glob sizes = LOk s -> utf8_bytes (buf_text (s_buf s)) <= L.
  Proof.
    intros HL H0 Hr. pose proof (run_out_inv chain main glob sizes) as Hi. rewrite Hr in Hi.
    unfold bufP in Hi. destruct (s_buf s) as [|base size rt]; simpl; [exact H0|].
    destruct Hi as (Hs & Hbase & Hl). rewrite utf8_bytes_rev. specialize (Hl L HL). lia.
  Qed.
End OutBound.

(* in STRICT mode a completed render moreover has size = bytes written <= own limit in every buffer *)
Section OutStrict.
  Variables (v : variant) (lim : limits).
  Hypothesis Hpos : forall L, l_out lim = Some L -> 0 <= L.

  Definition bufinv_strict (b : buf) : Prop :=
    match b with
    | BNull => True
    | BLim base size rt => utf8_bytes rt = size /\ 0 <= base /\ forall L, l_out lim = Some L -> size <= L - base
    end.
  Definition bufP_strict (s : st) : Prop := bufinv_strict (s_buf s).
  Definition bsz_strict (f : frame) : Prop :=
    match f_bsz f with Some z => 0 <= z /\ forall L, l_out lim = Some L -> z <= L | None => True end.

  Lemma bufinv_strict_size b : bufinv_strict b -> 0 <= cur_size b /\ forall L, l_out lim = Some L -> cur_size b <= L.
  Proof.
    destruct b as [|base size rt]; simpl.
    - intros _. split; [lia|]. intros L HL. apply (Hpos L HL).
    - intros (Hs & Hb & Hl). pose proof (utf8_bytes_nonneg rt). split; [lia|]. intros L HL. specialize (Hl L HL). lia.
  Qed.

  Lemma bufinv_strict_fresh base : 0 <= base -> (forall L, l_out lim = Some L -> base <= L) -> bufinv_strict (BLim base 0 []).
  Proof. intros Hb Hl. simpl. repeat split; try lia. intros L HL. specialize (Hl L HL). lia. Qed.

  Theorem run_out_inv_strict chain main glob sizes s : run_prog v Strict lim chain main glob sizes = LOk s -> bufP_strict s.
  Proof.
    intro Hr.
    pose proof (run_post v Strict lim bsz_strict bufP_strict (fun _ => True)) as R.
    unfold post in R.
    specialize (fun a1 a2 a3 a4 a5 a6 a7 a8 a9 a10 a11 a12 a13 a14 a15 a16 a17 a18 a19 a20 a21 a22 a23 a24 a25 a26 a27 a28 a29 =>
                  R a1 a2 a3 a4 a5 a6 a7 a8 a9 a10 a11 a12 a13 a14 a15 a16 a17 a18 a19 a20 a21 a22 a23 a24 a25 a26 a27 a28 a29 chain main glob sizes).
    rewrite Hr in R. apply R; auto; try discriminate.
    1-5: (intros; exact Logic.I).
    - (* freeze *) intros f s0 HI HP. unfold bsz_strict, f_freeze in *. cbn [f_bsz]. destruct (f_bsz f); [exact HI|]. apply bufinv_strict_size. exact HP.
    - intros f _ s0 HP. exact HP.
    - intros t s0 HP. unfold m_write, buf_write. destruct t as [|c t]; [exact HP|].
      unfold bufP_strict in *. destruct (s_buf s0) as [|base size rt]; [exact Logic.I|].
      destruct HP as (Hs & Hbase & Hl).
      destruct (l_out lim) as [L|] eqn:EL.
      + destruct (_ >? _) eqn:E0; simpl; [exact Logic.I|]. rewrite utf8_bytes_rev_append. simpl. repeat split; try lia.
        intros L' HL'. rewrite ?EL in HL'. inversion HL'; subst. simpl in E0. lia.
      + simpl. rewrite utf8_bytes_rev_append. simpl. repeat split; try lia. intros L' HL'. rewrite ?EL in HL'. discriminate.
    - intros x val s0 HP. pose proof (m_assign_frame v lim x val s0) as Fr. unfold bufP_strict in *.
      destruct (m_assign v lim x val s0) as [s'|e s'|]; simpl; auto; destruct Fr as (-> & _); exact HP.
    - intros s0 HP. exact Logic.I.
    - intros s0 HP. unfold bufP_strict; simpl. destruct (bufinv_strict_size _ HP). apply bufinv_strict_fresh; assumption.
    - intros f s0 HI HP. unfold bufP_strict, sup_buf; simpl. unfold bsz_strict in HI.
      destruct (f_bsz f); [destruct HI; apply bufinv_strict_fresh; assumption|].
      destruct (bufinv_strict_size _ HP). apply bufinv_strict_fresh; assumption.
    - intros s1 s2 HP. unfold leave_blk. destruct (cx_unblk (s_cx s1)); intro Hq; inversion Hq; subst. exact HP.
    - exact Logic.I.
    - unfold bufP_strict; simpl. repeat split; try lia. intros L HL. specialize (Hpos L HL). lia.
  Qed.
End OutStrict.

(* ------------------------------------------------------------------ the same, read off a completed render *)
Corollary run_leaf_bound_ok v md lim L : is_repaired v -> l_loop lim = Some L -> forall chain main glob sizes s,
  (1 <= L)%N -> run_prog v md lim chain main glob sizes = LOk s -> leafP L s.
Proof. intros Hv HL chain main glob sizes s H1 Hr. pose proof (run_leaf_bound v md lim L Hv HL chain main glob sizes H1) as R. rewrite Hr in R. exact R. Qed.

Corollary run_ns_bound_ok v md lim : is_repaired v -> forall chain main glob sizes s,
  run_prog v md lim chain main glob sizes = LOk s -> Forall (ns_ok lim) (s_nslog s).
Proof. intros Hv chain main glob sizes s Hr. pose proof (run_ns_bound v md lim Hv chain main glob sizes) as R. rewrite Hr in R. exact (proj1 R). Qed.

Corollary run_out_inv_ok v md lim chain main glob sizes s : run_prog v md lim chain main glob sizes = LOk s -> bufP lim s.
Proof. intros Hr. pose proof (run_out_inv v md lim chain main glob sizes) as R. rewrite Hr in R. exact R. Qed.
