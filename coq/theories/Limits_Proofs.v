(* Limits_Proofs.v — part 1: structure lemmas, the generic preservation theorem, and the unary invariants
   (C06 bound, C07 output bound, C07 namespace bound).  Part 2 (Limits_Sim_Proofs.v) has the static
   characterisation of the loop limit and the two-run simulation (C08). *)
From Coq Require Import ZArith NArith List Bool Lia ZifyBool.
From LiquidVerif Require Import Prelude PyPrims Limits.
Import ListNotations.
Local Open Scope Z_scope.

(* ------------------------------------------------------------------ induction over nests *)
Section NodeInd.
  Variables (P : node -> Prop) (Q : list node -> Prop).
  Hypotheses
    (HText : forall t, P (Text t)) (HEcho : forall x, P (Echo x)) (HAssign : forall x t, P (Assign x t))
    (HCapture : forall x b, Q b -> P (Capture x b)) (HIfChanged : forall b, Q b -> P (IfChanged b))
    (HFor : forall n b, Q b -> P (For n b)) (HTablerow : forall n b, Q b -> P (Tablerow n b))
    (HInclude : forall b, Q b -> P (Include b)) (HIncludeArr : forall n b, Q b -> P (IncludeArr n b))
    (HRender : forall b, Q b -> P (Render b)) (HRenderFor : forall n b, Q b -> P (RenderFor n b))
    (HCall : forall b, Q b -> P (Call b))
    (HNil : Q []) (HCons : forall x r, P x -> Q r -> Q (x :: r)).

  Fixpoint node_ind' (nd : node) : P nd :=
    let fix go (l : list node) : Q l :=
      match l with [] => HNil | x :: r => HCons x r (node_ind' x) (go r) end in
    match nd with
    | Text t => HText t | Echo x => HEcho x | Assign x t => HAssign x t
    | Capture x b => HCapture x b (go b) | IfChanged b => HIfChanged b (go b)
    | For n b => HFor n b (go b) | Tablerow n b => HTablerow n b (go b)
    | Include b => HInclude b (go b) | IncludeArr n b => HIncludeArr n b (go b)
    | Render b => HRender b (go b) | RenderFor n b => HRenderFor n b (go b)
    | Call b => HCall b (go b)
    end.

  Fixpoint list_node_ind' (l : list node) : Q l :=
    match l with [] => HNil | x :: r => HCons x r (node_ind' x) (list_node_ind' r) end.
End NodeInd.

(* ------------------------------------------------------------------ unfolding *)
Lemma exec_eq v lim nd f :
  exec v lim nd f =
  match nd with
  | Text t => seq (m_leaf (f_tp f)) (m_write lim t)
  | Echo x => fun s => m_write lim (lget x (s_locals s)) s
  | Assign x t => m_assign v lim f x t
  | Capture x body => in_child (block v lim body f) (fun val => m_assign v lim f x val)
  | IfChanged body => in_child (block v lim body f) (m_ifchanged lim)
  | For n body =>
      if (n =? 0)%N then ret
      else seq (guard (loop_exceeded v lim f n) XLoop)
          (seq (guard (depth_exceeded lim f) XDepth)
               (iter 1 (N.to_nat n) (fun _ => block v lim body (f_for f n))))
  | Tablerow n body =>
      seq (guard (loop_exceeded v lim f n) XLoop)
     (seq (m_write lim tr_open)
     (seq (guard (depth_exceeded lim f) XDepth)
     (seq (iter 1 (N.to_nat n) (fun k => seq (m_write lim (td_open k)) (seq (block v lim body (f_scale v (f_ext f) n)) (m_write lim td_close))))
          (m_write lim tr_close))))
  | Include body =>
      seq (guard (f_no_include f) XDisabled)
     (seq (guard (nest_exceeded lim body) XNesting)
     (seq (guard (depth_exceeded lim f) XDepth)
          (partial v lim body (f_ext f))))
  | IncludeArr n body =>
      seq (guard (f_no_include f) XDisabled)
     (seq (guard (nest_exceeded lim body) XNesting)
     (seq (guard (depth_exceeded lim f) XDepth)
     (seq (guard (loop_exceeded v lim (f_ext f) n) XLoop)
          (iter 1 (N.to_nat n) (fun _ => partial v lim body (f_scale v (f_ext f) n))))))
  | Render body =>
      seq (guard (nest_exceeded lim body) XNesting)
     (seq (guard (copy_exceeded lim f) XDepth)
          (fun s => in_ctx (partial v lim body (f_copy f (sum_sizes (s_locals s)))) s))
  | RenderFor n body =>
      seq (guard (nest_exceeded lim body) XNesting)
     (seq (guard (copy_exceeded lim f) XDepth)
          (fun s => let fc := f_copy f (sum_sizes (s_locals s)) in
                    seq (guard (loop_exceeded v lim fc n) XLoop)
                        (if v_item v
                         then iter 1 (N.to_nat n) (fun _ => in_ctx (partial v lim body (f_scale v fc n)))
                         else in_ctx (iter 1 (N.to_nat n) (fun _ => partial v lim body (f_scale v fc n)))) s))
  | Call body =>
      seq (guard (copy_exceeded lim f) XDepth)
          (fun s => in_ctx (block v lim body (f_copy f (sum_sizes (s_locals s)))) s)
  end.
Proof. destruct nd; reflexivity. Qed.

Lemma exec_list_cons v lim x r f : exec_list v lim (x :: r) f = seq (exec v lim x f) (exec_list v lim r f).
Proof. reflexivity. Qed.

(* ------------------------------------------------------------------ inversion of the combinators *)
Lemma seq_ok (a b : M) s s' : seq a b s = LOk s' -> exists s1, a s = LOk s1 /\ b s1 = LOk s'.
Proof. unfold seq. destruct (a s) as [s1| |]; try discriminate. eauto. Qed.

Lemma guard_ok b e s s' : guard b e s = LOk s' -> b = false /\ s' = s.
Proof. unfold guard. destruct b; intro H; inversion H; auto. Qed.

Lemma in_null_ok (m : M) s s' : in_null m s = LOk s' -> exists s1, m (set_buf s BNull) = LOk s1 /\ s' = set_buf s1 (s_buf s).
Proof. unfold in_null. destruct (m _) as [s1| |]; intro H; inversion H. eauto. Qed.

Lemma in_child_ok (m : M) k s s' :
  in_child m k s = LOk s' ->
  exists s1, m (set_buf s (child_of (s_buf s))) = LOk s1 /\ k (buf_text (s_buf s1)) (set_buf s1 (s_buf s)) = LOk s'.
Proof. unfold in_child. destruct (m _) as [s1| |]; intro H; try discriminate. eauto. Qed.

Lemma in_ctx_ok (m : M) s s' :
  in_ctx m s = LOk s' -> exists s1, m (set_mut s [] []) = LOk s1 /\ s' = set_mut s1 (s_locals s) (s_ifch s).
Proof. unfold in_ctx. destruct (m _) as [s1| |]; intro H; inversion H. eauto. Qed.

Lemma iter_preserves (P : st -> Prop) (body : Z -> M) :
  (forall k s s', P s -> body k s = LOk s' -> P s') ->
  forall n k s s', P s -> iter k n body s = LOk s' -> P s'.
Proof.
  intros Hb. induction n as [|n IH]; intros k s s' HP H; simpl in H.
  - unfold ret in H. inversion H; subst; auto.
  - apply seq_ok in H. destruct H as (s1 & H1 & H2). eauto.
Qed.

Lemma iter_first (body : Z -> M) n k s s' :
  iter k (S n) body s = LOk s' -> exists s1, body k s = LOk s1.
Proof. simpl. intro H. apply seq_ok in H. destruct H as (s1 & H1 & _). eauto. Qed.

(* ------------------------------------------------------------------ generic preservation *)
(* A frame invariant I (re-established by every construct for the frame it passes down) and a state
   invariant P (kept by the primitive steps and by the buffer / namespace swaps) are kept by exec. *)
Section Preserve.
  Variables (v : variant) (lim : limits).
  Variable I : frame -> Prop.
  Variable P : st -> Prop.
  Hypothesis I_ext : forall f, I f -> I (f_ext f).
  Hypothesis I_for : forall f n, I f -> loop_exceeded v lim f n = false -> I (f_for f n).
  Hypothesis I_scale : forall f n, I f -> loop_exceeded v lim f n = false -> I (f_scale v f n).
  Hypothesis I_copy : forall f z, I f -> I (f_copy f z).
  Hypothesis P_leaf : forall f s s', I f -> P s -> m_leaf (f_tp f) s = LOk s' -> P s'.
  Hypothesis P_write : forall t s s', P s -> m_write lim t s = LOk s' -> P s'.
  Hypothesis P_assign : forall f x val s s', I f -> P s -> m_assign v lim f x val s = LOk s' -> P s'.
  Hypothesis P_null : forall s, P s -> P (set_buf s BNull).
  Hypothesis P_child : forall s, P s -> P (set_buf s (child_of (s_buf s))).
  Hypothesis P_restore : forall s s1, P s -> P s1 -> P (set_buf s1 (s_buf s)).
  Hypothesis P_mut : forall s l i, P s -> P (set_mut s l i).

  Definition keeps (m : frame -> M) : Prop := forall f s s', I f -> P s -> m f s = LOk s' -> P s'.

  Lemma P_ifchanged val s s' : P s -> m_ifchanged lim val s = LOk s' -> P s'.
  Proof.
    unfold m_ifchanged. destruct (str_eqb val (s_ifch s)); intros HP H.
    - inversion H; subst; auto.
    - eapply P_write; [|exact H]. apply P_mut; auto.
  Qed.

  Lemma keeps_block body : keeps (exec_list v lim body) -> keeps (block v lim body).
  Proof.
    intros Hl f s s' HI HP H. unfold block in H. destruct (blank_list body).
    - apply in_null_ok in H. destruct H as (s1 & H1 & ->).
      apply P_restore; auto. eapply Hl; [exact HI| |exact H1]. auto.
    - eapply Hl; eauto.
  Qed.

  Lemma keeps_partial body : keeps (exec_list v lim body) -> keeps (partial v lim body).
  Proof.
    intros Hl f s s' HI HP H. unfold partial in H.
    apply seq_ok in H. destruct H as (s1 & H1 & H2). apply guard_ok in H1. destruct H1 as [_ ->].
    eapply Hl; [apply I_ext; exact HI|exact HP|exact H2].
  Qed.

  Lemma loop_exceeded_ext f n : loop_exceeded v lim (f_ext f) n = loop_exceeded v lim f n.
  Proof. reflexivity. Qed.

  Ltac step H :=
    let s1 := fresh "s" in let H1 := fresh "H" in
    apply seq_ok in H; destruct H as (s1 & H1 & H).
  Ltac gstep H :=
    let s1 := fresh "s" in let H1 := fresh "G" in
    apply seq_ok in H; destruct H as (s1 & H1 & H); apply guard_ok in H1; destruct H1 as [H1 ->].

  Theorem exec_keeps : forall nd, keeps (exec v lim nd).
  Proof.
    apply (node_ind' (fun nd => keeps (exec v lim nd)) (fun l => keeps (exec_list v lim l)));
      unfold keeps.
    - (* Text *) intros t f s s' HI HP H. rewrite exec_eq in H. step H. eapply P_write; [|exact H]. eapply P_leaf; eauto.
    - (* Echo *) intros x f s s' HI HP H. rewrite exec_eq in H. eapply P_write; eauto.
    - (* Assign *) intros x t f s s' HI HP H. rewrite exec_eq in H. eapply P_assign; eauto.
    - (* Capture *) intros x b IH f s s' HI HP H. rewrite exec_eq in H.
      apply in_child_ok in H. destruct H as (s1 & H1 & H2).
      eapply P_assign; [exact HI| |exact H2]. apply P_restore; auto.
      eapply (keeps_block b IH); [exact HI| |exact H1]. auto.
    - (* IfChanged *) intros b IH f s s' HI HP H. rewrite exec_eq in H.
      apply in_child_ok in H. destruct H as (s1 & H1 & H2).
      eapply P_ifchanged; [|exact H2]. apply P_restore; auto.
      eapply (keeps_block b IH); [exact HI| |exact H1]. auto.
    - (* For *) intros n b IH f s s' HI HP H. rewrite exec_eq in H.
      destruct (n =? 0)%N. { inversion H; subst; auto. }
      gstep H. gstep H.
      eapply iter_preserves; [|exact HP|exact H].
      intros k s1 s2 HP1 Hb. eapply (keeps_block b IH); [|exact HP1|exact Hb]. auto.
    - (* Tablerow *) intros n b IH f s s' HI HP H. rewrite exec_eq in H.
      gstep H. step H. gstep H. step H.
      eapply P_write; [|exact H].
      eapply iter_preserves; [| |exact H1]; [|eapply P_write; eauto].
      intros k s3 s4 HP3 Hb. step Hb. step Hb.
      eapply P_write; [|exact Hb].
      eapply (keeps_block b IH); [| |exact H3]; [|eapply P_write; eauto].
      apply I_scale; auto.
    - (* Include *) intros b IH f s s' HI HP H. rewrite exec_eq in H.
      gstep H. gstep H. gstep H.
      eapply (keeps_partial b IH); [|exact HP|exact H]. auto.
    - (* IncludeArr *) intros n b IH f s s' HI HP H. rewrite exec_eq in H.
      gstep H. gstep H. gstep H. gstep H.
      eapply iter_preserves; [|exact HP|exact H].
      intros k s1 s2 HP1 Hb. eapply (keeps_partial b IH); [|exact HP1|exact Hb].
      apply I_scale; auto.
    - (* Render *) intros b IH f s s' HI HP H. rewrite exec_eq in H.
      gstep H. gstep H.
      apply in_ctx_ok in H. destruct H as (s1 & H1 & ->).
      apply P_mut. eapply (keeps_partial b IH); [| |exact H1]; auto.
    - (* RenderFor *) intros n b IH f s s' HI HP H. rewrite exec_eq in H.
      gstep H. gstep H. cbv zeta in H. gstep H.
      destruct (v_item v).
      + eapply iter_preserves; [|exact HP|exact H].
        intros k s3 s4 HP3 Hb. apply in_ctx_ok in Hb. destruct Hb as (s5 & H5 & ->).
        apply P_mut. eapply (keeps_partial b IH); [| |exact H5]; [|apply P_mut; exact HP3].
        apply I_scale; auto.
      + apply in_ctx_ok in H. destruct H as (s1 & H1 & ->).
        apply P_mut. eapply iter_preserves; [| |exact H1]; [|apply P_mut; exact HP].
        intros k s3 s4 HP3 Hb. eapply (keeps_partial b IH); [|exact HP3|exact Hb].
        apply I_scale; auto.
    - (* Call *) intros b IH f s s' HI HP H. rewrite exec_eq in H.
      gstep H.
      apply in_ctx_ok in H. destruct H as (s1 & H1 & ->).
      apply P_mut. eapply (keeps_block b IH); [| |exact H1]; auto.
    - (* nil *) intros f s s' HI HP H. inversion H; subst; auto.
    - (* cons *) intros x r IHx IHr f s s' HI HP H. rewrite exec_list_cons in H. step H. eauto.
  Qed.

  Corollary exec_list_keeps : forall l, keeps (exec_list v lim l).
  Proof.
    induction l as [|x r IH]; intros f s s' HI HP H.
    - inversion H; subst; auto.
    - rewrite exec_list_cons in H. step H. eapply IH; [exact HI| |exact H]. eapply exec_keeps; eauto.
  Qed.

  Corollary partial_keeps : forall l, keeps (partial v lim l).
  Proof. intro l. apply keeps_partial, exec_list_keeps. Qed.
End Preserve.

(* ------------------------------------------------------------------ arithmetic helpers *)
Lemma fold_mul_scale l a b : fold_left N.mul l (a * b)%N = (fold_left N.mul l a * b)%N.
Proof.
  revert a. induction l as [|x l IH]; intro a; simpl; [reflexivity|].
  replace (a * b * x)%N with (a * x * b)%N by lia. apply IH.
Qed.

(* the two repairs, whichever way render-for makes its contexts *)
Definition is_repaired (v : variant) : Prop := v_carry v = true /\ v_zero v = true.
Lemma repaired_is_repaired : is_repaired repaired.
Proof. split; reflexivity. Qed.

Lemma loop_limit_repaired v lim : is_repaired v -> loop_limit v lim = l_loop lim.
Proof. intros [_ Hz]. unfold loop_limit. rewrite Hz. destruct (l_loop lim) as [[|p]|]; reflexivity. Qed.

Lemma ns_limit_repaired v lim : is_repaired v -> ns_limit v lim = l_ns lim.
Proof. intros [_ Hz]. unfold ns_limit. rewrite Hz. destruct (l_ns lim) as [[|p|p]|]; reflexivity. Qed.

Lemma utf8_len_pos c : 1 <= utf8_len c <= 4.
Proof. unfold utf8_len. repeat match goal with |- context [if ?b then _ else _] => destruct b end; lia. Qed.

Lemma utf8_bytes_nonneg s : 0 <= utf8_bytes s.
Proof. induction s as [|c s IH]; simpl; [lia|]. pose proof (utf8_len_pos c). lia. Qed.

Lemma utf8_bytes_app a b : utf8_bytes (a ++ b) = utf8_bytes a + utf8_bytes b.
Proof. induction a as [|c a IH]; simpl; lia. Qed.

Lemma utf8_bytes_rev a : utf8_bytes (rev a) = utf8_bytes a.
Proof. induction a as [|c a IH]; simpl; [reflexivity|]. rewrite utf8_bytes_app. simpl. lia. Qed.

Lemma utf8_bytes_rev_append a b : utf8_bytes (rev_append a b) = utf8_bytes a + utf8_bytes b.
Proof. rewrite rev_append_rev, utf8_bytes_app, utf8_bytes_rev. reflexivity. Qed.

Lemma m_write_logs lim t s s' : m_write lim t s = LOk s' ->
  s_leaf s' = s_leaf s /\ s_nslog s' = s_nslog s /\ s_locals s' = s_locals s /\ s_sizes s' = s_sizes s /\ s_ifch s' = s_ifch s.
Proof. unfold m_write. destruct (buf_write _ _ _); intro H; inversion H; subst; simpl; auto. Qed.

(* ------------------------------------------------------------------ C06: the loop limit bounds the true product *)
(* bookkeeping product: what raise_for_loop_limit multiplies *)
Definition bk (f : frame) : N := fold_left N.mul (f_loops f) (f_carry f).

Section LoopBound.
  Variables (v : variant) (lim : limits) (L : N).
  Hypothesis Hv : is_repaired v.
  Hypothesis HL : l_loop lim = Some L.

  (* the bookkeeping product IS the true product, and it is within the limit *)
  Definition linv (f : frame) : Prop := bk f = f_tp f /\ (f_tp f <= L)%N.
  Definition leafP (s : st) : Prop := Forall (fun p => (p <= L)%N) (s_leaf s).

  Lemma not_exceeded f n : loop_exceeded v lim f n = false -> (bk f * n <= L)%N.
  Proof.
    unfold loop_exceeded. rewrite (loop_limit_repaired v lim Hv), HL. intro H.
    replace (n * f_carry f)%N with (f_carry f * n)%N in H by lia. rewrite fold_mul_scale in H. unfold bk. lia.
  Qed.

  Lemma linv_for f n : linv f -> loop_exceeded v lim f n = false -> linv (f_for f n).
  Proof.
    intros [Hb Ht] He. apply not_exceeded in He. unfold linv, bk, f_for; simpl.
    rewrite fold_mul_scale. fold (bk f). rewrite Hb in *. split; [reflexivity|lia].
  Qed.

  Lemma linv_scale f n : linv f -> loop_exceeded v lim f n = false -> linv (f_scale v f n).
  Proof.
    intros [Hb Ht] He. apply not_exceeded in He. unfold linv, bk, f_scale; simpl.
    destruct Hv as [Hc _]. rewrite Hc. rewrite fold_mul_scale. fold (bk f). rewrite Hb in *. split; [reflexivity|lia].
  Qed.

  Theorem exec_leaf_bound nd f s s' :
    linv f -> leafP s -> exec v lim nd f s = LOk s' -> leafP s'.
  Proof.
    apply (exec_keeps v lim linv leafP).
    - intros f0 [? ?]; split; auto.
    - exact linv_for.
    - exact linv_scale.
    - intros f0 z [? ?]; split; auto.
    - intros f0 s0 s0' [_ Ht] HP H. inversion H; subst. unfold leafP; simpl. constructor; auto.
    - intros t s0 s0' HP H. apply m_write_logs in H. unfold leafP. destruct H as (-> & _). exact HP.
    - intros f0 x val s0 s0' _ HP H. unfold m_assign in H. destruct (s_sizes s0); [discriminate|].
      destruct (ns_limit v lim); [destruct (_ >? _); [discriminate|]|]; inversion H; subst; exact HP.
    - intros s0 HP; exact HP.
    - intros s0 HP; exact HP.
    - intros s0 s1 _ HP; exact HP.
    - intros s0 l i HP; exact HP.
  Qed.

  Theorem run_leaf_bound main sizes s :
    (1 <= L)%N -> run_prog v lim main sizes = LOk s -> leafP s.
  Proof.
    intros H1 H. unfold run_prog in H. destruct (nest_exceeded lim main); [discriminate|].
    eapply (partial_keeps v lim linv leafP); [..|exact H].
    - intros f0 [? ?]; split; auto.
    - exact linv_for.
    - exact linv_scale.
    - intros f0 z [? ?]; split; auto.
    - intros f0 s0 s0' [_ Ht] HP H0. inversion H0; subst. unfold leafP; simpl. constructor; auto.
    - intros t s0 s0' HP H0. apply m_write_logs in H0. unfold leafP. destruct H0 as (-> & _). exact HP.
    - intros f0 x val s0 s0' _ HP H0. unfold m_assign in H0. destruct (s_sizes s0); [discriminate|].
      destruct (ns_limit v lim); [destruct (_ >? _); [discriminate|]|]; inversion H0; subst; exact HP.
    - intros s0 HP; exact HP.
    - intros s0 HP; exact HP.
    - intros s0 s1 _ HP; exact HP.
    - intros s0 l i HP; exact HP.
    - split; [reflexivity|exact H1].
    - constructor.
  Qed.
End LoopBound.

(* ------------------------------------------------------------------ C07: namespace sizes *)
Section NsBound.
  Variables (v : variant) (lim : limits).
  Hypothesis Hv : is_repaired v.

  (* the carried size IS the measured size of the ancestors' namespaces *)
  Definition ninv (f : frame) : Prop := f_ns_carry f = f_anc f.
  Definition ns_ok (p : Z * Z) : Prop := fst p = snd p /\ forall M, l_ns lim = Some M -> fst p <= M.
  Definition nsP (s : st) : Prop := Forall ns_ok (s_nslog s).

  Lemma ns_obligations :
    (forall f, ninv f -> ninv (f_ext f)) /\
    (forall f n, ninv f -> loop_exceeded v lim f n = false -> ninv (f_for f n)) /\
    (forall f n, ninv f -> loop_exceeded v lim f n = false -> ninv (f_scale v f n)) /\
    (forall f z, ninv f -> ninv (f_copy f z)) /\
    (forall f s s', ninv f -> nsP s -> m_leaf (f_tp f) s = LOk s' -> nsP s') /\
    (forall t s s', nsP s -> m_write lim t s = LOk s' -> nsP s') /\
    (forall f x val s s', ninv f -> nsP s -> m_assign v lim f x val s = LOk s' -> nsP s').
  Proof.
    repeat split.
    - intros f H; exact H.
    - intros f n H _; exact H.
    - intros f n H _; exact H.
    - intros f z H. unfold ninv in *; simpl. lia.
    - intros f s s' _ HP H. inversion H; subst. exact HP.
    - intros t s s' HP H. apply m_write_logs in H. unfold nsP. destruct H as (_ & -> & _). exact HP.
    - intros f x val s s' HI HP H. unfold m_assign in H. destruct (s_sizes s) as [|z rest]; [discriminate|].
      rewrite (ns_limit_repaired v lim Hv) in H. unfold ninv in HI.
      destruct (l_ns lim) as [M|] eqn:EM.
      + destruct (_ >? _) eqn:E; [discriminate|]. inversion H; subst. unfold nsP; cbn [s_nslog]. constructor; [|exact HP].
        split; cbn [fst snd]; [lia|]. intros M' HM'. rewrite EM in HM'. inversion HM'; subst. lia.
      + inversion H; subst. unfold nsP; cbn [s_nslog]. constructor; [|exact HP].
        split; cbn [fst snd]; [lia|]. intros M' HM'. rewrite EM in HM'. discriminate.
  Qed.

  Theorem run_ns_bound main sizes s : run_prog v lim main sizes = LOk s -> nsP s.
  Proof.
    intro H. unfold run_prog in H. destruct (nest_exceeded lim main); [discriminate|].
    destruct ns_obligations as (O1 & O2 & O3 & O4 & O5 & O6 & O7).
    eapply (partial_keeps v lim ninv nsP O1 O2 O3 O4 O5 O6 O7); [..|exact H].
    - intros s0 HP; exact HP.
    - intros s0 HP; exact HP.
    - intros s0 s1 _ HP; exact HP.
    - intros s0 l i HP; exact HP.
    - reflexivity.
    - constructor.
  Qed.
End NsBound.

(* ------------------------------------------------------------------ C07: output bytes *)
Section OutBound.
  Variables (v : variant) (lim : limits).
  Hypothesis Hpos : forall L, l_out lim = Some L -> 0 <= L.

  (* every limited buffer: size = bytes written, and size <= its own limit (= L - base) *)
  Definition bufinv (b : buf) : Prop :=
    match b with
    | BNull => True
    | BLim base size rt => utf8_bytes rt = size /\ 0 <= base /\ forall L, l_out lim = Some L -> size <= L - base
    end.
  Definition bufP (s : st) : Prop := bufinv (s_buf s).

  Lemma buf_write_inv b t b' : bufinv b -> buf_write (l_out lim) b t = Some b' -> bufinv b'.
  Proof.
    intros Hb H. unfold buf_write in H. destruct t as [|c t]; [inversion H; subst; exact Hb|].
    destruct b as [|base size rt]; [inversion H; subst; exact I|].
    destruct Hb as (Hs & Hbase & Hl).
    destruct (l_out lim) as [L|] eqn:EL.
    - destruct (_ >? _) eqn:E; [discriminate|]. inversion H; subst. simpl.
      rewrite utf8_bytes_rev_append. simpl. repeat split; try lia. intros L' HL'. rewrite EL in HL'. inversion HL'; subst. simpl in E. lia.
    - inversion H; subst. simpl. rewrite utf8_bytes_rev_append. simpl. repeat split; try lia. intros L' HL'. rewrite EL in HL'. discriminate.
  Qed.

  Theorem run_out_inv main sizes s : run_prog v lim main sizes = LOk s -> bufP s.
  Proof.
    intro H. unfold run_prog in H. destruct (nest_exceeded lim main); [discriminate|].
    eapply (partial_keeps v lim (fun _ => True) bufP); [..|exact H]; auto.
    - intros f s0 s0' _ HP H0. inversion H0; subst. exact HP.
    - intros t s0 s0' HP H0. unfold m_write in H0. destruct (buf_write _ _ _) as [b'|] eqn:E; [|discriminate].
      inversion H0; subst. unfold bufP; simpl. eapply buf_write_inv; eauto.
    - intros f x val s0 s0' _ HP H0. unfold m_assign in H0. destruct (s_sizes s0); [discriminate|].
      destruct (ns_limit v lim); [destruct (_ >? _); [discriminate|]|]; inversion H0; subst; exact HP.
    - intros s0 HP. exact I.
    - intros s0 HP. unfold bufP in *; simpl. destruct (s_buf s0) as [|base size rt]; simpl.
      + repeat split; try lia. intros L HL. specialize (Hpos L HL). lia.
      + destruct HP as (Hs & Hbase & Hl). pose proof (utf8_bytes_nonneg rt). repeat split; try lia.
        intros L HL. specialize (Hl L HL). lia.
    - unfold bufP; simpl. repeat split; try lia. intros L HL. specialize (Hpos L HL). lia.
  Qed.

  Theorem run_out_bound main sizes s L :
    l_out lim = Some L -> run_prog v lim main sizes = LOk s -> utf8_bytes (buf_text (s_buf s)) <= L.
  Proof.
    intros HL H. apply run_out_inv in H. unfold bufP in H. destruct (s_buf s) as [|base size rt]; simpl.
    - apply Hpos; exact HL.
    - destruct H as (Hs & Hbase & Hl). rewrite utf8_bytes_rev. specialize (Hl L HL). lia.
  Qed.
End OutBound.
