(* Limits_Proofs.v — part 1: structure lemmas, the generic preservation theorem, and the unary invariants
   (C06 bound, C07 output bound, C07 namespace bound).  Part 2 (Limits_Sim_Proofs.v) has the static
   characterisation of the loop limit and the two-run simulation (C08). *)
From Coq Require Import ZArith NArith List Bool Lia ZifyBool.
From LiquidVerif Require Import Prelude PyPrims Limits.
Import ListNotations.
Local Open Scope Z_scope.

(* ------------------------------------------------------------------ induction over nests *)
Section NodeInd.
  Variables (P : node -> Prop) (Q : list node -> Prop).
  Hypotheses
    (HText : forall t, P (Text t)) (HEcho : forall x, P (Echo x)) (HAssign : forall x t, P (Assign x t))
    (HCapture : forall x b, Q b -> P (Capture x b)) (HIfChanged : forall b, Q b -> P (IfChanged b))
    (HFor : forall n b, Q b -> P (For n b)) (HTablerow : forall n b, Q b -> P (Tablerow n b))
    (HInclude : forall b, Q b -> P (Include b)) (HIncludeArr : forall n b, Q b -> P (IncludeArr n b))
    (HRender : forall b, Q b -> P (Render b)) (HRenderFor : forall n b, Q b -> P (RenderFor n b))
    (HCall : forall b, Q b -> P (Call b))
    (HNil : Q []) (HCons : forall x r, P x -> Q r -> Q (x :: r)).

  Fixpoint node_ind' (nd : node) : P nd :=
    let fix go (l : list node) : Q l :=
      match l with [] => HNil | x :: r => HCons x r (node_ind' x) (go r) end in
    match nd with
    | Text t => HText t | Echo x => HEcho x | Assign x t => HAssign x t
    | Capture x b => HCapture x b (go b) | IfChanged b => HIfChanged b (go b)
    | For n b => HFor n b (go b) | Tablerow n b => HTablerow n b (go b)
    | Include b => HInclude b (go b) | IncludeArr n b => HIncludeArr n b (go b)
    | Render b => HRender b (go b) | RenderFor n b => HRenderFor n b (go b)
    | Call b => HCall b (go b)
    end.

  Fixpoint list_node_ind' (l : list node) : Q l :=
    match l with [] => HNil | x :: r => HCons x r (node_ind' x) (list_node_ind' r) end.
End NodeInd.

(* ------------------------------------------------------------------ unfolding *)
Lemma exec_eq v md lim nd f :
  exec v md lim nd f =
  match nd with
  | Text t => seq (m_leaf (f_tp f)) (m_write lim t)
  | Echo x => fun s => m_write lim (lget x (s_locals s)) s
  | Assign x t => m_assign v lim f x t
  | Capture x body => in_child (block v md lim body f) (fun val => m_assign v lim f x val)
  | IfChanged body => in_child (block v md lim body f) (m_ifchanged lim)
  | For n body =>
      if (n =? 0)%N then ret
      else seq (guard (loop_exceeded v lim f n) XLoop)
          (seq (guard (depth_exceeded lim f) XDepth)
               (iter 1 (N.to_nat n) (fun _ => block v md lim body (f_for f n))))
  | Tablerow n body =>
      seq (guard (loop_exceeded v lim f n) XLoop)
     (seq (m_write lim tr_open)
     (seq (guard (depth_exceeded lim f) XDepth)
     (seq (iter 1 (N.to_nat n) (fun k => seq (m_write lim (td_open k)) (seq (block v md lim body (f_scale v (f_ext f) n)) (m_write lim td_close))))
          (m_write lim tr_close))))
  | Include body =>
      seq (guard (f_no_include f) XDisabled)
     (seq (nest_guard md lim body)
     (seq (guard (depth_exceeded lim f) XDepth)
          (partial v md lim body (f_ext f))))
  | IncludeArr n body =>
      seq (guard (f_no_include f) XDisabled)
     (seq (nest_guard md lim body)
     (seq (guard (depth_exceeded lim f) XDepth)
     (seq (guard (loop_exceeded v lim (f_ext f) n) XLoop)
          (iter 1 (N.to_nat n) (fun _ => partial v md lim body (f_scale v (f_ext f) n))))))
  | Render body =>
      seq (nest_guard md lim body)
     (seq (guard (copy_exceeded lim f) XDepth)
          (fun s => in_ctx (partial v md lim body (f_copy f (sum_sizes (s_locals s)))) s))
  | RenderFor n body =>
      seq (nest_guard md lim body)
     (seq (guard (copy_exceeded lim f) XDepth)
          (fun s => let fc := f_copy f (sum_sizes (s_locals s)) in
                    seq (guard (loop_exceeded v lim fc n) XLoop)
                        (if v_item v
                         then iter 1 (N.to_nat n) (fun _ => in_ctx (partial v md lim body (f_scale v fc n)))
                         else in_ctx (iter 1 (N.to_nat n) (fun _ => partial v md lim body (f_scale v fc n)))) s))
  | Call body =>
      seq (guard (copy_exceeded lim f) XDepth)
          (fun s => in_ctx (block v md lim body (f_copy f (sum_sizes (s_locals s)))) s)
  end.
Proof. destruct nd; reflexivity. Qed.

Lemma exec_list_cons v md lim x r f : exec_list v md lim (x :: r) f = seq (exec v md lim x f) (exec_list v md lim r f).
Proof. reflexivity. Qed.

Lemma run_nodes_cons v md lim x r f :
  run_nodes v md lim (x :: r) f = seq (handle md (exec v md lim x f)) (run_nodes v md lim r f).
Proof. reflexivity. Qed.

(* ------------------------------------------------------------------ inversion of the combinators (successful runs) *)
Lemma seq_ok (a b : M) s s' : seq a b s = LOk s' -> exists s1, a s = LOk s1 /\ b s1 = LOk s'.
Proof. unfold seq. destruct (a s) as [s1|e s1|]; try discriminate. eauto. Qed.

Lemma guard_ok b e s s' : guard b e s = LOk s' -> b = false /\ s' = s.
Proof. unfold guard. destruct b; intro H; inversion H; auto. Qed.

Lemma nest_guard_ok md lim body s s' : nest_guard md lim body s = LOk s' -> nest_exceeded lim body = false /\ s' = s.
Proof. unfold nest_guard. destruct (nest_exceeded lim body); [destruct (tolerant md); discriminate|]. intro H; inversion H; auto. Qed.

Lemma in_null_ok (m : M) s s' : in_null m s = LOk s' -> exists s1, m (set_buf s BNull) = LOk s1 /\ s' = set_buf s1 (s_buf s).
Proof. unfold in_null. destruct (m _) as [s1|e s1|]; intro H; inversion H. eauto. Qed.

Lemma in_child_ok (m : M) k s s' :
  in_child m k s = LOk s' ->
  exists s1, m (set_buf s (child_of (s_buf s))) = LOk s1 /\ k (buf_text (s_buf s1)) (set_buf s1 (s_buf s)) = LOk s'.
Proof. unfold in_child. destruct (m _) as [s1|e s1|]; intro H; try discriminate. eauto. Qed.

Lemma in_ctx_ok (m : M) s s' :
  in_ctx m s = LOk s' -> exists s1, m (set_mut s [] []) = LOk s1 /\ s' = set_mut s1 (s_locals s) (s_ifch s).
Proof. unfold in_ctx. destruct (m _) as [s1|e s1|]; intro H; inversion H. eauto. Qed.

Lemma iter_first (body : Z -> M) n k s s' :
  iter k (S n) body s = LOk s' -> exists s1, body k s = LOk s1.
Proof. simpl. intro H. apply seq_ok in H. destruct H as (s1 & H1 & _). eauto. Qed.

(* in STRICT mode the per-node handler is the identity *)
Lemma handle_strict (m : M) s : handle Strict m s = m s.
Proof. unfold handle. destruct (m s); reflexivity. Qed.

Lemma run_nodes_strict v lim l f s : run_nodes v Strict lim l f s = exec_list v Strict lim l f s.
Proof.
  revert s. induction l as [|x r IH]; intro s; [reflexivity|].
  rewrite run_nodes_cons, exec_list_cons. unfold seq. rewrite handle_strict.
  destruct (exec v Strict lim x f s); auto.
Qed.

(* ------------------------------------------------------------------ generic preservation, all modes *)
(* A frame invariant I (re-established by every construct for the frame it passes down), a state invariant P for
   the states a run continues from, and a condition E for the states carried by errors.  In WARN/LAX mode the
   render continues from error states, so E must give P back there; in STRICT mode E may be anything. *)
Section Preserve.
  Variables (v : variant) (md : mode) (lim : limits).
  Variable I : frame -> Prop.
  Variables P E : st -> Prop.

  Definition post (r : lres st) : Prop :=
    match r with LOk s' => P s' | LErr _ s' => E s' | LFuel => True end.
  Definition H (m : M) : Prop := forall s, P s -> post (m s).

  Hypothesis I_ext : forall f, I f -> I (f_ext f).
  Hypothesis I_for : forall f n, I f -> loop_exceeded v lim f n = false -> I (f_for f n).
  Hypothesis I_scale : forall f n, I f -> loop_exceeded v lim f n = false -> I (f_scale v f n).
  Hypothesis I_copy : forall f z, I f -> I (f_copy f z).
  Hypothesis H_leaf : forall f, I f -> H (m_leaf (f_tp f)).
  Hypothesis H_write : forall t, H (m_write lim t).
  Hypothesis H_assign : forall f x val, I f -> H (m_assign v lim f x val).
  Hypothesis P_null : forall s, P s -> P (set_buf s BNull).
  Hypothesis P_child : forall s, P s -> P (set_buf s (child_of (s_buf s))).
  Hypothesis P_restore : forall s s1, P s -> P s1 -> P (set_buf s1 (s_buf s)).
  Hypothesis E_restore : forall s s1, P s -> E s1 -> E (set_buf s1 (s_buf s)).
  Hypothesis P_mut : forall s l i, P s -> P (set_mut s l i).
  Hypothesis E_mut : forall s l i, E s -> E (set_mut s l i).
  Hypothesis P_E : forall s, P s -> E s.
  Hypothesis E_P : tolerant md = true -> forall s, E s -> P s.

  Lemma H_ret : H ret.
  Proof. intros s HP. exact HP. Qed.

  Lemma H_seq a b : H a -> H b -> H (seq a b).
  Proof. intros Ha Hb s HP. unfold seq. specialize (Ha s HP). destruct (a s) as [s1|e s1|]; simpl in *; [apply Hb; exact Ha|exact Ha|exact Logic.I]. Qed.

  Lemma H_guard g e : H (guard g e).
  Proof. intros s HP. unfold guard. destruct g; simpl; auto. Qed.

  Lemma H_nest_guard body : H (nest_guard md lim body).
  Proof. intros s HP. unfold nest_guard. destruct (nest_exceeded lim body); [destruct (tolerant md)|]; simpl; auto. Qed.

  Lemma H_iter body : (forall k, H (body k)) -> forall n k, H (iter k n body).
  Proof. intros Hb. induction n as [|n IH]; intro k; simpl; [apply H_ret|]. apply H_seq; auto. Qed.

  Lemma H_in_null m : H m -> H (in_null m).
  Proof.
    intros Hm s HP. unfold in_null. specialize (Hm (set_buf s BNull) (P_null s HP)).
    destruct (m _) as [s1|e s1|]; simpl in *; auto.
  Qed.

  Lemma H_in_child m k : H m -> (forall val, H (k val)) -> H (in_child m k).
  Proof.
    intros Hm Hk s HP. unfold in_child. specialize (Hm (set_buf s (child_of (s_buf s))) (P_child s HP)).
    destruct (m _) as [s1|e s1|]; simpl in *; auto. apply Hk. auto.
  Qed.

  Lemma H_in_ctx m : H m -> H (in_ctx m).
  Proof.
    intros Hm s HP. unfold in_ctx. specialize (Hm (set_mut s [] []) (P_mut s [] [] HP)).
    destruct (m _) as [s1|e s1|]; simpl in *; auto.
  Qed.

  Lemma H_handle m : H m -> H (handle md m).
  Proof.
    intros Hm s HP. unfold handle. specialize (Hm s HP). destruct (m s) as [s1|e s1|]; simpl in *; auto.
    destruct (tolerant md) eqn:T; simpl; auto.
  Qed.

  Lemma H_fun (F : st -> M) : (forall s0, H (F s0)) -> H (fun s => F s s).
  Proof. intros HF s HP. apply (HF s s HP). Qed.

  Lemma H_ifchanged val : H (m_ifchanged lim val).
  Proof.
    intros s HP. unfold m_ifchanged. destruct (str_eqb val (s_ifch s)); [exact HP|].
    apply H_write. apply P_mut; exact HP.
  Qed.

  Definition keeps (m : frame -> M) : Prop := forall f, I f -> H (m f).

  Lemma keeps_block body : keeps (exec_list v md lim body) -> keeps (block v md lim body).
  Proof. intros Hl f HI. unfold block. destruct (blank_list body); [apply H_in_null|]; apply Hl; exact HI. Qed.

  Lemma keeps_run_nodes body : (forall x, In x body -> keeps (exec v md lim x)) -> keeps (run_nodes v md lim body).
  Proof.
    induction body as [|x r IH]; intros Hx f HI; [apply H_ret|].
    rewrite run_nodes_cons. apply H_seq.
    - apply H_handle. apply Hx; [left; reflexivity|exact HI].
    - apply IH; [|exact HI]. intros y Hy. apply Hx. right; exact Hy.
  Qed.

  Lemma keeps_partial body : keeps (run_nodes v md lim body) -> keeps (partial v md lim body).
  Proof. intros Hl f HI. unfold partial. apply H_seq; [apply H_guard|]. apply Hl. apply I_ext; exact HI. Qed.

  (* the list part of the induction carries both readings of a list: as a block and as a template *)
  Definition keepsQ (l : list node) : Prop := keeps (exec_list v md lim l) /\ keeps (run_nodes v md lim l).

  Theorem exec_keeps : forall nd, keeps (exec v md lim nd).
  Proof.
    apply (node_ind' (fun nd => keeps (exec v md lim nd)) keepsQ); unfold keeps.
    - (* Text *) intros t f HI. rewrite exec_eq. apply H_seq; [apply H_leaf; exact HI|apply H_write].
    - (* Echo *) intros x f HI. rewrite exec_eq. apply (H_fun (fun s0 => m_write lim (lget x (s_locals s0)))). intro s0. apply H_write.
    - (* Assign *) intros x t f HI. rewrite exec_eq. apply H_assign; exact HI.
    - (* Capture *) intros x b [IH _] f HI. rewrite exec_eq.
      apply H_in_child; [apply (keeps_block b IH); exact HI|]. intro val. apply H_assign; exact HI.
    - (* IfChanged *) intros b [IH _] f HI. rewrite exec_eq.
      apply H_in_child; [apply (keeps_block b IH); exact HI|]. intro val. apply H_ifchanged.
    - (* For *) intros n b [IH _] f HI. rewrite exec_eq. destruct (n =? 0)%N; [apply H_ret|].
      intros s HP. unfold seq at 1. unfold guard at 1. destruct (loop_exceeded v lim f n) eqn:G; [simpl; auto|].
      revert s HP. apply H_seq; [apply H_guard|]. apply H_iter. intro k. apply (keeps_block b IH). apply I_for; auto.
    - (* Tablerow *) intros n b [IH _] f HI. rewrite exec_eq.
      intros s HP. unfold seq at 1. unfold guard at 1. destruct (loop_exceeded v lim f n) eqn:G; [simpl; auto|].
      revert s HP. apply H_seq; [apply H_write|]. apply H_seq; [apply H_guard|]. apply H_seq; [|apply H_write].
      apply H_iter. intro k. apply H_seq; [apply H_write|]. apply H_seq; [|apply H_write].
      apply (keeps_block b IH). apply I_scale; auto.
    - (* Include *) intros b [_ IH] f HI. rewrite exec_eq.
      apply H_seq; [apply H_guard|]. apply H_seq; [apply H_nest_guard|]. apply H_seq; [apply H_guard|].
      apply (keeps_partial b IH). auto.
    - (* IncludeArr *) intros n b [_ IH] f HI. rewrite exec_eq.
      apply H_seq; [apply H_guard|]. apply H_seq; [apply H_nest_guard|]. apply H_seq; [apply H_guard|].
      intros s HP. unfold seq at 1. unfold guard at 1. destruct (loop_exceeded v lim (f_ext f) n) eqn:G; [simpl; auto|].
      revert s HP. apply H_iter. intro k. apply (keeps_partial b IH). apply I_scale; auto.
    - (* Render *) intros b [_ IH] f HI. rewrite exec_eq.
      apply H_seq; [apply H_nest_guard|]. apply H_seq; [apply H_guard|].
      apply (H_fun (fun s0 => in_ctx (partial v md lim b (f_copy f (sum_sizes (s_locals s0)))))).
      intro s0. apply H_in_ctx. apply (keeps_partial b IH). auto.
    - (* RenderFor *) intros n b [_ IH] f HI. rewrite exec_eq.
      apply H_seq; [apply H_nest_guard|]. apply H_seq; [apply H_guard|]. cbv zeta.
      apply (H_fun (fun s0 => seq (guard (loop_exceeded v lim (f_copy f (sum_sizes (s_locals s0))) n) XLoop)
                (if v_item v
                 then iter 1 (N.to_nat n) (fun _ => in_ctx (partial v md lim b (f_scale v (f_copy f (sum_sizes (s_locals s0))) n)))
                 else in_ctx (iter 1 (N.to_nat n) (fun _ => partial v md lim b (f_scale v (f_copy f (sum_sizes (s_locals s0))) n)))))).
      intro s0. set (fc := f_copy f (sum_sizes (s_locals s0))).
      intros s HP. unfold seq at 1. unfold guard at 1. destruct (loop_exceeded v lim fc n) eqn:G; [simpl; auto|].
      assert (Hp : H (partial v md lim b (f_scale v fc n))).
      { apply (keeps_partial b IH). apply I_scale; [apply I_copy; exact HI|exact G]. }
      revert s HP. destruct (v_item v).
      + apply H_iter. intro k. apply H_in_ctx. exact Hp.
      + apply H_in_ctx. apply H_iter. intro k. exact Hp.
    - (* Call *) intros b [IH _] f HI. rewrite exec_eq.
      apply H_seq; [apply H_guard|].
      apply (H_fun (fun s0 => in_ctx (block v md lim b (f_copy f (sum_sizes (s_locals s0)))))).
      intro s0. apply H_in_ctx. apply (keeps_block b IH). auto.
    - (* nil *) split; intros f HI; apply H_ret.
    - (* cons *) intros x r IHx [IHr1 IHr2]. split; intros f HI.
      + rewrite exec_list_cons. apply H_seq; [apply IHx|apply IHr1]; exact HI.
      + rewrite run_nodes_cons. apply H_seq; [apply H_handle; apply IHx|apply IHr2]; exact HI.
  Qed.

  Corollary run_nodes_keeps : forall l, keeps (run_nodes v md lim l).
  Proof. intro l. apply keeps_run_nodes. intros x _. apply exec_keeps. Qed.

  Corollary partial_keeps : forall l, keeps (partial v md lim l).
  Proof. intro l. apply keeps_partial, run_nodes_keeps. Qed.

  (* the whole render: whatever it returns - a result, or an error with the state it was raised in *)
  Corollary run_post main sizes : I frame0 -> P (st0 sizes) -> post (run_prog v md lim main sizes).
  Proof.
    intros HI HP. unfold run_prog. pose proof (H_nest_guard main (st0 sizes) HP) as Hg.
    destruct (nest_guard md lim main (st0 sizes)) as [s1|e s1|]; simpl in *; auto.
    apply (partial_keeps main frame0 HI s1 Hg).
  Qed.
End Preserve.

(* ------------------------------------------------------------------ arithmetic helpers *)
Lemma fold_mul_scale l a b : fold_left N.mul l (a * b)%N = (fold_left N.mul l a * b)%N.
Proof.
  revert a. induction l as [|x l IH]; intro a; simpl; [reflexivity|].
  replace (a * b * x)%N with (a * x * b)%N by lia. apply IH.
Qed.

(* the repairs, whichever way render-for makes its contexts *)
Definition is_repaired (v : variant) : Prop := v_carry v = true /\ v_zero v = true /\ v_rollback v = true.
Lemma repaired_is_repaired : is_repaired repaired.
Proof. repeat split; reflexivity. Qed.

Lemma loop_limit_repaired v lim : is_repaired v -> loop_limit v lim = l_loop lim.
Proof. intros (_ & Hz & _). unfold loop_limit. rewrite Hz. destruct (l_loop lim) as [[|p]|]; reflexivity. Qed.

Lemma ns_limit_repaired v lim : is_repaired v -> ns_limit v lim = l_ns lim.
Proof. intros (_ & Hz & _). unfold ns_limit. rewrite Hz. destruct (l_ns lim) as [[|p|p]|]; reflexivity. Qed.

Lemma utf8_len_pos c : 1 <= utf8_len c <= 4.
Proof. unfold utf8_len. repeat match goal with |- context [if ?b then _ else _] => destruct b end; lia. Qed.

Lemma utf8_bytes_nonneg s : 0 <= utf8_bytes s.
Proof. induction s as [|c s IH]; simpl; [lia|]. pose proof (utf8_len_pos c). lia. Qed.

Lemma utf8_bytes_app a b : utf8_bytes (a ++ b) = utf8_bytes a + utf8_bytes b.
Proof. induction a as [|c a IH]; simpl; lia. Qed.

Lemma utf8_bytes_rev a : utf8_bytes (rev a) = utf8_bytes a.
Proof. induction a as [|c a IH]; simpl; [reflexivity|]. rewrite utf8_bytes_app. simpl. lia. Qed.

Lemma utf8_bytes_rev_append a b : utf8_bytes (rev_append a b) = utf8_bytes a + utf8_bytes b.
Proof. rewrite rev_append_rev, utf8_bytes_app, utf8_bytes_rev. reflexivity. Qed.

(* a write, accepted or refused, touches nothing but the buffer *)
Lemma m_write_frame lim t s :
  match m_write lim t s with
  | LOk s' | LErr _ s' =>
      s_leaf s' = s_leaf s /\ s_nslog s' = s_nslog s /\ s_locals s' = s_locals s /\ s_sizes s' = s_sizes s /\ s_ifch s' = s_ifch s
  | LFuel => True
  end.
Proof. unfold m_write. destruct (buf_write _ _ _) as [[|] b]; simpl; auto 6. Qed.

(* an assignment, accepted or refused, leaves the buffer and the leaf log alone *)
Lemma m_assign_frame v lim f x val s :
  match m_assign v lim f x val s with
  | LOk s' | LErr _ s' => s_buf s' = s_buf s /\ s_leaf s' = s_leaf s
  | LFuel => True
  end.
Proof.
  unfold m_assign. destruct (s_sizes s); [exact Logic.I|].
  destruct (ns_limit v lim); [destruct (_ >? _); [destruct (v_rollback v)|]|]; simpl; auto.
Qed.

(* repaired: a refused assignment leaves the namespace exactly as it was *)
Lemma m_assign_refused_keeps_locals v lim f x val s e s' :
  v_rollback v = true -> m_assign v lim f x val s = LErr e s' -> s_locals s' = s_locals s /\ s_nslog s' = s_nslog s.
Proof.
  intros Hr. unfold m_assign. destruct (s_sizes s); [discriminate|].
  destruct (ns_limit v lim); [destruct (_ >? _)|]; try discriminate. rewrite Hr. intro H; inversion H; subst; simpl; auto.
Qed.

(* ------------------------------------------------------------------ C06: the loop limit bounds the true product, in every mode *)
Definition bk (f : frame) : N := fold_left N.mul (f_loops f) (f_carry f).

Section LoopBound.
  Variables (v : variant) (md : mode) (lim : limits) (L : N).
  Hypothesis Hv : is_repaired v.
  Hypothesis HL : l_loop lim = Some L.

  Definition linv (f : frame) : Prop := bk f = f_tp f /\ (f_tp f <= L)%N.
  Definition leafP (s : st) : Prop := Forall (fun p => (p <= L)%N) (s_leaf s).

  Lemma not_exceeded f n : loop_exceeded v lim f n = false -> (bk f * n <= L)%N.
  Proof.
    unfold loop_exceeded. rewrite (loop_limit_repaired v lim Hv), HL. intro H.
    replace (n * f_carry f)%N with (f_carry f * n)%N in H by lia. rewrite fold_mul_scale in H. unfold bk. lia.
  Qed.

  Lemma linv_for f n : linv f -> loop_exceeded v lim f n = false -> linv (f_for f n).
  Proof.
    intros [Hb Ht] He. apply not_exceeded in He. unfold linv, bk, f_for; simpl.
    rewrite fold_mul_scale. fold (bk f). rewrite Hb in *. split; [reflexivity|lia].
  Qed.

  Lemma linv_scale f n : linv f -> loop_exceeded v lim f n = false -> linv (f_scale v f n).
  Proof.
    intros [Hb Ht] He. apply not_exceeded in He. unfold linv, bk, f_scale; simpl.
    destruct Hv as (Hc & _). rewrite Hc. rewrite fold_mul_scale. fold (bk f). rewrite Hb in *. split; [reflexivity|lia].
  Qed.

  Lemma linv_ext f : linv f -> linv (f_ext f).
  Proof. intros [? ?]; split; auto. Qed.
  Lemma linv_copy f z : linv f -> linv (f_copy f z).
  Proof. intros [? ?]; split; auto. Qed.

  (* whatever the render returns - its result, or the error that escaped with the state at that point - every leaf
     execution logged so far had a true product <= L; errors dropped on the way (WARN/LAX) included *)
  Theorem run_leaf_bound main sizes :
    (1 <= L)%N ->
    match run_prog v md lim main sizes with
    | LOk s | LErr _ s => leafP s
    | LFuel => True
    end.
  Proof.
    intro H1.
    apply (run_post v md lim linv leafP leafP); auto using linv_ext, linv_for, linv_scale, linv_copy.
    - intros f [_ Ht] s HP. simpl. unfold leafP; simpl. constructor; auto.
    - intros t s HP. pose proof (m_write_frame lim t s) as Fr. unfold leafP in *.
      destruct (m_write lim t s) as [s'|e s'|]; simpl; auto; destruct Fr as (-> & _); exact HP.
    - intros f x val _ s HP. pose proof (m_assign_frame v lim f x val s) as Fr. unfold leafP in *.
      destruct (m_assign v lim f x val s) as [s'|e s'|]; simpl; auto; destruct Fr as (_ & ->); exact HP.
    - split; [reflexivity|exact H1].
    - constructor.
  Qed.
End LoopBound.

(* ------------------------------------------------------------------ C07: namespace sizes, in every mode *)
Section NsBound.
  Variables (v : variant) (md : mode) (lim : limits).
  Hypothesis Hv : is_repaired v.

  Definition ninv (f : frame) : Prop := f_ns_carry f = f_anc f.
  Definition ns_ok (p : Z * Z) : Prop := fst p = snd p /\ forall M, l_ns lim = Some M -> fst p <= M.
  Definition nsP (s : st) : Prop := Forall ns_ok (s_nslog s).

  Theorem run_ns_bound main sizes :
    match run_prog v md lim main sizes with
    | LOk s | LErr _ s => nsP s
    | LFuel => True
    end.
  Proof.
    apply (run_post v md lim ninv nsP nsP); auto.
    - intros f z H. unfold ninv in *; simpl. lia.
    - intros f _ s HP. exact HP.
    - intros t s HP. pose proof (m_write_frame lim t s) as Fr. unfold nsP in *.
      destruct (m_write lim t s) as [s'|e s'|]; simpl; auto; destruct Fr as (_ & -> & _); exact HP.
    - intros f x val HI s HP. unfold m_assign. destruct (s_sizes s) as [|z rest]; [exact Logic.I|].
      rewrite (ns_limit_repaired v lim Hv). unfold ninv in HI. destruct Hv as (_ & _ & Hr). rewrite Hr.
      destruct (l_ns lim) as [M|] eqn:EM.
      + destruct (_ >? _) eqn:E0; simpl; [exact HP|]. unfold nsP; cbn [s_nslog]. constructor; [|exact HP].
        split; cbn [fst snd]; [lia|]. intros M' HM'. rewrite EM in HM'. inversion HM'; subst. lia.
      + simpl. unfold nsP; cbn [s_nslog]. constructor; [|exact HP].
        split; cbn [fst snd]; [lia|]. intros M' HM'. rewrite EM in HM'. discriminate.
    - reflexivity.
    - constructor.
  Qed.
End NsBound.

(* ------------------------------------------------------------------ C07: output bytes, in every mode *)
Section OutBound.
  Variables (v : variant) (md : mode) (lim : limits).

  (* every limited buffer, at every moment: the text holds at most `size` bytes and at most its own limit
     (output_stream_limit - carried size; nothing at all if that is negative).  Refused writes (dropped in
     WARN/LAX mode) grow the size, never the text: the limit is checked BEFORE the text is written. *)
  Definition bufinv (b : buf) : Prop :=
    match b with
    | BNull => True
    | BLim base size rt =>
        utf8_bytes rt <= size /\ 0 <= base /\ forall L, l_out lim = Some L -> utf8_bytes rt <= Z.max 0 (L - base)
    end.
  Definition bufP (s : st) : Prop := bufinv (s_buf s).

  Lemma buf_write_inv b t : bufinv b -> bufinv (snd (buf_write (l_out lim) b t)).
  Proof.
    intros Hb. unfold buf_write. destruct t as [|c t]; [exact Hb|].
    destruct b as [|base size rt]; [exact Logic.I|].
    destruct Hb as (Hs & Hbase & Hl). pose proof (utf8_bytes_nonneg (c :: t)) as Hn.
    destruct (l_out lim) as [L|] eqn:EL.
    - destruct (_ >? _) eqn:E0; cbn [snd bufinv].
      + repeat split; try lia. intros L' HL'. rewrite EL in HL'. inversion HL'; subst. apply Hl. reflexivity.
      + rewrite utf8_bytes_rev_append. repeat split; try lia. intros L' HL'. rewrite EL in HL'. inversion HL'; subst. lia.
    - cbn [snd bufinv]. rewrite utf8_bytes_rev_append. repeat split; try lia. intros L' HL'. rewrite EL in HL'. discriminate.
  Qed.

  Theorem run_out_inv main sizes :
    match run_prog v md lim main sizes with
    | LOk s | LErr _ s => bufP s
    | LFuel => True
    end.
  Proof.
    apply (run_post v md lim (fun _ => True) bufP bufP); auto.
    - intros f _ s HP. exact HP.
    - intros t s HP. unfold m_write. pose proof (buf_write_inv (s_buf s) t HP) as Hw.
      destruct (buf_write (l_out lim) (s_buf s) t) as [[|] b]; simpl in *; exact Hw.
    - intros f x val _ s HP. pose proof (m_assign_frame v lim f x val s) as Fr. unfold bufP in *.
      destruct (m_assign v lim f x val s) as [s'|e s'|]; simpl; auto; destruct Fr as (-> & _); exact HP.
    - intros s HP. exact Logic.I.
    - intros s HP. unfold bufP in *; simpl. destruct (s_buf s) as [|base size rt]; simpl.
      + repeat split; try lia.
      + destruct HP as (Hs & Hbase & Hl). pose proof (utf8_bytes_nonneg rt). repeat split; try lia.
    - unfold bufP; simpl. repeat split; try lia.
  Qed.

  (* C07, first clause, for EVERY completed render whatever the mode *)
  Theorem run_out_bound main sizes s L :
    l_out lim = Some L -> 0 <= L -> run_prog v md lim main sizes = LOk s -> utf8_bytes (buf_text (s_buf s)) <= L.
  Proof.
    intros HL H0 Hr. pose proof (run_out_inv main sizes) as Hi. rewrite Hr in Hi.
    unfold bufP in Hi. destruct (s_buf s) as [|base size rt]; simpl; [exact H0|].
    destruct Hi as (Hs & Hbase & Hl). rewrite utf8_bytes_rev. specialize (Hl L HL). lia.
  Qed.
End OutBound.

(* in STRICT mode a completed render moreover has size = bytes written <= own limit in every buffer *)
Section OutStrict.
  Variables (v : variant) (lim : limits).
  Hypothesis Hpos : forall L, l_out lim = Some L -> 0 <= L.

  Definition bufinv_strict (b : buf) : Prop :=
    match b with
    | BNull => True
    | BLim base size rt => utf8_bytes rt = size /\ 0 <= base /\ forall L, l_out lim = Some L -> size <= L - base
    end.
  Definition bufP_strict (s : st) : Prop := bufinv_strict (s_buf s).

  Theorem run_out_inv_strict main sizes s : run_prog v Strict lim main sizes = LOk s -> bufP_strict s.
  Proof.
    intro Hr.
    pose proof (run_post v Strict lim (fun _ => True) bufP_strict (fun _ => True)) as R.
    unfold post in R. specialize (fun a b c d e f g h i j k l m n o => R a b c d e f g h i j k l m n o main sizes).
    rewrite Hr in R. apply R; auto; try discriminate.
    - intros f _ s0 HP. exact HP.
    - intros t s0 HP. unfold m_write, buf_write. destruct t as [|c t]; [exact HP|].
      unfold bufP_strict in *. destruct (s_buf s0) as [|base size rt]; [exact Logic.I|].
      destruct HP as (Hs & Hbase & Hl).
      destruct (l_out lim) as [L|] eqn:EL.
      + destruct (_ >? _) eqn:E0; simpl; [exact Logic.I|]. rewrite utf8_bytes_rev_append. simpl. repeat split; try lia.
        intros L' HL'. rewrite ?EL in HL'. inversion HL'; subst. simpl in E0. lia.
      + simpl. rewrite utf8_bytes_rev_append. simpl. repeat split; try lia. intros L' HL'. rewrite ?EL in HL'. discriminate.
    - intros f x val _ s0 HP. pose proof (m_assign_frame v lim f x val s0) as Fr. unfold bufP_strict in *.
      destruct (m_assign v lim f x val s0) as [s'|e s'|]; simpl; auto; destruct Fr as (-> & _); exact HP.
    - intros s0 HP. exact Logic.I.
    - intros s0 HP. unfold bufP_strict in *; simpl. destruct (s_buf s0) as [|base size rt]; simpl.
      + repeat split; try lia. intros L HL. specialize (Hpos L HL). lia.
      + destruct HP as (Hs & Hbase & Hl). pose proof (utf8_bytes_nonneg rt). repeat split; try lia.
        intros L HL. specialize (Hl L HL). lia.
    - unfold bufP_strict; simpl. repeat split; try lia. intros L HL. specialize (Hpos L HL). lia.
  Qed.
End OutStrict.

(* ------------------------------------------------------------------ the same, read off a completed render *)
Corollary run_leaf_bound_ok v md lim L : is_repaired v -> l_loop lim = Some L -> forall main sizes s,
  (1 <= L)%N -> run_prog v md lim main sizes = LOk s -> leafP L s.
Proof. intros Hv HL main sizes s H1 Hr. pose proof (run_leaf_bound v md lim L Hv HL main sizes H1) as R. rewrite Hr in R. exact R. Qed.

Corollary run_ns_bound_ok v md lim : is_repaired v -> forall main sizes s,
  run_prog v md lim main sizes = LOk s -> nsP lim s.
Proof. intros Hv main sizes s Hr. pose proof (run_ns_bound v md lim Hv main sizes) as R. rewrite Hr in R. exact R. Qed.

Corollary run_out_inv_ok v md lim main sizes s : run_prog v md lim main sizes = LOk s -> bufP lim s.
Proof. intros Hr. pose proof (run_out_inv v md lim main sizes) as R. rewrite Hr in R. exact R. Qed.
