(* C01 -- the hand-written synchronous / asynchronous copies on the way from a template NAME to a bound template:
     Environment.get_template / get_template_async                      (liquid/environment.py)
     BaseLoader.load / load_async                                       (liquid/loader.py)
     ChoiceLoader.get_source / get_source_async                         (two loops with try / except TemplateNotFoundError)
     FileSystemLoader.get_source / get_source_async                     (resolve_path and _read, the latter in an executor)
     DictLoader.get_source (its asynchronous version is BaseLoader's default: a call of get_source)
   and what both hand to Environment.from_string: name = Path(full_name).name, path, globals (make_globals applied by
   get_template AND by from_string), matter.  A template is observed by its name, path, source and by the value a
   variable resolves to when it is rendered (render arguments, then matter, then globals).
   The caching mixin on top of this is CachingLoader.v (C23); PairLoad_Proofs.v adds the theorem about histories that mix
   the two APIs.  Executable definitions only.

   Names are relative, normalised paths (no empty, `.` or `..` component): what pathlib does to other names is
   LoaderPath.v (C22). *)
From Coq Require Import String Ascii.
From LiquidVerif Require Import Prelude.

Definition llit (x : string) : str := map N_of_ascii (list_ascii_of_string x).
Definition slash : N := 47%N.
Definition dot : N := 46%N.

Definition dict := list (str * N).                        (* variable -> value *)

(* a template source as a loader returns it: text (a number), name of the origin, front matter *)
Record source := { so_text : N; so_full : str; so_matter : option dict }.

Inductive loader :=
| LDict (entries : list (str * N))
| LMatter (entries : list (str * (N * dict)))            (* a user loader whose TemplateSource carries matter *)
| LFs (search : list (str * list (str * N))) (ext : option str)   (* directories in search order, each with its files *)
| LChoice (ls : list loader).

(* ---------------------------------------------------------------------------------------------- pathlib *)
(* Path(s).name for a normalised relative path: the text after the last '/' *)
Fixpoint basename_from (acc s : str) : str :=
  match s with
  | [] => acc
  | c :: r => if N.eqb c slash then basename_from [] r else basename_from (acc ++ [c]) r
  end.
Definition basename (s : str) : str := basename_from [] s.

(* Path(s).suffix <> "": the last component has a '.' that is neither its first nor its last character *)
Fixpoint has_inner_dot (first : bool) (s : str) : bool :=
  match s with
  | [] => false
  | [c] => false
  | c :: r => (negb first && N.eqb c dot) || has_inner_dot false r
  end.
Definition has_suffix (name : str) : bool := has_inner_dot true (basename name).

(* FileSystemLoader.resolve_path + _read, shared by both copies *)
Definition fs_target (ext : option str) (name : str) : str :=
  match ext with
  | Some e => if has_suffix name then name else name ++ e
  | None => name
  end.
Fixpoint fs_find (search : list (str * list (str * N))) (rel : str) : option (str * N) :=
  match search with
  | [] => None
  | (base, files) :: r =>
      match alookup rel files with
      | Some text => Some (base ++ [slash] ++ rel, text)
      | None => fs_find r rel
      end
  end.
Definition resolve_and_read (search : list (str * list (str * N))) (ext : option str) (name : str) : res source :=
  match name with
  | [] => Err ENotFound                                            (* not template_path.name *)
  | _ =>
      match fs_find search (fs_target ext name) with
      | Some (full, text) => Ok {| so_text := text; so_full := full; so_matter := None |}
      | None => Err ENotFound
      end
  end.

(* ---------------------------------------------------------------------------------------------- get_source *)
Fixpoint get_source_sync (l : loader) (name : str) : res source :=
  match l with
  | LDict es =>
      match alookup name es with
      | Some text => Ok {| so_text := text; so_full := name; so_matter := None |}
      | None => Err ENotFound
      end
  | LMatter es =>
      match alookup name es with
      | Some (text, m) => Ok {| so_text := text; so_full := name; so_matter := Some m |}
      | None => Err ENotFound
      end
  | LFs search ext => resolve_and_read search ext name
  | LChoice ls =>
      (* for loader in self.loaders: try: return loader.get_source(...) except TemplateNotFoundError: pass *)
      (fix go (ls : list loader) : res source :=
         match ls with
         | [] => Err ENotFound
         | l' :: r => match get_source_sync l' name with
                      | Err ENotFound => go r
                      | x => x
                      end
         end) ls
  end.

Fixpoint get_source_async (l : loader) (name : str) : res source :=
  match l with
  | LDict es =>                                          (* BaseLoader.get_source_async: return self.get_source(...) *)
      match alookup name es with
      | Some text => Ok {| so_text := text; so_full := name; so_matter := None |}
      | None => Err ENotFound
      end
  | LMatter es =>
      match alookup name es with
      | Some (text, m) => Ok {| so_text := text; so_full := name; so_matter := Some m |}
      | None => Err ENotFound
      end
  | LFs search ext => resolve_and_read search ext name   (* the same two helpers, through run_in_executor *)
  | LChoice ls =>
      (fix go (ls : list loader) : res source :=
         match ls with
         | [] => Err ENotFound
         | l' :: r => match get_source_async l' name with
                      | Err ENotFound => go r
                      | x => x
                      end
         end) ls
  end.

(* the loop of ChoiceLoader with the seeded slip of an asynchronous copy that stops at the first loader *)
Definition choice_first_only (get : loader -> str -> res source) (ls : list loader) (name : str) : res source :=
  match ls with [] => Err ENotFound | l' :: _ => get l' name end.

(* ---------------------------------------------------------------------------------------------- templates *)
Record tmpl := { t_name : str; t_path : str; t_text : N; t_globals : dict; t_matter : dict }.

Record env := { e_globals : dict; e_loader : loader; e_bad : list N }.   (* e_bad: sources that do not parse *)

(* {**a, **b}: keys of a keep their place, values of b win, new keys of b follow *)
Fixpoint dset (k : str) (v : N) (d : dict) : dict :=
  match d with
  | [] => [(k, v)]
  | (k', v') :: r => if str_eqb k k' then (k', v) :: r else (k', v') :: dset k v r
  end.
Definition dmerge (a b : dict) : dict := fold_left (fun acc kv => dset (fst kv) (snd kv) acc) b a.

(* Environment.make_globals *)
Definition make_globals (e : env) (g : option dict) : dict :=
  match g with
  | Some (x :: r) => dmerge (e_globals e) (x :: r)       (* if globals: {**self.globals, **globals} *)
  | _ => e_globals e                                     (* None or empty: dict(self.globals) *)
  end.

(* Environment.from_string *)
Definition from_string (e : env) (text : N) (name path : str) (g : option dict) (matter : option dict) : res tmpl :=
  if existsb (N.eqb text) (e_bad e) then Err ESyntax
  else Ok {| t_name := name; t_path := path; t_text := text; t_globals := make_globals e g;
             t_matter := match matter with Some m => m | None => [] end |}.

(* BaseLoader.load *)
Definition load_sync (e : env) (l : loader) (name : str) (g : option dict) : res tmpl :=
  do s <- get_source_sync l name;
  from_string e (so_text s) (basename (so_full s)) (so_full s) g (so_matter s).

(* BaseLoader.load_async *)
Definition load_async (e : env) (l : loader) (name : str) (g : option dict) : res tmpl :=
  do s <- get_source_async l name;
  from_string e (so_text s) (basename (so_full s)) (so_full s) g (so_matter s).

(* Environment.get_template: the handler only fills in err.template_name *)
Definition get_template_sync (e : env) (name : str) (g : option dict) : res tmpl :=
  load_sync e (e_loader e) name (Some (make_globals e g)).

Definition get_template_async (e : env) (name : str) (g : option dict) : res tmpl :=
  load_async e (e_loader e) name (Some (make_globals e g)).

(* Environment.analyze_tags / analyze_tags_async: the source text and the name the audit is given *)
Definition analyze_tags_sync (e : env) (name : str) : res (N * str) :=
  do s <- get_source_sync (e_loader e) name; Ok (so_text s, so_full s).
Definition analyze_tags_async (e : env) (name : str) : res (N * str) :=
  do s <- get_source_async (e_loader e) name; Ok (so_text s, so_full s).

(* BoundTemplate.make_globals: ReadOnlyChainMap(render_args, matter, globals) *)
Definition resolve (t : tmpl) (args : dict) (x : str) : option N :=
  match alookup x args with
  | Some v => Some v
  | None => match alookup x (t_matter t) with
            | Some v => Some v
            | None => alookup x (t_globals t)
            end
  end.

(* ---------------------------------------------------------------------------------------------- correspondence *)
Record lcase := { lc_env : env; lc_name : str; lc_globals : option dict; lc_args : dict; lc_probe : list str }.
Inductive lobs :=
| LT (name path : str) (text : N) (vals : list (option N))
| LE (e : exn).
Definition observe (k : lcase) (r : res tmpl) : lobs :=
  match r with
  | Ok t => LT (t_name t) (t_path t) (t_text t) (map (resolve t (lc_args k)) (lc_probe k))
  | Err e => LE e
  | OutOfFuel => LE ERecursionError
  end.
Definition observe_tags (r : res (N * str)) : lobs :=
  match r with Ok (text, full) => LT full full text [] | Err e => LE e | OutOfFuel => LE ERecursionError end.
(* get_template, get_template_async, analyze_tags, analyze_tags_async *)
Definition run_load2 (k : lcase) : (lobs * lobs) * (lobs * lobs) :=
  ((observe k (get_template_sync (lc_env k) (lc_name k) (lc_globals k)),
    observe k (get_template_async (lc_env k) (lc_name k) (lc_globals k))),
   (observe_tags (analyze_tags_sync (lc_env k) (lc_name k)),
    observe_tags (analyze_tags_async (lc_env k) (lc_name k)))).

Definition lobs_eqb (a b : lobs) : bool :=
  match a, b with
  | LT n p t v, LT n' p' t' v' => str_eqb n n' && str_eqb p p' && N.eqb t t' && list_eqb (option_eqb N.eqb) v v'
  | LE e, LE e' => exn_eqb e e'
  | _, _ => false
  end.
Definition lobs4_eqb (a b : (lobs * lobs) * (lobs * lobs)) : bool :=
  lobs_eqb (fst (fst a)) (fst (fst b)) && lobs_eqb (snd (fst a)) (snd (fst b)) &&
  lobs_eqb (fst (snd a)) (fst (snd b)) && lobs_eqb (snd (snd a)) (snd (snd b)).
