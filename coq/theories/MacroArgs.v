(* Model of CallNode.macro_args (binding of call arguments to macro parameters) and of the with tag.
   Executable definitions only. *)
From Coq Require Import String Ascii.
From LiquidVerif Require Import Prelude PyPrims.

Definition lit (x : string) : str := map N_of_ascii (list_ascii_of_string x).

Section Bind.
  Context {E : Type}.

  (* parameters: name with optional default (a dict in the code: names are unique) *)
  Definition params := list (str * option E).

  Record bound := { b_args : list (str * option E);     (* None = undefined *)
                    b_excess : list E;
                    b_kwexcess : list (str * E) }.

  (* the zip_longest loop: positional arguments fill parameters in order; `break` when the
     arguments run out; surplus arguments go to excess_args *)
  Fixpoint bind_pos (ps : params) (pos : list E) : params * list E :=
    match ps, pos with
    | [], _ => ([], pos)
    | _, [] => (ps, [])
    | (n, _) :: ps', e :: pos' => let '(r, ex) := bind_pos ps' pos' in ((n, Some e) :: r, ex)
    end.

  Fixpoint has_key {V} (k : str) (l : list (str * V)) : bool :=
    match l with [] => false | (k', _) :: r => str_eqb k k' || has_key k r end.

  (* Python dict assignment d[k] = v: replace in place, or append *)
  Fixpoint dict_set {V} (k : str) (v : V) (l : list (str * V)) : list (str * V) :=
    match l with
    | [] => [(k, v)]
    | (k', v') :: r => if str_eqb k k' then (k, v) :: r else (k', v') :: dict_set k v r
    end.

  (* the keyword loop *)
  Fixpoint bind_kw (kws : list (str * E)) (args : params) (ex : list (str * E)) : params * list (str * E) :=
    match kws with
    | [] => (args, ex)
    | (k, v) :: kws' =>
        if has_key k args then bind_kw kws' (dict_set k (Some v) args) ex
        else bind_kw kws' args (dict_set k v ex)
    end.

  Definition bind (ps : params) (pos : list E) (kws : list (str * E)) : bound :=
    let '(a1, ex) := bind_pos ps pos in
    let '(a2, kex) := bind_kw kws a1 [] in
    {| b_args := a2; b_excess := ex; b_kwexcess := kex |}.

  (* ---- the documented binding rule, written independently ---- *)
  Fixpoint last_kw (k : str) (kws : list (str * E)) : option E :=
    match kws with
    | [] => None
    | (k', v) :: r => match last_kw k r with Some x => Some x | None => if str_eqb k k' then Some v else None end
    end.

  (* parameter i: last keyword of that name, else the i-th positional, else the default, else undefined *)
  Fixpoint spec_args (ps : params) (i : nat) (pos : list E) (kws : list (str * E)) : params :=
    match ps with
    | [] => []
    | (n, d) :: ps' =>
        (n, match last_kw n kws with
            | Some v => Some v
            | None => match nth_error pos i with Some e => Some e | None => d end
            end) :: spec_args ps' (S i) pos kws
    end.

  Fixpoint remove_key {V} (k : str) (l : list (str * V)) : list (str * V) :=
    match l with
    | [] => []
    | (k', v) :: r => if str_eqb k k' then remove_key k r else (k', v) :: remove_key k r
    end.

  (* surplus keywords: names that are not parameters, in order of first appearance, each with its last value:
     the first surplus keyword's name comes first, bound to the last value given for that name; the others follow *)
  Fixpoint spec_kwexcess (ps : params) (kws : list (str * E)) : list (str * E) :=
    match kws with
    | [] => []
    | (k, v) :: r =>
        if has_key k ps then spec_kwexcess ps r
        else (k, match last_kw k r with Some x => x | None => v end) :: remove_key k (spec_kwexcess ps r)
    end.

  Definition spec_bind (ps : params) (pos : list E) (kws : list (str * E)) : bound :=
    {| b_args := spec_args ps 0 pos kws;
       b_excess := skipn (length ps) pos;
       b_kwexcess := spec_kwexcess ps kws |}.
End Bind.

(* ---- a probe macro: prints every parameter, args and kwargs; values are integers ---- *)
Definition show_opt (v : option Z) : str := match v with Some z => Z_to_str z | None => [] end.

Definition render_bound (b : @bound Z) : str :=
  concat_str (map (fun p => fst p ++ [61%N] ++ show_opt (snd p) ++ semi) (b_args b))
  ++ lit "args=" ++ concat_str (map (fun z => Z_to_str z ++ [44%N]) (b_excess b)) ++ semi
  ++ lit "kwargs=" ++ concat_str (map (fun p => fst p ++ [61%N] ++ Z_to_str (snd p) ++ [44%N]) (b_kwexcess b)) ++ semi.

Record callcase := { cc_params : @params Z; cc_pos : list Z; cc_kws : list (str * Z) }.
Definition run_call (c : callcase) : str := render_bound (bind (cc_params c) (cc_pos c) (cc_kws c)).

(* ---- the with tag over a scope chain ---- *)
Inductive wexpr := WLit (z : Z) | WVar (x : str).

Inductive wnode :=
| WPrint (x : str)                                   (* {{ x }}; -- an unbound name prints nothing *)
| WWith (args : list (str * wexpr)) (body : list wnode)
| WAssign (x : str) (e : wexpr).                     (* assign writes the template-level locals *)

(* a name may be bound to an undefined value (None): it then shadows outer bindings and prints nothing *)
Record wctx := { w_scopes : list (list (str * option Z)); w_locals : list (str * option Z); w_globals : list (str * option Z) }.

Fixpoint first_hit (x : str) (scopes : list (list (str * option Z))) : option (option Z) :=
  match scopes with
  | [] => None
  | s :: r => match alookup x s with Some v => Some v | None => first_hit x r end
  end.

Definition wlookup (c : wctx) (x : str) : option Z :=
  match first_hit x (w_scopes c ++ [w_locals c; w_globals c]) with Some v => v | None => None end.

Definition weval (c : wctx) (e : wexpr) : option Z :=
  match e with WLit z => Some z | WVar x => wlookup c x end.

(* the namespace of a with tag: every argument evaluated in the OUTER context; duplicate names: last wins *)
Fixpoint with_namespace (c : wctx) (args : list (str * wexpr)) (acc : list (str * option Z)) : list (str * option Z) :=
  match args with
  | [] => acc
  | (k, e) :: r => with_namespace c r (dict_set k (weval c e) acc)
  end.

Fixpoint wexec (fuel : nat) (c : wctx) (ns : list wnode) : res (str * wctx) :=
  match fuel with
  | O => OutOfFuel
  | S f =>
      match ns with
      | [] => Ok ([], c)
      | n :: rest =>
          do r <- (match n with
                   | WPrint x => Ok (show_opt (wlookup c x) ++ semi, c)
                   | WAssign x e =>
                       Ok ([], {| w_scopes := w_scopes c; w_locals := dict_set x (weval c e) (w_locals c);
                                  w_globals := w_globals c |})
                   | WWith args body =>
                       let ns' := with_namespace c args [] in
                       do r <- wexec f {| w_scopes := ns' :: w_scopes c; w_locals := w_locals c; w_globals := w_globals c |} body;
                       let '(out, c') := r in
                       (* the pushed namespace is popped; assignments made inside persist in locals *)
                       Ok (out, {| w_scopes := tl (w_scopes c'); w_locals := w_locals c'; w_globals := w_globals c' |})
                   end);
          let '(out, c1) := r in
          do r2 <- wexec f c1 rest;
          let '(out2, c2) := r2 in Ok (out ++ out2, c2)
      end
  end.

Record withcase := { wc_globals : list (str * Z); wc_body : list wnode }.
Definition run_with (c : withcase) : option str :=
  match wexec 60 {| w_scopes := []; w_locals := []; w_globals := map (fun p => (fst p, Some (snd p))) (wc_globals c) |} (wc_body c) with
  | Ok (out, _) => Some out
  | _ => None
  end.
