(* Scope_Iso_Proofs.v — isolation of rendered partials and macro bodies from their caller (C15). *)
From Coq Require Import String Ascii ZArith List Bool Lia.
From LiquidVerif Require Import Prelude PyPrims Scope Scope_Proofs.
Import ListNotations.

Lemma exec_S f E n c : exec (S f) E n c = exec_step E (exec f E) n c.
Proof. reflexivity. Qed.

(* what a caller can observe of a node: the text and how it ended *)
Definition obs (o : outcome) : option (str * signal) :=
  match o with Done _ out s => Some (out, s) | Fuel => None end.

(* the copied context is a function of the ROOT globals, the namespace and the disabled tags only *)
Lemma copy_depends_on_base c1 c2 na dis : base c1 = base c2 -> cfg c1 = cfg c2 -> copy c1 na dis = copy c2 na dis.
Proof. intros H G. unfold copy. rewrite H, G. reflexivity. Qed.

Lemma obs_back c (o : outcome) :
  obs (match o with Fuel => Fuel | Done _ out s => Done c out s end) = obs o.
Proof. destruct o; reflexivity. Qed.

Lemma obs_lift {A} (r : res A) c1 c2 k1 k2 :
  (forall a, obs (k1 a) = obs (k2 a)) -> obs (lift r c1 k1) = obs (lift r c2 k2).
Proof. intro H. destruct r; simpl; auto. Qed.

(* NON-INTERFERENCE for render: two caller contexts with the same root globals, in which the tag's arguments and its
   bound variable evaluate alike, get the same text and the same completion from the partial — whatever their
   block scopes, assigned and captured variables, counters, macros and loop state are *)
Theorem render_isolated f E name var args c1 c2 :
  base c1 = base c2 -> cfg c1 = cfg c2 ->
  eval_kwargs (e_uk E) c1 args [] = eval_kwargs (e_uk E) c2 args [] ->
  (forall p lp a, var = Some (p, lp, a) -> eval_path (e_uk E) c1 p = eval_path (e_uk E) c2 p) ->
  obs (exec (S f) E (NRender name var args) c1) = obs (exec (S f) E (NRender name var args) c2).
Proof.
  intros Hb Hg Ha Hv. cbn [exec]. unfold exec_step.
  destruct (alookup name (e_loader E)) as [body|]; [|reflexivity].
  rewrite Ha. apply obs_lift. intro na.
  rewrite (copy_depends_on_base c1 c2 na [TInclude] Hb Hg).
  destruct var as [[[p lp] alias]|].
  - rewrite (Hv p lp alias eq_refl). apply obs_lift. intro v.
    destruct (if lp then arraylike (e_uk E) v else ANot); try reflexivity; rewrite !obs_back; reflexivity.
  - rewrite !obs_back. reflexivity.
Qed.

(* the caller's context after a render tag is the caller's context before it: nothing the partial assigned,
   captured, counted or defined is visible afterwards *)
Theorem render_leaves_caller f E name var args c c' o s :
  exec f E (NRender name var args) c = Done c' o s -> c' = c.
Proof.
  destruct f as [|f]; [discriminate|]. cbn [exec]. unfold exec_step.
  destruct (alookup name (e_loader E)) as [body|]; [|intro H; inversion H; reflexivity].
  unfold lift. destruct (eval_kwargs (e_uk E) c args []) as [na| |]; [|intro H; inversion H; reflexivity|discriminate].
  destruct var as [[[p lp] alias]|].
  - destruct (eval_path (e_uk E) c p) as [v| |]; [|intro H; inversion H; reflexivity|discriminate].
    destruct (if lp then arraylike (e_uk E) v else ANot).
    + match goal with |- match ?X with _ => _ end = _ -> _ => destruct X; [|discriminate] end. intro H; inversion H; reflexivity.
    + match goal with |- match ?X with _ => _ end = _ -> _ => destruct X; [|discriminate] end. intro H; inversion H; reflexivity.
    + intro H; inversion H; reflexivity.
  - match goal with |- match ?X with _ => _ end = _ -> _ => destruct X; [|discriminate] end. intro H; inversion H; reflexivity.
Qed.

(* literal arguments evaluate alike in every context *)
Definition literal_args (args : list (str * expr)) : Prop :=
  forall k e, In (k, e) args -> exists l, e = ELit l.

Lemma eval_kwargs_literal uk c1 c2 args acc :
  literal_args args -> eval_kwargs uk c1 args acc = eval_kwargs uk c2 args acc.
Proof.
  revert acc. induction args as [|[k e] args IH]; intros acc H; simpl; [reflexivity|].
  destruct (H k e (or_introl eq_refl)) as [l ->]. simpl. apply IH.
  intros k' e' Hin. apply (H k' e'). right. exact Hin.
Qed.

(* the purest form: with literal arguments the partial's output is a function of the root globals alone *)
Corollary render_ignores_caller_locals f E name args c1 c2 :
  base c1 = base c2 -> cfg c1 = cfg c2 -> literal_args args ->
  obs (exec (S f) E (NRender name None args) c1) = obs (exec (S f) E (NRender name None args) c2).
Proof.
  intros Hb Hg Hl. apply render_isolated; [exact Hb|exact Hg|apply eval_kwargs_literal; exact Hl|discriminate].
Qed.

(* what a partial can resolve when it starts: its arguments, then the root globals, then now/today — nothing else *)
Theorem partial_sees_only_arguments_and_globals c na dis x :
  resolve (copy c na dis) x = first_hit x (na :: base c ++ [builtin_ns]).
Proof.
  unfold resolve, copy. cbn [scopes locals gl counters first_hit alookup option_map].
  destruct (alookup x na); [reflexivity|].
  rewrite first_hit_app. destruct (first_hit x (base c)); [reflexivity|].
  cbn [first_hit]. destruct (alookup x builtin_ns); reflexivity.
Qed.

(* ---- macros ---- *)
Theorem call_isolated f E name kws c1 c2 :
  base c1 = base c2 -> cfg c1 = cfg c2 ->
  alookup name (macros c1) = alookup name (macros c2) ->
  (forall ps body, alookup name (macros c1) = Some (ps, body) ->
     macro_namespace (e_uk E) c1 ps kws = macro_namespace (e_uk E) c2 ps kws) ->
  obs (exec (S f) E (NCall name kws) c1) = obs (exec (S f) E (NCall name kws) c2).
Proof.
  intros Hb Hg Hm Hn. cbn [exec]. unfold exec_step. rewrite <- Hm.
  destruct (alookup name (macros c1)) as [[ps body]|] eqn:Hl.
  - rewrite (Hn ps body eq_refl). apply obs_lift. intro nm.
    rewrite (copy_depends_on_base c1 c2 nm [TInclude; TBlock] Hb Hg). rewrite !obs_back. reflexivity.
  - apply obs_lift. intro t. reflexivity.
Qed.

Theorem call_leaves_caller f E name kws c c' o s :
  exec f E (NCall name kws) c = Done c' o s -> c' = c.
Proof.
  destruct f as [|f]; [discriminate|]. cbn [exec]. unfold exec_step.
  destruct (alookup name (macros c)) as [[ps body]|].
  - unfold lift. destruct (macro_namespace (e_uk E) c ps kws) as [nm| |]; [|intro H; inversion H; reflexivity|discriminate].
    match goal with |- match ?X with _ => _ end = _ -> _ => destruct X; [|discriminate] end. intro H; inversion H; reflexivity.
  - unfold lift. destruct (to_output (e_uk E) VUndef); [|intro H; inversion H; reflexivity|discriminate].
    intro H; inversion H; reflexivity.
Qed.

(* a macro body called with literal keyword arguments (and literal or absent defaults) ignores the caller's locals *)
Definition literal_params (ps : list (str * option expr)) : Prop :=
  forall p e, In (p, Some e) ps -> exists l, e = ELit l.

Lemma last_kw_in k kws e : last_kw k kws = Some e -> exists k', In (k', e) kws.
Proof.
  induction kws as [|[k' e'] kws IH]; simpl; [discriminate|].
  destruct (last_kw k kws) eqn:E.
  - intro H; inversion H; subst. destruct (IH eq_refl) as [k2 Hin]. exists k2. right. exact Hin.
  - destruct (str_eqb k k'); [|discriminate]. intro H; inversion H; subst. exists k'. left. reflexivity.
Qed.

Lemma bind_params_literal uk c1 c2 ps kws acc :
  literal_args kws -> literal_params ps -> bind_params uk c1 ps kws acc = bind_params uk c2 ps kws acc.
Proof.
  intros Hk. revert acc. induction ps as [|[p d] ps IH]; intros acc Hp; simpl; [reflexivity|].
  assert (Hp' : literal_params ps) by (intros p' e' Hin; apply (Hp p' e'); right; exact Hin).
  destruct (last_kw p kws) as [e|] eqn:El.
  - destruct (last_kw_in _ _ _ El) as [k' Hin]. destruct (Hk k' e Hin) as [l ->]. simpl. apply IH. exact Hp'.
  - destruct d as [e|].
    + destruct (Hp p e (or_introl eq_refl)) as [l ->]. simpl. apply IH. exact Hp'.
    + simpl. apply IH. exact Hp'.
Qed.

Lemma literal_args_filter g kws : literal_args kws -> literal_args (filter g kws).
Proof. intros H k e Hin. apply filter_In in Hin. destruct Hin as [Hin _]. apply (H k e Hin). Qed.

Corollary call_ignores_caller_locals f E name kws c1 c2 :
  base c1 = base c2 -> cfg c1 = cfg c2 -> alookup name (macros c1) = alookup name (macros c2) ->
  literal_args kws ->
  (forall ps body, alookup name (macros c1) = Some (ps, body) -> literal_params ps) ->
  obs (exec (S f) E (NCall name kws) c1) = obs (exec (S f) E (NCall name kws) c2).
Proof.
  intros Hb Hg Hm Hk Hp. apply call_isolated; [exact Hb|exact Hg|exact Hm|].
  intros ps body Hl. unfold macro_namespace.
  rewrite (eval_kwargs_literal (e_uk E) c1 c2 _ [] (literal_args_filter _ _ Hk)).
  destruct (eval_kwargs (e_uk E) c2 _ []); simpl; try reflexivity.
  apply bind_params_literal; [exact Hk|]. apply (Hp ps body Hl).
Qed.

(* ---- include is disabled in partials and macro bodies ---- *)
Theorem include_disabled_raises f E name var args c :
  is_disabled TInclude c = true ->
  exec (S f) E (NInclude name var args) c = Done c [] (Raise EDisabledTag).
Proof. intro H. cbn [exec]. unfold exec_step. rewrite H. reflexivity. Qed.

Lemma partial_context_disables_include c na :
  is_disabled TInclude (copy c na [TInclude]) = true /\ is_disabled TInclude (copy c na [TInclude; TBlock]) = true.
Proof. split; reflexivity. Qed.

(* the disabled tags never change inside a context: whatever was executed before, however deeply nested in blocks *)
Lemma disabled_preserved fuel E n c c' o s :
  exec fuel E n c = Done c' o s -> is_disabled TInclude c' = is_disabled TInclude c.
Proof. intro H. apply exec_frame in H. destruct H as (_ & _ & _ & D). unfold is_disabled. rewrite D. reflexivity. Qed.

Lemma disabled_preserved_seq fuel E l c c' o s :
  seq_nodes (exec fuel E) l c = Done c' o s -> is_disabled TInclude c' = is_disabled TInclude c.
Proof.
  intro H. apply seq_nodes_frame in H; [|apply exec_frame].
  destruct H as (_ & _ & _ & D). unfold is_disabled. rewrite D. reflexivity.
Qed.

(* the nodes of a rendered partial run with include disabled: after any prefix that completed, an include raises *)
Lemma tmpl_prefix_then_include md pr f E pre name var args post c :
  is_disabled TInclude c = true ->
  forall c1 o1, seq_nodes (exec (S f) E) pre c = Done c1 o1 Normal ->
  md = MStrict ->
  exists c2, tmpl_nodes md pr (exec (S f) E) (pre ++ NInclude name var args :: post) c = Done c2 o1 (Raise EDisabledTag).
Proof.
  intros Hd. revert c Hd. induction pre as [|n pre IH]; intros c Hd c1 o1 Hs Hm; subst md.
  - simpl in Hs. inversion Hs; subst. cbn [app tmpl_nodes].
    rewrite (include_disabled_raises f E name var args c1 Hd).
    destruct (tmpl_nodes MStrict pr (exec (S f) E) post c1); eexists; reflexivity.
  - cbn [app tmpl_nodes]. cbn [seq_nodes] in Hs.
    destruct (exec (S f) E n c) as [ca oa sa|] eqn:Hn; [|discriminate].
    destruct sa; try discriminate.
    destruct (seq_nodes (exec (S f) E) pre ca) as [cb ob sb|] eqn:Hp; [|discriminate].
    inversion Hs; subst.
    assert (Hda : is_disabled TInclude ca = true) by (rewrite (disabled_preserved _ _ _ _ _ _ _ Hn); exact Hd).
    destruct (IH ca Hda c1 ob Hp eq_refl) as [c2 H2]. rewrite H2. eexists. reflexivity.
Qed.

(* "a rendered partial cannot use the include tag": if the partial's nodes before an include complete, the render
   tag raises DisabledTagError (strict mode; the text of the completed nodes is discarded with the render) *)
Theorem no_include_in_render f E name args pname pvar pargs pre post c na c1 o1 :
  e_mode E = MStrict ->
  alookup name (e_loader E) = Some (pre ++ NInclude pname pvar pargs :: post) ->
  eval_kwargs (e_uk E) c args [] = Ok na ->
  seq_nodes (exec (S f) E) pre (push (copy c na [TInclude]) [(s_partial, VBool true)]) = Done c1 o1 Normal ->
  exec (S (S f)) E (NRender name None args) c = Done c o1 (Raise EDisabledTag).
Proof.
  intros Hm Hl Ha Hs. rewrite exec_S. unfold exec_step at 1. rewrite Hl, Ha. cbn [lift].
  unfold run_template, after.
  destruct (tmpl_prefix_then_include (e_mode E) false f E pre pname pvar pargs post
              (push (copy c na [TInclude]) [(s_partial, VBool true)]) eq_refl c1 o1 Hs Hm) as [c2 H2].
  rewrite H2. reflexivity.
Qed.

(* the same inside a macro body *)
Theorem no_include_in_macro f E name kws ps pname pvar pargs pre post c nm c1 o1 :
  alookup name (macros c) = Some (ps, pre ++ NInclude pname pvar pargs :: post) ->
  macro_namespace (e_uk E) c ps kws = Ok nm ->
  seq_nodes (exec (S f) E) pre (copy c nm [TInclude; TBlock]) = Done c1 o1 Normal ->
  exec (S (S f)) E (NCall name kws) c = Done c o1 (Raise EDisabledTag).
Proof.
  intros Hl Hn Hs. rewrite exec_S. unfold exec_step at 1. rewrite Hl, Hn. cbn [lift].
  assert (G : forall l c0 ca oa, is_disabled TInclude c0 = true ->
              seq_nodes (exec (S f) E) l c0 = Done ca oa Normal ->
              exists cb, seq_nodes (exec (S f) E) (l ++ NInclude pname pvar pargs :: post) c0 = Done cb oa (Raise EDisabledTag)).
  { induction l as [|n l IH]; intros c0 ca oa Hd H0.
    - simpl in H0. inversion H0; subst. cbn [app seq_nodes].
      rewrite (include_disabled_raises f E pname pvar pargs ca Hd). eexists. reflexivity.
    - cbn [app seq_nodes] in *.
      destruct (exec (S f) E n c0) as [cx ox sx|] eqn:Hn0; [|discriminate].
      destruct sx; try discriminate.
      destruct (seq_nodes (exec (S f) E) l cx) as [cy oy sy|] eqn:Hy; [|discriminate].
      inversion H0; subst.
      assert (Hdx : is_disabled TInclude cx = true) by (rewrite (disabled_preserved _ _ _ _ _ _ _ Hn0); exact Hd).
      destruct (IH cx ca oy Hdx Hy) as [cb Hb]. rewrite Hb. eexists. reflexivity. }
  destruct (G pre (copy c nm [TInclude; TBlock]) c1 o1 eq_refl Hs) as [cb Hb].
  rewrite Hb. reflexivity.
Qed.

(* ---- the recorded defect: before the repair a nested partial also saw the ENCLOSING partial's arguments ---- *)
Definition ctx0 : ctx := Ctx [] [] [[]] [[]] [] [] [] None default_flags.
Definition kx : str := slit "x".

(* full statement, old code: what a nested partial resolves depends only on its own arguments and the root globals *)
Definition only_explicit_args_old : Prop :=
  forall c outer1 outer2 inner x,
    resolve (nested_partial_ctx_old c outer1 inner) x = resolve (nested_partial_ctx_old c outer2 inner) x.

Theorem only_explicit_args_old_refuted : ~ only_explicit_args_old.
Proof.
  intro H. specialize (H ctx0 [(kx, VInt 1)] [(kx, VInt 2)] [] kx). vm_compute in H. discriminate.
Qed.

(* repaired code: it holds for every context *)
Theorem only_explicit_args c outer1 outer2 inner x :
  resolve (nested_partial_ctx c outer1 inner) x = resolve (nested_partial_ctx c outer2 inner) x.
Proof. reflexivity. Qed.

(* ---- render ... for: the items are rendered independently of one another ---- *)
(* specification: each item rendered by F on its own; the texts concatenated; the first abnormal completion ends it *)
Fixpoint each_item (F : val -> Z -> outcome) (items : list val) (i : Z) : option (str * signal) :=
  match items with
  | [] => Some ([], Normal)
  | v :: r =>
      match F v i with
      | Fuel => None
      | Done _ o Normal => match each_item F r (i + 1)%Z with Some (o2, s2) => Some (o ++ o2, s2) | None => None end
      | Done _ o s => Some (o, s)
      end
  end.

Lemma loop_items_each_item F items : forall i c,
  obs (loop_items false (fun _ v j => F v j) items i c) = each_item F items i.
Proof.
  induction items as [|v items IH]; intros i c; simpl; [reflexivity|].
  destruct (F v i) as [c1 o1 s1|]; [|reflexivity].
  specialize (IH (i + 1)%Z c1).
  destruct s1; try reflexivity.
  destruct (loop_items false (fun _ v0 j => F v0 j) items (i + 1)%Z c1) as [c2 o2 s2|]; simpl in *; rewrite <- IH; reflexivity.
Qed.

(* what `render 'p' for items` prints is the concatenation of rendering p for each item in a fresh copy of the
   context: no variable assigned and no counter incremented for one item is visible to the next *)
Theorem render_for_items_independent render1 key na items c0 :
  obs (render_loop render1 key na items c0) =
  each_item (fun itm i => render1 (set_gl_head c0 (dict_set key itm (dict_set s_forloop (forloop_drop i (zlen items)) na)))) items 0%Z.
Proof. unfold render_loop. apply loop_items_each_item. Qed.

(* witness of the repaired defect: with one shared context the second item saw what the first one assigned *)
Definition leak_env : env :=
  Env MStrict UDefault [(slit "p", [NText (slit "["); NOut (FPlain (EPath (Path (slit "seen") [])) []); NText (slit "]");
                                    NAssign (slit "seen") (FPlain (ELit (LInt 1)) []); NIncr (slit "n")])] no_filters.
Definition leak_render1 : ctx -> outcome :=
  run_template MStrict true false (exec 5 leak_env)
    (match alookup (slit "p") (e_loader leak_env) with Some b => b | None => [] end).

Definition render_for_independent_old : Prop :=
  forall render1 key na items c0,
    obs (render_loop_old render1 key na items c0) =
    each_item (fun itm i => render1 (set_gl_head c0 (dict_set key itm (dict_set s_forloop (forloop_drop i (zlen items)) na)))) items 0%Z.

Theorem render_for_independent_old_refuted : ~ render_for_independent_old.
Proof.
  intro H. specialize (H leak_render1 (slit "p") [] [VInt 1; VInt 2] (copy ctx0 [] [TInclude])).
  vm_compute in H. discriminate.
Qed.

(* ---- overridden inheritance blocks: render / call from inside a block-scoped copy ---- *)
(* the block-scoped copy keeps the ROOT globals (and the flags) of the template being extended ... *)
Lemma copy_block_keeps_base c : base (copy_block c) = base c /\ cfg (copy_block c) = cfg c.
Proof. split; reflexivity. Qed.

(* ... so a partial rendered from inside an overridden block starts from exactly what a partial rendered at the top
   level of the base template starts from: none of the base template's assigned, captured or block-scoped names *)
Theorem render_in_block_sees_only_arguments_and_globals c na dis x :
  resolve (copy (copy_block c) na dis) x = first_hit x (na :: base c ++ [builtin_ns]).
Proof. apply (partial_sees_only_arguments_and_globals (copy_block c) na dis x). Qed.

(* C15_render_isolated through blocks: with arguments that evaluate alike (e.g. literals) the render tag prints from
   inside the block-scoped copy what it prints in the context of the template being extended *)
Theorem render_isolated_through_block f E name var args c :
  eval_kwargs (e_uk E) (copy_block c) args [] = eval_kwargs (e_uk E) c args [] ->
  (forall p lp a, var = Some (p, lp, a) -> eval_path (e_uk E) (copy_block c) p = eval_path (e_uk E) c p) ->
  obs (exec (S f) E (NRender name var args) (copy_block c)) = obs (exec (S f) E (NRender name var args) c).
Proof. intros Ha Hv. apply render_isolated; try reflexivity; assumption. Qed.

(* the whole block tag: an overriding block whose body is a render tag with literal arguments prints what that render
   tag prints at the top level, whatever the base template bound around the block *)
Theorem block_render_isolated f E bname own ovs name args c :
  is_disabled TBlock c = false -> overrides c = Some ovs ->
  alookup bname ovs = Some [NRender name None args] -> literal_args args ->
  obs (exec (S (S f)) E (NBlock bname own) c) =
  match obs (exec (S f) E (NRender name None args) c) with
  | Some (out, Normal) => Some (out ++ [], Normal)
  | r => r
  end.
Proof.
  intros Hd Ho Hl Hlit. rewrite exec_S. unfold exec_step at 1. rewrite Hd, Ho, Hl. cbn [seq_nodes].
  pose proof (render_ignores_caller_locals f E name args (copy_block c) c eq_refl eq_refl Hlit) as H.
  destruct (exec (S f) E (NRender name None args) (copy_block c)) as [c1 o1 s1|];
    destruct (exec (S f) E (NRender name None args) c) as [c2 o2 s2|]; simpl in H; try discriminate; [|reflexivity].
  inversion H; subst. destruct s2; reflexivity.
Qed.

(* the same for a macro call *)
Theorem call_isolated_through_block f E name kws c :
  alookup name (macros (copy_block c)) = alookup name (macros c) ->
  (forall ps body, alookup name (macros (copy_block c)) = Some (ps, body) ->
     macro_namespace (e_uk E) (copy_block c) ps kws = macro_namespace (e_uk E) c ps kws) ->
  obs (exec (S f) E (NCall name kws) (copy_block c)) = obs (exec (S f) E (NCall name kws) c).
Proof. intros Hm Hn. apply call_isolated; try reflexivity; assumption. Qed.

(* what the block assigns, captures or counts stays in the copy: the context of the template being extended is
   returned as it was *)
Theorem block_leaves_base_template f E bname own ovs c c' o s :
  overrides c = Some ovs -> exec f E (NBlock bname own) c = Done c' o s -> c' = c.
Proof.
  intro Ho. destruct f as [|f]; [discriminate|]. rewrite exec_S. unfold exec_step. rewrite Ho.
  destruct (is_disabled TBlock c); [intro H; inversion H; reflexivity|].
  match goal with |- match ?X with _ => _ end = _ -> _ => destruct X; [|discriminate] end. intro H; inversion H; reflexivity.
Qed.

(* witness for the seeded variant (base_globals not propagated in the block-scoped branch): a partial rendered from
   inside the block then resolved the base template's local variables *)
Definition render_in_block_isolated_old : Prop :=
  forall c na dis x, resolve (copy (copy_block_old c) na dis) x = first_hit x (na :: base c ++ [builtin_ns]).

Theorem render_in_block_isolated_old_refuted : ~ render_in_block_isolated_old.
Proof.
  intro H. specialize (H (assign ctx0 kx (VStr (slit "LEAK"))) [] [TInclude] kx). vm_compute in H. discriminate.
Qed.

(* include stays disabled inside an inheritance block rendered within a partial or a macro body *)
Theorem block_keeps_include_disabled c : is_disabled TInclude (copy_block c) = is_disabled TInclude c.
Proof. reflexivity. Qed.

(* witness of the repaired defect: the block-scoped copy used to start with NO disabled tags *)
Theorem block_keeps_include_disabled_old_refuted :
  ~ (forall c, is_disabled TInclude (copy_block_enabled_old c) = is_disabled TInclude c).
Proof. intro H. specialize (H (copy ctx0 [] [TInclude])). vm_compute in H. discriminate. Qed.
