"""Entry point: ./check <ID> [--tier quick|thorough] [--replay FILE]"""

import argparse
import importlib
import json
import os
import sys
import traceback

from .core import Check


def main() -> int:
    ap = argparse.ArgumentParser()
    ap.add_argument("pid")
    ap.add_argument("--tier", default=os.environ.get("VERIF_TIER", "quick"))
    ap.add_argument("--replay", default=None)
    a = ap.parse_args()
    pid = a.pid.upper()
    mod = importlib.import_module(f"liquid_verif.props.{pid.lower()}")
    if a.replay:
        with open(a.replay) as f:
            data = json.load(f)
        return int(mod.replay(data))
    ck = Check(pid, a.tier)
    try:
        mod.run(ck)
    except Exception:  # a crash of the machinery is never reported as a pass
        traceback.print_exc()
        print(f"CHECK-ERROR property={pid} (machinery failure, not a verdict)")
        return 2
    return ck.finish()


if __name__ == "__main__":
    sys.exit(main())
