"""Shared machinery of every check: proof step, Coq case evaluation, verdicts, evidence."""

from __future__ import annotations

import atexit
import concurrent.futures
import fcntl
import hashlib
import json
import os
import random
import re
import shutil
import subprocess
import sys
import tempfile
import time
from collections import Counter
from typing import Any
from typing import Callable
from typing import Iterable
from typing import Optional
from typing import Sequence

VERIF = "/verif"
COQ_DIR = os.path.join(VERIF, "coq")
WORK = os.path.join(VERIF, ".work")
REPO = os.environ.get("VERIF_REPO", "/repo")  # /repo unless a seeded-change trial points at a scratch worktree
_OUT = os.environ.get("VERIF_OUT") or VERIF
REPLAYS = os.path.join(_OUT, "replays")
EVIDENCE = os.path.join(_OUT, "evidence")
KNOWN = os.path.join(VERIF, "known_findings.json")
NCPU = max(2, (os.cpu_count() or 4))

FORBIDDEN = re.compile(
    r"\b(Admitted|admit|Axiom|Axioms|Parameter|Parameters|Conjecture|Abort All|"
    r"Unset Guard Checking|Unset Positivity Checking|Unset Universe Checking|bypass_check|"
    r"Admit Obligations|native_compute)\b"
)


class Violation:
    def __init__(self, kind: str, signature: str, what: str, data: dict, no_input: bool = False):
        self.kind = kind  # impl-violation | correspondence | proof
        self.signature = signature
        self.what = what
        self.data = data
        self.no_input = no_input


class Check:
    """One run of one property's check."""

    def __init__(self, pid: str, tier: str):
        self.pid = pid
        self.tier = tier
        self.seed = int(os.environ.get("VERIF_SEED", "0") or 0)
        self.rng = random.Random((self.seed << 8) ^ int(re.sub(r"\D", "", pid) or 0))  # C04x etc.: scratch copies of a check under development
        self.t0 = time.time()
        self.violations: list[Violation] = []
        self.known_hits: Counter = Counter()
        self.evaluations = 0
        self.nontrivial: set = set()
        self.samples: list = []
        self.hist: Counter = Counter()
        self.rule = ""
        self.assumptions: list[str] = []
        self.trusted_base: list[str] = []
        self.obligations = 0
        self.discharged = 0
        self.axioms: dict[str, list[str]] = {}
        self.proof_error: Optional[str] = None
        self.checker_cmd = ""
        self.traces = 0
        self.model_cases = 0
        self.exhaustive = False
        self.extra: dict[str, Any] = {}
        os.makedirs(WORK, exist_ok=True)
        self.workdir = tempfile.mkdtemp(prefix=f"{pid}-", dir=WORK)
        atexit.register(lambda: shutil.rmtree(self.workdir, ignore_errors=True))
        self.known = _load_known()

    @property
    def quick(self) -> bool:
        return self.tier != "thorough"

    # ------------------------------------------------------------------ proof
    def build(self) -> None:
        """(Re)build the Coq development: a no-op unless /verif/coq changed."""
        lock = open(os.path.join(WORK, "build.lock"), "w")
        fcntl.flock(lock, fcntl.LOCK_EX)
        try:
            if not os.path.exists(os.path.join(COQ_DIR, "Makefile")):
                subprocess.run(
                    ["coq_makefile", "-f", "_CoqProject", "-o", "Makefile"],
                    cwd=COQ_DIR, check=True, capture_output=True,
                )
            r = subprocess.run(
                ["timeout", "3000", "make", f"-j{NCPU}"], cwd=COQ_DIR, capture_output=True, text=True
            )
            if r.returncode != 0:
                self.proof_error = "make failed:\n" + (r.stdout + r.stderr)[-3000:]
        finally:
            fcntl.flock(lock, fcntl.LOCK_UN)
            lock.close()

    def proof(self, extra_files: Sequence[str] = ()) -> None:
        """Re-check the property file with the kernel and record Print Assumptions."""
        self.build()
        path = os.path.join(COQ_DIR, "theories", "Props", f"{self.pid}.v")
        src = open(path).read()
        theorems = re.findall(r"^\s*Theorem\s+(\w+)", src, re.M)
        self.obligations = len(theorems)
        out_vo = os.path.join(self.workdir, f"{self.pid}.vo")
        cmd = ["timeout", "900", "coqc", "-Q", "theories", "LiquidVerif", "-o", out_vo, path]
        self.checker_cmd = "cd /verif/coq && make && " + " ".join(cmd[2:])
        if self.proof_error is None:
            r = subprocess.run(cmd, cwd=COQ_DIR, capture_output=True, text=True)
            text = r.stdout
            # one Print Assumptions block per theorem, in order
            blocks = re.split(r"(?=Closed under the global context|Axioms:)", text)
            blocks = [b for b in blocks if b.startswith("Closed") or b.startswith("Axioms:")]
            for name, b in zip(theorems, blocks):
                if b.startswith("Closed"):
                    self.axioms[name] = []
                else:
                    self.axioms[name] = re.findall(r"^(\S+)\s*:", b[len("Axioms:"):], re.M)
            self.discharged = len(blocks) if r.returncode == 0 else min(len(blocks), len(theorems))
            if r.returncode != 0:
                self.proof_error = (r.stderr or r.stdout)[-3000:]
            elif len(blocks) != len(theorems):
                self.proof_error = f"{len(theorems)} theorems but {len(blocks)} Print Assumptions blocks"
        # hygiene: nothing admitted / assumed anywhere in the development
        bad = []
        # every file of the development, i.e. every file listed in _CoqProject (work in progress that is not listed is not part of it)
        listed = [ln.strip() for ln in open(os.path.join(COQ_DIR, "_CoqProject")) if ln.strip().endswith(".v")]
        for rel in listed:
            f = os.path.basename(rel)
            txt = open(os.path.join(COQ_DIR, rel)).read()
            txt = re.sub(r"\(\*.*?\*\)", "", txt, flags=re.S)
            for m in FORBIDDEN.finditer(txt):
                bad.append(f"{f}: {m.group(0)}")
        if bad:
            self.proof_error = (self.proof_error or "") + " forbidden vernacular: " + ", ".join(bad[:10])
        if self.tier == "thorough" and self.proof_error is None and os.environ.get("VERIF_COQCHK", "1") == "1":
            # relative to cwd=COQ_DIR: coqchk 8.16 does not resolve an absolute .vo path against a relative -Q mapping
            vo = os.path.join("theories", "Props", f"{self.pid}.vo")
            r = subprocess.run(
                ["timeout", "1500", "coqchk", "-silent", "-o", "-Q", "theories", "LiquidVerif", vo],
                cwd=COQ_DIR, capture_output=True, text=True,
            )
            tail = (r.stdout + r.stderr)[-1500:]
            self.extra["coqchk"] = {"exit": r.returncode, "tail": tail}
            if r.returncode != 0:
                self.proof_error = "coqchk failed: " + tail
        if self.proof_error is not None:
            self.violation(
                "proof", "proof-broken",
                f"theorem(s) of Props/{self.pid}.v no longer check",
                {"theorem_file": f"coq/theories/Props/{self.pid}.v", "error": self.proof_error},
                no_input=True,
            )

    # ------------------------------------------------------- model evaluation
    def coq_mismatches(
        self,
        name: str,
        imports: str,
        run_fn: str,
        eqb: str,
        case_type: str,
        obs_type: str,
        cases: Sequence[str],
        expected: Sequence[str],
        chunk: int = 300,
        preamble: str = "",
    ) -> list[int]:
        """Evaluate the model on every case inside Coq and return the indices whose
        observation differs from `expected`.  `cases`/`expected` are Gallina terms."""
        assert len(cases) == len(expected)
        self.model_cases += len(cases)
        shards = []
        for si, lo in enumerate(range(0, len(cases), chunk)):
            hi = min(len(cases), lo + chunk)
            fn = os.path.join(self.workdir, f"cases_{name}_{si}.v")
            with open(fn, "w") as f:
                f.write(f"From LiquidVerif Require Import Prelude {imports}.\n")
                f.write("Set Printing Width 1000000. Set Printing Depth 1000000.\n")
                f.write(preamble + "\n")
                f.write(f"Definition cases : list ({case_type}) := [\n  ")
                f.write(";\n  ".join(cases[lo:hi]))
                f.write("\n].\n")
                f.write(f"Definition expected : list ({obs_type}) := [\n  ")
                f.write(";\n  ".join(expected[lo:hi]))
                f.write("\n].\n")
                f.write(f"Eval vm_compute in (mismatches ({run_fn}) ({eqb}) cases expected).\n")
            shards.append((lo, fn))

        def run_shard(arg):
            lo, fn = arg
            r = subprocess.run(
                ["timeout", "900", "coqc", "-Q", os.path.join(COQ_DIR, "theories"), "LiquidVerif", fn],
                cwd=self.workdir, capture_output=True, text=True,
            )
            if r.returncode != 0:
                return lo, None, (r.stderr or r.stdout)[-2000:]
            m = re.search(r"=\s*(.*?)\s*:\s*list N", r.stdout, re.S)
            if not m:
                return lo, None, "unparsable: " + r.stdout[-500:]
            idx = [int(x) for x in re.findall(r"\d+", m.group(1))]
            return lo, idx, None

        out: list[int] = []
        with concurrent.futures.ThreadPoolExecutor(max_workers=NCPU) as ex:
            for lo, idx, err in ex.map(run_shard, shards):
                if err is not None:
                    raise RuntimeError(f"coqc failed on case shard at {lo}: {err}")
                out.extend(lo + i for i in idx)
        return sorted(out)

    def coq_eval(self, imports: str, terms: Sequence[str], preamble: str = "") -> list[str]:
        """Print the model's value for a few terms (used for replay files)."""
        fn = os.path.join(self.workdir, f"show_{len(os.listdir(self.workdir))}.v")
        with open(fn, "w") as f:
            f.write(f"From LiquidVerif Require Import Prelude {imports}.\n")
            f.write("Set Printing Width 1000000. Set Printing Depth 1000000.\n")
            f.write(preamble + "\n")
            for t in terms:
                f.write(f"Eval vm_compute in ({t}).\n")
        r = subprocess.run(
            ["timeout", "600", "coqc", "-Q", os.path.join(COQ_DIR, "theories"), "LiquidVerif", fn],
            cwd=self.workdir, capture_output=True, text=True,
        )
        if r.returncode != 0:
            return ["<coqc error> " + (r.stderr or r.stdout)[-800:]] * len(terms)
        parts = re.split(r"^\s*=\s", r.stdout, flags=re.M)[1:]
        res = [re.sub(r"\s+", " ", p).strip() for p in parts]
        while len(res) < len(terms):
            res.append("<missing>")
        return res

    # --------------------------------------------------------------- verdicts
    def count(self, key: str, n: int = 1) -> None:
        self.hist[key] += n

    def note_case(self, canonical: Any, nontrivial: bool = True) -> None:
        self.evaluations += 1
        if nontrivial:
            h = hashlib.blake2b(repr(canonical).encode(), digest_size=8).digest()
            self.nontrivial.add(h)

    def sample(self, x: Any, limit: int = 6) -> None:
        if len(self.samples) < limit:
            self.samples.append(x)

    def violation(self, kind: str, signature: str, what: str, data: dict, no_input: bool = False) -> None:
        self.violations.append(Violation(kind, signature, what, data, no_input))

    def finish(self) -> int:
        os.makedirs(REPLAYS, exist_ok=True)
        os.makedirs(EVIDENCE, exist_ok=True)
        reported = 0
        known_lines = []
        seen_sigs: Counter = Counter()
        for v in self.violations:
            k = self._known_for(v)
            if k is not None:
                self.known_hits[k["signature"]] += 1
                continue
            seen_sigs[v.signature] += 1
            if seen_sigs[v.signature] > 3:  # at most three replays per distinct signature
                continue
            reported += 1
            path = os.path.join(REPLAYS, f"{self.pid}-{self.tier}-{reported}.json")
            with open(path, "w") as f:
                json.dump(
                    {"property": self.pid, "kind": v.kind, "signature": v.signature, "what": v.what,
                     "seed": self.seed, "tier": self.tier, "case": v.data,
                     "no_failing_input_found": v.no_input},
                    f, indent=1, default=str,
                )
            tail = " no-failing-input-found" if v.no_input else ""
            print(f"VIOLATION property={self.pid} replay={path}{tail}")
            print(f"  ({v.kind}; {v.signature}) {v.what}")
        for k in self.known.get("findings", []):
            if k["property"] == self.pid and self.known_hits.get(k["signature"]):
                line = f"KNOWN-FINDING: property={self.pid} {k['what']}"
                known_lines.append(line)
                print(line)
        total_unlisted = sum(seen_sigs.values())
        self._write_evidence(total_unlisted, known_lines)
        return 1 if reported else 0

    def _known_for_sig(self, sig: str) -> bool:
        return any(k["property"] == self.pid and k["signature"] == sig for k in self.known.get("findings", []))

    def _known_for(self, v: Violation) -> Optional[dict]:
        for k in self.known.get("findings", []):
            if k["property"] == self.pid and k["signature"] == v.signature:
                return k
        return None

    def _write_evidence(self, nviol: int, known_lines: list[str]) -> None:
        cov: dict[str, Any] = {
            "obligations": self.obligations,
            "discharged": self.discharged,
            "checker_cmd": self.checker_cmd or "n/a",
            "trusted_base": self.trusted_base,
            "axioms_per_theorem": self.axioms,
            "evaluations": self.evaluations,
            "distinct_nontrivial": len(self.nontrivial),
            "rule": self.rule,
            "samples": self.samples or ["<none>"],
            "traces_validated_against_impl": self.traces,
            "model_cases_evaluated_in_coq": self.model_cases,
            "input_distribution": dict(sorted(self.hist.items())),
            "exhaustive": self.exhaustive,
            "known_findings_seen": known_lines,
        }
        cov.update(self.extra)
        ev = {
            "property_id": self.pid,
            "tier": "thorough" if self.tier == "thorough" else "quick",
            "seed": self.seed,
            "level": "proof",
            "coverage": cov,
            "assumptions": self.assumptions,
            "wall_s": round(time.time() - self.t0, 2),
            "violations": nviol,
        }
        with open(os.path.join(EVIDENCE, f"{self.pid}.json"), "w") as f:
            json.dump(ev, f, indent=1, default=str)


def _load_known() -> dict:
    try:
        with open(KNOWN) as f:
            return json.load(f)
    except FileNotFoundError:
        return {"findings": [], "fixed": []}


# exception classification -----------------------------------------------------

def classify_exc(e: BaseException) -> str:
    """Map an exception to the model's `exn` enum (nearest modelled class in the MRO)."""
    import liquid.exceptions as X

    table = [
        ("ELoopLimit", "LoopIterationLimitError"),
        ("EOutputLimit", "OutputStreamLimitError"),
        ("ENamespaceLimit", "LocalNamespaceLimitError"),
        ("EContextDepth", "ContextDepthError"),
        ("ERequiredBlock", "RequiredBlockError"),
        ("EInherit", "TemplateInheritanceError"),
        ("EDisabledTag", "DisabledTagError"),
        ("ENotFound", "TemplateNotFoundError"),
        ("ENoSuchFilter", "NoSuchFilterFunc"),
        ("EFilterArg", "FilterArgumentError"),
        ("EUndefined", "UndefinedError"),
        ("EType", "LiquidTypeError"),
        ("ESyntax", "LiquidSyntaxError"),
    ]
    for tag, cname in table:
        cls = getattr(X, cname, None)
        if cls is not None and isinstance(e, cls):
            return tag
    if isinstance(e, X.LiquidError):
        return "ELiquid"
    import decimal

    for tag, cls in [
        ("ERecursionError", RecursionError),
        ("EUnicodeError", UnicodeError),
        ("EValueError", ValueError),
        ("ETypeError", TypeError),
        ("EOverflowError", OverflowError),
        ("EArithmeticError", (ArithmeticError, decimal.DecimalException)),
        ("EIndexError", IndexError),
        ("EKeyError", KeyError),
        ("EAssertionError", AssertionError),
        ("EOSError", OSError),
        ("ERuntimeError", RuntimeError),
    ]:
        if isinstance(e, cls):
            return tag
    return "EOtherForeign"


def is_liquid_exc(e: BaseException) -> bool:
    import liquid.exceptions as X

    return isinstance(e, X.LiquidError)


_LOOP = None


def run_async(coro):
    """Run a coroutine on one persistent event loop (cheap per call)."""
    import asyncio

    global _LOOP
    if _LOOP is None or _LOOP.is_closed():
        _LOOP = asyncio.new_event_loop()
    return _LOOP.run_until_complete(coro)
