"""Shared by C14 / C15 / C16: the generator AST of the mini-Liquid of coq/theories/Scope.v, its two printers
(Liquid source text and Gallina terms) and the engine runner (public API only, sync and async).

AST (plain tuples):
  path   ('path', root, [seg])    seg: ('k', style, name) | ('i', int) | ('n', root, [key])   key: ('k', name) | ('i', int)
         style: 'dot' | 'sq' | 'dq'
  expr   ('lit', value) | path                      value: None | bool | int | str
  fexpr  (expr, [filter])                           filter: 'upcase' | 'size' | ('default', value) | ('has', attr, expr|None)
  atom   ('truthy', expr) | ('eq', expr, value) | ('ne', expr, value) | ('lt', expr, int)
  cond   ('atom', atom) | ('and', atom, cond) | ('or', atom, cond)
  node   ('text', s) | ('out', fexpr) | ('assign', x, fexpr) | ('capture', x, body) | ('if', cond, th, el)
         | ('for', x, iter, body, els) | ('break',) | ('continue',) | ('with', [(k, expr)], body)
         | ('include', name, None | (path, alias|None), [(k, expr)])
         | ('render', name, None | (path, loop, alias|None), [(k, expr)])
         | ('macro', name, [(param, expr|None)], body) | ('call', name, [(k, expr)]) | ('incr', x) | ('decr', x)
         | ('block', name, body) | ('extends', base, [(name, body)])     (the child's blocks follow the extends tag)
  iter   ('ipath', path) | ('irange', a, b)
  case   dict(mode='strict'|'lax', uk='default'|'strict'|'falsy'|'strictdefault', loader={name: body},
              args={}, matter={}, tglobals={}, eglobals={}, body=[node], flags=(string_first_and_last, string_sequences))
"""

from __future__ import annotations

from .core import classify_exc, run_async
from .g import g_Z, g_bool, g_list, g_opt
from .g import g_str as _g_str_literal

IMPORTS = "PyPrims Scope"


class _Interner:
    """Strings of the case files are defined once in the preamble (`Definition s17 : str := [...]%N.`) and
    referred to by name, which keeps the generated terms small."""

    def __init__(self):
        self.names = {}

    def reset(self):
        self.names = {}

    def g(self, s):
        n = self.names.get(s)
        if n is None:
            n = f"s{len(self.names)}_"
            self.names[s] = n
        return n

    def preamble(self):
        return "\n".join(f"Definition {n} : str := {_g_str_literal(s)}." for s, n in self.names.items())


STRINGS = _Interner()


def g_str(s):
    return STRINGS.g(s)

# ------------------------------------------------------------------ helpers to build ASTs

def P(root, *segs):
    out = []
    for s in segs:
        if isinstance(s, tuple):
            out.append(s)
        elif isinstance(s, int):
            out.append(("i", s))
        else:
            out.append(("k", "dot", s))
    return ("path", root, out)


def lit(v):
    return ("lit", v)


def out(e, *filters):
    return ("out", (e if isinstance(e, tuple) else P(e), list(filters)))


def assign(x, e, *filters):
    return ("assign", x, (e, list(filters)))


def text(s):
    return ("text", s)


# ------------------------------------------------------------------ Liquid source

def lit_src(v):
    if v is None:
        return "nil"
    if v is True:
        return "true"
    if v is False:
        return "false"
    if isinstance(v, int):
        return str(v)
    assert "'" not in v
    return "'" + v + "'"


def key_src(k):
    return f"[{k[1]}]" if k[0] == "i" else "." + k[1]


def path_src(p):
    buf = [p[1]]
    for s in p[2]:
        if s[0] == "i":
            buf.append(f"[{s[1]}]")
        elif s[0] == "k":
            if s[1] == "dot":
                buf.append("." + s[2])
            elif s[1] == "sq":
                buf.append("['" + s[2] + "']")
            else:
                buf.append('["' + s[2] + '"]')
        else:
            buf.append("[" + s[1] + "".join(key_src(k) for k in s[2]) + "]")
    return "".join(buf)


def expr_src(e):
    return lit_src(e[1]) if e[0] == "lit" else path_src(e)


def filter_src(f):
    if f == "upcase" or f == "size":
        return f
    if f[0] == "has":
        return "has: '" + f[1] + "'" + (", " + expr_src(f[2]) if f[2] is not None else "")
    return "default: " + lit_src(f[1])


def fexpr_src(fe):
    e, fs = fe
    return expr_src(e) + "".join(" | " + filter_src(f) for f in fs)


def atom_src(a):
    if a[0] == "truthy":
        return expr_src(a[1])
    op = {"eq": "==", "ne": "!=", "lt": "<"}[a[0]]
    return f"{expr_src(a[1])} {op} {lit_src(a[2])}"


def cond_src(c):
    if c[0] == "atom":
        return atom_src(c[1])
    return f"{atom_src(c[1])} {c[0]} {cond_src(c[2])}"


def kwargs_src(args):
    return ", ".join(f"{k}: {expr_src(e)}" for k, e in args)


def body_src(body):
    return "".join(node_src(n) for n in body)


def node_src(n):
    t = n[0]
    if t == "text":
        return n[1]
    if t == "out":
        return "{{ " + fexpr_src(n[1]) + " }}"
    if t == "assign":
        return "{% assign " + n[1] + " = " + fexpr_src(n[2]) + " %}"
    if t == "capture":
        return "{% capture " + n[1] + " %}" + body_src(n[2]) + "{% endcapture %}"
    if t == "if":
        els = "{% else %}" + body_src(n[3]) if n[3] else ""
        return "{% if " + cond_src(n[1]) + " %}" + body_src(n[2]) + els + "{% endif %}"
    if t == "for":
        it = path_src(n[2][1]) if n[2][0] == "ipath" else f"({n[2][1]}..{n[2][2]})"
        els = "{% else %}" + body_src(n[4]) if n[4] else ""
        return "{% for " + n[1] + " in " + it + " %}" + body_src(n[3]) + els + "{% endfor %}"
    if t == "break":
        return "{% break %}"
    if t == "continue":
        return "{% continue %}"
    if t == "with":
        return "{% with " + kwargs_src(n[1]) + " %}" + body_src(n[2]) + "{% endwith %}"
    if t == "include":
        s = "{% include '" + n[1] + "'"
        if n[2] is not None:
            s += " with " + path_src(n[2][0]) + (f" as {n[2][1]}" if n[2][1] else "")
        if n[3]:
            s += ", " + kwargs_src(n[3])
        return s + " %}"
    if t == "render":
        s = "{% render '" + n[1] + "'"
        if n[2] is not None:
            s += (" for " if n[2][1] else " with ") + path_src(n[2][0]) + (f" as {n[2][2]}" if n[2][2] else "")
        if n[3]:
            s += ", " + kwargs_src(n[3])
        return s + " %}"
    if t == "macro":
        ps = ", ".join(p if d is None else f"{p}: {expr_src(d)}" for p, d in n[2])
        return "{% macro " + n[1] + (" " + ps if ps else "") + " %}" + body_src(n[3]) + "{% endmacro %}"
    if t == "call":
        return "{% call " + n[1] + (" " + kwargs_src(n[2]) if n[2] else "") + " %}"
    if t == "incr":
        return "{% increment " + n[1] + " %}"
    if t == "decr":
        return "{% decrement " + n[1] + " %}"
    if t == "block":
        return "{% block " + n[1] + " %}" + body_src(n[2]) + "{% endblock %}"
    if t == "extends":
        return "{% extends '" + n[1] + "' %}" + "".join("{% block " + k + " %}" + body_src(b) + "{% endblock %}" for k, b in n[2])
    raise ValueError(t)


# ------------------------------------------------------------------ Gallina terms

def g_scalar(v):
    if v is None:
        return "LNil"
    if isinstance(v, bool):
        return f"(LBool {g_bool(v)})"
    if isinstance(v, int):
        return f"(LInt {g_Z(v)})"
    return f"(LStr {g_str(v)})"


def g_val(v):
    if v is None:
        return "VNil"
    if isinstance(v, bool):
        return f"(VBool {g_bool(v)})"
    if isinstance(v, int):
        return f"(VInt {g_Z(v)})"
    if isinstance(v, str):
        return f"(VStr {g_str(v)})"
    if isinstance(v, list):
        return "(VList " + g_list(g_val(x) for x in v) + ")"
    if isinstance(v, dict):
        return "(VDict " + g_list(f"({g_str(k)}, {g_val(x)})" for k, x in v.items()) + ")"
    raise ValueError(v)


def g_ns(d):
    return g_list(f"({g_str(k)}, {g_val(v)})" for k, v in d.items())


def g_key(k):
    return f"KIndex {g_Z(k[1])}" if k[0] == "i" else f"KName {g_str(k[1])}"


def g_path(p):
    segs = []
    for s in p[2]:
        if s[0] == "i":
            segs.append(f"SKey Dot (KIndex {g_Z(s[1])})")
        elif s[0] == "k":
            st = {"dot": "Dot", "sq": "SQ", "dq": "DQ"}[s[1]]
            segs.append(f"SKey {st} (KName {g_str(s[2])})")
        else:
            segs.append(f"SNested {g_str(s[1])} " + g_list(g_key(k) for k in s[2]))
    return f"(Path {g_str(p[1])} {g_list(segs)})"


def g_expr(e):
    return f"(ELit {g_scalar(e[1])})" if e[0] == "lit" else f"(EPath {g_path(e)})"


def g_filter(f):
    if f == "upcase":
        return "FUpcase"
    if f == "size":
        return "FSize"
    if f[0] == "has":
        return f"FHas {g_str(f[1])} {g_opt(f[2], g_expr)}"
    return f"FDefault {g_scalar(f[1])}"


def g_fexpr(fe):
    return f"(FPlain {g_expr(fe[0])} {g_list(g_filter(f) for f in fe[1])})"


def g_atom(a):
    if a[0] == "truthy":
        return f"(CTruthy {g_expr(a[1])})"
    if a[0] == "lt":
        return f"(CLt {g_expr(a[1])} {g_Z(a[2])})"
    return f"({'CEq' if a[0] == 'eq' else 'CNe'} {g_expr(a[1])} {g_scalar(a[2])})"


def g_cond(c):
    if c[0] == "atom":
        return f"(CAtom {g_atom(c[1])})"
    return f"({'CAnd' if c[0] == 'and' else 'COr'} {g_atom(c[1])} {g_cond(c[2])})"


def g_kwargs(args):
    return g_list(f"({g_str(k)}, {g_expr(e)})" for k, e in args)


def g_body(body):
    return g_list(g_node(n) for n in body)


def g_node(n):
    t = n[0]
    if t == "text":
        return f"NText {g_str(n[1])}"
    if t == "out":
        return f"NOut {g_fexpr(n[1])}"
    if t == "assign":
        return f"NAssign {g_str(n[1])} {g_fexpr(n[2])}"
    if t == "capture":
        return f"NCapture {g_str(n[1])} {g_body(n[2])}"
    if t == "if":
        return f"NIf {g_cond(n[1])} {g_body(n[2])} {g_body(n[3])}"
    if t == "for":
        it = f"(IPath {g_path(n[2][1])})" if n[2][0] == "ipath" else f"(IRange {g_Z(n[2][1])} {g_Z(n[2][2])})"
        return f"NFor {g_str(n[1])} {it} {g_body(n[3])} {g_body(n[4])}"
    if t == "break":
        return "NBreak"
    if t == "continue":
        return "NContinue"
    if t == "with":
        return f"NWith {g_kwargs(n[1])} {g_body(n[2])}"
    if t == "include":
        var = "None" if n[2] is None else f"(Some ({g_path(n[2][0])}, {g_opt(n[2][1], g_str)}))"
        return f"NInclude {g_str(n[1])} {var} {g_kwargs(n[3])}"
    if t == "render":
        var = "None" if n[2] is None else f"(Some ({g_path(n[2][0])}, {g_bool(n[2][1])}, {g_opt(n[2][2], g_str)}))"
        return f"NRender {g_str(n[1])} {var} {g_kwargs(n[3])}"
    if t == "macro":
        ps = g_list(f"({g_str(p)}, {g_opt(d, g_expr)})" for p, d in n[2])
        return f"NMacro {g_str(n[1])} {ps} {g_body(n[3])}"
    if t == "call":
        return f"NCall {g_str(n[1])} {g_kwargs(n[2])}"
    if t == "incr":
        return f"NIncr {g_str(n[1])}"
    if t == "decr":
        return f"NDecr {g_str(n[1])}"
    if t == "block":
        return f"NBlock {g_str(n[1])} {g_body(n[2])}"
    if t == "extends":
        return f"NExtends {g_str(n[1])} " + g_list(f"({g_str(k)}, {g_body(b)})" for k, b in n[2])
    raise ValueError(t)


G_UK = {"default": "UDefault", "strict": "UStrict", "falsy": "UFalsy", "strictdefault": "UStrictDefault"}


def g_case(case):
    loader = g_list(f"({g_str(k)}, {g_body(b)})" for k, b in case["loader"].items())
    fl, sq = case.get("flags", (False, False))
    return (f"(Case {'MStrict' if case['mode'] == 'strict' else 'MLax'} {G_UK[case['uk']]} (Flags {g_bool(fl)} {g_bool(sq)}) {loader} "
            f"{g_ns(case['args'])} {g_ns(case['matter'])} {g_ns(case['tglobals'])} {g_ns(case['eglobals'])} "
            f"{g_body(case['body'])})")


def g_obs(obs):
    return f"(Ok {_g_str_literal(obs[1])})" if obs[0] == "out" else f"(Err {obs[1]})"


def mk_case(body, loader=None, args=None, matter=None, tglobals=None, eglobals=None, mode="strict", uk="default", flags=(False, False)):
    return {"mode": mode, "uk": uk, "loader": loader or {}, "args": args or {}, "matter": matter or {},
            "tglobals": tglobals or {}, "eglobals": eglobals or {}, "body": body, "flags": tuple(flags)}


def case_sources(case):
    return {"template": body_src(case["body"]), "partials": {k: body_src(b) for k, b in case["loader"].items()}}


def case_json(case):
    d = {k: case[k] for k in ("mode", "uk", "args", "matter", "tglobals", "eglobals")}
    d["flags"] = list(case.get("flags", (False, False)))
    d.update(case_sources(case))
    return d


# ------------------------------------------------------------------ the engine, through its public API

def _undefined_class(uk):
    import liquid.undefined as U

    return {"default": U.Undefined, "strict": U.StrictUndefined, "falsy": U.FalsyStrictUndefined,
            "strictdefault": U.StrictDefaultUndefined}[uk]


_ENV_CACHE: dict = {}


def render_sources(src, partials, args, matter, tglobals, eglobals, mode, uk, use_async, flags=(False, False)):
    from liquid import DictLoader, Environment, Mode
    import liquid.extra as ex

    try:
        key = (tuple(sorted(partials.items())), repr(eglobals), mode, uk, tuple(flags))
        env = _ENV_CACHE.get(key)
        if env is None:
            cls = Environment
            if any(flags):   # the feature flags are class attributes of the Environment
                cls = type("FlagEnv", (Environment,), {"string_first_and_last": bool(flags[0]), "string_sequences": bool(flags[1])})
            env = cls(loader=DictLoader(dict(partials)), undefined=_undefined_class(uk),
                              globals=dict(eglobals) if eglobals else None,
                              tolerance=Mode.STRICT if mode == "strict" else Mode.LAX)
            ex.add_tags(env)
            if len(_ENV_CACHE) > 16:
                _ENV_CACHE.clear()
            _ENV_CACHE[key] = env
        t = env.from_string(src, globals=dict(tglobals) if tglobals else None, matter=dict(matter) if matter else None)
        if use_async:
            return ("out", run_async(t.render_async(**args)))
        return ("out", t.render(**args))
    except Exception as e:  # noqa: BLE001
        return ("err", classify_exc(e))


def render_case(case, use_async=False):
    s = case_sources(case)
    return render_sources(s["template"], s["partials"], case["args"], case["matter"], case["tglobals"],
                          case["eglobals"], case["mode"], case["uk"], use_async, case.get("flags", (False, False)))


def render_json(d, use_async=False):
    """Re-run a case stored by case_json (replay)."""
    return render_sources(d["template"], d["partials"], d["args"], d["matter"], d["tglobals"], d["eglobals"],
                          d["mode"], d["uk"], use_async, tuple(d.get("flags", (False, False))))
