"""C10 — Literal text, raw blocks, comments and whitespace control."""

from __future__ import annotations

import itertools

from ..core import Check
from . import lexgen as G

IMPORTS = "Lex"
D = G.DEFAULT

_ENV = None


def env():
    global _ENV
    if _ENV is None:
        _ENV = G.make_env(D, comments=True)
    return _ENV


def safe_text(t: str, last: bool) -> bool:
    """Text that cannot be read as (part of) markup: no opening delimiter inside it and, when markup follows,
    no trailing '{' that would fuse with the next opening delimiter."""
    if any(x in t for x in ("{{", "{%", "{#")):
        return False
    return last or not t.endswith("{")


def oracle_applies(tpl) -> bool:
    segs, tail = tpl
    return all(safe_text(t, False) for t, _ in segs) and safe_text(tail, True)


def failing_class(tpl, got):
    """A stable name for the kind of failure of the smallest piece of the template that already renders wrongly:
    the markup kind plus which whitespace decision came out wrong (not the particular paddings/bodies/texts)."""
    segs, tail = tpl
    for i, (t, m) in enumerate(segs):
        nxt = segs[i + 1][0] if i + 1 < len(segs) else tail
        nxt_m = segs[i + 1][1] if i + 1 < len(segs) else None
        one = ([(t, m)], nxt if nxt_m is None or not G.opens_with_hyphen(nxt_m) else nxt.rstrip())
        # separate the two questions: first without a final newline, then with it
        for cand in (([(t, m)], one[1][:-1] + "." if one[1].endswith("\n") else one[1]), one):
            src = G.build(D, cand)
            r = G.real_render(env(), src)
            want = G.spec_render(cand)
            if r != ("out", want):
                one = cand
                break
        else:
            continue
        body = (t.rstrip() if G.opens_with_hyphen(m) else t) + G.markup_out(m)
        after = one[1]
        closes = G.closes_with_hyphen(m)
        flipped_after = body + (after if closes else after.lstrip())
        if r[0] != "out":
            what = "raises " + r[1]
        elif r[1] == flipped_after:
            what = ("text after it keeps its leading whitespace although the closing delimiter carries '-'" if closes
                    else "text after it loses its leading whitespace although the closing delimiter carries no '-'")
        elif r[1] + "\n" == want:
            what = "final newline of the source lost after a closing delimiter with '-'"
        else:
            what = "other: " + repr(src)[:120]
        return f"{m[0]}: {what}", one
    return "interaction:" + G.canonical(tpl)[:160], tpl


def gen_structured(ck: Check):
    rng = ck.rng
    quick = ck.quick
    # (1) one markup between two texts: every kind x every marker combination x every pair of texts
    for t1 in G.TEXTS:
        for t2 in G.TEXTS:
            for m in G.all_markups(rng):
                yield "len1", ([(t1, m)], t2)
    # (2) two markups: every pair of kinds and markers (thorough) / a sample (quick); texts drawn at random
    pairs = list(itertools.product(range(len(G.SHAPES)), repeat=2))
    if quick:
        pairs = rng.sample(pairs, 900)
    for i, j in pairs:
        for mid in (rng.sample(G.TEXTS, 3) if not quick else [rng.choice(G.TEXTS)]):
            a = G.fix_markup(G.inst(rng, G.SHAPES[i]))
            b = G.fix_markup(G.inst(rng, G.SHAPES[j]))
            yield "len2", ([(rng.choice(G.TEXTS), a), (mid, b)], rng.choice(G.TEXTS))
    # (3) longer templates and markup-like text fragments, at random
    for _ in range(700 if quick else 8000):
        n = rng.randrange(3, 6)
        texts = G.TEXTS + (G.TEXTS_MARKUPLIKE if rng.random() < 0.5 else [])
        segs = [(rng.choice(texts), G.rand_markup(rng)) for _ in range(n)]
        yield "len3-5", (segs, rng.choice(texts))
    for _ in range(500 if quick else 3000):
        n = rng.randrange(0, 3)
        segs = [(rng.choice(G.TEXTS_MARKUPLIKE), G.rand_markup(rng)) for _ in range(n)]
        yield "markuplike", (segs, rng.choice(G.TEXTS_MARKUPLIKE + G.TEXTS))


WORDS = ["raw", "endraw", "comment", "endcomment", "doc", "enddoc", "echo", "x", "'a'", "#", "liquid"]
ALPHA = list("{%}-# \n\ta_'") + ["{{", "}}", "{%", "%}", "{#", "#}", "{%-", "-%}", "{{-", "-}}"]


def gen_random(ck: Check):
    rng = ck.rng
    for _ in range(1500 if ck.quick else 12000):
        n = rng.randrange(0, 28)
        yield "".join(rng.choice(WORDS) if rng.random() < 0.25 else rng.choice(ALPHA) for _ in range(n))


def run(ck: Check) -> None:
    ck.rule = (
        "templates = texts alternating with markup (output / echo of a string literal, raw, comment, doc, shorthand comment, "
        "inline comment), default delimiters, template_comments=True. Exhaustive: one markup of every kind with every "
        "combination of its 2 or 4 whitespace-control markers between every pair of texts from "
        + repr(G.TEXTS) + "; two markups: every pair of kinds x markers (thorough; 900 sampled pairs in quick) with the text "
        "between them drawn from the same set (3 per pair); plus random templates of 3-5 markups, texts with markup-like fragments "
        + repr(G.TEXTS_MARKUPLIKE) + ", and random sources over an alphabet rich in delimiters, hyphens, newlines and the "
        "words raw/endraw/comment/endcomment/doc/enddoc. Observed: list(env.tokenizer()(src)) (kind, value, start) and the "
        "rendered text or error class, sync and async. Non-trivial = the source contains at least one markup match."
    )
    ck.exhaustive = True
    ck.trusted_base = [
        "Coq 8.16.1 kernel + vm_compute",
        "harness: segment generator, concrete-syntax printer, reference renderer spec_render (props/lexgen.py), Gallina printers",
        "modelled not verified: the backtracking of Python's re on the six lexer rules (Lex.v writes them as explicit "
        "scanners: close / find_first / wordtag), str.isspace, \\w on ASCII, str.lstrip/rstrip",
    ]
    ck.assumptions = [
        "theorem C10_whitespace_control holds under the occurrence guard no_collision_occ: any characters in texts as long as no "
        "opening delimiter occurs at a position inside the text (an occurrence completed by the following markup included), any "
        "characters in a body as long as its own closing pattern matches at no position inside it; block-comment bodies that "
        "contain complete markup and the inner lines of liquid tags are covered by the correspondence run only",
        "the parser/renderer is modelled for the literal fragment only (content, comments, doc, raw, inline comment, "
        "output/echo of a quoted string without escapes)",
    ]
    ck.proof()

    cases, expected, meta = [], [], []
    reported: dict = {}

    def add_case(src, label, tpl):
        toks = G.real_tokens(env(), src)
        s = G.real_render(env(), src, False)
        a = G.real_render(env(), src, True)
        frag = G.in_fragment(toks) and s == a
        cases.append(G.g_lexcase(D, src))
        expected.append(f"({G.g_tokens(toks)}, {('Some (' + G.g_robs(s) + ')') if frag else 'None'})")
        meta.append((src, toks, s, tpl))
        ck.count(label)
        ck.count("in-fragment" if frag else "tokens-only")
        ck.note_case(src, nontrivial=isinstance(toks, list) and any(k != "content" for k, _, _ in toks))
        return toks, s, a

    explained = set()
    for label, tpl in gen_structured(ck):
        src = G.build(D, tpl)
        if len(src) > 110:
            continue
        toks, s, a = add_case(src, label, tpl)
        if s != a:
            ck.violation("impl-violation", "sync-async:" + src[:80], f"{src!r}: sync={s} async={a}",
                         {"type": "template", "source": src, "reference": None, "sync": s, "async": a})
        if oracle_applies(tpl):
            want = ("out", G.spec_render(tpl))
            ck.count("oracle-applied")
            if s != want:
                explained.add(len(cases) - 1)
                cls, small = failing_class(tpl, s)
                if cls not in reported and len(reported) < 12:
                    reported[cls] = 1
                    ssrc = G.build(D, small)
                    ck.violation(
                        "impl-violation", "c10-render:" + cls,
                        f"{ssrc!r} renders {G.real_render(env(), ssrc)!r}; documented whitespace control gives "
                        f"{G.spec_render(small)!r}",
                        {"type": "template", "source": ssrc, "reference": G.spec_render(small), "found_in": src})
    for src in gen_random(ck):
        add_case(src, "random-source", None)
    ck.sample({"source": meta[len(meta) // 3][0], "tokens": meta[len(meta) // 3][1], "render": meta[len(meta) // 3][2]})
    ck.sample({"source": meta[-1][0], "tokens": meta[-1][1], "render": meta[-1][2]})

    mm = ck.coq_mismatches("lex", IMPORTS, "run_lex", "lexobs_eqb", "lexcase",
                           "res (list token) * option robs", cases, expected, chunk=300, preamble=G.PREAMBLE)
    ck.traces += len(cases)
    shown = 0
    for i in mm:
        if i in explained or shown >= 3:
            continue
        shown += 1
        src, toks, s, _ = meta[i]
        model = ck.coq_eval(IMPORTS, [f"run_lex ({G.g_lexcase(D, src)})"])[0]
        ck.violation("correspondence", "c10-lexer-correspondence",
                     f"model Lex.run_lex and the implementation disagree on {src!r}",
                     {"type": "template", "source": src, "reference": None, "impl_tokens": toks, "impl_render": s,
                      "model": model[:1500],
                      "broken": "correspondence Lex.tokenize/render_toks ~ Environment.tokenizer / from_string().render "
                                "(theorems C10_whitespace_control, C10_raw_verbatim, C10_comments_silent)"},
                     no_input=True)
    ck.extra["model_mismatches"] = len(mm)
    ck.extra["mismatches_explained_by_oracle"] = len([i for i in mm if i in explained])


def replay(data) -> int:
    case = data["case"]
    if case.get("type") != "template" or case.get("reference") is None:
        print("replay names a proof/correspondence obligation:", {k: case[k] for k in case if k != "model"})
        return 1
    src = case["source"]
    s = G.real_render(env(), src, False)
    a = G.real_render(env(), src, True)
    print("source:", repr(src))
    print("sync :", s)
    print("async:", a)
    print("documented:", repr(case["reference"]))
    bad = s != a or s != ("out", case["reference"])
    print(("VIOLATION reproduced" if bad else "not reproduced") + f" property={data['property']}")
    return 1 if bad else 0
