"""C26 — Null translations leave message text intact."""

from __future__ import annotations

import itertools
import re

from ..core import Check, classify_exc, run_async
from ..g import g_Z, g_bool, g_list, g_str

IMPORTS = "PyPrims Translate"

_ENV = None


def env():
    global _ENV
    if _ENV is None:
        from liquid import Environment
        import liquid.extra as ex

        _ENV = Environment()
        ex.add_tags_and_filters(_ENV)
    return _ENV


def render(src, data, use_async=False):
    try:
        t = env().from_string(src)
        return ("out", run_async(t.render_async(**data)) if use_async else t.render(**data))
    except Exception as e:  # noqa: BLE001
        return ("err", classify_exc(e))


VALUES = {"n": "N1", "m": "<M>"}
PH = re.compile(r"(?<!%)%\((\w+)\)s")


def ref_filter(text, vars_):
    """The property, directly: text unchanged except %(name)s placeholders replaced by the named variables."""
    return PH.sub(lambda mo: vars_.get(mo.group(1), ""), text)


# ------------------------------------------------------------------------ filters
def filter_sources(text, how):
    """(template, data, vars visible to the message, expected text before substitution)."""
    data = {"msg": text, "plur": text + "P"}
    if how == "t":
        return "{{ msg | t }}", dict(data, **VALUES), VALUES, text
    if how == "t-kw":
        return "{{ msg | t: n: 'N1' }}", data, {"n": "N1"}, text
    if how == "t-kw-zero":      # a falsy keyword argument still wins over a same-named render variable
        return "{{ msg | t: n: 0, m: '' }}", dict(data, n="ctxN", m="ctxM"), {"n": "0", "m": ""}, text
    if how == "gettext-kw-false":
        return "{{ msg | gettext: n: false, m: nil }}", dict(data, n="ctxN", m="ctxM"), {"n": "false", "m": ""}, text
    if how == "gettext":
        return "{{ msg | gettext: m: mv }}", dict(data, mv=VALUES["m"]), {"m": VALUES["m"]}, text
    if how == "pgettext":
        return "{{ msg | pgettext: 'ctx', n: 'N1' }}", data, {"n": "N1"}, text
    if how == "ngettext-1":
        return "{{ msg | ngettext: plur, 1 }}", dict(data, **VALUES), VALUES, text
    if how == "ngettext-3":
        return "{{ msg | ngettext: plur, 3, n: 'N1' }}", data, {"n": "N1"}, text + "P"
    if how == "npgettext-0":
        return "{{ msg | npgettext: 'ctx', plur, 0 }}", dict(data, **VALUES), VALUES, text + "P"
    if how == "t-plural-2":
        return "{{ msg | t: plural: plur, count: 2 }}", dict(data, **VALUES), dict(VALUES, count="2"), text + "P"
    raise ValueError(how)


HOWS = ["t", "t-kw", "t-kw-zero", "gettext-kw-false", "gettext", "pgettext", "ngettext-1", "ngettext-3", "npgettext-0", "t-plural-2"]
PIECES = ["%", "%%", "%s", "%(n)s", "%(m)s", "(", ")", " ", "<", "a", "%(", ")s", "\n"]


def gen_texts(ck):
    maxlen = 3 if ck.quick else 4
    seen = set()
    for n in range(1, maxlen + 1):
        for ps in itertools.product(PIECES, repeat=n):
            t = "".join(ps)
            if t not in seen:
                seen.add(t)
                yield t
    for _ in range(300 if ck.quick else 3000):
        t = "".join(ck.rng.choice(PIECES) for _ in range(ck.rng.randrange(4, 10)))
        if t not in seen:
            seen.add(t)
            yield t


# ---------------------------------------------------------------------------- tag
TAG_CHARS = ["a", "%", "(", ")", "s", " ", "\n", "<", "n", "\t"]


def tag_source(items, variant):
    body = "".join(f"{{{{ {it[1]} }}}}" if it[0] == "var" else it[1] for it in items)
    if variant == "plain":
        return "{% translate %}" + body + "{% endtranslate %}", dict(VALUES), VALUES
    if variant == "args":
        return "{% translate n: 'N1', m: mv %}" + body + "{% endtranslate %}", {"mv": VALUES["m"]}, VALUES
    if variant == "context":
        return "{% translate context: 'c', n: 'N1' %}" + body + "{% endtranslate %}", {}, {"n": "N1"}
    if variant == "plural-1":
        return "{% translate count: 1 %}" + body + "{% plural %}P" + body + "{% endtranslate %}", dict(VALUES), dict(VALUES, count="1")
    raise ValueError(variant)


def ref_tag(items, vars_):
    """The property: text as written (percent signs included), whitespace runs containing a newline collapsed to
    one space and the ends stripped, {{ name }} replaced by the variables."""
    marks, buf = {}, []
    for i, it in enumerate(items):
        if it[0] == "var":
            mark = chr(0xE000 + i)
            marks[mark] = vars_.get(it[1], "")
            buf.append(mark)
        else:
            buf.append(it[1])
    msg = re.sub(r"\s*\n\s*", " ", "".join(buf).strip())
    return "".join(marks.get(c, c) for c in msg)


def gen_tag_items(ck):
    alphabet = [("chr", c) for c in TAG_CHARS] + [("var", "n"), ("var", "m")]
    maxlen = 3 if ck.quick else 4
    for n in range(1, maxlen + 1):
        for items in itertools.product(alphabet, repeat=n):
            yield list(items)
    for _ in range(400 if ck.quick else 4000):
        yield [ck.rng.choice(alphabet) for _ in range(ck.rng.randrange(4, 12))]


def g_items(items):
    return g_list((f"IVar {g_str(it[1])}" if it[0] == "var" else f"IChar {ord(it[1])}%N") for it in items)


def g_vars(vars_):
    return g_list(f"({g_str(k)}, {g_str(v)})" for k, v in sorted(vars_.items()))


# ------------------------------------------------------------------------- plural
COUNTS = [("absent", None), ("nil", None), ("bool", True), ("bool", False), ("int", 0), ("int", 1), ("int", 2), ("int", -1),
          ("int", 10**12), ("strint", 2), ("strint", 1), ("strint", 0), ("strbad", None)]


def g_count(c):
    k, v = c
    return {"absent": "CAbsent", "nil": "CNil", "strbad": "CStrBad"}.get(k) or (
        f"CBool {g_bool(v)}" if k == "bool" else (f"CInt {g_Z(v)}" if k == "int" else f"CStrInt {g_Z(v)}"))


def plural_source(is_tag, has_plural, c):
    k, v = c
    data = {}
    if k == "absent":
        arg = None
    elif k == "nil":
        arg = "nil"
    elif k == "bool":
        arg = "true" if v else "false"
    elif k == "int":
        data["cnt"] = v
        arg = "cnt"
    elif k == "strint":
        arg = f"'{v}'"
    else:
        arg = "'abc'"
    if is_tag:
        args = f" count: {arg}" if arg is not None else ""
        return "{% translate" + args + " %}S" + ("{% plural %}P" if has_plural else "") + "{% endtranslate %}", data
    parts = []
    if has_plural:
        parts.append("plural: 'P'")
    if arg is not None:
        parts.append(f"count: {arg}")
    return "{{ 'S' | t" + (": " + ", ".join(parts) if parts else "") + " }}", data


def ref_plural(has_plural, c):
    """gettext.NullTranslations chooses by n == 1; only defined here for integer counts."""
    import gettext

    k, v = c
    if k not in ("int", "strint"):
        return None
    if not has_plural:
        return "S"
    return gettext.NullTranslations().ngettext("S", "P", int(v))


def run(ck: Check) -> None:
    ck.rule = (
        "filters: every message built from <=3 (quick) / <=4 pieces of {%, %%, %s, %(n)s, %(m)s, (, ), space, <, a, %(, )s, newline} "
        "plus random longer ones, through t/gettext/pgettext/ngettext/npgettext with variables from keyword arguments, render data, or "
        "missing; tag: every body of <=3 / <=4 items over 10 characters and two variables plus random longer ones, in four tag variants; "
        "plural: 13 count values x with/without plural x tag and t filter (exhaustive). Non-trivial = the message contains a percent sign "
        "or a placeholder; distinct = distinct (message, variant)."
    )
    ck.exhaustive = True
    ck.trusted_base = [
        "Coq 8.16.1 kernel + vm_compute",
        "harness: generators, template printers, Gallina printers, reference substitution (props/c26.py)",
        "modelled not verified: Python re (the two placeholder patterns, \\s*\\n\\s*), str.strip, printf-style % formatting with a mapping, "
        "gettext.NullTranslations",
        "assumed: \\w and \\s restricted to ASCII in the model",
    ]
    ck.assumptions = ["autoescape off (C05 covers escaping); message catalogues other than NullTranslations are out of scope"]
    ck.proof()

    # ---- filters
    cases, expected, meta = [], [], []
    sigs = {}
    for text in gen_texts(ck):
        for how in (HOWS if len(text) <= 6 else [ck.rng.choice(HOWS)]):
            src, data, vars_, chosen = filter_sources(text, how)
            s = render(src, data)
            want = ref_filter(chosen, vars_)
            ck.note_case(("filter", text, how), nontrivial="%" in text)
            ck.count(f"filter.{how}")
            if s != ("out", want):
                a = render(src, data, True)
                sig = filter_sig(chosen, s)
                sigs[sig] = sigs.get(sig, 0) + 1
                if sigs[sig] <= 2:
                    ck.violation("impl-violation", sig,
                                 f"{src!r} with msg={text!r}: got {s} (async {a}), message text with placeholders substituted is {want!r}",
                                 {"type": "filter", "template": src, "data": data, "vars": vars_, "chosen": chosen, "got": s, "reference": want})
            if s[0] == "out":
                cases.append(f"{{| fc_text := {g_str(chosen)}; fc_vars := {g_vars(vars_)} |}}")
                expected.append(g_str(s[1]))
                meta.append((src, data, s))
    ck.sample({"template": meta[len(meta) // 3][0], "data": meta[len(meta) // 3][1], "output": meta[len(meta) // 3][2][1]})
    mm = ck.coq_mismatches("filter", IMPORTS, "run_filter", "str_eqb", "fcase", "str", cases, expected, chunk=1500)
    ck.traces += len(cases)
    for i in mm[:3]:
        src, data, s = meta[i]
        ck.violation("correspondence", "c26-filter-correspondence",
                     f"model Translate.run_filter and the implementation disagree on {src!r} data {data!r}: impl {s}",
                     {"type": "filter", "template": src, "data": data, "impl": s,
                      "broken": "correspondence Translate.run_filter ~ translation filters (theorems C26_filter_*)"}, no_input=True)

    # ---- tag
    tcases, texpected, tmeta = [], [], []
    for items in gen_tag_items(ck):
        for variant in (["plain", "args", "context", "plural-1"] if len(items) <= 3 else [ck.rng.choice(["plain", "args", "plural-1"])]):
            src, data, vars_ = tag_source(items, variant)
            s = render(src, data)
            a = render(src, data, True)
            want = ref_tag(items, vars_)
            ck.note_case(("tag", tuple(items), variant), nontrivial=any(it == ("chr", "%") or it[0] == "var" for it in items))
            ck.count(f"tag.{variant}")
            if s != ("out", want) or a != s:
                sig = tag_sig(items, s)
                sigs[sig] = sigs.get(sig, 0) + 1
                if sigs[sig] <= 2:
                    ck.violation("impl-violation", sig,
                                 f"{src!r} data {data!r}: sync {s} async {a}, expected {want!r}",
                                 {"type": "tag", "template": src, "data": data, "items": items, "vars": vars_, "got": s, "reference": want})
            if s[0] == "out" or s[1] != "EOtherForeign":
                tcases.append(f"{{| tc_items := {g_items(items)}; tc_vars := {g_vars(vars_)} |}}")
                texpected.append(f"TOut {g_str(s[1])}" if s[0] == "out" else f"TErr {s[1]}")
                tmeta.append((src, data, s))
    ck.sample({"template": tmeta[len(tmeta) // 2][0], "data": tmeta[len(tmeta) // 2][1], "output": tmeta[len(tmeta) // 2][2]})
    mm = ck.coq_mismatches("tag", IMPORTS, "run_tag", "tobs_eqb", "tcase", "tobs", tcases, texpected, chunk=1500)
    ck.traces += len(tcases)
    for i in mm[:3]:
        src, data, s = tmeta[i]
        ck.violation("correspondence", "c26-tag-correspondence",
                     f"model Translate.run_tag and the implementation disagree on {src!r} data {data!r}: impl {s}",
                     {"type": "tag", "template": src, "data": data, "impl": s,
                      "broken": "correspondence Translate.run_tag ~ translate tag (theorem C26_tag_text_intact)"}, no_input=True)

    # ---- plural
    pcases, pexpected, pmeta = [], [], []
    for is_tag in (True, False):
        for has_plural in (True, False):
            for c in COUNTS:
                src, data = plural_source(is_tag, has_plural, c)
                s = render(src, data)
                want = ref_plural(has_plural, c)
                ck.note_case(("plural", is_tag, has_plural, c), nontrivial=has_plural)
                ck.count("plural.cases")
                if want is not None and s != ("out", want):
                    sig = f"plural-count-{c[1]}-" + ("tag" if is_tag else "t-filter")
                    ck.violation("impl-violation", sig, f"{src!r} data {data!r}: got {s}, NullTranslations chooses {want!r}",
                                 {"type": "plural", "template": src, "data": data, "got": s, "reference": want})
                obs = "Ok Singular" if s == ("out", "S") else ("Ok Plural" if s == ("out", "P") else (f"Err {s[1]}" if s[0] == "err" else None))
                if obs:
                    pcases.append(f"{{| pc_tag := {g_bool(is_tag)}; pc_plural := {g_bool(has_plural)}; pc_count := {g_count(c)} |}}")
                    pexpected.append(obs)
                    pmeta.append((src, data, s))
    mm = ck.coq_mismatches("plural", IMPORTS, "run_plural", "pobs_eqb", "pcase", "res form", pcases, pexpected)
    ck.traces += len(pcases)
    for i in mm[:3]:
        src, data, s = pmeta[i]
        ck.violation("correspondence", "c26-plural-correspondence",
                     f"model Translate.run_plural and the implementation disagree on {src!r} data {data!r}: impl {s}",
                     {"type": "plural", "template": src, "data": data, "impl": s,
                      "broken": "correspondence Translate.run_plural ~ plural selection (theorem C26_plural_rule)"}, no_input=True)


def filter_sig(text, s):
    if s[0] == "err":
        return f"filter-percent-format-raises-{s[1]}"
    if "%%" in text:
        return "filter-collapses-double-percent"
    if "%" in PH.sub("", text):
        return "filter-percent-garbled"
    return "filter:" + repr(text)[:80]


def tag_sig(items, s):
    if s[0] == "err":
        return f"tag-percent-before-variable-{s[1]}"
    return "tag:" + repr(items)[:150]


def replay(data) -> int:
    case = data["case"]
    if case.get("type") not in ("filter", "tag", "plural"):
        print("replay names a proof/correspondence obligation:", case)
        return 1
    s = render(case["template"], case["data"])
    print("template:", case["template"], "data:", case["data"])
    print("got:", s, "expected:", case.get("reference"))
    bad = s != ("out", case.get("reference"))
    print(("VIOLATION reproduced" if bad else "not reproduced") + f" property={data['property']}")
    return 1 if bad else 0
