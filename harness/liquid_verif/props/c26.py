"""C26 — Null translations leave message text intact."""

from __future__ import annotations

import itertools
import re

from ..core import Check, classify_exc, run_async
from ..g import g_Z, g_bool, g_list, g_str

IMPORTS = "PyPrims Translate"

_ENV = None


def env():
    global _ENV
    if _ENV is None:
        from liquid import Environment
        import liquid.extra as ex

        _ENV = Environment()
        ex.add_tags_and_filters(_ENV)
    return _ENV


def render(src, data, use_async=False):
    try:
        t = env().from_string(src)
        return ("out", run_async(t.render_async(**data)) if use_async else t.render(**data))
    except Exception as e:  # noqa: BLE001
        return ("err", classify_exc(e))


VALUES = {"n": "N1", "m": "<M>"}
PH = re.compile(r"(?<!%)%\((\w+)\)s")


def ref_filter(text, vars_):
    """The property, directly: text unchanged except %(name)s placeholders replaced by the named variables."""
    return PH.sub(lambda mo: vars_.get(mo.group(1), ""), text)


# ------------------------------------------------------------------------ filters
def filter_sources(text, how):
    """(template, data, vars visible to the message, expected text before substitution)."""
    data = {"msg": text, "plur": text + "P"}
    if how == "t":
        return "{{ msg | t }}", dict(data, **VALUES), VALUES, text
    if how == "t-kw":
        return "{{ msg | t: n: 'N1' }}", data, {"n": "N1"}, text
    if how == "t-kw-zero":      # a falsy keyword argument still wins over a same-named render variable
        return "{{ msg | t: n: 0, m: '' }}", dict(data, n="ctxN", m="ctxM"), {"n": "0", "m": ""}, text
    if how == "gettext-kw-false":
        return "{{ msg | gettext: n: false, m: nil }}", dict(data, n="ctxN", m="ctxM"), {"n": "false", "m": ""}, text
    if how == "gettext":
        return "{{ msg | gettext: m: mv }}", dict(data, mv=VALUES["m"]), {"m": VALUES["m"]}, text
    if how == "pgettext":
        return "{{ msg | pgettext: 'ctx', n: 'N1' }}", data, {"n": "N1"}, text
    if how == "ngettext-1":
        return "{{ msg | ngettext: plur, 1 }}", dict(data, **VALUES), VALUES, text
    if how == "ngettext-3":
        return "{{ msg | ngettext: plur, 3, n: 'N1' }}", data, {"n": "N1"}, text + "P"
    if how == "npgettext-0":
        return "{{ msg | npgettext: 'ctx', plur, 0 }}", dict(data, **VALUES), VALUES, text + "P"
    if how == "t-plural-2":
        return "{{ msg | t: plural: plur, count: 2 }}", dict(data, **VALUES), dict(VALUES, count="2"), text + "P"
    raise ValueError(how)


HOWS = ["t", "t-kw", "t-kw-zero", "gettext-kw-false", "gettext", "pgettext", "ngettext-1", "ngettext-3", "npgettext-0", "t-plural-2"]
PIECES = ["%", "%%", "%s", "%(n)s", "%(m)s", "(", ")", " ", "<", "a", "%(", ")s", "\n"]


def gen_texts(ck):
    maxlen = 3 if ck.quick else 4
    seen = set()
    for n in range(1, maxlen + 1):
        for ps in itertools.product(PIECES, repeat=n):
            t = "".join(ps)
            if t not in seen:
                seen.add(t)
                yield t
    for _ in range(300 if ck.quick else 3000):
        t = "".join(ck.rng.choice(PIECES) for _ in range(ck.rng.randrange(4, 10)))
        if t not in seen:
            seen.add(t)
            yield t


# ---------------------------------------------------------------------------- tag
TAG_CHARS = ["a", "%", "(", ")", "s", " ", "\n", "<", "n", "\t"]
WS_CHARS_Q = ["a", " ", "\n", "\t", "%"]                      # whitespace sweep, quick
WS_CHARS_T = ["a", " ", "\n", "\t", "%", "\x1c", "\r", "\x0b"]  # thorough: every kind of ASCII whitespace
IDENT = re.compile(r"\w[\w\-]*\??", re.ASCII)
NAMES = ["a-b", "q?", "a-b?", "-", "x y", "a)s", "", "a%", "n(", "9", "_", "a.b"]   # plain, hyphenated, quoted-only names
NAME_VALUES_ALL = {"a-b": "AB", "q?": "Q", "a-b?": "ABQ", "-": "D", "x y": "XY", "a)s": "AS", "": "E", "a%": "AP", "n(": "NP",
               "9": "NINE", "_": "U", "a.b": "ADB"}


def var_markup(name):
    return f"{{{{ {name} }}}}" if IDENT.fullmatch(name) and not name[0].isdigit() else f"{{{{ ['{name}'] }}}}"


def tag_source(items, variant):
    body = "".join(var_markup(it[1]) if it[0] == "var" else it[1] for it in items)
    NAME_VALUES = {it[1]: NAME_VALUES_ALL[it[1]] for it in items if it[0] == "var" and it[1] in NAME_VALUES_ALL}
    allv = dict(VALUES, **NAME_VALUES)
    if variant == "plain":
        return "{% translate %}" + body + "{% endtranslate %}", dict(allv), allv
    if variant == "args":
        return "{% translate n: 'N1', m: mv %}" + body + "{% endtranslate %}", dict(NAME_VALUES, mv=VALUES["m"]), allv
    if variant == "context":
        return "{% translate context: 'c', n: 'N1' %}" + body + "{% endtranslate %}", dict(NAME_VALUES), dict(NAME_VALUES, n="N1")
    if variant == "plural-1":
        return "{% translate count: 1 %}" + body + "{% plural %}P" + body + "{% endtranslate %}", dict(allv), dict(allv, count="1")
    if variant == "plural-2":      # the plural block goes through the same construction
        return "{% translate count: 2 %}S{% plural %}" + body + "{% endtranslate %}", dict(allv), dict(allv, count="2")
    raise ValueError(variant)


NAME_OK = re.compile(r"[A-Za-z0-9_?\-]+")


def ref_tag(items, vars_):
    """The property, written as the documented rule and not as the code's regex: the ends are stripped; inside, a run
    of whitespace characters that contains a newline becomes one space, any other run stays; nothing else changes;
    {{ name }} is replaced by the variable (whose own whitespace is never touched).  A placeholder whose name could not
    be told from message text is rejected when the template is parsed."""
    if any(it[0] == "var" and not NAME_OK.fullmatch(it[1]) for it in items):
        return ("err", "ESyntax")
    toks = [(it[0], it[1]) for it in items]
    is_ws = lambda t: t[0] == "chr" and t[1].isspace()
    while toks and is_ws(toks[0]):
        toks.pop(0)
    while toks and is_ws(toks[-1]):
        toks.pop()
    out, k = [], 0
    while k < len(toks):
        if is_ws(toks[k]):
            e = k
            while e < len(toks) and is_ws(toks[e]):
                e += 1
            run = "".join(t[1] for t in toks[k:e])
            out.append(" " if "\n" in run else run)
            k = e
        else:
            out.append(vars_.get(toks[k][1], "") if toks[k][0] == "var" else toks[k][1])
            k += 1
    return ("out", "".join(out))


def gen_tag_items(ck):
    """(items, variants)"""
    allv = ["plain", "args", "context", "plural-1", "plural-2"]
    alphabet = [("chr", c) for c in TAG_CHARS] + [("var", "n"), ("var", "m")]
    maxlen = 3 if ck.quick else 4
    for n in range(1, maxlen + 1):
        for items in itertools.product(alphabet, repeat=n):
            yield list(items), (allv if n <= 2 else (["plain", "plural-2"] if n == 3 else ["plain"]))
    # whitespace sweep: every block over the whitespace alphabet
    ws = [("chr", c) for c in (WS_CHARS_Q if ck.quick else WS_CHARS_T)] + [("var", "n")]
    ws5 = [("chr", c) for c in (["a", " ", "\n"] if ck.quick else ["a", " ", "\n", "\t", "%"])] + [("var", "n")]
    for n in range(1, 6):
        for items in itertools.product(ws if n < 5 else ws5, repeat=n):
            if any(it[0] == "chr" and it[1].isspace() for it in items):
                yield list(items), ["plain"]
    # variable names: every name alone, after a percent sign, between text, next to whitespace
    for nm in NAMES:
        v = ("var", nm)
        for items in ([v], [("chr", "%"), v], [("chr", "a"), v, ("chr", "b")], [("chr", " "), v, ("chr", "\n"), v, ("chr", " ")],
                      [v, ("chr", "%"), ("chr", "("), ("chr", "n"), ("chr", ")"), ("chr", "s")], [("var", "n"), v]):
            yield items, ["plain", "args", "plural-2"]
    rich = alphabet + [("chr", c) for c in ("\x1c", "\r", "\x0b", "\x0c", "\x1f")] + [("var", nm) for nm in ("a-b", "q?", "x y")]
    for _ in range(400 if ck.quick else 4000):
        yield [ck.rng.choice(rich) for _ in range(ck.rng.randrange(4, 12))], [ck.rng.choice(["plain", "args", "plural-1", "plural-2"])]
    values_ws = {"n": " N \n 1 ", "m": "\n"}                       # whitespace inside VALUES is never normalised
    for items in ([("var", "n")], [("chr", " "), ("var", "n"), ("chr", "\n"), ("var", "m"), ("chr", " ")]):
        yield items, [("values", values_ws)]


def g_items(items):
    return g_list((f"IVar {g_str(it[1])}" if it[0] == "var" else f"IChar {ord(it[1])}%N") for it in items)


def g_vars(vars_):
    return g_list(f"({g_str(k)}, {g_str(v)})" for k, v in sorted(vars_.items()))


# ------------------------------------------------------- counts, contexts, gettext calls
class Recorder:
    """A translations object (public API: the `translations` render variable) that returns WHICH gettext function was
    called with which context and count instead of a translation."""

    def gettext(self, message):
        return "G"

    def ngettext(self, singular, plural, n):
        return f"N:{n}"

    def pgettext(self, ctx, message):
        return f"P:{ctx}"

    def npgettext(self, ctx, singular, plural, n):
        return f"Q:{n}:{ctx}"


INF = float("inf")
# (kind, python value) ; kind decides the Gallina constructor
COUNTS = [("absent", None), ("nil", None), ("bool", True), ("bool", False),
          ("int", 0), ("int", 1), ("int", 2), ("int", -1), ("int", 10**12), ("int", 10**30),
          ("float", 1.0), ("float", 1.5), ("float", 2.0), ("float", 0.5), ("float", -0.5), ("float", -1.0), ("float", 1.99), ("float", 0.0),
          ("inf", INF), ("inf", -INF), ("nan", float("nan")),
          ("str", "2"), ("str", "1"), ("str", "0"), ("str", " 1 "), ("str", "+1"), ("str", "-1"), ("str", "01"), ("str", "1_0"),
          ("str", "1__0"), ("str", "_1"), ("str", "1_"), ("str", "1.0"), ("str", "1e0"), ("str", "abc"), ("str", ""), ("str", " "),
          ("str", "- 1"), ("str", "\t2\n"), ("str", "+"), ("str", "1 1"), ("str", "0x1"),
          ("arr", [1, 2]), ("arr", []), ("hash", {"a": 1})]
CTXS = [("absent", None), ("nil", None), ("bool", True), ("bool", False), ("int", 0), ("int", 5), ("str", ""), ("str", "c"),
        ("str", "x y")]
COUNT_REPS = [("absent", None), ("nil", None), ("int", 1), ("int", 2), ("str", "2"), ("bool", False)]   # crossed with every context
ENTRIES = ["tag", "t", "gettext", "ngettext", "pgettext", "npgettext"]
ENTRY_C = {"tag": "ETag", "t": "ETFilter", "gettext": "EGettext", "ngettext": "ENgettext", "pgettext": "EPgettext", "npgettext": "ENpgettext"}


def g_count(c):
    k, v = c
    if k == "float":
        import decimal
        sign, digits, exp = decimal.Decimal(repr(v)).as_tuple()
        m = int("".join(map(str, digits))) * (-1 if sign else 1)
        assert exp <= 0
        return f"CFloat {g_Z(m)} {-exp}%nat"
    return {"absent": "CAbsent", "nil": "CNil", "inf": "CInf", "nan": "CNan", "arr": "CArr", "hash": "CHash"}.get(k) or (
        f"CBool {g_bool(v)}" if k == "bool" else (f"CInt {g_Z(v)}" if k == "int" else f"CStr {g_str(v)}"))


def g_ctx(x):
    k, v = x
    return {"absent": "XAbsent", "nil": "XNil"}.get(k) or (
        f"XBool {g_bool(v)}" if k == "bool" else (f"XInt {g_Z(v)}" if k == "int" else f"XStr {g_str(v)}"))


def literal(c):
    """The value written as a template literal, where Liquid has one."""
    k, v = c
    if k == "nil":
        return "nil"
    if k == "bool":
        return "true" if v else "false"
    if k == "int" and abs(v) < 10**15:
        return str(v)
    if k == "float":
        return repr(v)
    if k == "str" and "'" not in v and "\n" not in v:
        return "'" + v + "'"
    return None


def call_source(entry, has_plural, c, x, lit):
    """Template + data for one (entry point, plural?, count, context); None when the combination cannot be written."""
    data = {}

    def arg(name, val):
        if val[0] == "absent":
            return None
        if lit:
            l = literal(val)
            if l is not None:
                return l
        data[name] = val[1]
        return name

    cnt, ctx = arg("cnt", c), arg("ctx", x)
    if entry == "tag":
        args = ", ".join(p for p in (f"context: {ctx}" if ctx else None, f"count: {cnt}" if cnt else None) if p)
        return "{% translate " + args + " %}S" + ("{% plural %}P" if has_plural else "") + "{% endtranslate %}", data
    if entry == "t":
        parts = [p for p in (ctx, "plural: 'P'" if has_plural else None, f"count: {cnt}" if cnt else None) if p]
        return "{{ 'S' | t" + (": " + ", ".join(parts) if parts else "") + " }}", data
    if entry == "gettext":
        return ("{{ 'S' | gettext }}", data) if (cnt is None and ctx is None and not has_plural) else None
    if entry == "ngettext":
        return ("{{ 'S' | ngettext: 'P', " + cnt + " }}", data) if (cnt and ctx is None and has_plural) else None
    if entry == "pgettext":
        return ("{{ 'S' | pgettext: " + ctx + " }}", data) if (ctx and cnt is None and not has_plural) else None
    if entry == "npgettext":
        return ("{{ 'S' | npgettext: " + ctx + ", 'P', " + cnt + " }}", data) if (ctx and cnt and has_plural) else None
    raise ValueError(entry)


def ref_plural(entry, has_plural, c):
    """gettext.NullTranslations chooses by n == 1.  Decided here only for counts that denote a number: integers,
    finite floats (by their integer part) and strings Python reads as an integer.  For anything else (None) the property
    fixes no form, but a foreign exception is never acceptable."""
    import gettext

    k, v = c
    if k == "absent":
        return "S"
    if k == "int" or k == "float":
        n = int(v)
    elif k == "str":
        try:
            n = int(v)
        except ValueError:
            return None
    else:
        return None
    if not has_plural:
        return "S"
    return gettext.NullTranslations().ngettext("S", "P", n)


def parse_call(out):
    if out == "G":
        return "GGet"
    if out.startswith("N:"):
        return f"GNget {g_Z(int(out[2:]))}"
    if out.startswith("P:"):
        return f"GPget {g_str(out[2:])}"
    if out.startswith("Q:"):
        n, ctx = out[2:].split(":", 1)
        return f"GNpget {g_str(ctx)} {g_Z(int(n))}"
    return None


REUSE_TAGS = [
    # (tag source using the variable `c` as count, singular text expected, plural text expected) -- placeholders DIFFER between the two
    ("{% translate count: c %}One item{% plural %}{{ count }} items of {{ who }}{% endtranslate %}", "One item", "%(c)s items of W"),
    ("{% translate count: c, who: who %}{{ who }} has one{% plural %}many ({{ count }}){% endtranslate %}", "W has one", "many (%(c)s)"),
    ("{% translate count: c %}{{ who }}: 100%{% plural %}100% of {{ count }}{% endtranslate %}", "W: 100%", "100% of %(c)s"),
    ("{% translate count: c %}plain{% plural %}{{ who }} {{ who }} {{ count }}{% endtranslate %}", "plain", "W W %(c)s"),
]


def reuse_family(ck: Check) -> None:
    """One PARSED translate node rendered several times (a loop around the tag, and one template object rendered repeatedly) with
    counts that alternate between singular and plural, the two messages having different placeholders: every rendering equals the
    rendering of that count alone (oracle only: a node carries no state from one rendering to the next)."""
    import itertools

    for tag, sing, plur in REUSE_TAGS:
        want = lambda c: sing if c == 1 else plur.replace("%(c)s", str(c))  # noqa: E731
        for seq in itertools.product((1, 2, 0, 5), repeat=3):
            for use_async in (False, True):
                # (a) a for loop around the tag
                src = "{% for c in cs %}[" + tag + "]{% endfor %}"
                got = render(src, {"cs": list(seq), "who": "W"}, use_async)
                exp = ("out", "".join("[" + want(c) + "]" for c in seq))
                ck.note_case(("reuse-loop", tag, seq, use_async))
                ck.count("tag.reuse")
                ck.traces += 1
                if got != exp and sum(1 for v in ck.violations if v.signature == "tag-node-reused-across-counts") < 3:
                    ck.violation("impl-violation", "tag-node-reused-across-counts",
                                 f"{src!r} with cs = {list(seq)}, who = 'W' ({'async' if use_async else 'sync'}) gives {got}, expected {exp}",
                                 {"type": "tag", "template": src, "data": {"cs": list(seq), "who": "W"}, "reference": list(exp)})
                # (b) one template object rendered once per count
                try:
                    t = env().from_string(tag)
                    outs = [run_async(t.render_async(c=c, who="W")) if use_async else t.render(c=c, who="W") for c in seq]
                    got2 = ("out", outs)
                except Exception as e:  # noqa: BLE001
                    got2 = ("err", classify_exc(e))
                exp2 = ("out", [want(c) for c in seq])
                ck.traces += 1
                if got2 != exp2 and sum(1 for v in ck.violations if v.signature == "tag-template-reused-across-counts") < 3:
                    ck.violation("impl-violation", "tag-template-reused-across-counts",
                                 f"one template {tag!r} rendered with c = {list(seq)} in turn ({'async' if use_async else 'sync'}) gives {got2}, "
                                 f"expected {exp2}",
                                 {"type": "tag-reuse", "template": tag, "counts": list(seq), "async": use_async, "reference": exp2[1]})


def run(ck: Check) -> None:
    ck.rule = (
        "filters: every message built from <=3 (quick) / <=4 pieces of {%, %%, %s, %(n)s, %(m)s, (, ), space, <, a, %(, )s, newline} "
        "plus random longer ones, through t/gettext/pgettext/ngettext/npgettext with variables from keyword arguments, render data, or "
        "missing; tag: every body of <=3 / <=4 items over 10 characters and two variables in up to five tag variants (plain, arguments, "
        "context:, singular and plural block); every body of <=5 items over a whitespace alphabet (space, newline, tab, a, %, a variable; "
        "thorough adds \\r \\v \\x1c) that contains whitespace; 12 variable names (hyphen, question mark, quoted names with spaces, "
        "parentheses, percent, empty) in 6 positions; random longer bodies over all of these; variable values containing whitespace; "
        "counts/contexts: 45 count values (absent, nil, booleans, integers, floats, infinities, NaN, 21 strings, arrays, hash) x "
        "9 contexts (representatives crossed) x with/without plural x the six entry points, as variables and as literals, rendered with "
        "null translations and with a recording translations object (which gettext function, which context, which n). "
        "Non-trivial = the message contains a percent sign, whitespace or a placeholder / the call has a plural or a context; "
        "distinct = distinct (message, variant)."
    )
    ck.exhaustive = True
    ck.trusted_base = [
        "Coq 8.16.1 kernel + vm_compute",
        "harness: generators, template printers, Gallina printers, reference substitution and whitespace rule, recording translations (props/c26.py)",
        "modelled not verified: Python re (the two placeholder patterns, \\s*\\n\\s* with leftmost-greedy matching), str.strip, "
        "printf-style % formatting with a mapping, int() on strings and floats, gettext.NullTranslations",
        "assumed: \\w and \\s/str.isspace restricted to ASCII in the model (ASCII whitespace = space, \\t\\n\\v\\f\\r, \\x1c-\\x1f)",
    ]
    ck.assumptions = ["autoescape off (C05 covers escaping); message catalogues other than NullTranslations are out of scope; "
                      "count strings longer than the integer-string limit (a Liquid error by C07's limit) are not generated"]
    ck.proof()
    reuse_family(ck)

    # ---- filters
    cases, expected, meta = [], [], []
    sigs = {}
    for text in gen_texts(ck):
        for how in (HOWS if len(text) <= 6 else [ck.rng.choice(HOWS)]):
            src, data, vars_, chosen = filter_sources(text, how)
            s = render(src, data)
            want = ref_filter(chosen, vars_)
            ck.note_case(("filter", text, how), nontrivial="%" in text)
            ck.count(f"filter.{how}")
            if s != ("out", want):
                a = render(src, data, True)
                sig = filter_sig(chosen, s)
                sigs[sig] = sigs.get(sig, 0) + 1
                if sigs[sig] <= 2 and sum(1 for v in sigs.values() for _ in range(min(v, 2))) <= 60:
                    ck.violation("impl-violation", sig,
                                 f"{src!r} with msg={text!r}: got {s} (async {a}), message text with placeholders substituted is {want!r}",
                                 {"type": "filter", "template": src, "data": data, "vars": vars_, "chosen": chosen, "got": s, "reference": want})
            if s[0] == "out":
                cases.append(f"{{| fc_text := {g_str(chosen)}; fc_vars := {g_vars(vars_)} |}}")
                expected.append(g_str(s[1]))
                meta.append((src, data, s))
    ck.sample({"template": meta[len(meta) // 3][0], "data": meta[len(meta) // 3][1], "output": meta[len(meta) // 3][2][1]})
    mm = ck.coq_mismatches("filter", IMPORTS, "run_filter", "str_eqb", "fcase", "str", cases, expected, chunk=1500)
    ck.traces += len(cases)
    for i in mm[:3]:
        src, data, s = meta[i]
        ck.violation("correspondence", "c26-filter-correspondence",
                     f"model Translate.run_filter and the implementation disagree on {src!r} data {data!r}: impl {s}",
                     {"type": "filter", "template": src, "data": data, "impl": s,
                      "broken": "correspondence Translate.run_filter ~ translation filters (theorems C26_filter_*)"}, no_input=True)

    # ---- tag
    tcases, texpected, tmeta = [], [], []
    for items, variants in gen_tag_items(ck):
        for variant in variants:
            if isinstance(variant, tuple):           # plain tag, variables whose VALUES contain whitespace
                src, _, _ = tag_source(items, "plain")
                data = vars_ = dict(variant[1])
                variant = "values"
            else:
                src, data, vars_ = tag_source(items, variant)
            s = render(src, data)
            a = render(src, data, True)
            want = ref_tag(items, vars_)
            ck.note_case(("tag", tuple(items), variant),
                         nontrivial=any(it == ("chr", "%") or it[0] == "var" or it[1].isspace() for it in items))
            ck.count(f"tag.{variant}")
            if s != want or a != s:
                sig = tag_sig(items, s, want)
                sigs[sig] = sigs.get(sig, 0) + 1
                if sigs[sig] <= 2 and sum(1 for v in sigs.values() for _ in range(min(v, 2))) <= 60:
                    ck.violation("impl-violation", sig,
                                 f"{src!r} data {data!r}: sync {s} async {a}, expected {want!r}",
                                 {"type": "tag", "template": src, "data": data, "items": items, "vars": vars_, "got": s, "reference": want})
            if s[0] == "out" or s[1] != "EOtherForeign":
                tcases.append(f"{{| tc_items := {g_items(items)}; tc_vars := {g_vars(vars_)} |}}")
                texpected.append(f"TOut {g_str(s[1])}" if s[0] == "out" else f"TErr {s[1]}")
                tmeta.append((src, data, s))
    ck.sample({"template": tmeta[len(tmeta) // 2][0], "data": tmeta[len(tmeta) // 2][1], "output": tmeta[len(tmeta) // 2][2]})
    for fn, what in (("run_tag", "translate tag (theorems C26_tag_*)"),
                     ("run_tag_spec", "translate tag, declarative whitespace rule (theorem C26_tag_normalised)")):
        mm = ck.coq_mismatches("tag_" + fn, IMPORTS, fn, "tobs_eqb", "tcase", "tobs", tcases, texpected, chunk=1500)
        ck.traces += len(tcases)
        for i in mm[:3]:
            src, data, s = tmeta[i]
            ck.violation("correspondence", "c26-tag-correspondence",
                         f"model Translate.{fn} and the implementation disagree on {src!r} data {data!r}: impl {s}",
                         {"type": "tag", "template": src, "data": data, "impl": s,
                          "broken": f"correspondence Translate.{fn} ~ {what}"}, no_input=True)

    # ---- counts, contexts, which gettext function is called
    ccases, cexpected, cmeta = [], [], []
    pcases, pexpected, pmeta = [], [], []
    rec = Recorder()
    for e_i, entry in enumerate(ENTRIES):
        for has_plural in (True, False):
            for c in COUNTS:
                for x in CTXS:
                    if x[0] != "absent" and x != ("str", "c") and c not in COUNT_REPS:
                        continue      # every count with no context and with 'c'; every context with the representative counts
                    for lit in (False, True):
                        made = call_source(entry, has_plural, c, x, lit)
                        if made is None:
                            continue
                        src, data = made
                        if lit and not (literal(c) or literal(x)):
                            continue
                        ck.note_case(("call", entry, has_plural, repr(c), x, lit), nontrivial=has_plural or x[0] != "absent")
                        ck.count(f"call.{entry}")
                        s = render(src, data)
                        a = render(src, data, True)
                        r = render(src, dict(data, translations=rec))
                        want = ref_plural(entry, has_plural, c)
                        bad = (want is not None and s != ("out", want)) or a != s or (
                            s[0] == "err" and s[1] in FOREIGN) or (s[0] == "out" and s[1] not in ("S", "P"))
                        if bad:
                            sig = f"plural-count-{c[0]}-{entry}" + (f"-{s[1]}" if s[0] == "err" else "")
                            sigs[sig] = sigs.get(sig, 0) + 1
                            if sigs[sig] <= 2 and sum(1 for v in sigs.values() for _ in range(min(v, 2))) <= 60:
                                ck.violation("impl-violation", sig,
                                             f"{src!r} data {data!r}: sync {s} async {a}, NullTranslations chooses {want!r}",
                                             {"type": "plural", "template": src, "data": data, "got": s, "reference": want})
                        case = (f"{{| pc_entry := {ENTRY_C[entry]}; pc_plural := {g_bool(has_plural)}; pc_count := {g_count(c)}; "
                                f"pc_ctx := {g_ctx(x)} |}}")
                        obs = "Ok Singular" if s == ("out", "S") else ("Ok Plural" if s == ("out", "P") else (
                            f"Err {s[1]}" if s[0] == "err" else None))
                        if obs:
                            pcases.append(case)
                            pexpected.append(obs)
                            pmeta.append((src, data, s))
                        cobs = (f"Ok ({parse_call(r[1])})" if r[0] == "out" and parse_call(r[1]) else (f"Err {r[1]}" if r[0] == "err" else None))
                        if cobs:
                            ccases.append(case)
                            cexpected.append(cobs)
                            cmeta.append((src, data, r))
    for name, fn, eqb, obs_t, cs, ex, meta_ in (("plural", "run_plural", "pobs_eqb", "res form", pcases, pexpected, pmeta),
                                              ("call", "run_call", "cobs_eqb", "res gcall", ccases, cexpected, cmeta)):
        mm = ck.coq_mismatches(name, IMPORTS, fn, eqb, "pcase", obs_t, cs, ex, chunk=1500)
        ck.traces += len(cs)
        for i in mm[:3]:
            src, data, s = meta_[i]
            ck.violation("correspondence", f"c26-{name}-correspondence",
                         f"model Translate.{fn} and the implementation disagree on {src!r} data {data!r}: impl {s}",
                         {"type": "plural", "template": src, "data": {k: repr(v) for k, v in data.items()}, "impl": s,
                          "broken": f"correspondence Translate.{fn} ~ count/context handling (theorems C26_plural_*, C26_context_*)"},
                         no_input=True)


FOREIGN = {"EValueError", "ETypeError", "EOverflowError", "EIndexError", "EKeyError", "EAssertionError", "EArithmeticError",
           "ERecursionError", "EUnicodeError", "EOSError", "ERuntimeError", "EOtherForeign"}


def filter_sig(text, s):
    if s[0] == "err":
        return f"filter-percent-format-raises-{s[1]}"
    if "%%" in text:
        return "filter-collapses-double-percent"
    if "%" in PH.sub("", text):
        return "filter-percent-garbled"
    return "filter:" + repr(text)[:80]


def tag_sig(items, s, want=None):
    odd = [it[1] for it in items if it[0] == "var" and not re.fullmatch(r"\w+", it[1], re.ASCII)]
    if odd and want and want[0] == "out" and s[0] == "err":
        return f"tag-variable-name-{s[1]}"
    if odd and want and want[0] == "err":
        return "tag-variable-name-accepted"
    if s[0] == "err":
        return f"tag-percent-before-variable-{s[1]}"
    return "tag:" + repr(items)[:150]


def replay(data) -> int:
    case = data["case"]
    if case.get("type") == "tag-reuse":
        try:
            t = env().from_string(case["template"])
            outs = [run_async(t.render_async(c=c, who="W")) if case["async"] else t.render(c=c, who="W") for c in case["counts"]]
        except Exception as e:  # noqa: BLE001
            outs = ["ERR:" + classify_exc(e)]
        print("template:", case["template"], "counts in turn:", case["counts"])
        print("got:", outs, "expected:", case["reference"])
        bad = outs != case["reference"]
        print(("VIOLATION reproduced" if bad else "not reproduced") + f" property={data['property']}")
        return 1 if bad else 0
    if case.get("type") not in ("filter", "tag", "plural"):
        print("replay names a proof/correspondence obligation:", case)
        return 1
    s = render(case["template"], case["data"])
    print("template:", case["template"], "data:", case["data"])
    print("got:", s, "expected:", case.get("reference"))
    ref = case.get("reference")
    bad = (s != tuple(ref) if isinstance(ref, (list, tuple)) else (s != ("out", ref) if ref is not None else s[0] == "err"))
    print(("VIOLATION reproduced" if bad else "not reproduced") + f" property={data['property']}")
    return 1 if bad else 0
