"""C15 — Rendered partials and macros are isolated from their caller."""

from __future__ import annotations

import re

from ..core import Check
from .. import scope_lib as L
from ..scope_lib import P, lit, out, assign, text

NAMES = ["x", "y", "z"]
GLOBALS = {"g1": "G1", "g2": 7, "gl": ["la", "lb"], "gs": "GS", "z": "Gz"}   # z also exists as a global
OPEN, CLOSE = "<<", ">>"
SEG = re.compile(re.escape(OPEN) + "(.*?)" + re.escape(CLOSE), re.S)


def probes(tag=""):
    o = [text("[" + tag)]
    for i, nm in enumerate(NAMES):
        if i:
            o.append(text(","))
        o.append(out(nm))
    o.append(text("]"))
    return o


# ---------------------------------------------------------------------- partial / macro bodies
def gen_body(rng, depth, loader, allow_include=False, allow_nested=True):
    """A body that reads, assigns, captures and counts x, y, z, in nested blocks, possibly rendering another partial."""
    nodes = probes()
    for _ in range(rng.randrange(1, 5)):
        r = rng.random()
        nm = rng.choice(NAMES)
        if r < 0.25:
            nodes += [assign(nm, lit(f"p{depth}{nm}")) if rng.random() < 0.7 else assign(nm, P(rng.choice(NAMES + ["g1"])))]
        elif r < 0.35:
            nodes += [("capture", nm, [text("c"), out(rng.choice(NAMES))])]
        elif r < 0.45:
            nodes += [("incr", nm) if rng.random() < 0.5 else ("decr", nm)]
        elif r < 0.65 and depth < 3:
            inner = gen_body(rng, depth + 1, loader, allow_include, allow_nested)
            k = rng.random()
            if k < 0.35:
                nodes += [("for", nm, ("irange", 1, 2), inner, [])]
            elif k < 0.7:
                nodes += [("with", [(nm, lit(f"w{depth}"))], inner)]
            else:
                nodes += [("if", ("atom", ("truthy", P(nm))), inner, [text("E")])]
        elif r < 0.75 and allow_nested and depth < 2:
            name = f"n{len(loader)}"
            loader[name] = None  # reserve
            loader[name] = gen_body(rng, depth + 1, loader, allow_include, allow_nested=False)
            args = [(rng.choice(NAMES), rng.choice([lit(f"na{depth}"), P(rng.choice(NAMES))]))] if rng.random() < 0.6 else []
            nodes += [text("("), ("render", name, None, args), text(")")]
        elif r < 0.82 and depth < 2:
            mname = f"m{depth}{rng.randrange(9)}"
            nodes += [("macro", mname, [(nm, None)], probes("m")), ("call", mname, [(nm, lit("ma"))] if rng.random() < 0.7 else [])]
        elif r < 0.86 and allow_include:
            nodes += [("include", "inc", None, [])]
        else:
            nodes += [text("t")]
        if rng.random() < 0.5:
            nodes += probes()
    return nodes


def render_tag(rng, name, safe_args):
    """A render tag whose arguments and bound variable do not mention the caller's locals (safe) or may do so."""
    pool = [lambda: lit(rng.choice(["a1", 5, True, None])), lambda: P(rng.choice(["g1", "g2", "gs"]))]
    if not safe_args:
        pool.append(lambda: P(rng.choice(NAMES[:2])))
    args = [(rng.choice(NAMES + ["w"]), rng.choice(pool)()) for _ in range(rng.randrange(0, 3))]
    var = None
    r = rng.random()
    if r < 0.2:
        var = (P("gs"), False, rng.choice([None, "x"]))
    elif r < 0.4:
        var = (P("gl"), True, rng.choice([None, "y"]))
    elif r < 0.45:
        var = (P("gl"), False, "x")
    return ("render", name, var, args)


def gen_caller_state(rng, variant):
    """Statements binding x, y (never the global z... sometimes z too) as locals, counters and a macro table."""
    st = []
    for nm in NAMES:
        r = rng.random()
        if r < 0.45:
            st.append(assign(nm, lit(f"L{variant}{nm}")))
        elif r < 0.6:
            st.append(("capture", nm, [text(f"C{variant}{nm}")]))
        elif r < 0.75:
            st += [("incr", nm)] * rng.randrange(1, 3)
        elif r < 0.8:
            st.append(assign(nm, P("nosuch")))
    return st


def wrap_once(rng, variant, inner):
    """Blocks that run their body exactly once and bind x / y / z in block scope."""
    for _ in range(rng.randrange(0, 3)):
        nm = rng.choice(NAMES)
        k = rng.random()
        if k < 0.35:
            inner = [("for", nm, ("irange", variant, variant), inner, [])]
        elif k < 0.7:
            inner = [("with", [(nm, lit(f"W{variant}"))], inner)]
        elif k < 0.85:
            inner = [("if", ("atom", ("eq", lit(1), 1)), inner, [])]
        else:
            inner = [("capture", "cap", inner), out("cap")]
    return inner


def caller(rng, variant, tag_nodes):
    core = probes("b=") + [text(OPEN)] + tag_nodes + [text(CLOSE)] + probes("a=")
    if variant == 0:
        return core
    return gen_caller_state(rng, variant) + wrap_once(rng, variant, core)


def segments(obs):
    return SEG.findall(obs[1]) if obs[0] == "out" else None


PROBE_B = re.compile(r"\[b=(.*?)\]")
PROBE_A = re.compile(r"\[a=(.*?)\]")


# ====================================================================== the check

INHERIT_SHAPES = [
    # (base template, child template): the child overrides a block of the base and renders a partial / calls a macro from inside it
    ("{% assign secret = 'LEAK' %}{% capture cap %}CAP{% endcapture %}<{% block b %}base{% endblock %}>",
     "{% extends 'base' %}{% block b %}{% render 'p' %}{% endblock %}"),
    ("{% assign secret = 'LEAK' %}{% for i in (7..7) %}<{% block b %}base{% endblock %}>{% endfor %}",
     "{% extends 'base' %}{% block b %}{% render 'p' %}{% render 'p', y: 1 %}{% endblock %}"),
    ("{% assign secret = 'LEAK' %}{% with cap: 'W' %}<{% block b %}base{% endblock %}>{% endwith %}",
     "{% extends 'base' %}{% block b %}{% for i in (7..7) %}{% render 'p' %}{% endfor %}{% endblock %}"),
    ("{% assign secret = 'LEAK' %}<{% block b %}{% render 'p' %}{% endblock %}>",
     "{% extends 'base' %}{% block b %}[{{ block.super }}]{% endblock %}"),
    ("{% assign secret = 'LEAK' %}{% capture cap %}CAP{% endcapture %}<{% block b %}base{% endblock %}>",
     "{% extends 'base' %}{% block b %}{% macro m %}[{{ secret }}|{{ cap }}|{{ i }}|{{ g }}]{% endmacro %}{% call m %}{% endblock %}"),
    ("{% assign secret = 'LEAK' %}<{% block b %}{% block c %}base{% endblock %}{% endblock %}>",
     "{% extends 'base' %}{% block c %}{% render 'p' for items as i %}{% endblock %}"),
]


def inheritance_family(ck: Check) -> None:
    """render / call from inside an overridden inheritance block: the partial (macro body) still sees only its arguments, its
    bound variable and global data -- not what the base template assigned, captured or bound around the block (fixed shapes incl. block.super, direct oracle;
    family F in run() generates such chains under the model correspondence)."""
    from liquid import DictLoader, Environment
    import liquid.extra as ex

    from ..core import classify_exc, run_async

    part = "[{{ secret }}|{{ cap }}|{{ i }}|{{ g }}]"
    for si, (base, child) in enumerate(INHERIT_SHAPES):
        for clean in (False, True):
            # the reference run: the same chain with the base template's local bindings removed
            b = base
            if clean:
                b = b.replace("{% assign secret = 'LEAK' %}", "").replace("{% capture cap %}CAP{% endcapture %}", "")
            env = Environment(loader=DictLoader({"base": b, "child": child, "p": part}), globals={"g": "G"})
            ex.add_tags(env)
            outs = []
            for use_async in (False, True):
                try:
                    t = env.get_template("child")
                    outs.append(("out", run_async(t.render_async(items=[1, 2])) if use_async else t.render(items=[1, 2])))
                except Exception as e:  # noqa: BLE001
                    outs.append(("err", classify_exc(e)))
            if clean:
                ref = outs
            else:
                got = outs
        ck.note_case(("inherit", si))
        ck.count("inheritance-shapes")
        leak = any("LEAK" in o[1] or "CAP" in o[1] for o in got if o[0] == "out")
        if leak or got[0] != got[1]:
            ck.violation("impl-violation", f"render-inside-overridden-block-sees-base-locals:{si}",
                         f"base {base!r} child {child!r} partial {part!r}: rendered {got}; the base template's locals must not reach the "
                         f"partial / macro body (without them: {ref})",
                         {"type": "inherit", "shape": si, "base": base, "child": child, "partial": part, "got": got, "reference": ref})


LOOP_PARTIALS = {
    # what a partial can say about loops: its own forloop (render .. for), and -- never -- the caller's
    "pl": "[{{ forloop.index }}/{{ forloop.length }}|{{ forloop.parentloop.index }}|{{ forloop.parentloop.length }}|{{ forloop.parentloop.name }}"
          "|{{ forloop.parentloop.first }}|{{ tablerowloop.col }}|{{ i }}|{{ outer }}]",
    "pn": "{% for k in (1..2) %}({{ forloop.index }}:{{ forloop.parentloop.index }}:{{ forloop.parentloop.parentloop.index }}:{{ forloop.parentloop.name }}){% endfor %}",
}
LOOP_TAGS = ["{% render 'pl' %}", "{% render 'pl' for items as it %}", "{% render 'pl' with items[0] as it %}", "{% render 'pn' %}",
             "{% render 'pn' for items %}", "{% render 'pl', w: 1 %}"]
LOOP_CALLERS = [
    "{% for outer in secret %}X{% endfor %}",
    "{% for outer in secret %}{% for i in (5..6) %}X{% endfor %}{% endfor %}",
    "{% tablerow outer in secret cols:2 %}X{% endtablerow %}",
    "{% for outer in secret limit:1 %}{% if true %}{% capture c %}X{% endcapture %}{{ c }}{% endif %}{% endfor %}",
]


def loop_object_family(ck: Check) -> None:
    """A render tag inside the caller's for / tablerow loops: the partial's forloop is its own (render .. for) or undefined, and
    forloop.parentloop, tablerowloop and the caller's loop variables are undefined inside it -- the text the tag prints is the text
    it prints at the top level of a template with no loops (per iteration of the caller)."""
    from liquid import DictLoader, Environment

    from ..core import classify_exc, run_async

    data = {"items": ["A", "B"], "secret": ["s1", "s2", "s3"]}
    for ti, tag in enumerate(LOOP_TAGS):
        outs = {}
        for ci, shape in enumerate(["X"] + LOOP_CALLERS):
            env = Environment(loader=DictLoader(dict(LOOP_PARTIALS)))
            src = shape.replace("X", "<<" + tag + ">>")
            res = []
            for use_async in (False, True):
                try:
                    t = env.from_string(src)
                    res.append(("out", run_async(t.render_async(**data)) if use_async else t.render(**data)))
                except Exception as e:  # noqa: BLE001
                    res.append(("err", classify_exc(e)))
            outs[ci] = (src, res)
            ck.note_case(("loopobj", ti, ci))
            ck.count("loop-object-shapes")
        ref_src, ref = outs[0]
        ref_seg = SEG.findall(ref[0][1]) if ref[0][0] == "out" else None
        for ci in range(1, len(LOOP_CALLERS) + 1):
            src, res = outs[ci]
            segs = [SEG.findall(o[1]) if o[0] == "out" else None for o in res]
            bad = res[0] != res[1] or ref_seg is None or any(s is None or any(x != ref_seg[0] for x in s) for s in segs)
            if bad:
                ck.violation("impl-violation", f"partial-sees-caller-loop:{ti}:{ci}",
                             f"{src!r} with partials {LOOP_PARTIALS}: rendered {res}; at the top level the tag prints {ref_seg}: a rendered "
                             "partial must not see the caller's forloop / parentloop / tablerowloop / loop variables",
                             {"type": "loopobj", "tag": tag, "caller": src, "got": res, "reference": ref})


def run(ck: Check) -> None:  # noqa: PLR0912, PLR0915
    ck.rule = (
        "seeded partial / macro bodies (probes of x,y,z; assign, capture, increment/decrement of those names; nested for/with/if to depth "
        "3; a nested render of a second partial; macro definitions and calls) rendered by render tags (keyword arguments, with / for .. as) "
        "and call tags from three callers each: a bare caller, and two callers that bind x, y, z differently (assign, capture, counters, an "
        "undefined value) and wrap the tag in once-running for / with / if / capture blocks binding the same names. Oracles: (A) the text "
        "between the markers around the tag is the same for the three callers when the tag's arguments are literals or global paths; (B) the "
        "caller's probes after the tag equal its probes before it and its counters continue; (C) a partial or macro body reaching an include "
        "tag raises DisabledTagError, at any block depth and through a nested render; (D) a partial rendered from inside another partial or a "
        "macro body prints the same whatever the enclosing partial's / macro's arguments are; (E) render .. for over 2-3 items prints the "
        "concatenation of rendering each item on its own; (F) a render / call tag inside an OVERRIDDEN inheritance block (extends / "
        "block of liquid.extra) of base templates that assign, capture, count and block-scope x, y, z prints what the same tag prints at the "
        "top level of a template without local state, the base template's probes after the block equal those before it, and a rendered "
        "partial that extends a base template cannot include from its overriding block; (G) a render tag inside the caller's for / tablerow "
        "loops prints, per iteration, what it prints at the top level: forloop.parentloop, tablerowloop and the caller's loop variables are "
        "undefined inside the partial. Non-trivial = the body reads or writes a name "
        "the caller binds; distinct = distinct (body, tag, caller) triple."
    )
    ck.exhaustive = False
    ck.trusted_base = [
        "Coq 8.16.1 kernel + vm_compute",
        "harness: generators, Liquid/Gallina printers (scope_lib.py), the four relational oracles (props/c15.py)",
        "modelled not verified: Python dict order, ReadOnlyChainMap, the loader's template cache, the expression/argument parser",
    ]
    ck.assumptions = [
        "partials are found by name in a DictLoader and do not render themselves (context-depth limit not reached)",
        "macro calls use keyword arguments (positional binding is C27's subject); resource limits at their defaults",
        "global data is the same object for caller and partial: a partial that MUTATES shared data is outside the property",
    ]
    ck.proof()
    inheritance_family(ck)
    loop_object_family(ck)
    L.STRINGS.reset()
    rng = ck.rng

    cases, expected, meta = [], [], []

    def run_case(sig, case):
        s = L.render_case(case, False)
        a = L.render_case(case, True)
        cases.append(L.g_case(case))
        expected.append(L.g_obs(s))
        meta.append([sig, case, s, s != a])
        ck.traces += 1
        if s != a and sum(1 for v in ck.violations if v.signature == sig + ":sync-async") < 2:
            ck.violation("impl-violation", sig + ":sync-async", f"{L.case_sources(case)}: sync={s} async={a}",
                         {"type": "single", "case": L.case_json(case), "sync": s, "async": a})
        return len(meta) - 1, s

    def report(sig, what, group, extra=None):
        for i in group:
            meta[i][3] = True
        if sum(1 for v in ck.violations if v.signature == sig) < 3:
            ck.violation("impl-violation", sig, what,
                         dict({"type": "group", "oracle": sig, "cases": [L.case_json(meta[i][1]) for i in group],
                               "outputs": [meta[i][2] for i in group]}, **(extra or {})))

    # ------------------------------------------------------------- A + B: render / call from three callers
    n_groups = 160 if ck.quick else 2000
    for gi in range(n_groups):
        loader = {}
        kind = rng.choice(["render", "render", "call"])
        safe = rng.random() < 0.75
        if kind == "render":
            loader["p"] = None
            loader["p"] = gen_body(rng, 0, loader)
            tag_nodes = [render_tag(rng, "p", safe)]
        else:
            body = gen_body(rng, 0, loader)
            params = [(nm, rng.choice([None, lit("dflt"), P("g1")])) for nm in rng.sample(NAMES, rng.randrange(0, 3))]
            pool = [lambda: lit(rng.choice(["k1", 3])), lambda: P("g2")] + ([] if safe else [lambda: P("x")])
            kws = [(rng.choice(NAMES + ["w"]), rng.choice(pool)()) for _ in range(rng.randrange(0, 3))]
            tag_nodes = [("macro", "mm", params, body), ("call", "mm", kws)]
        group, outs = [], []
        for variant in (0, 1, 2):
            case = L.mk_case(caller(rng, variant, tag_nodes), loader=loader, args=dict(GLOBALS))
            i, s = run_case(f"{kind}:caller{variant}", case)
            group.append(i)
            outs.append(s)
            ck.note_case((kind, L.case_json(case)), nontrivial=True)
            ck.count(f"{kind}.{'safe' if safe else 'local-args'}.{'err' if s[0] == 'err' else 'ok'}")
        segs = [segments(o) for o in outs]
        if safe:
            if all(o[0] == "out" for o in outs):
                if not (segs[0] == segs[1] == segs[2]):
                    report(f"{kind}-output-depends-on-caller-locals",
                           f"the text of the {kind}ed body differs between callers that differ only in local state: {segs} for {L.case_sources(meta[group[1]][1])}", group)
            elif len({o for o in outs}) != 1 and not all(o[0] == "err" for o in outs):
                report(f"{kind}-outcome-depends-on-caller-locals", f"callers differing only in local state end differently: {outs}", group)
        for i, o in zip(group, outs):
            if o[0] == "out":
                b, a = PROBE_B.findall(o[1]), PROBE_A.findall(o[1])
                if b != a:
                    report(f"{kind}-changes-caller-variables",
                           f"the caller's x,y,z read {b} before the {kind} tag and {a} after it: {L.case_sources(meta[i][1])}", [i])
    # counters of the caller continue across a render / call that counts the same names
    for kind in ("render", "call"):
        for nm in NAMES:
            inner = [("incr", nm), ("incr", nm), ("decr", nm), assign(nm, lit("in"))]
            tagn = [("render", "p", None, [])] if kind == "render" else [("macro", "mm", [], inner), ("call", "mm", [])]
            case = L.mk_case([("incr", nm), text("|")] + tagn + [text("|"), ("incr", nm), text("|"), out(nm)],
                             loader={"p": inner}, args={})
            i, s = run_case(f"{kind}:counters", case)
            ck.note_case((kind, "counters", nm))
            if s != ("out", "0|011|1|2"):
                report(f"{kind}-shares-counters", f"{L.case_sources(case)} gave {s}, expected '0|011|1|2'", [i])

    # ------------------------------------------------------------- C: include is disabled
    wrappers = [
        ("plain", lambda b: b),
        ("for", lambda b: [("for", "i", ("irange", 1, 2), b, [])]),
        ("with", lambda b: [("with", [("x", lit(1))], b)]),
        ("if", lambda b: [("if", ("atom", ("eq", lit(1), 1)), b, [])]),
        ("capture", lambda b: [("capture", "c", b)]),
        ("for>with>if", lambda b: [("for", "i", ("irange", 1, 1), [("with", [("x", lit(1))], [("if", ("atom", ("truthy", lit(1))), b, [])])], [])]),
    ]
    inc_forms = [("include", "inc", None, []), ("include", "inc", (P("gs"), None), []), ("include", "inc", None, [("x", lit(1))]),
                 ("include", "missing", None, [])]
    for wname, w in wrappers:
        for fi, inc in enumerate(inc_forms):
            body = [text("a")] + w([text("b"), inc, text("c")]) + [text("d")]
            shapes = {
                "render": ([("render", "p", None, [])], {"p": body, "inc": [text("I")]}),
                "render-for": ([("render", "p", (P("gl"), True, None), [])], {"p": body, "inc": [text("I")]}),
                "render>render": ([("render", "q", None, [])], {"q": [text("q"), ("render", "p", None, [])], "p": body, "inc": [text("I")]}),
                "call": ([("macro", "mm", [], body), ("call", "mm", [])], {"inc": [text("I")]}),
                "call>render": ([("macro", "mm", [], [("render", "p", None, [])]), ("call", "mm", [])], {"p": body, "inc": [text("I")]}),
                "render>call": ([("render", "q", None, [])], {"q": [("macro", "mm", [], body), ("call", "mm", [])], "inc": [text("I")]}),
            }
            for sname, (tagn, loader) in shapes.items():
                case = L.mk_case([text("<")] + tagn + [text(">")], loader=loader, args=dict(GLOBALS))
                i, s = run_case(f"disabled:{sname}:{wname}:{fi}", case)
                ck.note_case(("disabled", sname, wname, fi))
                ck.count("include-in-isolated." + sname)
                if s != ("err", "EDisabledTag"):
                    report("include-allowed-in-" + sname.split(">")[-1], f"{L.case_sources(case)} gave {s}, expected DisabledTagError", [i])
            # the same body included from the top level is fine (the disabling is specific to isolated contexts)
            case = L.mk_case([("include", "p", None, [])], loader={"p": body, "inc": [text("I")]}, args=dict(GLOBALS))
            i, s = run_case(f"enabled:{wname}:{fi}", case)
            if inc[1] == "inc" and s[0] != "out":
                report("include-disabled-at-top-level", f"{L.case_sources(case)} gave {s}", [i])

    # ------------------------------------------------------------- F: render / call from inside an overridden inheritance block
    n_inh = 40 if ck.quick else 400
    for gi in range(n_inh):
        loader = {"p": None}
        loader["p"] = gen_body(rng, 1, loader, allow_nested=False)
        if rng.random() < 0.7:
            kind, tag_nodes = "render", [render_tag(rng, "p", True)]
        else:
            params = [(nm, rng.choice([None, lit("dflt"), P("g1")])) for nm in rng.sample(NAMES, rng.randrange(0, 3))]
            kws = [(rng.choice(NAMES + ["w"]), rng.choice([lit("k1"), P("g2")])) for _ in range(rng.randrange(0, 3))]
            kind, tag_nodes = "call", [("macro", "mm", params, gen_body(rng, 1, loader, allow_nested=False)), ("call", "mm", kws)]
        marked = [text(OPEN)] + tag_nodes + [text(CLOSE)]
        # reference: the same tag at the top level of a template with no local state at all
        i0, s0 = run_case(f"inherit:{kind}:toplevel", L.mk_case(marked, loader=loader, args=dict(GLOBALS)))
        group, outs = [i0], [s0]
        for variant in (1, 2):
            block_body = probes("k=") + marked + [assign(rng.choice(NAMES), lit(f"B{variant}")), ("incr", rng.choice(NAMES))]
            base = gen_caller_state(rng, variant) + wrap_once(rng, variant, probes("b=") + [("block", "blk", [text("own")])] + probes("a="))
            case = L.mk_case([("extends", "base", [("blk", block_body)])], loader=dict(loader, base=base), args=dict(GLOBALS))
            i, s = run_case(f"inherit:{kind}:block{variant}", case)
            group.append(i)
            outs.append(s)
            ck.note_case(("inherit", kind, L.case_json(case)))
            ck.count(f"inherit.{kind}.{'err' if s[0] == 'err' else 'ok'}")
            if s[0] == "out" and PROBE_B.findall(s[1]) != PROBE_A.findall(s[1]):
                report("block-changes-base-template-variables",
                       f"the base template's x,y,z read {PROBE_B.findall(s[1])} before the overridden block and {PROBE_A.findall(s[1])} after it: "
                       f"{L.case_sources(case)}", [i])
        segs = [segments(o) for o in outs]
        if all(o[0] == "out" for o in outs):
            if not (segs[0] == segs[1] == segs[2]):
                report(f"{kind}-inside-overridden-block-sees-base-locals",
                       f"the text of the {kind}ed body is {segs[0]} at the top level but {segs[1:]} from inside an overridden block of base templates "
                       f"with local state: {L.case_sources(meta[group[1]][1])}", group)
        elif len({o[0] for o in outs}) != 1:
            report(f"{kind}-inside-overridden-block-ends-differently", f"top level / blocks end differently: {outs}", group)
    # a rendered partial (or a macro body) that extends a base template still cannot include, from inside its overriding block either
    for wname, w in wrappers:
        blk = w([text("b"), ("include", "inc", None, []), text("c")])
        child = [("extends", "base", [("blk", blk)])]
        base = [text("<"), ("block", "blk", [text("own")]), text(">")]
        shapes = {
            "render>extends": ([("render", "child", None, [])], {"child": child, "base": base, "inc": [text("I")]}),
            "render>render>extends": ([("render", "q", None, [])], {"q": [("render", "child", None, [])], "child": child, "base": base, "inc": [text("I")]}),
            "render>block": ([("render", "solo", None, [])], {"solo": [("block", "blk", blk)], "inc": [text("I")]}),
        }
        for sname, (tagn, ld) in shapes.items():
            case = L.mk_case([text("(")] + tagn + [text(")")], loader=ld, args=dict(GLOBALS))
            i, s = run_case(f"disabled:{sname}:{wname}", case)
            ck.note_case(("disabled-block", sname, wname))
            ck.count("include-in-isolated." + sname)
            if s != ("err", "EDisabledTag"):
                report("include-allowed-in-block-of-rendered-partial", f"{L.case_sources(case)} gave {s}, expected DisabledTagError", [i])
        # from the top level the same chain may include
        case = L.mk_case(child, loader={"base": base, "inc": [text("I")]}, args=dict(GLOBALS))
        i, s = run_case(f"enabled:extends:{wname}", case)
        if s[0] != "out":
            report("include-disabled-in-top-level-block", f"{L.case_sources(case)} gave {s}", [i])

    # ------------------------------------------------------------- E: render ... for renders the items independently
    n_for = 30 if ck.quick else 300
    for gi in range(n_for):
        loader = {"p": None}
        loader["p"] = gen_body(rng, 1, loader, allow_nested=(gi % 2 == 0)) + [text("#")]
        items = [f"i{j}" for j in range(rng.randrange(2, 4))]
        alias = rng.choice([None, "x", "y"])
        args = [(rng.choice(NAMES), lit("ra"))] if rng.random() < 0.5 else []
        whole = L.mk_case([("render", "p", (P("its"), True, alias), args)], loader=loader, args=dict(GLOBALS, its=items))
        i, s = run_case("render-for:all", whole)
        group, parts = [i], []
        ck.note_case(("render-for", L.case_json(whole)))
        ck.count("render-for.items%d" % len(items))
        # each item on its own: a one-item list gives the item the same bound variable; the forloop drop is not read by these bodies
        for itm in items:
            single = L.mk_case([("render", "p", (P("its"), True, alias), args)], loader=loader, args=dict(GLOBALS, its=[itm]))
            j, sj = run_case("render-for:single", single)
            group.append(j)
            parts.append(sj)
        if s[0] == "out" and all(x[0] == "out" for x in parts) and s[1] != "".join(x[1] for x in parts):
            report("render-for-items-share-state",
                   f"render for {items} prints {s[1]!r} but the items rendered one by one print {[x[1] for x in parts]}: "
                   f"{L.case_sources(whole)}", group)

    # ------------------------------------------------------------- D: nested partials see only explicit arguments
    n_nested = 40 if ck.quick else 500
    for gi in range(n_nested):
        loader = {"p": None}
        loader["p"] = gen_body(rng, 1, loader, allow_nested=False)
        inner_args = [(rng.choice(NAMES), lit("ia"))] if rng.random() < 0.5 else []
        mid = gen_caller_state(rng, 1) if rng.random() < 0.5 else []
        shape = rng.choice(["render>render", "call>render", "render-for>render", "render-with>render"])
        group, outs = [], []
        for v in (1, 2):
            inner = mid + [text(OPEN), ("render", "p", None, inner_args), text(CLOSE)]
            data = dict(GLOBALS)
            if shape == "render>render":
                loader2 = dict(loader, q=inner)
                top = [("render", "q", None, [("x", lit(f"o{v}")), ("y", lit(v))])]
            elif shape == "render-for>render":
                loader2 = dict(loader, q=inner)
                data["ol"] = [f"o{v}a"]
                top = [("render", "q", (P("ol"), True, "x"), [])]
            elif shape == "render-with>render":
                loader2 = dict(loader, q=inner)
                data["ov"] = f"o{v}"
                top = [("render", "q", (P("ov"), False, "y"), [])]
            else:
                loader2 = dict(loader)
                top = [("macro", "mm", [("x", None), ("y", lit(f"d{v}"))], inner), ("call", "mm", [("x", lit(f"o{v}"))])]
            case = L.mk_case(top, loader=loader2, args=data)
            i, s = run_case(f"nested:{shape}:{v}", case)
            group.append(i)
            outs.append(s)
            ck.note_case(("nested", shape, L.case_json(case)))
            ck.count("nested." + shape)
        if all(o[0] == "out" for o in outs) and segments(outs[0]) != segments(outs[1]):
            report("nested-partial-sees-enclosing-arguments",
                   f"a partial rendered from inside {shape.split('>')[0]} prints {segments(outs[0])} or {segments(outs[1])} depending on the ENCLOSING "
                   f"partial's/macro's arguments: {L.case_sources(meta[group[0]][1])}", group)
    ck.sample({"template": L.case_sources(meta[1][1]), "output": meta[1][2]})
    ck.sample({"template": L.case_sources(meta[-1][1]), "output": meta[-1][2]})

    # ------------------------------------------------------------- model correspondence
    chunk = max(60, -(-len(cases) // 4))
    mm = ck.coq_mismatches("scope", L.IMPORTS, "run_case", "res_str_eqb", "case", "res str", cases, expected, chunk=chunk,
                           preamble=L.STRINGS.preamble())
    shown = 0
    for i in mm:
        sig, case, s, bad = meta[i]
        if bad or shown >= 3:
            continue
        shown += 1
        model = ck.coq_eval(L.IMPORTS, [f"run_case {L.g_case(case)}"], preamble=L.STRINGS.preamble())[0]
        ck.violation("correspondence", "c15-scope-correspondence",
                     f"model Scope.run_case and the implementation disagree on {L.case_sources(case)} ({sig})",
                     {"type": "single", "case": L.case_json(case), "impl": s, "model": model,
                      "broken": "correspondence Scope.run_case ~ render/call rendering (theorems C15_*)"}, no_input=True)


def replay(data) -> int:
    case = data["case"]
    t = case.get("type")
    if t == "inherit":
        class _Ck:  # re-run the one shape through the same oracle
            def __init__(self):
                self.v = []

            def note_case(self, *a, **k):
                pass

            def count(self, *a, **k):
                pass

            def violation(self, kind, sig, what, d, no_input=False):
                self.v.append((sig, what))
        global INHERIT_SHAPES
        saved, INHERIT_SHAPES = INHERIT_SHAPES, [(case["base"], case["child"])]
        ck_ = _Ck()
        inheritance_family(ck_)
        INHERIT_SHAPES = saved
        for sig, what in ck_.v:
            print(what)
        print(("VIOLATION reproduced" if ck_.v else "not reproduced") + f" property={data['property']}")
        return 1 if ck_.v else 0
    if t == "loopobj":
        from liquid import DictLoader, Environment

        from ..core import classify_exc
        outs = []
        for src in ("<<" + case["tag"] + ">>", case["caller"]):
            try:
                outs.append(("out", Environment(loader=DictLoader(dict(LOOP_PARTIALS))).from_string(src).render(items=["A", "B"], secret=["s1", "s2", "s3"])))
            except Exception as e:  # noqa: BLE001
                outs.append(("err", classify_exc(e)))
            print("template:", src, "\n  ->", outs[-1])
        segs = [SEG.findall(o[1]) if o[0] == "out" else None for o in outs]
        bad = segs[0] is None or segs[1] is None or any(x != segs[0][0] for x in segs[1])
        print(("VIOLATION reproduced" if bad else "not reproduced") + f" property={data['property']}")
        return 1 if bad else 0
    if t == "single" and "sync" in case:
        s, a = L.render_json(case["case"], False), L.render_json(case["case"], True)
        print("template:", case["case"]["template"], "partials:", case["case"]["partials"])
        print("sync :", s, "\nasync:", a)
        bad = s != a
    elif t == "group":
        outs = []
        for d in case["cases"]:
            o = L.render_json(d, False)
            outs.append(o)
            print("template:", d["template"], "partials:", d["partials"], "args:", d["args"])
            print("  ->", o)
        orc = case["oracle"]
        if orc.endswith("depends-on-caller-locals") or orc == "nested-partial-sees-enclosing-arguments":
            segs = [segments(o) for o in outs]
            print("text of the isolated body per caller:", segs)
            bad = len({repr(x) for x in segs}) != 1 if all(o[0] == "out" for o in outs) else len({tuple(o) for o in outs}) != 1
        elif orc == "render-for-items-share-state":
            bad = all(o[0] == "out" for o in outs) and outs[0][1] != "".join(o[1] for o in outs[1:])
        elif orc.endswith("changes-caller-variables"):
            o = outs[0]
            bad = o[0] == "out" and PROBE_B.findall(o[1]) != PROBE_A.findall(o[1])
        elif orc.endswith("shares-counters"):
            bad = outs[0] != ("out", "0|011|1|2")
        elif orc.endswith("sees-base-locals"):
            segs = [segments(o) for o in outs]
            print("text of the isolated body, top level then blocks:", segs)
            bad = all(o[0] == "out" for o in outs) and len({repr(x) for x in segs}) != 1
        elif orc.endswith("ends-differently"):
            bad = len({o[0] for o in outs}) != 1
        elif orc.startswith("include-allowed"):
            bad = outs[0] != ("err", "EDisabledTag")
        else:
            bad = outs[0][0] != "out"
    else:
        print("replay names a proof/correspondence obligation:", case)
        return 1
    print(("VIOLATION reproduced" if bad else "not reproduced") + f" property={data['property']}")
    return 1 if bad else 0
