"""C08 — Resource limits only abort a render, never alter its output; success is monotone in every limit."""

from __future__ import annotations

from ..core import Check
from . import _limits as L
from .c07 import INHERIT, SYSTEMATIC

BIG = 10**9
DIMS = ("loop", "out", "ns", "depth", "nest")
CLASS_OF = {"loop": "XLoop", "out": "XOutput", "ns": "XNamespace", "depth": "XDepth", "nest": "XNesting"}

EXTRA = [
    [("for", 1, [("text", "x")])],
    [("assign", 0, "a")],
    [("for", 2, [("for", 3, [("text", "x")])]), ("tablerow", 2, [("text", "y")])],
    [("capture", 0, [("ifchanged", [("for", 2, [("call", [("text", "a")])])])]), ("echo", 0)],
    [("include", [("include", [("include", [("text", "a")])])])],
    [("render", [("render", [("render", [("text", "a")])])])],
    [("include", [("for", 2, [("capture", 0, [("ifchanged", [("text", "q")])])])]), ("echo", 0)],
]


def gen_nests(ck: Check):
    """(label, number of templates in the chain, nest of the chain's base template)."""
    for n in EXTRA + SYSTEMATIC:
        yield "systematic", 1, L.normalize(n)
    for levels, n in INHERIT:
        yield "inherit", levels, L.normalize(n)
    for _ in range(45 if ck.quick else 500):
        yield "random", 1, L.gen_tree(ck.rng, maxdepth=3, lengths=(0, 1, 2, 3), width=3)
    for i in range(40 if ck.quick else 500):
        levels = (1, 2, 2, 3, 3)[i % 5]
        yield f"chain{levels}", levels, L.gen_tree(ck.rng, maxdepth=3, lengths=(0, 1, 2, 3), width=3,
                                                    level=(levels - 1 if levels > 1 else None), blocks=2.0)


def sweeps_for(ck, nest, printed, base):
    """{dimension: ascending values}, from 0 to beyond the resource the unlimited render uses."""
    rng = ck.rng
    out = {}
    mp = L.max_loop_product(L.expand(nest))
    out["loop"] = L.sweep_values(max(2, 2 * mp), 16, rng)
    S = L.utf8(base[1]) if base[0] == "out" else 12
    out["out"] = sorted(set(L.sweep_values(max(2, 2 * S), 14, rng)) | {v for v in (S - 1, S, S + 1) if v >= 0})
    big, _, btrue = L.run_impl(nest, L.Limits(ns=BIG), False, printed, want_true=True)
    nsv = {0, 1}
    for t in btrue:
        nsv.update((t - 1, t))
    if btrue:
        nsv.add(2 * max(btrue))
    nsv = sorted(v for v in nsv if v >= 0)
    if len(nsv) > 10:
        nsv = sorted(set(rng.sample(nsv, 8)) | {0, nsv[-1]})
    out["ns"] = nsv
    out["depth"] = list(range(0, 15))
    out["nest"] = list(range(0, 6))
    return out


def judge(base, s, a):
    """Abort-only: identical to the unlimited render, or a ResourceLimitError."""
    if s != a:
        return "c08-sync-async-differ", f"sync {s[:2]} but async {a[:2]}"
    if s[:2] == base[:2]:
        return None
    if s[0] == "err" and s[1] in L.LIMIT_CLASSES:
        return None
    if s[0] == "out":
        return "c08-output-altered", f"limited render completed with {s[1]!r} but the unlimited render gives {base[:2]}"
    return "c08-not-a-resource-limit-error:" + s[1], f"limited render raised {s[1]} but the unlimited render gives {base[:2]}"


def run(ck: Check) -> None:
    ck.rule = (
        "25 systematic nests + seeded random trees (as C07) over all twelve constructs, and 8 systematic + seeded random CHAINS of 1..3 templates "
        "(extends, block tags with up to 3 definitions, {{ block.super }}, printed from the model's nests); every nest is rendered (sync and async) without "
        "limits and under a sweep of each of the five limits alone - loop_iteration_limit 0..2*largest loop product, output_stream_limit "
        "0..2*unlimited bytes, local_namespace_limit 0, t-1, t for every observed namespace size t, 2*max, context_depth_limit 0..14, "
        "block_nesting_limit 0..5 - and under 6 random ordered pairs lim <= lim' of joint configurations; oracle: equal to the unlimited "
        "render or a ResourceLimitError, and monotone along every sweep / pair; 5 of the configurations per nest again in LAX (some in "
        "WARN) mode: equal to the strict render whenever that completes. Distinct = distinct (nest, limits, mode)."
    )
    ck.exhaustive = False
    ck.trusted_base = [
        "Coq 8.16.1 kernel + vm_compute",
        "harness: tree generator, Liquid/partials printer, Gallina printer, sweep construction (props/_limits.py, props/c08.py)",
        "oracle (not modelled): sys.getsizeof (measured per assignment by a RenderContext subclass and handed to the model)",
        "modelled not verified: CPython int/str primitives, StringIO, DictLoader, the block-nesting count of the generated tags",
    ]
    ck.assumptions = [
        "Mode.STRICT (in lax/warn mode C03 forbids any error, so the two properties are only jointly satisfiable under STRICT)",
        "the liquid tag's depth carry, cycle/increment and break/continue are outside the model; block names distinct, no required blocks, extends first",
    ]
    ck.proof()

    sw = L.Sweeps()
    nolim = L.Limits()

    def report(sig, what, nest, printed, lim, s, extra):
        ck.violation("impl-violation", sig, f"{printed[0]!r} partials {printed[1]!r} limits {lim.as_dict()}: {what}",
                     dict({"main": nest, "levels": levels, "limits": lim.as_dict(), "template": printed[0], "partials": printed[1], "sync": s}, **extra))

    for label, levels, nest in gen_nests(ck):
        printed = L.to_source(nest, levels)
        base, bsizes = L.run_impl(nest, nolim, False, printed)
        ck.count(f"{label}.{'unlimited-fails' if base[0] == 'err' else 'unlimited-ok'}")
        sw.group(nest, printed)
        sw.add(nolim, bsizes, base)
        cache = {}
        seen = []

        def go(lim):
            if lim.key() not in cache:
                s, sizes = L.run_impl(nest, lim, False, printed)
                a, _ = L.run_impl(nest, lim, True, printed)
                v = judge(base, s, a)
                ck.note_case((nest, lim.key()), nontrivial=True)
                if v is not None:
                    report(v[0], v[1], nest, printed, lim, s, {"async": a, "unlimited": base[:2], "kind": "abort-only"})
                if s[0] == "err" and s[1].startswith("other:"):
                    report("c08-foreign-error:" + s[1], s[1], nest, printed, lim, s, {"kind": "abort-only", "unlimited": base[:2]})
                else:
                    sw.add(lim, sizes, s, explained=v is not None)
                cache[lim.key()] = s
                seen.append(lim)
            return cache[lim.key()]

        sv = sweeps_for(ck, nest, printed, base)
        for dim, vals in sv.items():
            first_ok = None
            for val in vals:
                lim = nolim.replace(**{dim: val})
                s = go(lim)
                ck.count(f"{dim}." + ("completed" if s[0] == "out" else "raised:" + s[1]))
                if s[0] == "out" and first_ok is None:
                    first_ok = (val, s)
                elif first_ok is not None and s[:2] != first_ok[1][:2]:
                    sig = f"c08-{dim}-limit-zero-means-unlimited" if first_ok[0] == 0 and dim in ("loop", "ns") else f"c08-not-monotone-in-{dim}"
                    report(sig, f"succeeds with {dim} limit {first_ok[0]} but gives {s[:2]} with the larger limit {val}",
                           nest, printed, lim, s, {"kind": "monotone", "smaller": nolim.replace(**{dim: first_ok[0]}).as_dict()})
        # joint configurations, ordered pairs
        for _ in range(6):
            lo, hi = {}, {}
            for dim in DIMS:
                vals = sv[dim]
                a_, b_ = sorted((ck.rng.choice(vals), ck.rng.choice(vals)))
                r = ck.rng.random()
                if dim in ("depth", "nest"):
                    lo[dim], hi[dim] = (a_, b_) if r < 0.5 else (30, 30)
                elif r < 0.35:
                    lo[dim], hi[dim] = a_, b_
                elif r < 0.55:
                    lo[dim], hi[dim] = a_, None
                else:
                    lo[dim], hi[dim] = None, None
            l1, l2 = L.Limits.from_dict(lo), L.Limits.from_dict(hi)
            s1, s2 = go(l1), go(l2)
            ck.count("pair." + ("both-ok" if s1[0] == s2[0] == "out" else "small-fails" if s2[0] == "out" else "both-fail" if s1[0] == "err" else "BROKEN"))
            if s1[0] == "out" and s2[:2] != s1[:2]:
                zero = any(lo[d] == 0 for d in ("loop", "ns"))
                report("c08-limit-zero-means-unlimited-joint" if zero else "c08-not-monotone-joint",
                       f"succeeds under {l1.as_dict()} but gives {s2[:2]} under the pointwise larger limits",
                       nest, printed, l2, s2, {"kind": "monotone", "smaller": l1.as_dict()})
        # the mode only matters once an error is raised: whenever the strict render under some limits completes, the warn
        # and lax renders under the same limits return the same output (and the model agrees on what they return otherwise)
        for lim0 in ck.rng.sample(seen, min(5, len(seen))):
            for mode in (("lax", "warn") if ck.rng.random() < 0.3 else ("lax",)):
                lim = lim0.replace(mode=mode)
                if lim.nest != L.DEFAULT_NEST or (levels > 1 and lim.depth == 4):
                    continue  # parser recovery after a nesting error in tolerant mode is outside the model; so is an error that
                    #           escapes from the extends tag itself (the child template's other tags are rendered then)
                s, sizes = L.run_impl(nest, lim, False, printed)
                a, _ = L.run_impl(nest, lim, True, printed)
                strict = cache[lim0.key()]
                ck.note_case((nest, lim.key()), nontrivial=True)
                ck.count(f"{mode}." + ("same-as-strict" if s[:2] == strict[:2] else "strict-raised" if strict[0] == "err" else "BROKEN"))
                v = None
                if s != a:
                    v = (f"c08-{mode}-sync-async-differ", f"sync {s[:2]} but async {a[:2]}")
                elif strict[0] == "out" and s[:2] != strict[:2]:
                    v = (f"c08-{mode}-differs-from-completed-strict-render",
                         f"the strict render completes with {strict[1]!r} but the {mode} render gives {s[:2]}")
                if v is not None:
                    report(v[0], v[1], nest, printed, lim, s, {"async": a, "strict": strict[:2], "kind": "mode"})
                if not (s[0] == "err" and s[1].startswith("other:")):
                    sw.add(lim, sizes, s, explained=v is not None)
    g = sw.groups[2]
    r = g[2][min(4, len(g[2]) - 1)]
    ck.sample({"template": g[1][0], "partials": g[1][1], "limits": r[0].as_dict(), "observed": r[2][:2]})
    for nest, printed, lim, sizes, s, _ in sw.mismatches(ck, "c08", chunk=10)[:3]:
        model = ck.coq_eval(L.IMPORTS, [f"run_case ({L.g_case(lim, L.expand(nest), sizes, printed[3])})"])[0]
        ck.violation("correspondence", "c08-correspondence",
                     f"model Limits.run_case and the implementation disagree on {printed[0]!r} partials {printed[1]!r} limits {lim.as_dict()}",
                     {"main": nest, "limits": lim.as_dict(), "template": printed[0], "partials": printed[1], "impl": s, "sizes": sizes,
                      "model": model[:400],
                      "broken": "correspondence Limits.run_case ~ render under the five limits (theorems C08_monotone, C08_abort_only, C08_error_class)"},
                     no_input=True)


def replay(data) -> int:
    case = data["case"]
    if "main" not in case or data.get("kind") != "impl-violation":
        print("replay names a proof/correspondence obligation:", {k: case[k] for k in case if k != "main"})
        return 1
    nest = case["main"]
    lim = L.Limits.from_dict(case["limits"])
    printed = L.to_source(nest, case.get("levels", 1))
    base, _ = L.run_impl(nest, L.Limits(), False, printed)
    s, _ = L.run_impl(nest, lim, False, printed)
    a, _ = L.run_impl(nest, lim, True, printed)
    print("template:", printed[0], "partials:", printed[1])
    print("unlimited:", base[:2])
    print("limits:", lim.as_dict(), "sync:", s[:2], "async:", a[:2])
    bad = None
    if case.get("kind") == "mode":
        s0, _ = L.run_impl(nest, lim.replace(mode="strict"), False, printed)
        print("strict:", s0[:2])
        if s != a or (s0[0] == "out" and s[:2] != s0[:2]):
            bad = "the tolerant-mode render differs from the completed strict render (or sync from async)"
    elif case.get("kind") == "monotone":
        small = L.Limits.from_dict(case["smaller"])
        s0, _ = L.run_impl(nest, small, False, printed)
        print("smaller limits:", small.as_dict(), "sync:", s0[:2])
        if s0[0] == "out" and s[:2] != s0[:2]:
            bad = "succeeds under the smaller limits but not (or differently) under the larger ones"
    else:
        v = judge(base, s, a)
        bad = v[1] if v else None
    print(("VIOLATION reproduced: " + bad if bad else "not reproduced") + f" property={data['property']}")
    return 1 if bad else 0
