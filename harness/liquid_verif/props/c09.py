"""C09 — Parsing and rendering always terminate within the stack.

Everything that can recurse deeply or run long is executed in CHILD processes with a wall-clock limit; the harness
process itself never renders a recursive template.
"""

from __future__ import annotations

import json
import os
import subprocess
import sys

from .. import core
from ..core import Check
from ..g import g_bool

IMPORTS = "Terminate"

# ----------------------------------------------------------------------------------------------- the child process
CHILD = r'''
import sys, json, time, asyncio, warnings
warnings.simplefilter("ignore")
from liquid import Environment, DictLoader, Mode
from liquid.extra import add_tags_and_filters
import liquid.exceptions as X

REC = []
def depth():
    f = sys._getframe(1); n = 0
    while f is not None:
        n += 1; f = f.f_back
    return n
def probe(_x):
    REC.append(depth()); return "x"

def classify(e):
    for tag, name in (("EContextDepth", "ContextDepthError"), ("ERequiredBlock", "RequiredBlockError"), ("EInherit", "TemplateInheritanceError"),
                      ("EDisabledTag", "DisabledTagError"), ("ENotFound", "TemplateNotFoundError"), ("ESyntax", "LiquidSyntaxError")):
        if isinstance(e, getattr(X, name)):
            return tag
    if isinstance(e, X.LiquidError):
        return "ELiquid"
    if isinstance(e, RecursionError):
        return "ERecursionError"
    return "EOtherForeign:" + type(e).__name__

def render_job(job):
    limit = job.get("limit")
    class Env(Environment):
        pass
    if limit is not None:
        Env.context_depth_limit = limit
    env = Env(loader=DictLoader(job["templates"]), tolerance=Mode.LAX if job.get("lax") else Mode.STRICT)
    add_tags_and_filters(env)
    env.add_filter("probe", probe)
    REC.clear()
    t0 = time.time()
    try:
        t = env.get_template(job.get("name", "t0"))
        here = depth()
        out = asyncio.run(t.render_async()) if job.get("async") else t.render()
        res = {"outcome": "ok", "len": len(out), "peak": (max(REC) - here) if REC else 0}
    except BaseException as e:
        res = {"outcome": classify(e), "probes": len(REC), "cause": type(e.__cause__).__name__ if e.__cause__ is not None else ""}
    res["secs"] = round(time.time() - t0, 3)
    return res

def parse_job(job):
    env = Environment(tolerance=Mode.LAX if job.get("lax") else Mode.STRICT)
    add_tags_and_filters(env)
    t0 = time.time(); worst = 0.0; n = 0; worst_src = ""
    for src in job["sources"]:
        t1 = time.process_time()
        try:
            env.from_string(src)
        except X.LiquidError:
            pass
        except RecursionError:
            pass
        dt = time.process_time() - t1; n += 1
        if dt > worst:
            worst, worst_src = dt, src
    return {"outcome": "ok", "parsed": n, "secs": round(time.time() - t0, 3), "worst": round(worst, 4), "worst_source": worst_src[:200], "worst_len": len(worst_src)}

def analyze_job(job):
    import liquid
    Loader = liquid.CachingDictLoader if job.get("caching") else DictLoader
    env = Environment(loader=Loader(job["templates"]))
    add_tags_and_filters(env)
    t0 = time.time()
    try:
        if job.get("caching"):
            for k in job["templates"]:
                env.get_template(k)
        t = env.get_template("t0")
        api = job["api"]
        if api == "analyze":
            r = t.analyze(); n = len(r.variables)
        elif api == "analyze_async":
            r = asyncio.run(t.analyze_async()); n = len(r.variables)
        else:
            r = env.analyze_tags_from_string(job["templates"]["t0"]); n = len(r.all_tags)
        res = {"outcome": "ok", "len": n}
    except BaseException as e:
        res = {"outcome": classify(e)}
    res["secs"] = round(time.time() - t0, 3)
    return res

jobs = json.load(sys.stdin)
out = []
for job in jobs:
    out.append(parse_job(job) if job.get("job") == "parse" else analyze_job(job) if job.get("job") == "analyze" else render_job(job))
    sys.stdout.write(json.dumps(out[-1]) + "\n"); sys.stdout.flush()
'''


def child(jobs, timeout):
    """Run jobs in one child process.  Returns one result per job; jobs not reached before the wall-clock limit (or after a
    crash) get {"outcome": "timeout"} / {"outcome": "crash"}."""
    env = dict(os.environ)
    env["PYTHONPATH"] = core.REPO
    env["PYTHONHASHSEED"] = "0"
    try:
        r = subprocess.run([sys.executable, "-c", CHILD], input=json.dumps(jobs), capture_output=True, text=True, timeout=timeout, env=env)
        lines, tail = r.stdout.splitlines(), "crash"
    except subprocess.TimeoutExpired as e:
        so = e.stdout or ""
        lines, tail = (so.decode() if isinstance(so, bytes) else so).splitlines(), "timeout"
    res = []
    for ln in lines:
        try:
            res.append(json.loads(ln))
        except ValueError:
            break
    while len(res) < len(jobs):
        res.append({"outcome": tail if len(res) == len(lines) or tail == "timeout" else "crash"})
        tail = "not-run" if tail == "timeout" else tail
    return res


def children(jobs, timeout, per=40):
    """Several children in parallel (at most 4), `per` jobs each."""
    import concurrent.futures

    parts = [jobs[i:i + per] for i in range(0, len(jobs), per)]
    with concurrent.futures.ThreadPoolExecutor(max_workers=4) as ex:
        out = list(ex.map(lambda p: child(p, timeout), parts))
    return [r for part in out for r in part]


# ----------------------------------------------------------------------------------------------- loaders: source and Gallina
PROBE = "{{ 0 | probe }}"


def src_nodes(ns, macro_id):
    out = []
    for n in ns:
        k = n[0]
        if k == "text":
            out.append(PROBE)
        elif k == "block":
            out.append("{% if true %}" + src_nodes(n[1], macro_id) + "{% endif %}")
        elif k == "for":
            out.append("{% for i in (1.." + str(n[1]) + ") %}" + src_nodes(n[2], macro_id) + "{% endfor %}")
        elif k == "include":
            out.append("{% include 't" + str(n[1]) + "' %}")
        elif k == "render":
            out.append("{% render 't" + str(n[1]) + "' %}")
        elif k == "call":
            macro_id[0] += 1
            m = f"m{macro_id[0]}"
            out.append("{% macro " + m + " %}" + src_nodes(n[1], macro_id) + "{% endmacro %}{% call " + m + " %}")
    return "".join(out)


def g_nodes(ns):
    out = []
    for n in ns:
        k = n[0]
        if k == "text":
            out.append("TText")
        elif k == "block":
            out.append(f"TBlock {g_nodes(n[1])}")
        elif k == "for":
            out.append(f"TFor {n[1]} {g_nodes(n[2])}")
        elif k == "include":
            out.append(f"TInclude {n[1]}")
        elif k == "render":
            out.append(f"TRender {n[1]}")
        elif k == "call":
            out.append(f"TCall {g_nodes(n[1])}")
    return "[" + "; ".join(out) + "]"


def templates_of(ld):
    mid = [0]
    return {f"t{i}": src_nodes(t, mid) for i, t in enumerate(ld)}


def nest(d, inner):
    for _ in range(d):
        inner = [("block", inner)]
    return inner


def self_family(kind, d, copies):
    return [[("text",)] + nest(d, [(kind, 0)] * copies)]


def gen_loaders(ck):
    """Loaders for the small-limit layer: (loader, label)."""
    out = []
    for kind in ("include", "render"):
        for d in range(0, 4):
            for copies in (1, 2):
                out.append((self_family(kind, d, copies), f"self-{kind}"))
    # mutual recursion through two and three templates, all pairs of kinds
    for k1 in ("include", "render"):
        for k2 in ("include", "render"):
            for d in (0, 1, 2):
                out.append(([[("text",)] + nest(d, [(k1, 1)]), [("text",)] + nest(d, [(k2, 0)])], f"mutual-{k1}-{k2}"))
    out.append(([[("text",), ("for", 2, [("include", 0)])]], "self-include-in-for"))
    out.append(([[("text",), ("for", 2, [("render", 0)])]], "self-render-in-for"))
    out.append(([[("text",), ("call", [("text",), ("render", 0)])]], "self-render-in-call"))
    out.append(([[("text",), ("call", [("include", 0)])]], "include-in-call"))
    out.append(([[("for", 1, [("for", 1, [("for", 1, [("for", 1, [("text",)])])])])]], "nested-for"))
    rng = ck.rng

    def nodes(d, ntpl):
        r = []
        for _ in range(rng.randrange(1, 3)):
            x = rng.random()
            if x < 0.3 or d == 0 and x < 0.5:
                r.append(("text",))
            elif x < 0.55:
                r.append((rng.choice(["include", "render"]), rng.randrange(ntpl + 1)))  # may name a missing template
            elif d == 0:
                r.append(("text",))
            elif x < 0.75:
                r.append(("block", nodes(d - 1, ntpl)))
            elif x < 0.9:
                r.append(("for", rng.randrange(1, 3), nodes(d - 1, ntpl)))
            else:
                r.append(("call", nodes(d - 1, ntpl)))
        return r

    for _ in range(60 if ck.quick else 600):
        ntpl = rng.randrange(1, 4)
        out.append(([nodes(2, ntpl) for _ in range(ntpl)], "random"))
    return out


def g_tobs(r, with_peak):
    if r["outcome"] == "ok":
        return f"(TOk {r['len']}%N {r['peak']}, {g_bool(with_peak)})"
    e = r["outcome"]
    return f"(TErr {e if e.startswith('E') and ':' not in e else 'EOtherForeign'}, false)"


# ----------------------------------------------------------------------------------------------- parse sources
def parse_sources(ck):
    from . import c03

    rng = ck.rng
    srcs = []
    opens = ["{% if x %}", "{% unless x %}", "{% for i in x %}", "{% case x %}", "{% capture v %}", "{% tablerow i in x %}", "{% ifchanged %}",
             "{% comment %}", "{% raw %}", "{% macro m %}", "{% block b %}", "{% with a: 1 %}", "{% liquid if x", "{% case %}", "{% case x %}{% when %}",
             "{% if %}", "{% for %}", "{{", "{%", "{% if x %}{% else %}{% else %}", "{% case x %}{% else %}{% else %}",
             # unterminated conditionals with EXTRANEOUS sections (the lax-mode skip loops of if and unless are separate copies)
             "{% unless x %}{% else %}{% else %}", "{% unless x %}a{% else %}b{% elsif y %}c", "{% if x %}a{% else %}b{% elsif y %}c",
             "{% unless x %}a{% elsif y %}b{% else %}c{% else %}d", "{% if x %}a{% elsif y %}b{% else %}c{% else %}d"]
    for o in opens:  # unterminated blocks, alone, repeated, and nested to and beyond the nesting limit
        for k in (1, 2, 5, 29, 30, 31, 60, 200):
            srcs.append(o * k)
            srcs.append(o * k + "a" + "{% endif %}" * k)
    allp = list(range(len(c03.PIECES)))
    for _ in range(300 if ck.quick else 3000):
        srcs.append(c03.source(tuple(rng.choices(allp, k=rng.randrange(1, 40)))))
    srcs.append("{% if x %}" * 25 + "{% if" + " x" * 5000 + " %}")
    srcs.append("{{ " + "a." * 5000 + "b }}")
    srcs.append("a{% endif %}" * 5000)
    # expressions nested deeper than the Python stack: brackets, ranges, and / or chains, parentheses, not chains, filter arguments
    for n in (900, 1500, 5000):
        srcs += ["{{ a" + "[" * n + " }}", "{{ a" + "[b" * n + "]" * n + " }}", "{{ " + "(1.." * n + "2" + ")" * n + " }}",
                 "{% for i in " + "(1.." * n + "2" + ")" * n + " %}x{% endfor %}", "{% if a " + "and a " * n + "%}x{% endif %}",
                 "{% if a " + "or a " * n + "%}x{% endif %}", "{% if " + "(" * n + "a" + ")" * n + " %}x{% endif %}",
                 "{% if " + "not " * n + "a %}x{% endif %}", "{{ a | append: b" + "[c" * n + "]" * n + " }}",
                 "{% if x %}" * 29 + "{{ a" + "[" * n + " }}", "{% case a %}{% when " + "b[" * n + " %}{% endcase %}",
                 "{% assign x = a" + "[b" * n + "]" * n + " %}"]
    return srcs


# ----------------------------------------------------------------------------------------------- run
SYNC_COSTS = {"fr_base": 2, "fr_block": 5, "fr_for": 5, "fr_include": 3, "fr_render": 3, "fr_call": 5, "fr_leaf": 5}
ASYNC_COSTS = {"fr_base": 8, "fr_block": 4, "fr_for": 4, "fr_include": 3, "fr_render": 3, "fr_call": 4, "fr_leaf": 5}
RECURSION_LIMIT = 1000


def run(ck: Check) -> None:
    ck.rule = (
        "All rendering happens in child processes with a wall-clock limit. A: loaders of 1-3 templates built from characters, if blocks, for loops, "
        "include, render and macro call (every self-recursive family kind x block depth 0..3 x 1-2 recursive tags, every mutual pair, recursion inside "
        "for and call, seeded random loaders) with context_depth_limit 5, 6 and 8, strict and lax, sync and async: outcome class, output length and "
        "the Python frames seen by a probe filter at the deepest character are compared inside Coq with Terminate.run_terminate. B: self-including and "
        "self-rendering templates with the DEFAULT limits and the recursive tag at block depth 0..29: must end in ContextDepthError in strict mode and render without any exception in lax mode. C: lax mode with two "
        "recursive tags, small limits (work measured) and the default limit (must finish within the wall-clock limit). D: extends chains with cycles "
        "against Terminate.base_of. E: unterminated / unbalanced / over-nested / random sources must parse (or be rejected) promptly. "
        "Non-trivial = the run reached a depth limit, a cycle, or the wall-clock limit."
    )
    ck.exhaustive = True
    ck.trusted_base = [
        "Coq 8.16.1 kernel + vm_compute",
        "harness: loader -> source printer and Gallina printer, child-process runner, probe filter (frame count through sys._getframe), wall-clock limits",
        "modelled not verified: CPython's frame accounting (the per-construct frame constants are measured by layer A on every run and compared with "
        "the constants in Terminate.v), the recursion limit of 1000, wall-clock time",
    ]
    ck.assumptions = ["DictLoader partials (re-parsed at every include, which adds frames the model does not count: the model's frame figure is a lower bound)",
                      "CPython 3.12 frame layout for the hard-coded constants"]
    ck.proof()
    budget = 10.0  # CPU seconds for one source; a hang is caught by the wall-clock limit of the child

    # ---- A: small limits, model correspondence
    loaders = gen_loaders(ck)
    jobs, meta = [], []
    for ld, label in loaders:
        tpl = templates_of(ld)
        for limit in (5, 6, 8):
            for lax in (False, True):
                for a in (False, True):
                    jobs.append({"templates": tpl, "limit": limit, "lax": lax, "async": a})
                    meta.append((ld, label, limit, lax, a))
    results = children(jobs, timeout=120)
    cases, expected = [], []
    for (ld, label, limit, lax, a), r in zip(meta, results):
        ck.count("A." + label)
        ck.count("A.outcome." + r["outcome"])
        ck.note_case(("A", repr(ld), limit, lax, a), nontrivial=r["outcome"] != "ok" or lax)
        if r["outcome"] in ("timeout", "crash", "not-run", "ERecursionError") or r["outcome"].startswith("EOtherForeign"):
            ck.violation("impl-violation", f"small-limit-run-{r['outcome']}:{label}",
                         f"{templates_of(ld)} with context_depth_limit={limit} lax={lax} async={a}: {r}",
                         {"type": "render", "templates": templates_of(ld), "limit": limit, "lax": lax, "async": a, "want": ["ok", "EContextDepth", "ENotFound", "EDisabledTag"]})
            continue
        cases.append(f"{{| tc_lax := {g_bool(lax)}; tc_lim := {limit}; tc_async := {g_bool(a)}; tc_ld := [{'; '.join(g_nodes(t) for t in ld)}] |}}")
        expected.append(g_tobs(r, with_peak=True))
    ck.traces += len(cases)
    mm = ck.coq_mismatches("terminate", IMPORTS, "run_terminate", "tobs_eqb", "tcase", "tobs * bool", cases, expected, chunk=400)
    for i in mm[:4]:
        model = ck.coq_eval(IMPORTS, [f"run_terminate ({cases[i]})"])[0]
        ck.violation("correspondence", "c09-terminate-correspondence",
                     f"model Terminate.run_terminate and the engine disagree: case {cases[i]}: engine {expected[i]}, model {model}",
                     {"type": "obligation", "case": cases[i], "observed": expected[i], "model": model,
                      "broken": "correspondence Terminate.run_terminate ~ render of recursive partials (theorems C09_render_bounded, C09_recursion_cut, C09_stack_*)"},
                     no_input=True)
    ck.sample({"templates": templates_of(loaders[3][0]), "limit": 5, "observed": results[3 * 12]})

    # ---- B: default limits, the recursive tag at block depth d (strict: ContextDepthError; lax: no exception at all)
    depths = (0, 5, 10, 14, 15, 20, 29) if ck.quick else tuple(range(0, 30))
    jobs, meta = [], []
    for kind in ("include", "render"):
        for d in depths:
            for a in (False, True):
                for lax in (False, True):
                    jobs.append({"templates": templates_of(self_family(kind, d, 1)), "async": a, "lax": lax})
                    meta.append((kind, d, a, lax))
    results = children(jobs, timeout=180, per=8)
    ck.extra["B_outcomes"] = {}
    for (kind, d, a, lax), r in zip(meta, results):
        mode = "lax" if lax else "strict"
        ck.count(f"B.{kind}.{mode}.{r['outcome']}")
        ck.extra["B_outcomes"][f"{kind}.d{d}.{'async' if a else 'sync'}.{mode}"] = r["outcome"]
        ck.note_case(("B", kind, d, a, lax), nontrivial=True)
        want = "ok" if lax else "EContextDepth"
        if r["outcome"] != want:
            ck.violation("impl-violation", "recursion-error-before-context-depth-limit",
                         f"self-{kind} at block depth {d} ({'async' if a else 'sync'}, {mode}, default limits) ends in {r['outcome']} instead of "
                         + ("ContextDepthError" if not lax else "rendering with the error suppressed"),
                         {"type": "render", "templates": templates_of(self_family(kind, d, 1)), "async": a, "lax": lax, "want": [want]})
    # the model's outcome for the same families on CPython's stack (theorem C09_within_stack), evaluated for every depth
    got = ck.coq_eval(IMPORTS, ["forallb (fun d => match self_outcome true recursion_limit 30 cpython_sync KInclude d, "
                                "self_outcome true recursion_limit 30 cpython_async KRender d with TErr EContextDepth, TErr EContextDepth => true | _, _ => false end) (seq 0 30)"])[0]
    if not got.startswith("true"):
        ck.violation("correspondence", "c09-within-stack-model", f"Terminate.self_outcome does not give ContextDepthError at every block depth: {got}",
                     {"type": "obligation", "broken": "Terminate.self_outcome (theorem C09_within_stack)"}, no_input=True)

    # ---- B2: recursion THROUGH an overriding inheritance block (outside the interpreter model; oracle only): a template that
    # extends a base and, inside its overriding block, includes itself (directly or through another partial) is cut off by the depth
    # guard -- ContextDepthError after at most context_depth_limit + 2 levels, not a stack overflow relabelled afterwards
    PR = "{{ 0 | probe }}"
    fams_b2 = {
        "include-self-in-block": {"t0": "{% extends 'base' %}{% block c %}" + PR + "{% include 't0' %}{% endblock %}", "base": "<{% block c %}{% endblock %}>"},
        "include-self-via-partial": {"t0": "{% extends 'base' %}{% block c %}" + PR + "{% include 't1' %}{% endblock %}", "t1": "{% include 't0' %}",
                                     "base": "<{% block c %}{% endblock %}>"},
        "include-self-in-nested-if": {"t0": "{% extends 'base' %}{% block c %}{% if true %}" + PR + "{% include 't0' %}{% endif %}{% endblock %}",
                                      "base": "<{% block c %}{% endblock %}>"},
        "include-self-through-super": {"t0": "{% extends 'mid' %}{% block c %}" + PR + "{{ block.super }}{% endblock %}",
                                       "mid": "{% extends 'base' %}{% block c %}{% include 't0' %}{% endblock %}", "base": "<{% block c %}{% endblock %}>"},
    }
    jobs, meta = [], []
    for name, tpl in fams_b2.items():
        for limit in (5, 30):
            for a in (False, True):
                jobs.append({"templates": tpl, "async": a, "limit": limit})
                meta.append((name, limit, a))
    for (name, limit, a), r in zip(meta, children(jobs, timeout=180, per=4)):
        ck.count(f"B2.{r['outcome']}")
        ck.note_case(("B2", name, limit, a), nontrivial=True)
        bad = r["outcome"] != "EContextDepth" or r.get("probes", 0) > limit + 2 or r.get("cause") == "RecursionError"
        if bad:
            ck.violation("impl-violation", f"block-recursion-not-cut-by-depth-guard:{name}",
                         f"{name} ({'async' if a else 'sync'}, context_depth_limit {limit}): {r} -- expected ContextDepthError from the depth "
                         f"guard after at most {limit + 2} levels",
                         {"type": "render-depth", "templates": fams_b2[name], "async": a, "limit": limit, "max_probes": limit + 2})

    # ---- C: lax mode, two recursive tags
    jobs, meta = [], []
    for kind in ("include", "render"):
        for limit in ((6, 8, 10) if ck.quick else (6, 8, 10, 12, 13)):
            jobs.append({"templates": templates_of(self_family(kind, 0, 2)), "limit": limit, "lax": True})
            meta.append((kind, limit))
    results = children(jobs, timeout=120, per=3)
    ck.extra["C_lax_two_recursive_tags"] = {f"{k}.limit{l}": {"chars": r.get("len"), "secs": r.get("secs"), "outcome": r["outcome"]} for (k, l), r in zip(meta, results)}
    cases = [f"{{| tc_lax := true; tc_lim := {l}; tc_async := false; tc_ld := [{g_nodes(self_family(k, 0, 2)[0])}] |}}" for k, l in meta]
    expected = [g_tobs(r, with_peak=False) if r["outcome"] == "ok" else "(TFuel, false)" for r in results]
    mm = ck.coq_mismatches("laxwork", IMPORTS, "run_terminate", "tobs_eqb", "tcase", "tobs * bool", cases, expected, chunk=50)
    for i in mm[:2]:
        ck.violation("correspondence", "c09-lax-work-correspondence", f"lax-mode work differs from the model: {cases[i]} engine {results[i]}",
                     {"type": "obligation", "case": cases[i], "broken": "Terminate.run_terminate (lax) ~ render (theorem C09_lax_work_exponential)"}, no_input=True)
    wall = 6 if ck.quick else 20
    for kind in ("include", "render"):
        tpl = templates_of(self_family(kind, 0, 2))
        r = child([{"templates": tpl, "lax": True}], timeout=wall)[0]
        ck.count(f"C.default-limit.{kind}.{r['outcome']}")
        ck.note_case(("C", kind), nontrivial=True)
        if r["outcome"] != "ok":
            ck.violation("impl-violation", f"lax-mode-exponential-work-self-{kind}-twice",
                         f"lax mode, default limits: a template that {kind}s itself twice did not finish within {wall} s ({r['outcome']}); "
                         "every depth-limit error is suppressed per node, so the work doubles with every level",
                         {"type": "render", "templates": tpl, "lax": True, "wall": wall, "want": ["ok"]})

    # ---- D: extends chains
    import itertools

    jobs, cases, expected, meta = [], [], [], []
    n_max = 3 if ck.quick else 4
    for n in range(1, n_max + 1):
        for parents in itertools.product([None] + list(range(n + 1)), repeat=n):  # n + 1 = a missing template
            # the same chain under two naming schemes (the model identifies templates by index, so it covers both): flat names, and
            # names with a folder and an extension (BoundTemplate.name is then not the name the extends tag was given)
            for nm in ((lambda i: f"t{i}"), (lambda i: f"layouts/v{i}/t.liquid")):
                tpl = {nm(i): (("{% extends '" + nm(p) + "' %}") if p is not None else "") + "{% block b %}" + str(i) + "{% endblock %}" for i, p in enumerate(parents)}
                jobs.append({"templates": tpl, "name": nm(0)})
                meta.append(parents)
    results = children(jobs, timeout=120, per=100)
    for ji, (parents, r) in enumerate(zip(meta, results)):
        ck.count("D.outcome." + r["outcome"])
        ck.note_case(("D", parents, ji % 2), nontrivial=r["outcome"] != "ok")
        if r["outcome"] not in ("ok", "EInherit", "ENotFound"):
            if sum(1 for v in ck.violations if v.signature == f"extends-chain-{r['outcome']}") < 3:
                ck.violation("impl-violation", f"extends-chain-{r['outcome']}", f"extends chain {parents} as {sorted(jobs[ji]['templates'])}: {r}",
                             {"type": "render", "templates": jobs[ji]["templates"], "name": jobs[ji]["name"], "want": ["ok", "EInherit", "ENotFound"]})
            continue
        cases.append("{| xc_parent := [" + "; ".join("None" if p is None else f"Some {p}" for p in parents) + "] |}")
        expected.append("None" if r["outcome"] == "ok" else f"(Some {r['outcome']})")
    ck.traces += len(cases)
    mm = ck.coq_mismatches("extends", IMPORTS, "run_extends", "option_eqb exn_eqb", "xcase", "option exn", cases, expected, chunk=500)
    for i in mm[:3]:
        ck.violation("correspondence", "c09-extends-correspondence", f"extends chain {cases[i]}: engine {expected[i]}",
                     {"type": "obligation", "case": cases[i], "broken": "Terminate.base_of ~ _build_block_stacks (theorems C09_extends_*)"}, no_input=True)

    # ---- F: static analysis
    analyze_layer(ck)

    # ---- E: parsing finishes promptly
    srcs = parse_sources(ck)
    for lax in (False, True):
        r = child([{"job": "parse", "sources": srcs, "lax": lax}], timeout=120 if ck.quick else 400)[0]
        ck.count(f"E.parse.{'lax' if lax else 'strict'}.{r['outcome']}", len(srcs))
        ck.note_case(("E", lax), nontrivial=True)
        ck.extra[f"E_parse_{'lax' if lax else 'strict'}"] = r
        if r["outcome"] != "ok" or r.get("worst", 0) > budget:
            ck.violation("impl-violation", "parse-not-prompt", f"parsing {len(srcs)} sources (lax={lax}): {r}",
                         {"type": "parse", "lax": lax, "sources": srcs[:50], "budget": budget})


def nest_src(d, inner):
    return "{% if true %}" * d + inner + "{% endif %}" * d


def analyze_layer(ck: Check) -> None:
    """F: static analysis of recursive partials terminates, and a chain of partials too deep for the stack ends in a Liquid error."""
    fams = {
        "self-include": {"t0": "{{ a }}{% include 't0' %}"},
        "self-render": {"t0": "{{ a }}{% render 't0' %}"},
        "mutual": {"t0": "{{ a }}{% include 't1' %}", "t1": "{{ b }}{% render 't0' %}"},
        "self-include-nested": {"t0": nest_src(20, "{{ a }}{% include 't0' %}")},
        "self-extends": {"t0": "{% extends 't0' %}{% block b %}{{ a }}{% endblock %}"},
        "circular-extends": {"t0": "{% extends 't1' %}{{ a }}", "t1": "{% extends 't0' %}{{ b }}"},
        "macro-calls-itself": {"t0": "{% macro m %}{{ a }}{% call m %}{% endmacro %}{% call m %}"},
        "chain-400": {**{f"t{i}": "{{ a%d }}{%% include 't%d' %%}" % (i, i + 1) for i in range(400)}, "t400": "x"},
        "chain-3000": {**{f"t{i}": "{{ a%d }}{%% include 't%d' %%}" % (i, i + 1) for i in range(3000)}, "t3000": "x"},
        "nested-chain-60-include": {**{f"t{i}": nest_src(28, "{{ a }}{%% include 't%d' %%}" % (i + 1)) for i in range(60)}, "t60": "x"},
        "nested-chain-60-render": {**{f"t{i}": nest_src(28, "{{ a }}{%% render 't%d' %%}" % (i + 1)) for i in range(60)}, "t60": "x"},
        "nested-29": {"t0": nest_src(29, "{{ a }}")},
        "unbalanced": {"t0": "{% if a %}{% for x in y %}{{ x }}{% endif %}"},
    }
    jobs, meta = [], []
    for name, tpl in fams.items():
        for api in ("analyze", "analyze_async", "analyze_tags"):
            for caching in (False, True):
                jobs.append({"job": "analyze", "templates": tpl, "api": api, "caching": caching})
                meta.append((name, api, caching))
    results = children(jobs, timeout=120, per=6)
    ck.extra["F_analysis"] = {}
    for (name, api, caching), r in zip(meta, results):
        ck.count(f"F.{api}.{r['outcome']}")
        ck.note_case(("F", name, api, caching), nontrivial=True)
        ck.extra["F_analysis"][f"{name}.{api}.{'cached' if caching else 'dict'}"] = r["outcome"]
        small = name in ("self-include", "self-render", "mutual", "self-include-nested", "self-extends", "circular-extends", "macro-calls-itself",
                         "chain-400", "nested-29")
        ok = r["outcome"] == "ok" or (not small and r["outcome"] in ("EContextDepth", "ESyntax", "ELiquid", "EInherit"))
        if not ok:
            ck.violation("impl-violation", f"analysis-{r['outcome'].split(':')[0]}:{name}",
                         f"{api} ({'cached' if caching else 'uncached'} partials) on the family {name} ends in {r['outcome']}",
                         {"type": "analyze", "templates": tpl, "api": api, "caching": caching,
                          "want": ["ok"] if small else ["ok", "EContextDepth", "ESyntax", "ELiquid", "EInherit"]})


def replay(data) -> int:
    case = data["case"]
    if case.get("type") == "render":
        r = child([{k: v for k, v in case.items() if k in ("templates", "limit", "lax", "async", "name")}], timeout=case.get("wall", 60))[0]
        print("templates:", case["templates"])
        print("outcome:", r, "wanted one of", case["want"])
        bad = r["outcome"] not in case["want"]
    elif case.get("type") == "render-depth":
        r = child([{k: v for k, v in case.items() if k in ("templates", "limit", "async")}], timeout=120)[0]
        print("templates:", case["templates"], "context_depth_limit:", case["limit"])
        print("outcome:", r)
        bad = r["outcome"] != "EContextDepth" or r.get("probes", 0) > case["max_probes"] or r.get("cause") == "RecursionError"
    elif case.get("type") == "analyze":
        r = child([{"job": "analyze", "templates": case["templates"], "api": case["api"], "caching": case["caching"]}], timeout=60)[0]
        print("analysis:", r, "wanted one of", case["want"])
        bad = r["outcome"] not in case["want"]
    elif case.get("type") == "parse":
        r = child([{"job": "parse", "sources": case["sources"], "lax": case["lax"]}], timeout=60)[0]
        print("parse:", r)
        bad = r["outcome"] != "ok" or r.get("worst", 0) > case.get("budget", 1.0)
    else:
        print("replay names a proof/correspondence obligation:", case)
        return 1
    print(("VIOLATION reproduced" if bad else "not reproduced") + f" property={data['property']}")
    return 1 if bad else 0
