"""C03 — Lax and warn modes suppress errors without changing correct output (enlarged tag language)."""

from __future__ import annotations

import itertools
import os
import re
import warnings

from ..core import Check, classify_exc, run_async
from ..g import g_str

IMPORTS = "Recover"

# ----------------------------------------------------------------------------------------------- data
DATAS = (
    {"p": True, "q": False, "o": "O", "l": [1, 2], "w": 1, "d": {"k": {"c": "S"}}},
    {"p": False, "q": True, "o": "P", "l": [], "w": 2, "d": {"k": {"c": "S"}}},
)
MODES = ("Strict", "Warn", "Lax")
LIMITS = (30, 1)  # block_nesting_limit: the default and a small one


# ----------------------------------------------------------------------------------------------- pieces
# A piece is one tag / output statement / run of text.  `src` is its source text; `toks(d)` the tokens the template
# lexer produces for it, written by hand in the vocabulary of Recover.v, with the value of its expression on DATAS[d].
def _val(txt, n):
    return f"(RVal {g_str(txt)} {n})"


def _ok(r):
    return f"TExpr (XOk {r})"


BAD = "TExpr (XBad ESyntax)"
DEEP = 1500  # nesting depth of the deep pieces: more than CPython's recursion limit
DEEPBAD = "TExpr (XBad EContextDepth)"


def _var(txt, n):
    return f"(RVar {g_str(txt)} {n})"


class Piece:
    def __init__(self, name, src, toks, strict_only=False):
        self.name, self.src, self._toks, self.strict_only = name, src, toks, strict_only

    def toks(self, d):
        t = self._toks
        return t(d) if callable(t) else t


def _tag(n):
    return f"TTag {n}"


PIECES = [
    Piece("text", None, None),  # position dependent, see source()/piece_coq()
    Piece("out", "{{ o }}", lambda d: ["TOutput", _ok(_var(DATAS[d]["o"], 1))]),
    Piece("out-bad", "{{ o | }}", ["TOutput", BAD]),
    Piece("out-rerr", "{{ 1 | divided_by: 0 }}", ["TOutput", _ok("(RErr EFilterArg)")]),
    Piece("out-strictonly", "{{ d['k']c }}", ["TOutput", f"TExpr (XStrictOnly {_val('S', 1)})"], strict_only=True),
    Piece("out-cap", "{{ v }}", ["TOutput", _ok("RCap")]),
    Piece("if", "{% if p %}", lambda d: [_tag("Nif"), _ok(_val("", int(DATAS[d]["p"])))]),
    Piece("if-noexpr", "{% if %}", [_tag("Nif")]),
    Piece("if-bad", "{% if p == %}", [_tag("Nif"), BAD]),
    Piece("if-rerr", "{% if o > 1 %}", [_tag("Nif"), _ok("(RErr EType)")]),
    Piece("elsif", "{% elsif q %}", lambda d: [_tag("Nelsif"), _ok(_val("", int(DATAS[d]["q"])))]),
    Piece("elsif-noexpr", "{% elsif %}", [_tag("Nelsif")]),
    Piece("elsif-bad", "{% elsif q == %}", [_tag("Nelsif"), BAD]),
    Piece("else", "{% else %}", [_tag("Nelse")]),
    Piece("else-expr", "{% else q %}", lambda d: [_tag("Nelse"), _ok(_val("", int(DATAS[d]["q"])))]),
    Piece("endif", "{% endif %}", [_tag("Nendif")]),
    Piece("unless", "{% unless p %}", lambda d: [_tag("Nunless"), _ok(_val("", int(DATAS[d]["p"])))]),
    Piece("endunless", "{% endunless %}", [_tag("Nendunless")]),
    Piece("for", "{% for i in l %}", lambda d: [_tag("Nfor"), _ok(_val("", len(DATAS[d]["l"])))]),
    Piece("for-bad", "{% for i l %}", [_tag("Nfor"), BAD]),
    Piece("endfor", "{% endfor %}", [_tag("Nendfor")]),
    Piece("break", "{% break %}", [_tag("Nbreak")]),
    Piece("continue", "{% continue %}", [_tag("Ncontinue")]),
    Piece("break-expr", "{% break x %}", [_tag("Nbreak"), _ok(_val("", 0))]),
    Piece("case", "{% case w %}", lambda d: [_tag("Ncase"), _ok(_val("", 1))]),
    Piece("case-noexpr", "{% case %}", [_tag("Ncase")]),
    Piece("when", "{% when 1 %}", lambda d: [_tag("Nwhen"), _ok(_val("", int(DATAS[d]["w"] == 1)))]),
    Piece("when2", "{% when 2, 2 %}", lambda d: [_tag("Nwhen"), _ok(_val("", 2 * int(DATAS[d]["w"] == 2)))]),
    Piece("when-noexpr", "{% when %}", [_tag("Nwhen")]),
    Piece("endcase", "{% endcase %}", [_tag("Nendcase")]),
    Piece("capture", "{% capture v %}", [_tag("Ncapture"), _ok(_val("", 0))]),
    Piece("capture-bad", "{% capture v w %}", [_tag("Ncapture"), BAD]),
    Piece("endcapture", "{% endcapture %}", [_tag("Nendcapture")]),
    Piece("assign", "{% assign x = 1 %}", [_tag("Nassign"), _ok(_val("", 1))]),
    Piece("assign-noexpr", "{% assign %}", [_tag("Nassign")]),
    Piece("assign-bad", "{% assign x %}", [_tag("Nassign"), BAD]),
    Piece("assign-rerr", "{% assign y = 1 | divided_by: 0 %}", [_tag("Nassign"), _ok("(RErr EFilterArg)")]),
    Piece("echo", "{% echo o %}", lambda d: [_tag("Necho"), _ok(_var(DATAS[d]["o"], 1))]),
    Piece("echo-noexpr", "{% echo %}", [_tag("Necho")]),
    Piece("unknown", "{% nosuch %}", [_tag("Nunknown")]),
    Piece("unknown-expr", "{% nosuch x %}", [_tag("Nunknown"), _ok(_val("", 0))]),
    # ---- the remaining standard tags
    Piece("tablerow", "{% tablerow i in l %}", lambda d: [_tag("Ntablerow"), _ok(_val("", len(DATAS[d]["l"])))]),
    Piece("tablerow-bad", "{% tablerow i l %}", [_tag("Ntablerow"), BAD]),
    Piece("endtablerow", "{% endtablerow %}", [_tag("Nendtablerow")]),
    Piece("cycle", "{% cycle 'c' %}", [_tag("Ncycle"), _ok(_val("c", 1))]),
    Piece("cycle-noexpr", "{% cycle %}", [_tag("Ncycle")]),
    Piece("cycle-bad", "{% cycle 'g': %}", [_tag("Ncycle"), BAD]),
    Piece("increment", "{% increment n %}", [_tag("Nincrement"), _ok(_val("", 0))]),
    Piece("increment-noexpr", "{% increment %}", [_tag("Nincrement")]),
    Piece("decrement", "{% decrement m %}", [_tag("Ndecrement"), _ok(_val("", 0))]),
    Piece("decrement-bad", "{% decrement a.b %}", [_tag("Ndecrement"), BAD]),
    Piece("include", "{% include 'p' %}", [_tag("Ninclude"), _ok(_val("[P]", 1))]),
    Piece("include-missing", "{% include 'nosuch' %}", [_tag("Ninclude"), _ok("(RErr ENotFound)")]),
    Piece("include-noexpr", "{% include %}", [_tag("Ninclude")]),
    Piece("include-bad", "{% include 'p' with %}", [_tag("Ninclude"), BAD]),
    Piece("render", "{% render 'p' %}", [_tag("Nrender"), _ok(_val("[P]", 1))]),
    Piece("render-missing", "{% render 'nosuch' %}", [_tag("Nrender"), _ok("(RErr ENotFound)")]),
    Piece("render-bad", "{% render p.q %}", [_tag("Nrender"), BAD]),
    Piece("liquid", "{% liquid echo o\nassign x = 1 %}",
          lambda d: [_tag("Nliquid"), "TLiquid (Some [TTag Necho; " + _ok(_var(DATAS[d]["o"], 1)) + "; TTag Nassign; " + _ok(_val("", 1)) + "])"]),
    Piece("liquid-open-if", "{% liquid echo o\nif p\necho o %}",
          lambda d: [_tag("Nliquid"), "TLiquid (Some [TTag Necho; " + _ok(_var(DATAS[d]["o"], 1)) + "; TTag Nif; " + _ok(_var("", int(DATAS[d]["p"])))
                     + "; TTag Necho; " + _ok(_var(DATAS[d]["o"], 1)) + "])"]),
    Piece("liquid-bad-line", "{% liquid echo o\nnosuch\necho o %}",
          lambda d: [_tag("Nliquid"), "TLiquid (Some [TTag Necho; " + _ok(_var(DATAS[d]["o"], 1)) + "; TTag Nunknown; TTag Necho; " + _ok(_var(DATAS[d]["o"], 1)) + "])"]),
    Piece("liquid-empty", "{% liquid %}", [_tag("Nliquid")]),
    Piece("liquid-illegal", "{% liquid echo o\n?? %}", [_tag("Nliquid"), "TLiquid None"]),
    Piece("liquid-blocks", "{% liquid if p\nfor i in l\necho o\nendfor\nendif\nbreak %}",
          lambda d: [_tag("Nliquid"), "TLiquid (Some [TTag Nif; " + _ok(_var("", int(DATAS[d]["p"]))) + "; TTag Nfor; " + _ok(_val("", len(DATAS[d]["l"])))
                     + "; TTag Necho; " + _ok(_var(DATAS[d]["o"], 1)) + "; TTag Nendfor; TTag Nendif; TTag Nbreak])"]),
    Piece("comment-open", "{% comment %}", None),  # the lexer swallows everything up to the matching endcomment: see expand
    Piece("endcomment", "{% endcomment %}", [_tag("Nendcomment")]),
    Piece("raw", "{% raw %}r{% endraw %}", ["TContent [114%N]"]),
    Piece("doc", "{% doc %}d{% enddoc %}", ["TDoc"]),
    Piece("doc-expr", "{% doc x %}", [_tag("Ndoc"), _ok(_val("", 0))]),
    Piece("enddoc", "{% enddoc %}", [_tag("Nenddoc")]),
    Piece("hash", "{% # note %}", [_tag("Nhash"), _ok(_val("", 0))]),
    Piece("hash-bad", "{% # a\n b %}", [_tag("Nhash"), BAD]),
    Piece("ifchanged", "{% ifchanged %}", [_tag("Nifchanged")]),
    Piece("endifchanged", "{% endifchanged %}", [_tag("Nendifchanged")]),
    # ---- liquid.extra
    Piece("with", "{% with a: 1 %}", [_tag("Nwith"), _ok(_val("", 1))]),
    Piece("with-noexpr", "{% with %}", [_tag("Nwith")]),
    Piece("with-bad", "{% with a %}", [_tag("Nwith"), BAD]),
    Piece("endwith", "{% endwith %}", [_tag("Nendwith")]),
    Piece("macro", "{% macro m %}", [_tag("Nmacro"), _ok(_val("", 1))]),
    Piece("macro-noexpr", "{% macro %}", [_tag("Nmacro")]),
    Piece("endmacro", "{% endmacro %}", [_tag("Nendmacro")]),
    Piece("call", "{% call m %}", [_tag("Ncall"), _ok("RMacro")]),
    Piece("call-unknown", "{% call zz %}", [_tag("Ncall"), _ok(_val("", 0))]),
    Piece("call-noexpr", "{% call %}", [_tag("Ncall")]),
    Piece("extends", "{% extends 'base' %}", [_tag("Nextends"), _ok(_val("BASE", 1))]),
    Piece("extends-missing", "{% extends 'nosuch' %}", [_tag("Nextends"), _ok("(RErr ENotFound)")]),
    Piece("extends-noexpr", "{% extends %}", [_tag("Nextends")]),
    Piece("block", "{% block b %}", [_tag("Nblock"), _ok(_val("", 1))]),
    Piece("block-required", "{% block b required %}", [_tag("Nblock"), _ok("(RErr ERequiredBlock)")]),
    Piece("block-noexpr", "{% block %}", [_tag("Nblock")]),
    Piece("endblock", "{% endblock %}", [_tag("Nendblock")]),
    Piece("endblock-name", "{% endblock b %}", [_tag("Nendblock"), _ok(_val("", 1))]),
    Piece("endblock-wrong", "{% endblock c %}", [_tag("Nendblock"), "TExpr (XBad EInherit)"]),
    Piece("translate", "{% translate %}", [_tag("Ntranslate")]),
    Piece("translate-bad", "{% translate x %}", [_tag("Ntranslate"), BAD]),
    Piece("plural", "{% plural %}", [_tag("Nplural")]),
    Piece("endtranslate", "{% endtranslate %}", [_tag("Nendtranslate")]),
    Piece("noname", "{% %}", [_tag("Nnoname")]),
    # ---- when lists with a rejected later alternative; expressions nested deeper than the Python stack
    Piece("when-tail-strictonly", "{% when 2, w. %}", lambda d: [_tag("Nwhen"), f"TExpr (XStrictOnly {_val('', int(DATAS[d]['w'] == 2) + 1)})"], strict_only=True),
    Piece("when-tail-bad", "{% when 1, | %}", lambda d: [_tag("Nwhen"), f"TExpr (XTailBad {_val('', int(DATAS[d]['w'] == 1))})"]),
    Piece("out-deep", "{{ o" + "[" * DEEP + " }}", ["TOutput", DEEPBAD]),
    Piece("if-deep", "{% if o " + "and o " * DEEP + "%}", [_tag("Nif"), DEEPBAD]),
    Piece("elsif-deep", "{% elsif o " + "and o " * DEEP + "%}", [_tag("Nelsif"), DEEPBAD]),
    Piece("for-deep", "{% for i in " + "(1.." * DEEP + "2" + ")" * DEEP + " %}", [_tag("Nfor"), DEEPBAD]),
]
IDX = {p.name: i for i, p in enumerate(PIECES)}

# alphabets for the exhaustive layers (names)
CORE20 = ["text", "out", "out-bad", "out-rerr", "if", "if-bad", "elsif", "elsif-noexpr", "else", "endif", "for", "endfor",
          "break", "case", "when", "endcase", "capture", "endcapture", "assign-noexpr", "unknown"]
CORE12 = ["text", "out-rerr", "if", "if-noexpr", "elsif", "elsif-bad", "else", "endif", "for", "endfor", "break", "out-strictonly"]
CORE9 = ["text", "out-rerr", "if", "elsif-noexpr", "else", "endif", "for", "endfor", "continue"]
CORE7 = ["text", "if", "if-bad", "else", "endif", "case", "when"]
CORE8 = ["text", "out-rerr", "if", "elsif-bad", "else", "endif", "for", "endfor"]
# the remaining standard tags
STD16 = ["text", "out-rerr", "tablerow", "endtablerow", "cycle", "increment", "include-missing", "liquid-open-if", "liquid-blocks",
         "comment-open", "endcomment", "doc-expr", "enddoc", "ifchanged", "endifchanged", "break"]
STD25 = STD16 + ["decrement", "render", "liquid", "raw", "doc", "hash", "for", "endfor", "assign-noexpr"]
# liquid.extra
EXT16 = ["text", "out", "macro", "endmacro", "call", "include", "block", "block-required", "endblock", "endblock-wrong", "extends",
         "extends-missing", "translate", "endtranslate", "with", "endwith"]
EXT22 = EXT16 + ["plural", "noname", "for", "endfor", "break", "out-rerr"]
MIX8 = ["text", "macro", "endmacro", "call", "extends", "block", "endblock", "increment"]
MIX12 = MIX8 + ["comment-open", "endcomment", "ifchanged", "endifchanged"]
DEEP9 = ["text", "if", "elsif", "else", "endif", "out-deep", "if-deep", "elsif-deep", "for-deep"]
WHEN8 = ["text", "case", "when", "when-tail-strictonly", "when-tail-bad", "else", "endcase", "out-rerr"]
WHEN6 = ["text", "case", "when", "when-tail-strictonly", "when-tail-bad", "endcase"]


def source(ps) -> str:
    return "".join(chr(97 + i) if p == 0 else PIECES[p].src for i, p in enumerate(ps))


def preamble() -> str:
    """The piece table as a Gallina function (the harness's hand tokenisation of every piece) and the batch runner."""
    lines = ["From Coq Require Import String Ascii Uint63.", "Local Open Scope string_scope. Local Open Scope list_scope.",
             "Definition piece (d pos p : nat) : list tok :=", "  match p with", "  | 0 => [TContent [N.of_nat (97 + pos)]]"]
    for i, p in enumerate(PIECES):
        if i == 0 or p._toks is None:
            continue
        t0, t1 = "[" + "; ".join(p.toks(0)) + "]", "[" + "; ".join(p.toks(1)) + "]"
        lines.append(f"  | {i} => " + (t0 if t0 == t1 else f"match d with 0 => {t0} | _ => {t1} end"))
    co, ec = IDX["comment-open"], IDX["endcomment"]
    lines += ["  | _ => []", "  end.",
              "(* adjacent text pieces are one CONTENT token; the lexer swallows everything between comment and the matching endcomment *)",
              "Fixpoint expand (d pos : nat) (pend : str) (cdepth : nat) (ps : list nat) : list tok :=",
              "  let flush := match pend with [] => [] | _ => [TContent pend] end in",
              "  match ps with",
              "  | [] => match cdepth with O => flush | _ => [] end",
              "  | p :: r =>",
              "      match cdepth with",
              "      | S k =>",
              f"          if Nat.eqb p {co} then expand d (S pos) [] (S (S k)) r",
              f"          else if Nat.eqb p {ec} then",
              "            match k with O => TComment :: TTag Nendcomment :: expand d (S pos) [] 0 r | _ => expand d (S pos) [] k r end",
              "          else expand d (S pos) [] cdepth r",
              "      | O =>",
              "          if Nat.eqb p 0 then expand d (S pos) (pend ++ [N.of_nat (97 + pos)]) 0 r",
              f"          else if Nat.eqb p {co} then flush ++ TTag Ncomment :: expand d (S pos) [] 1 r",
              "          else flush ++ piece d pos p ++ expand d (S pos) [] 0 r",
              "      end",
              "  end.",
              "Definition mk (m : mode) (lim d : nat) (ps : list nat) : rcase :=",
              "  {| rc_mode := m; rc_limit := lim; rc_toks := expand d 0 [] 0 ps |}.",
              "Definition enc_exn (e : exn) : string :=",
              "  match e with " + " | ".join(f'{e} => "{e}"' for e in EXNS) + " end.",
              "Fixpoint rep_w (n : nat) : string := match n with O => EmptyString | S n' => String \"w\"%char (rep_w n') end.",
              "Fixpoint enc_text (t : str) : string := match t with [] => EmptyString | c :: r => String (ascii_of_N c) (enc_text r) end.",
              "Definition enc_obs (o : obs) : string :=",
              "  match o with",
              "  | OParseErr e => (\"p\" ++ enc_exn e ++ \";\")%string",
              "  | ORenderErr e => (\"r\" ++ enc_exn e ++ \";\")%string",
              "  | OOut t n => (\"o\" ++ rep_w n ++ \":\" ++ enc_text t ++ \";\")%string",
              "  | OFuel => \"f;\"",
              "  end.",
              "Definition run_seq (lim : nat) (ps : list nat) : string :=",
              "  String.concat EmptyString (flat_map (fun m => map (fun d => enc_obs (run_recover (mk m lim d ps))) [0; 1]) [Strict; Warn; Lax]).",
              "Fixpoint seqs (ids : list nat) (k : nat) : list (list nat) :=",
              "  match k with O => [[]] | S k' => flat_map (fun a => map (cons a) (seqs ids k')) ids end.",
              "Record group := { g_lim : nat; g_seqs : list (list nat) }.",
              "Definition run_group (g : group) : string := String.concat EmptyString (map (run_seq (g_lim g)) (g_seqs g)).",
              "(* the observations of a whole group are compared through a polynomial hash modulo 2^63 (string literals are slow to read) *)",
              "Definition code (c : ascii) : int :=",
              "  match c with Ascii b0 b1 b2 b3 b4 b5 b6 b7 =>",
              "    ((if b0 then 1 else 0) + (if b1 then 2 else 0) + (if b2 then 4 else 0) + (if b3 then 8 else 0) + (if b4 then 16 else 0)",
              "     + (if b5 then 32 else 0) + (if b6 then 64 else 0) + (if b7 then 128 else 0))%uint63 end.",
              "Definition hash_str (s : string) : int :=",
              "  (fix go (s : string) (h : int) : int :=",
              "     match s with EmptyString => h | String c r => go r (h * 1000003 + code c + 1)%uint63 end) s 0%uint63.",
              "Definition run_group_hash (g : group) : int := hash_str (run_group g)."]
    return "\n".join(lines)


EXNS = ["ELiquid", "ESyntax", "EType", "EUndefined", "EDisabledTag", "ENotFound", "ENoSuchFilter", "EFilterArg", "ELoopLimit", "EOutputLimit",
        "ENamespaceLimit", "EContextDepth", "EInherit", "ERequiredBlock", "EValueError", "ETypeError", "EOverflowError", "EIndexError", "EKeyError",
        "EAssertionError", "EArithmeticError", "ERecursionError", "EUnicodeError", "EOSError", "ERuntimeError", "EOtherForeign"]


def hash_str(s: str) -> int:
    h = 0
    for ch in s:
        h = (h * 1000003 + ord(ch) + 1) & 0x7FFFFFFFFFFFFFFF
    return h


def enc_obs(o) -> str:
    if o[0] == "out":
        return "o" + "w" * o[2] + ":" + o[1] + ";"
    return ("p" if o[0] == "perr" else "r") + o[1] + ";"


def enc_source(obs) -> str:
    return "".join(enc_obs(obs[(m, d, False)]) for m in MODES for d in (0, 1))


# ----------------------------------------------------------------------------------------------- the implementation
_ENVS = {}


def _env(mode: str, limit: int):
    key = (mode, limit)
    if key not in _ENVS:
        from liquid import DictLoader, Environment, Mode
        from liquid.extra import add_tags_and_filters

        class Env(Environment):
            block_nesting_limit = limit

        env = Env(tolerance={"Strict": Mode.STRICT, "Warn": Mode.WARN, "Lax": Mode.LAX}[mode], loader=DictLoader({"p": "[P]", "base": "BASE"}))
        add_tags_and_filters(env)
        _ENVS[key] = env
    return _ENVS[key]


def observe(src: str, mode: str, limit: int, d: int, use_async: bool):
    """('out', text, nwarn) | ('perr', class, liquid?) | ('rerr', class, liquid?)"""
    from liquid.exceptions import LiquidError

    env = _env(mode, limit)
    with warnings.catch_warnings(record=True) as w:
        warnings.simplefilter("always")
        try:
            t = env.from_string(src)
        except Exception as e:  # noqa: BLE001
            return ("perr", classify_exc(e), isinstance(e, LiquidError))
        try:
            out = run_async(t.render_async(**DATAS[d])) if use_async else t.render(**DATAS[d])
        except Exception as e:  # noqa: BLE001
            return ("rerr", classify_exc(e), isinstance(e, LiquidError))
        return ("out", out, len(w))


def observe_all(arg):
    """Every (mode, data, api) observation of one (pieces, limit)."""
    ps, limit = arg
    src = source(ps)
    return {(m, d, a): observe(src, m, limit, d, a) for m in MODES for d in (0, 1) for a in (False, True)}


def batch(args):
    import concurrent.futures

    with concurrent.futures.ProcessPoolExecutor(max_workers=min(6, os.cpu_count() or 2)) as ex:
        return list(ex.map(observe_all, args, chunksize=200))


# ----------------------------------------------------------------------------------------------- the oracle
def oracle(ps, obs):
    """The documented behaviour, checked on the observations alone.  Yields (kind, detail)."""
    strict_only = any(PIECES[p].strict_only for p in ps)
    for d in (0, 1):
        for a in (False, True):
            s, w, x = obs[("Strict", d, a)], obs[("Warn", d, a)], obs[("Lax", d, a)]
            for name, o in (("lax", x), ("warn", w)):
                if o[0] != "out":
                    yield (f"{name}-raises", {"data": d, "async": a, "observed": o})
            if x[0] == "out" and x[2] != 0:
                yield ("lax-warns", {"data": d, "async": a, "observed": x})
            if w[0] == "out" and x[0] == "out" and w[1] != x[1]:
                yield ("warn-output-differs-from-lax", {"data": d, "async": a, "warn": w, "lax": x})
            if s[0] == "out":
                if s[2] != 0:
                    yield ("strict-warns", {"data": d, "async": a, "observed": s})
                if x[0] == "out" and x[1] != s[1]:
                    yield ("lax-output-differs-from-strict", {"data": d, "async": a, "strict": s, "lax": x})
                if w[0] == "out" and (w[1] != s[1] or w[2] != 0):
                    yield ("warn-differs-from-strict", {"data": d, "async": a, "strict": s, "warn": w})
            elif s[2] and not strict_only and w[0] == "out" and w[2] == 0:
                # a Liquid error that strict mode raises is reported by warn mode (unless it is one of the strict-only checks)
                yield ("strict-error-not-warned", {"data": d, "async": a, "strict": s, "warn": w})
        for m in MODES:
            if obs[(m, d, False)] != obs[(m, d, True)]:
                yield ("sync-async-differ", {"data": d, "mode": m, "sync": obs[(m, d, False)], "async": obs[(m, d, True)]})


# ----------------------------------------------------------------------------------------------- generation
GROUP = 4200  # sources per group (one Coq string comparison each)


def gen_groups(ck: Check):
    """Groups of (limit, layer label, Gallina term for the list of piece sequences, the sequences)."""
    deep = {i for i, p in enumerate(PIECES) if p.name.endswith("-deep")}  # a stack overflow costs ~50 ms: few of those
    allp = [i for i in range(len(PIECES)) if i not in deep]
    if ck.quick:
        layers = [(allp, 2, 30), (CORE20, 3, 30), (CORE12, 3, 30), (CORE7, 4, 30), (CORE9, 3, 1),
                  (STD16, 3, 30), (EXT16, 3, 30), (MIX8, 3, 30), (STD16, 2, 1), (DEEP9, 2, 30), (WHEN6, 4, 30)]
        nrand = 1200
    else:
        layers = [(allp, 2, 30), (CORE20, 4, 30), (CORE12, 4, 30), (CORE7, 5, 30), (CORE12, 4, 1), (CORE9, 5, 1),
                  (STD25, 3, 30), (STD16, 4, 30), (EXT22, 3, 30), (EXT16, 4, 30), (MIX12, 4, 30), (MIX8, 5, 30), (STD16, 3, 1), (EXT16, 3, 1),
                  (DEEP9, 3, 30), (WHEN8, 5, 30), (CORE8, 5, 30)]
        nrand = 20000
    for alpha, n, lim in layers:
        ids = [a if isinstance(a, int) else IDX[a] for a in alpha]
        g_ids = "[" + "; ".join(map(str, ids)) + "]"
        for k in range(0 if lim == 30 else 2, n + 1):
            j = 0
            while len(ids) ** (k - j) > GROUP:
                j += 1
            for pre in itertools.product(ids, repeat=j):
                seqs = [pre + t for t in itertools.product(ids, repeat=k - j)]
                term = f"map (app [{'; '.join(map(str, pre))}]) (seqs {g_ids} {k - j})" if j else f"seqs {g_ids} {k}"
                yield lim, f"exhaustive.alphabet{len(ids)}.len{k}.limit{lim}", term, seqs
    # fixed sequences: past correspondence mismatches and translate blocks with tags inside
    fixed = [
        (1, ["decrement-bad", "translate", "echo", "plural", "elsif", "increment", "endif", "endif", "endfor", "when-noexpr"]),
        (30, ["translate", "echo", "endtranslate"]), (30, ["translate", "text", "echo", "plural", "echo", "text", "endtranslate"]),
        (30, ["translate", "echo-noexpr", "endtranslate"]), (30, ["translate", "cycle", "endtranslate"]), (30, ["translate", "out-rerr", "endtranslate"]),
        (30, ["translate", "if", "text", "endif", "endtranslate", "text"]), (30, ["translate", "if", "text", "endtranslate", "text"]),
        (1, ["translate", "if", "text", "endif", "endtranslate", "text"]), (1, ["if", "translate", "text", "endtranslate", "endif", "text"]),
        (30, ["translate", "text", "plural", "for", "text", "endfor", "endtranslate", "text"]), (30, ["translate", "text", "plural", "unknown", "text"]),
        (30, ["translate", "unknown", "plural", "text", "endtranslate", "text"]), (30, ["translate", "out", "out-cap", "raw", "endtranslate"]),
        (30, ["translate", "comment-open", "endcomment", "endtranslate", "text"]), (30, ["translate", "liquid", "endtranslate", "text"]),
        (30, ["translate", "assign", "endtranslate", "text"]), (30, ["for", "translate", "break", "endtranslate", "text", "endfor"]),
        (30, ["translate-bad", "text", "endtranslate", "text"]), (30, ["translate", "text", "plural", "text", "plural", "text", "endtranslate"]),
        # a macro that calls itself (possible since fix bfab21e): cut off by ContextDepthError after 31 bodies
        (30, ["macro", "call", "endmacro", "call"]), (30, ["macro", "text", "call", "endmacro", "call", "text"]),
        (30, ["macro", "text", "call", "text", "endmacro", "text", "call"]), (30, ["macro", "out", "call", "endmacro", "call", "call"]),
        (1, ["macro", "call", "endmacro", "call"]), (30, ["macro", "if", "call", "endif", "endmacro", "call", "text"]),
    ]
    for lim in sorted({l for l, _ in fixed}):
        seqs = [tuple(IDX[n] for n in names) for l, names in fixed if l == lim]
        yield lim, f"fixed.limit{lim}", "[" + "; ".join("[" + "; ".join(map(str, ps)) + "]" for ps in seqs) + "]", seqs
    rng = ck.rng
    weights = [6 if PIECES[i].name in ("text", "if", "endif", "for", "endfor", "else", "elsif") else 1 for i in allp]
    for lim in (30, 1, 2):
        seqs = [tuple(rng.choices(allp, weights=weights, k=rng.randrange(5, 11))) for _ in range(nrand // 3)]
        for lo in range(0, len(seqs), GROUP):
            part = seqs[lo:lo + GROUP]
            yield lim, f"random.limit{lim}", "[" + "; ".join("[" + "; ".join(map(str, ps)) + "]" for ps in part) + "]", part
    # well-formed templates (strict mode succeeds on most), half of them with one piece replaced, dropped or inserted
    for lim in (30, 2):
        seqs = []
        for _ in range(nrand):
            ps = wellformed(rng, 3)
            if rng.random() < 0.5 and ps:
                i = rng.randrange(len(ps))
                r = rng.random()
                ps = ps[:i] + ([] if r < 0.3 else [rng.choice(allp)]) + ps[i + (0 if r > 0.7 else 1):]
            seqs.append(tuple(ps[:14]))
        for lo in range(0, len(seqs), GROUP):
            part = seqs[lo:lo + GROUP]
            yield lim, f"wellformed-or-one-edit.limit{lim}", "[" + "; ".join("[" + "; ".join(map(str, ps)) + "]" for ps in part) + "]", part


def wellformed(rng, depth):
    """A well-formed template as a list of piece indices."""
    I = IDX

    def leaf():
        return [I[rng.choice(["text", "text", "out", "out-cap", "assign", "echo", "out-rerr", "assign-rerr", "out-strictonly"])]]

    def nodes(d, in_for):
        out = []
        for _ in range(rng.randrange(0, 3)):
            out += node(d, in_for)
        return out

    def node(d, in_for):
        r = rng.random()
        if d == 0 or r < 0.4:
            if in_for and rng.random() < 0.2:
                return [I[rng.choice(["break", "continue"])]]
            return leaf()
        if r < 0.6:
            out = [I[rng.choice(["if", "if", "unless", "if-rerr"])]]
            end = I["endunless"] if out[0] == I["unless"] else I["endif"]
            out += nodes(d - 1, in_for)
            for _ in range(rng.randrange(0, 2)):
                out += [I["elsif"]] + nodes(d - 1, in_for)
            if rng.random() < 0.5:
                out += [I[rng.choice(["else", "else", "else-expr"])]] + nodes(d - 1, in_for)
            return out + [end]
        if r < 0.75:
            out = [I["for"]] + nodes(d - 1, True)
            if rng.random() < 0.3:
                out += [I["else"]] + nodes(d - 1, in_for)
            return out + [I["endfor"]]
        if r < 0.9:
            out = [I["case"]]
            for _ in range(rng.randrange(1, 3)):
                out += [I[rng.choice(["when", "when2"])]] + nodes(d - 1, in_for)
            if rng.random() < 0.5:
                out += [I["else"]] + nodes(d - 1, in_for)
            return out + [I["endcase"]]
        return [I["capture"]] + nodes(d - 1, in_for) + [I["endcapture"]]

    return nodes(depth, False) + node(depth, False)


HUGE = "7" * 4400   # more digits than CPython converts between int and str without complaint


def huge_number_family(ck: Check) -> None:
    """Very long digit runs in every syntactic position that takes a number: the lexer accepts them, so lax and warn mode must
    parse and render them without raising (oracle only; the model's expressions are classes, not texts)."""
    import warnings

    from liquid import Environment, Mode

    from ..core import classify_exc, run_async

    sources = [
        "{{ items[" + HUGE + "] }}", "{{ items[-" + HUGE + "] }}", "{{ " + HUGE + " }}", "{{ " + HUGE + ".5 }}", "{{ x | plus: " + HUGE + " }}",
        "{% for i in (1.." + HUGE + ") limit: 2 %}{{ i }}{% endfor %}", "{% for i in items limit: " + HUGE + " %}{{ i }}{% endfor %}",
        "{% for i in items offset: " + HUGE + " %}{{ i }}{% endfor %}", "{% if x == " + HUGE + " %}a{% endif %}", "{% assign y = " + HUGE + " %}{{ y }}",
        "{% case x %}{% when " + HUGE + " %}a{% endcase %}", "{% cycle " + HUGE + ", 2 %}", "{% tablerow i in items cols: " + HUGE + " %}{{ i }}{% endtablerow %}",
        "{{ items." + HUGE + " }}", "{{ 'a' | slice: " + HUGE + " }}", "{{ x | default: items[" + HUGE + "] }}",
    ]
    data = {"items": [1, 2, 3], "x": 1}
    for src in sources:
        for mode in ("LAX", "WARN"):
            for use_async in (False, True):
                env = Environment(tolerance=getattr(Mode, mode))
                with warnings.catch_warnings():
                    warnings.simplefilter("ignore")
                    try:
                        t = env.from_string(src)
                        run_async(t.render_async(**data)) if use_async else t.render(**data)
                        r = None
                    except Exception as e:  # noqa: BLE001
                        r = classify_exc(e)
                ck.note_case(("huge", src[:40], mode, use_async))
                ck.count("huge-number")
                if r is not None:
                    shown = src.replace(HUGE, "<4400 digits>")
                    ck.violation("impl-violation", f"{mode.lower()}-raises:huge-number:{shown[:60]}",
                                 f"{mode} mode raises {r} on {shown!r} ({'async' if use_async else 'sync'})",
                                 {"type": "huge-number", "source_with_placeholder": shown, "mode": mode, "async": use_async, "raised": r})


VALID_SOURCES = [
    # strict-valid templates whose expressions put words side by side without a separator (macro / call parameter lists, loop
    # arguments, include / render bindings, the with tag): no error to suppress, so lax and warn mode must print what strict prints
    "{% macro greet name %}Hello, {{ name }}!{% endmacro %}{% call greet user %}", "{% macro m a b %}[{{ a }}|{{ b }}]{% endmacro %}{% call m x y %}",
    "{% macro m a, b: x %}[{{ a }}|{{ b }}]{% endmacro %}{% call m user b: y %}", "{% for i in items reversed %}{{ i }}{% endfor %}",
    "{% for i in items limit: x reversed %}{{ i }}{% endfor %}", "{% tablerow i in items cols: x limit: y %}{{ i }}{% endtablerow %}",
    "{% include 'p' with user as u %}", "{% include 'p' for items as u %}", "{% render 'p' with user as u %}", "{% render 'p' for items as u, x: y %}",
    "{% with a: user b: x %}{{ a }}{{ b }}{% endwith %}", "{% assign v = user | default: x %}{{ v }}", "{% if user and x or y %}t{% endif %}",
    "{% if user contains x %}t{% else %}f{% endif %}", "{% unless x == y %}u{% endunless %}", "{% case x %}{% when y or 1 %}w{% endcase %}",
    "{% cycle user, x, y %}{% cycle user, x, y %}", "{% echo user | append: x %}", "{% liquid\n  assign q = user\n  echo q\n%}",
    "{% capture c %}{{ user }}{% endcapture %}{{ c }}", "{% increment x %}{% decrement x %}",
]


def valid_templates_family(ck: Check) -> None:
    import warnings

    from liquid import DictLoader, Environment, Mode
    import liquid.extra as ex

    from ..core import classify_exc, run_async

    data = {"user": "World", "x": 1, "y": 2, "items": [1, 2, 3]}
    for src in VALID_SOURCES:
        outs = {}
        for mode in ("STRICT", "WARN", "LAX"):
            for use_async in (False, True):
                env = Environment(tolerance=getattr(Mode, mode), loader=DictLoader({"p": "({{ u }})"}))
                ex.add_tags(env)
                with warnings.catch_warnings(record=True) as w:
                    warnings.simplefilter("always")
                    try:
                        t = env.from_string(src)
                        o = ("out", run_async(t.render_async(**data)) if use_async else t.render(**data))
                    except Exception as e:  # noqa: BLE001
                        o = ("err", classify_exc(e))
                outs[(mode, use_async)] = (o, len([x for x in w if "Liquid" in type(x.message).__name__]))
        ck.note_case(("valid", src))
        ck.count("valid-templates")
        ref = outs[("STRICT", False)]
        if ref[0][0] != "out":
            continue                     # not valid in strict mode after all: nothing to compare (counted, not judged)
        bad = {k: v for k, v in outs.items() if v[0] != ref[0] or v[1] != 0}
        if bad:
            ck.violation("impl-violation", f"valid-template-differs-across-modes:{src[:50]}",
                         f"{src!r} parses and renders {ref[0]} in strict mode, but (mode, async) -> (result, warnings): {bad}",
                         {"type": "valid-template", "source": src})


def run(ck: Check) -> None:
    ck.rule = (
        f"Sources are concatenations of pieces (one tag, output statement or run of text each; {len(PIECES)} pieces: every standard tag and the "
        "liquid.extra tags, well-formed and malformed: bad / missing / strict-only-rejected expressions, when lists with a rejected later "
        "alternative, unknown and stray tags, unclosed comment / doc / liquid blocks, missing partials and parents, required and misnamed blocks, "
        "render-time errors, expressions nested deeper than the Python stack). Exhaustive: every pair over all pieces; triples / quadruples / "
        "quintuples over cores of 6-25 pieces (core constructs, the remaining standard tags, liquid.extra, when lists, deep expressions), some "
        "with block_nesting_limit 1; plus seeded random sequences of 5..10 pieces with limits 30/1/2 and seeded random well-formed templates "
        "(depth<=3), half of them with one piece replaced, dropped or inserted. Each source runs under STRICT, WARN and LAX on two data sets "
        "through from_string + render and render_async, warnings recorded. Oracle on the observations alone; every sync observation is "
        "compared inside Coq with Recover.run_recover on the hand-tokenised pieces. Non-trivial = some mode suppressed or raised an error."
    )
    ck.exhaustive = True
    ck.trusted_base = [
        "Coq 8.16.1 kernel + vm_compute",
        "harness: piece table (source text and hand tokenisation with expression values per data set, props/c03.py), generators, oracle, "
        "encoding of observations as text; model and engine observations of a group of <=2500 sources are compared through a polynomial hash modulo 2^63 (Coq primitive integers) "
        "computed inside Coq and in Python (a differing group is then re-evaluated and diffed source by source)",
        "modelled not verified: the template lexer (tokens taken as given; C10), expression parsers and evaluation (an expression is "
        "always-parses / strict-only-rejected / never-parses plus a value or a render-time error on the data), warnings module",
    ]
    ck.assumptions = [
        "partials are static text ('p', 'base'); include/render arguments, for/with binding, block inheritance beyond a block-less parent, "
        "tablerow cols/limit/offset, translation catalogs and the snippet tag are outside the model",
        "a macro call from a caller deeper than context_depth_limit 30 raises ContextDepthError in the model, as in the engine (default limit only)",
        "expression text is never one of the words that stop the junk skipping after a case tag",
    ]
    ck.proof()
    huge_number_family(ck)
    valid_templates_family(ck)

    import time

    t0 = time.time()
    groups = list(gen_groups(ck))
    flat = [(ps, lim) for lim, _layer, _term, seqs in groups for ps in seqs]
    results = batch(flat)
    t1 = time.time()
    pre = preamble()
    coq_cases, coq_exp = [], []
    per_kind: dict = {}
    pos = 0
    starts = []
    for lim, layer, term, seqs in groups:
        starts.append(pos)
        enc = []
        for ps in seqs:
            obs = results[pos]
            pos += 1
            ck.count(layer)
            ck.note_case((ps, lim), nontrivial=any(o[0] != "out" or o[2] for o in obs.values()))
            for kind, detail in oracle(ps, obs):
                ck.count("oracle." + kind)
                per_kind[kind] = per_kind.get(kind, 0) + 1
                if per_kind[kind] <= 3:  # a few failing inputs of every kind of failure
                    names = [PIECES[p].name for p in ps]
                    src = source(ps)
                    ck.violation("impl-violation", f"{kind}:{'+'.join(names)}:limit{lim}",
                                 f"{kind} on {src[:300]!r}{'...' if len(src) > 300 else ''} (block_nesting_limit={lim}): {detail}",
                                 {"type": "modes", "pieces": list(ps), "limit": lim, "template": src, "kind": kind, "detail": detail})
            for m in MODES:
                for d in (0, 1):
                    o = obs[(m, d, False)]
                    ck.count(f"observed.{m}.{o[0] if o[0] != 'out' else ('out+warnings' if o[2] else 'out')}")
            enc.append(enc_source(obs))
        coq_cases.append(f"{{| g_lim := {lim}; g_seqs := {term} |}}")
        coq_exp.append(f"{hash_str(''.join(enc))}%uint63")
    t2 = time.time()
    ck.traces += 12 * len(flat)
    ck.model_cases += 6 * len(flat) - len(groups)
    k = len(flat) // 3
    ck.sample({"template": source(flat[k][0]), "limit": flat[k][1],
               "observed": {f"{m}/{d}": results[k][(m, d, False)] for m in MODES for d in (0, 1)}})
    mm = ck.coq_mismatches("recover", IMPORTS, "run_group_hash", "Uint63.eqb", "group", "int", coq_cases, coq_exp, chunk=max(1, -(-len(coq_cases) // (14 if ck.quick else 64))), preamble=pre)
    shown = 0
    for gi in mm[:2]:  # locate the differing sources of the first differing groups only
        lim, layer, term, seqs = groups[gi]
        # find the sources of the group on which model and engine differ
        model = ck.coq_eval(IMPORTS, [f"map (run_seq {lim}) ({term})"], preamble=pre)[0]
        got = [x.replace('""', '"') for x in re.findall(r'"((?:[^"]|"")*)"', model)]
        for i, ps in enumerate(seqs):
            want = enc_source(results[starts[gi] + i])
            have = got[i] if i < len(got) else "<missing>"
            if re.sub(r"\s+", " ", want) != re.sub(r"\s+", " ", have) and shown < 4:  # coq_eval prints newlines as spaces
                shown += 1
                ck.violation("correspondence", "c03-recover-correspondence",
                             f"model Recover.run_recover and the engine disagree on {source(ps)!r} (limit={lim}; Strict,Warn,Lax x data 0,1): "
                             f"engine {want!r}, model {have!r}",
                             {"type": "modes", "pieces": list(ps), "limit": lim, "template": source(ps), "observed": want, "model": have,
                              "broken": "correspondence Recover.run_recover ~ from_string/render under the three modes (theorems C03_*)"},
                             no_input=True)
        if shown == 0 and gi == mm[0]:
            shown += 1
            ck.violation("correspondence", "c03-recover-correspondence", f"group {layer} {term[:80]} differs but no single source located",
                         {"type": "modes", "group": term[:200], "broken": "correspondence Recover.run_recover"}, no_input=True)
    ck.extra["correspondence_group_mismatches"] = len(mm)
    ck.extra["phase_seconds"] = {"engine": round(t1 - t0, 1), "oracle+encode": round(t2 - t1, 1), "coq": round(time.time() - t2, 1)}


def replay(data) -> int:
    if data["case"].get("type") == "valid-template":
        class _Ck:
            def __init__(self):
                self.v = []

            def note_case(self, *a, **k):
                pass

            def count(self, *a, **k):
                pass

            def violation(self, kind, sig, what, d, no_input=False):
                self.v.append(what)
        global VALID_SOURCES
        saved, VALID_SOURCES = VALID_SOURCES, [data["case"]["source"]]
        ck_ = _Ck()
        valid_templates_family(ck_)  # type: ignore[arg-type]
        VALID_SOURCES = saved
        for w_ in ck_.v:
            print(w_)
        print(("VIOLATION reproduced" if ck_.v else "not reproduced") + f" property={data['property']}")
        return 1 if ck_.v else 0
    if data["case"].get("type") == "huge-number":
        import warnings

        from liquid import Environment, Mode

        from ..core import classify_exc, run_async

        c = data["case"]
        src = c["source_with_placeholder"].replace("<4400 digits>", HUGE)
        env = Environment(tolerance=getattr(Mode, c["mode"]))
        with warnings.catch_warnings():
            warnings.simplefilter("ignore")
            try:
                t = env.from_string(src)
                run_async(t.render_async(items=[1, 2, 3], x=1)) if c["async"] else t.render(items=[1, 2, 3], x=1)
                r = None
            except Exception as e:  # noqa: BLE001
                r = classify_exc(e)
        print(c["mode"], "mode on", c["source_with_placeholder"], "->", r)
        print(("VIOLATION reproduced" if r is not None else "not reproduced") + f" property={data['property']}")
        return 1 if r is not None else 0
    case = data["case"]
    if case.get("type") != "modes" or "pieces" not in case:
        print("replay names a proof/correspondence obligation:", case)
        return 1
    ps, lim = tuple(case["pieces"]), case["limit"]
    obs = observe_all((ps, lim))
    print("template:", repr(source(ps)), "block_nesting_limit:", lim)
    for k, v in obs.items():
        print("  ", k, v)
    found = list(oracle(ps, obs))
    if "observed" in case and not found:  # a correspondence witness: does the engine still give the recorded observation?
        now = enc_source(obs)
        same = now == case["observed"]
        print("recorded observation", "still holds" if same else "changed", now)
        print(("VIOLATION reproduced" if same else "not reproduced") + f" property={data['property']}")
        return 1 if same else 0
    for kind, detail in found:
        print("  oracle:", kind, detail)
    print(("VIOLATION reproduced" if found else "not reproduced") + f" property={data['property']}")
    return 1 if found else 0
