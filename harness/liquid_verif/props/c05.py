"""C05 — Autoescape keeps render data from injecting HTML."""

from __future__ import annotations

import itertools
import re

from ..core import Check, classify_exc, run_async
from ..g import g_Z, g_list, g_str

IMPORTS = "Escape"

# ----------------------------------------------------------------------------------------------- engine
_ENVS: dict = {}
PARTIALS = {"inc": "({{ z }}{{ x }})", "incw": "({{ w }})", "ren": "({{ w }}{{ z }})"}


def env(ae, reg: str = "plain"):
    """reg: plain (built-in tags and filters), extra (Environment(extra=True): the translation filters get
    autoescape_message = env.autoescape), hand (the five translation filters registered by hand with their defaults)."""
    k = (ae, reg)
    if k not in _ENVS:
        from liquid import DictLoader, Environment

        e = Environment(autoescape=ae, loader=DictLoader(dict(PARTIALS)), extra=(reg == "extra"))
        if reg == "hand":
            from liquid.extra import TranslateTag
            from liquid.extra.filters.translate import GetText, NGetText, NPGetText, PGetText, Translate

            for f in (Translate(), GetText(), NGetText(), PGetText(), NPGetText()):
                e.add_filter(f.name, f)
            e.add_tag(TranslateTag)
        _ENVS[k] = e
    return _ENVS[k]


_TPL: dict = {}


def render(ae: bool, src: str, data: dict, use_async: bool = False, reg: str = "plain"):
    try:
        k = (ae, reg, src)
        if k not in _TPL:
            if len(_TPL) > 60000:
                _TPL.clear()
            _TPL[k] = env(ae, reg).from_string(src)
        t = _TPL[k]
        return ("out", run_async(t.render_async(**data)) if use_async else t.render(**data))
    except Exception as e:  # noqa: BLE001
        return ("err", classify_exc(e))


# ----------------------------------------------------------------------------------------------- generator AST
# atom: ('lit', text) | ('var', name);  filter: (name, *args);  expr: (atom, (filters...))
LIT = lambda s: ("lit", s)  # noqa: E731
VAR = lambda n: ("var", n)  # noqa: E731

STRING_FILTERS = {"escape", "escape_once", "upcase", "downcase", "capitalize", "strip", "lstrip", "rstrip", "append", "prepend",
                  "replace", "remove", "split", "strip_html", "url_decode", "base64_decode"}
OPAQUE = {"strip_html": "OStripHtml", "url_decode": "OUrlDecode", "base64_decode": "OBase64Decode"}
CUTTING = ("slice", "split", "remove", "replace")  # filters that cut or edit a safe string


def filter_pool(thorough: bool):
    fs = [
        ("escape",), ("escape_once",), ("upcase",), ("downcase",), ("strip",),
        ("append", LIT("a")), ("append", VAR("y")), ("prepend", LIT("-")), ("prepend", VAR("y")),
        ("replace", LIT("l"), LIT("x")), ("replace", VAR("y"), LIT("x")), ("replace", LIT("a"), VAR("y")),
        ("remove", LIT("lt")), ("remove", VAR("y")),
        ("slice", 0, 2), ("slice", 1, 3), ("slice", -2, 2),
        ("split", LIT("l")), ("split", LIT(";")), ("split", LIT("")), ("split", VAR("y")),
        ("join", None), ("join", LIT("-")), ("join", VAR("y")),
        ("first",), ("last",), ("default", LIT("d")), ("default", VAR("y")), ("size",),
    ]
    if thorough:
        fs += [("capitalize",), ("lstrip",), ("rstrip",), ("replace", LIT(""), LIT("-")), ("remove", LIT(";")), ("split", VAR("nosuch")),
               ("slice", -1, 5), ("prepend", LIT("lt;")), ("append", LIT(";"))]
    return fs


def out_kind(kind: str, f) -> str | None:
    """Type discipline of the generator: no string filter on an array (str(list) is not modelled). None = not allowed."""
    n = f[0]
    if n in STRING_FILTERS:
        if kind == "L":
            return None
        return "L" if n == "split" else "S"
    if n == "join":
        return "S"
    if n in ("first", "last", "size"):
        return "S"
    if n == "slice":
        return kind
    if n == "default":
        return kind
    raise ValueError(n)


def chains(pool, maxlen: int):
    def go(prefix, kind, k):
        yield prefix
        if k == 0:
            return
        for f in pool:
            nk = out_kind(kind, f)
            if nk is not None:
                yield from go(prefix + (f,), nk, k - 1)

    yield from go((), "S", maxlen)


def atom_src(a) -> str:
    return "'" + a[1] + "'" if a[0] == "lit" else a[1]


def filter_src(f) -> str:
    n = f[0]
    if n == "slice":
        return f"slice: {f[1]}, {f[2]}"
    if n == "join":
        return "join" if f[1] is None else "join: " + atom_src(f[1])
    if n == "opaque":
        return f[1]
    if n == "trans":
        _, kind, _aem, args, kw = f
        parts = [atom_src(a) for a in args] + [f"{k}: {atom_src(a)}" for k, a in kw]
        return kind + (": " + ", ".join(parts) if parts else "")
    args = ", ".join(atom_src(a) for a in f[1:])
    return n + (": " + args if args else "")


def expr_src(e) -> str:
    a, fs = e
    return " | ".join([atom_src(a)] + [filter_src(f) for f in fs])


def g_atom(a) -> str:
    return f"(ALit {g_str(a[1])})" if a[0] == "lit" else f"(AVar {g_str(a[1])})"


SIMPLE = {"escape": "FEscape", "escape_once": "FEscapeOnce", "upcase": "FUpcase", "downcase": "FDowncase", "capitalize": "FCapitalize",
          "strip": "FStrip", "lstrip": "FLstrip", "rstrip": "FRstrip", "first": "FFirst", "last": "FLast", "size": "FSize"}


def g_filter(f) -> str:
    n = f[0]
    if n in SIMPLE:
        return SIMPLE[n]
    if n == "append":
        return f"(FAppend {g_atom(f[1])})"
    if n == "prepend":
        return f"(FPrepend {g_atom(f[1])})"
    if n == "replace":
        return f"(FReplace {g_atom(f[1])} {g_atom(f[2])})"
    if n == "remove":
        return f"(FRemove {g_atom(f[1])})"
    if n == "slice":
        return f"(FSlice {g_Z(f[1])} {g_Z(f[2])})"
    if n == "split":
        return f"(FSplit {g_atom(f[1])})"
    if n == "join":
        return "(FJoin None)" if f[1] is None else f"(FJoin (Some {g_atom(f[1])}))"
    if n == "default":
        return f"(FDefault {g_atom(f[1])})"
    if n == "opaque":
        return f"(FOpaque {OPAQUE[f[1]]} {g_str(f[2])})"
    if n == "trans":
        _, kind, aem, args, kw = f
        gk = {"t": "TT", "gettext": "TGettext", "ngettext": "TNgettext", "pgettext": "TPgettext", "npgettext": "TNpgettext"}[kind]
        return (f"(FTrans {gk} {'true' if aem else 'false'} {g_list(g_atom(a) for a in args)} "
                + g_list(f"({g_str(k)}, {g_atom(a)})" for k, a in kw) + ")")
    raise ValueError(n)


def g_expr(e) -> str:
    a, fs = e
    t = f"(EAtom {g_atom(a)})"
    for f in fs:
        t = f"(EFilt {t} {g_filter(f)})"
    return t


# statements: ('text', s) ('out', e) ('echo', e) ('assign', x, e) ('capture', x, body) ('if', cond, body, els, style)
#             ('for', x, e, body) ('cycle', atoms) ('include', name, binds) ('render', name, binds) ('liquid', stmts)
PARTIAL_AST = {
    "inc": [("text", "("), ("out", (VAR("z"), ())), ("out", (VAR("x"), ())), ("text", ")")],
    "incw": [("text", "("), ("out", (VAR("w"), ())), ("text", ")")],
    "ren": [("text", "("), ("out", (VAR("w"), ())), ("out", (VAR("z"), ())), ("text", ")")],
}


def cond_src(c) -> str:
    return atom_src(c[1]) if c[0] == "truthy" else f"{atom_src(c[1])} == {atom_src(c[2])}"


def stmts_src(ss) -> str:
    out = []
    for s in ss:
        k = s[0]
        if k == "text":
            out.append(s[1])
        elif k == "out":
            out.append("{{ " + expr_src(s[1]) + " }}")
        elif k == "echo":
            out.append("{% echo " + expr_src(s[1]) + " %}")
        elif k == "assign":
            out.append("{% assign " + s[1] + " = " + expr_src(s[2]) + " %}")
        elif k == "capture":
            out.append("{% capture " + s[1] + " %}" + stmts_src(s[2]) + "{% endcapture %}")
        elif k == "if":
            c, body, els, style = s[1:]
            if style == "case":
                out.append("{% case " + atom_src(c[1]) + " %}{% when " + atom_src(c[2]) + " %}" + stmts_src(body) + "{% else %}" + stmts_src(els) + "{% endcase %}")
            elif style == "unless":
                out.append("{% unless " + cond_src(c) + " %}" + stmts_src(els) + "{% else %}" + stmts_src(body) + "{% endunless %}")
            else:
                out.append("{% if " + cond_src(c) + " %}" + stmts_src(body) + "{% else %}" + stmts_src(els) + "{% endif %}")
        elif k == "for":
            out.append("{% for " + s[1] + " in " + expr_src(s[2]) + " %}" + stmts_src(s[3]) + "{% endfor %}")
        elif k == "cycle":
            out.append("{% cycle " + ", ".join(atom_src(a) for a in s[1]) + " %}")
        elif k in ("include", "render"):
            binds = "".join(f", {n}: {atom_src(a)}" for n, a in s[2])
            out.append("{% " + k + " '" + s[1] + "'" + binds + " %}")
        elif k == "translate":
            _, binds, sing, plur = s
            b = ", ".join(f"{n}: {atom_src(a)}" for n, a in binds)
            seg = lambda m: "".join(t[1] if t[0] == "text" else "{{ " + t[1] + " }}" for t in m)  # noqa: E731
            out.append("{% translate" + (" " + b if b else "") + " %}" + seg(sing) + ("{% plural %}" + seg(plur) if plur is not None else "") + "{% endtranslate %}")
        elif k == "liquid":
            lines = []
            for t in s[1]:
                lines.append(("echo " + expr_src(t[1])) if t[0] == "echo" else ("assign " + t[1] + " = " + expr_src(t[2])))
            out.append("{% liquid\n" + "\n".join(lines) + "\n%}")
        else:
            raise ValueError(k)
    return "".join(out)


def g_cond(c) -> str:
    return f"(CTruthy {g_atom(c[1])})" if c[0] == "truthy" else f"(CEq {g_atom(c[1])} {g_atom(c[2])})"


def g_stmts(ss) -> str:
    out = []
    for s in ss:
        k = s[0]
        if k == "text":
            out.append(f"SText {g_str(s[1])}")
        elif k in ("out", "echo"):
            out.append(f"SOut {g_expr(s[1])}")
        elif k == "assign":
            out.append(f"SAssign {g_str(s[1])} {g_expr(s[2])}")
        elif k == "capture":
            out.append(f"SCapture {g_str(s[1])} {g_stmts(s[2])}")
        elif k == "if":
            out.append(f"SIf {g_cond(s[1])} {g_stmts(s[2])} {g_stmts(s[3])}")
        elif k == "for":
            out.append(f"SFor {g_str(s[1])} {g_expr(s[2])} {g_stmts(s[3])}")
        elif k == "cycle":
            out.append("SCycle " + g_list(g_atom(a) for a in s[1]))
        elif k in ("include", "render"):
            binds = g_list(f"({g_str(n)}, {g_atom(a)})" for n, a in s[2])
            out.append(("SInclude " if k == "include" else "SRender ") + binds + " " + g_stmts(PARTIAL_AST[s[1]]))
        elif k == "translate":
            _, binds, sing, plur = s
            gseg = lambda m: g_list((f"MText {g_str(t[1])}" if t[0] == "text" else f"MVar {g_str(t[1])}") for t in m)  # noqa: E731
            gb = g_list(f"({g_str(n)}, {g_atom(a)})" for n, a in binds)
            out.append(f"STranslate {gb} {gseg(sing)} " + ("None" if plur is None else f"(Some {gseg(plur)})"))
        elif k == "liquid":
            for t in s[1]:
                out.append(f"SOut {g_expr(t[1])}" if t[0] == "echo" else f"SAssign {g_str(t[1])} {g_expr(t[2])}")
        else:
            raise ValueError(k)
    return g_list(out)


def g_value(v) -> str:
    from markupsafe import Markup

    if isinstance(v, list):
        return "(VL " + g_list(g_sstr(x) for x in v) + ")"
    if isinstance(v, int):
        return f"(VInt {v})"
    return f"(VS {g_sstr(v)})"


def g_sstr(s) -> str:
    from markupsafe import Markup

    return f"{{| tx := {g_str(str(s))}; sf := {'true' if isinstance(s, Markup) else 'false'} |}}"


def g_case(ae: bool, data: dict, prog) -> str:
    d = g_list(f"({g_str(k)}, {g_value(v)})" for k, v in data.items())
    return f"{{| e_ae := {'true' if ae else 'false'}; e_data := {d}; e_prog := {g_stmts(prog)} |}}"


# ----------------------------------------------------------------------------------------------- contexts
def contexts(e):
    """Programs that move the value of expression e to the output through each tag."""
    z = (VAR("z"), ())
    return {
        "output": [("out", e)],
        "echo": [("echo", e)],
        "assign": [("assign", "z", e), ("out", z), ("text", "|"), ("out", (VAR("z"), (("append", VAR("y")),)))],
        "capture": [("capture", "z", [("text", "a"), ("out", e), ("text", "b")]), ("out", z), ("text", "|"),
                    ("out", (VAR("z"), (("replace", LIT("a"), VAR("y")),)))],
        "capture-slice": [("capture", "z", [("out", e)]), ("out", (VAR("z"), (("slice", 0, 3),)))],
        "cycle": [("assign", "z", e), ("cycle", [VAR("z"), VAR("y")]), ("text", "|"), ("cycle", [VAR("z"), VAR("y")])],
        "for": [("assign", "z", e), ("for", "i", z, [("text", "["), ("out", (VAR("i"), ())), ("text", "]")])],
        "for-split": [("for", "i", (e[0], e[1] + (("split", LIT("l")),)), [("out", (VAR("i"), ())), ("text", ".")])] if _kind(e) == "S" else None,
        "for-list": [("for", "i", e, [("text", "["), ("out", (VAR("i"), (("append", VAR("y")),))), ("text", "]")])] if _kind(e) == "L" else None,
        "if": [("assign", "z", e), ("if", ("eq", VAR("z"), VAR("y")), [("text", "eq")], [("out", z)], "if"),
               ("if", ("truthy", VAR("z")), [("text", "t"), ("out", z)], [("text", "f")], "unless")],
        "case": [("assign", "z", e), ("if", ("eq", VAR("z"), VAR("y")), [("text", "eq")], [("out", z)], "case")],
        "include": [("assign", "z", e), ("include", "inc", []), ("include", "incw", [("w", VAR("z"))])],
        "render": [("assign", "z", e), ("render", "ren", [("w", VAR("z"))])],
        "liquid": [("liquid", [("assign", "z", e), ("echo", z), ("echo", (VAR("z"), (("upcase",),)))])],
    }


def _kind(e) -> str:
    k = "L" if e[0] == ("var", "l") else "S"
    for f in e[1]:
        k = out_kind(k, f) or "L"
    return k


# ----------------------------------------------------------------------------------------------- data
DATA_FIXED = ["<a&b>", "a'b\"c", "&lt;", "&amp", "&#39;x", "a&lt;b&amp;c", "<l>&l;t", "  <b> ", "", "ab", "x&#34;&ap;&LT", "t;'&#3;&#9"]
DATA_CLEAN = ["ab", "a b", "lt;", "amp", "a;b", "  ab ", "", "l", "alt;balt"]
TOKENS = ["<", ">", "&", "'", '"', "a", "b", " ", "&lt;", "&amp", "&#39;", "lt;", ";", "l", "t", "&#34", "&LT;", "&ap;", "m", "p", "&gt", "&#x27;", "+"]
Y_VALUES = ["<", "&", "l", "t;", "", "a'"]


def data_sets(ck: Check, n_random: int):
    xs = list(DATA_FIXED)
    for _ in range(n_random):
        xs.append("".join(ck.rng.choice(TOKENS) for _ in range(ck.rng.randrange(1, 6))))
    return xs


SPECIALS = set("<>&'\"")
ENTITY = re.compile(r"&(#[0-9]+|#[xX][0-9a-fA-F]+|[A-Za-z][A-Za-z0-9]*);")


def scan(out: str):
    """The property's two clauses on an output text: (raw special characters, ampersands that start no entity)."""
    raw = sorted(set(c for c in out if c in "<>'\""))
    bad_amp = [i for i, c in enumerate(out) if c == "&" and not ENTITY.match(out, i)]
    return raw, bad_amp


def measure_opaque(name: str, x: str):
    """The text function of strip_html / url_decode / base64_decode on x, read off an autoescape-off render (public API)."""
    r = render(False, "{{ x | " + name + " }}", {"x": x})
    return r[1] if r[0] == "out" else None


# ----------------------------------------------------------------------------------------------- translation filters and tag
def trans(kind, aem, args=(), kw=()):
    return ("trans", kind, aem, tuple(args), tuple(kw))


def translation_cases(ck: Check, note, quick: bool) -> None:
    """t / gettext / ngettext / pgettext / npgettext and the translate tag: messages with and without placeholders, variables
    from hostile data, plural forms selected by count, registered by extra=True (autoescape_message = env.autoescape) and by
    hand (autoescape_message = False), autoescape on and off."""
    lefts = [LIT("Hello %(a)s"), LIT("plain"), LIT("%(x)s %(nosuch)s %%(a)s %(a) %(a)s%(b)s"), VAR("x")]
    plurals = [LIT("many %(a)s %(count)s"), VAR("y")]
    counts = [VAR("n"), LIT("2"), VAR("nosuch"), LIT("zz")] if not quick else [VAR("n"), LIT("2"), VAR("nosuch")]
    kws = [(("a", VAR("x")),), (("a", VAR("y")), ("b", VAR("x"))), (("a", LIT("k")),), ()]
    if quick:
        kws = kws[:2] + kws[3:]
    datas = [{"x": "<a&b>", "y": "'q\"&", "n": 2}, {"x": "&lt;%(y)s", "y": "<i>%(x)s", "n": 1}, {"x": "a'b", "y": "", "n": 0}]
    if quick:
        datas = datas[:2]
    else:
        for _ in range(3):
            mk = lambda: "".join(ck.rng.choice(TOKENS + ["%(a)s", "%(y)s", "%", "%%"]) for _ in range(ck.rng.randrange(1, 5)))  # noqa: E731
            datas.append({"x": mk(), "y": mk(), "n": ck.rng.randrange(0, 4)})
    tails = [(), (("append", VAR("y")),), (("slice", 0, 4),)] if not quick else [(), (("append", VAR("y")),)]
    for reg in ("extra", "hand"):
        for ae in (True, False):
            aem = ae if reg == "extra" else False
            progs = []
            for left in lefts:
                for kw in kws:
                    fs = [trans("t", aem, (), kw), trans("gettext", aem, (), kw), trans("pgettext", aem, (LIT("ctx"),), kw),
                          trans("t", aem, (VAR("y"),), kw)]
                    for pl in plurals:
                        for c in counts:
                            fs.append(trans("ngettext", aem, (pl, c), kw))
                            fs.append(trans("npgettext", aem, (LIT("ctx"), pl, c), kw))
                            fs.append(trans("t", aem, (), kw + (("plural", pl), ("count", c))))
                    for f in fs:
                        for tail in tails:
                            progs.append(([("out", (left, (f,) + tail))], left, f))
            for prog, left, f in progs:
                # registered by hand the message texts are trusted: a message taken from data is printed as it is, by design
                texts = [left] + [a for a in f[3][:2] if f[1] in ("ngettext", "npgettext")] + [a for k, a in f[4] if k == "plural"]
                trusted_from_data = reg == "hand" and any(t[0] == "var" for t in texts if t != LIT("ctx"))
                for d in datas:
                    note(ae, prog, d, "none" if trusted_from_data else "scan", "trans-" + reg, reg=reg)
            # the tag
            for binds in ([("a", VAR("x")), ("count", VAR("n"))], [("a", VAR("y"))], [("count", LIT("2")), ("a", VAR("x"))], [("count", VAR("nosuch"))], []):
                for plur in (None, [("text", "Many "), ("var", "a"), ("text", " "), ("var", "count"), ("var", "y"), ("text", " 100%")]):
                    prog = [("translate", binds, [("text", "Hello "), ("var", "a"), ("text", " % %(a)s "), ("var", "x")], plur)]
                    for d in datas:
                        note(ae, prog, d, "scan", "translate-tag-" + reg, reg=reg)


# ----------------------------------------------------------------------------------------------- wider space, oracle only
WIDE_SOURCES = [
    # decoding filters AFTER a filter whose result is safe (Markup) text: what they decode is render data again, never safe
    "{{ b | strip_newlines | base64_decode }}", "{{ b | strip | base64_decode }}", "{{ b | escape | base64_decode }}",
    "{{ b | append: '' | base64_decode }}", "{{ b | url_encode | url_decode | base64_decode }}", "{{ b | escape_once | base64_url_safe_decode }}",
    "{{ b | base64_decode | base64_encode | base64_decode }}", "{{ u | escape | url_decode }}", "{{ u | strip_newlines | url_decode }}",
    "{% capture c %}{{ b }}{% endcapture %}{{ c | base64_decode }}", "{% assign c = b | escape %}{{ c | base64_decode | upcase }}",

    "{% translate a: x %}Hello {{ a }}{% endtranslate %}",
    "{% translate a: x, count: 2 %}Hello {{ a }}{% plural %}Hellos {{ a }} {{ count }}{% endtranslate %}",
    "{{ x | t }}", "{{ 'Hello %(a)s' | t: a: x }}", "{{ x | t: a: y }}", "{{ x | gettext }}", "{{ 'a %(b)s' | gettext: b: x }}",
    "{{ x | ngettext: y, 2 }}", "{{ 'one %(b)s' | ngettext: 'many %(b)s', 2, b: x }}", "{{ 'ctx' | pgettext: x }}", "{{ x | pgettext: 'm %(b)s', b: y }}",
    "{% extends 'base' %}{% block b %}{{ block.super }} child {{ x }}{% endblock %}",
    "{% extends 'base' %}{% block b %}{{ block.super | upcase | append: y }}{% endblock %}",
    "{% extends 'base' %}{% block b %}{{ block.super | upcase | slice: 0, 7 }}{% endblock %}",
    "{{ x if y else 'c' }}", "{{ 'a' if x else y | append: x }}", "{{ x if y else 'c' || upcase | append: y }}",
    "{% macro m a, b: x %}{{ a }}{{ b }}{% endmacro %}{% call m y %}{% call m b: y %}",
    "{% with a: x %}{{ a }}{{ a | append: y }}{% endwith %}",
    "{% for i in l %}{{ forloop.index }}{{ i }}{% endfor %}", "{{ l | join: x }}", "{{ l | map: 'k' | join }}", "{{ d.k }}{{ d }}", "{{ l }}", "{{ d | json }}", "{{ x | json }}",
    "{{ l | concat: l | uniq | join: y }}", "{{ l | where: 'k' }}", "{{ x | date: y }}", "{{ 'now' | date: y | size }}",
    "{{ x | truncate: 3 }}", "{{ x | escape | truncate: 5, y }}", "{{ x | truncatewords: 1, y }}", "{{ x | squish }}", "{{ x | strip_newlines }}", "{{ x | url_encode }}",
    "{{ x | base64_encode }}", "{{ x | escapejs }}", "{{ x | lstrip | rstrip | capitalize }}", "{{ x | replace_first: y, x }}", "{{ x | replace_last: y, x }}",
    "{{ x | remove_first: y }}", "{{ x | remove_last: y }}", "{% ifchanged %}{{ x }}{% endifchanged %}", "{% increment n %}{{ n }}",
    "{% case x %}{% when y %}a{% else %}{{ x }}{% endcase %}",
    "{% assign z = x | split: '' %}{% for c in z %}{{ c }}{% endfor %}{{ z | reverse | join: '' }}",
    "{% capture z %}{{ x }}{% endcapture %}{{ z | escape_once }}{{ z | url_decode }}{{ z | strip_html }}",
    "{{ x | default: y }}{{ nosuch | default: x }}{{ x | size }}{{ x | at_least: 1 }}{{ x | plus: 1 }}",
    "{% liquid\nassign z = x | append: y\necho z\nfor i in l\necho i\nendfor %}",
    "{% unless x == y %}{{ x | prepend: y }}{% endunless %}", "{% cycle x, y, 'c' %}{% cycle x, y, 'c' %}",
]
_WIDE_ENV = None
_HAND_ENV = None
HAND_SOURCES = [
    "{{ 'Hello %(a)s' | t: a: x }}", "{{ 'Hello %(a)s %(b)s' | t: a: y, b: x }}", "{{ 'a %(b)s' | gettext: b: x }}",
    "{{ 'one %(b)s' | ngettext: 'many %(b)s', 2, b: x }}", "{{ 'one %(b)s' | ngettext: 'many %(b)s', 1, b: y }}",
    "{{ 'ctx' | pgettext: 'm %(b)s', b: y }}", "{{ 'ctx' | npgettext: 'one %(b)s', 'many %(b)s', 3, b: x }}",
]
CUT_RE = re.compile(r"slice|split|remove|replace|truncate")


def wide(ck: Check, seen: dict, n_random: int) -> None:
    """translate, t filters, block.super, ternaries, macros, with, json, date ...: the oracle's scan only (no model)."""
    global _WIDE_ENV
    if _WIDE_ENV is None:
        import liquid.extra as ex
        from liquid import DictLoader, Environment

        class Env(Environment):
            ternary_expressions = True
            logical_not_operator = True

        _WIDE_ENV = Env(autoescape=True, loader=DictLoader({"base": "{% block b %}base {{ x }}{% endblock %}"}))
        ex.add_tags(_WIDE_ENV)
        ex.add_filters(_WIDE_ENV)
    datas = [dict(x="<a&b>", y="'q\"&", l=["<i>", "a&", "'"], d={"k": "<v>&"}), dict(x="&lt;&amp", y="<", l=[{"k": "<1>"}, {"k": "&"}], d={"k": "'"}),
             dict(x="%3Cb%3E&#39;", y="%Y<", l=["a"], d={})]
    for d_ in datas:
        d_.update(b="PGI+Jic8L2I+", u="%3Cb%3E%26%27")        # base64 and url-encoded forms of <b>&'</b> / <b>&'

    for _ in range(n_random):
        mk = lambda: "".join(ck.rng.choice(TOKENS) for _ in range(ck.rng.randrange(1, 5)))  # noqa: E731
        datas.append(dict(x=mk(), y=mk(), l=[mk(), mk()], d={"k": mk()}, b="PHNjcmlwdD4=", u="%3Cscript%3E"))
    # the translation filters registered BY HAND with their defaults (autoescape_message=False: the message text is trusted and
    # is a template literal here); the message VARIABLES still come from render data and must be escaped
    global _HAND_ENV
    if _HAND_ENV is None:
        from liquid import Environment
        from liquid.extra.filters.translate import GetText, NGetText, NPGetText, PGetText, Translate

        _HAND_ENV = Environment(autoescape=True)
        for f in (Translate(), GetText(), NGetText(), PGetText(), NPGetText()):
            _HAND_ENV.add_filter(f.name, f)
    jobs = [(_WIDE_ENV, src) for src in WIDE_SOURCES] + [(_HAND_ENV, src) for src in HAND_SOURCES]
    for the_env, src in jobs:
        try:
            t = the_env.from_string(src)
        except Exception as e:  # noqa: BLE001
            ck.count("wide.parse-error")
            continue
        for d in datas:
            for use_async in (False, True):
                try:
                    out = run_async(t.render_async(**d)) if use_async else t.render(**d)
                except Exception:  # noqa: BLE001
                    ck.count("wide.render-error")
                    continue
                ck.note_case(("wide", src, repr(d), use_async))
                ck.count("wide.rendered")
                raw, bad = scan(out)
                if raw:
                    _viol(ck, seen, "raw-special:wide:" + src[:60], f"{src!r} with {d!r} renders {out!r}: raw {raw}", True, src, d, ("out", out), kind="wide")
                elif bad:
                    m = CUT_RE.search(src)
                    sig = "amp-not-entity:" + (m.group(0) if m else "unexpected:wide:" + src[:60])
                    _viol(ck, seen, sig, f"{src!r} with {d!r} renders {out!r}: the & at {bad[:3]} starts no entity", True, src, d, ("out", out), kind="wide")


# ----------------------------------------------------------------------------------------------- run
def run(ck: Check) -> None:
    quick = ck.quick
    ck.rule = (
        "every chain of <=2 (quick) / <=2 plus seeded random 3 (thorough) filters from a pool of 29/38 instances (escape, escape_once, case, strip, "
        "append/prepend/replace/remove with literal and data arguments, slice, split, join, first, last, default, size; strip_html/url_decode/"
        "base64_decode in first position) over 12 fixed and seeded random data strings from an alphabet of < > & ' \" ; # and entity fragments, "
        "in an output statement, autoescape on and off; every chain of <=1 filters in 12 further contexts (echo assign capture cycle for if case "
        "include render liquid); Markup / __html__ data through every context; data without special characters with autoescape on vs off; "
        "the five translation filters (messages with and without %(name)s placeholders, literal and data messages and plurals, message variables "
        "from hostile data and from the render context, count from data / literal / undefined / non-numeric, followed by a further filter) and the "
        "translate tag (arguments, count, plural block), each under Environment(extra=True) and with the filters registered by hand, autoescape on and off. "
        "Each rendered text is compared inside Coq with the model; the oracle scans each autoescape-on output. Non-trivial = the data holds a "
        "special character or the chain is non-empty; distinct = distinct (autoescape, source, data)."
    )
    ck.exhaustive = True
    ck.trusted_base = [
        "Coq 8.16.1 kernel + vm_compute",
        "harness: chain/context generators, source and Gallina printers, output scanner (props/c05.py)",
        "modelled not verified: markupsafe.escape and the Markup methods (+, join, replace, split, slicing, case, strip) as transcribed in Escape.v; "
        "html.unescape restricted to the 68 entity names over the letters a b g l m o p q t u, decimal and hexadecimal references; str.split/replace/strip/slicing; "
        "strip_html (HTMLParser), url_decode (urllib) and base64_decode enter only by their FLAG behaviour, their text is measured per case",
    ]
    ck.assumptions = [
        "template literals hold no HTML-special character; safe, newline_to_br, script_tag, stylesheet_tag, tablerow and other HTML-generating constructs are out of scope",
        "no string filter is applied to an array (str(list) is not modelled); separators are never a single space",
        "data alphabet: < > & ' \" ; # + % space, the letters a b l m p t and those the escape functions add (g o q u x), digits (so that html.unescape is the 68-entry table of Escape.v)",
        "translation: NullTranslations only (gettext returns the message, ngettext the singular iff n = 1, the message context selects nothing); "
        "registered by hand (autoescape_message=False) the message texts are trusted, so the oracle scans only cases whose message texts are literals; "
        "placeholder names are ASCII words; counts are ints, digit strings, undefined or non-numeric text",
        "block.super, ternaries, macros: run against the oracle only where they occur; not in the model",
    ]
    ck.proof()

    import warnings

    with warnings.catch_warnings():
        warnings.simplefilter("ignore")
        _run(ck, quick)


def _run(ck: Check, quick: bool) -> None:
    from markupsafe import Markup

    pool = filter_pool(not quick)
    all_chains = list(chains(pool, 2))
    xs = data_sets(ck, 0 if quick else 16)
    if quick:
        xs = xs[:8]
    cases, expected, meta = [], [], []
    seen_sig: dict = {}

    def note(ae, prog, data, what, label, reg="plain"):
        """Run one program; oracle; queue for the model."""
        src = stmts_src(prog)
        r = render(ae, src, data, reg=reg)
        ra = render(ae, src, data, use_async=True, reg=reg)
        ck.note_case((ae, src, sorted((k, repr(v)) for k, v in data.items())), nontrivial=True)
        ck.count(f"{label}.{'on' if ae else 'off'}")
        ck.traces += 2
        if r != ra:
            _viol(ck, seen_sig, "sync-async-differ:" + label, f"{src!r} with {data!r}: sync {r} async {ra}", ae, src, data, r, reg=reg)
        if r[0] != "out":
            ck.count("engine-error." + r[1])
            return r
        if ae and what == "scan":
            raw, bad = scan(r[1])
            if raw:
                _viol(ck, seen_sig, f"raw-special:{label}:{_chain_sig(prog)}", f"{src!r} with {data!r} ({reg}) renders {r[1]!r}: raw {raw}", ae, src, data, r, reg=reg)
            elif bad:
                cut = _first_cut(prog)
                sig = f"amp-not-entity:{cut}" if cut else f"amp-not-entity:unexpected:{label}:{_chain_sig(prog)}"
                _viol(ck, seen_sig, sig, f"{src!r} with {data!r} ({reg}) renders {r[1]!r}: the & at {bad[:3]} starts no entity", ae, src, data, r, reg=reg)
        cases.append(g_case(ae, data, prog))
        expected.append(f"Some {g_str(r[1])}")
        meta.append((ae, src, data, r, reg))
        return r

    # A. every chain in an output statement, autoescape on and off
    for x in xs:
        y = Y_VALUES[len(x) % len(Y_VALUES)]
        data = {"x": x, "y": y}
        for ch in all_chains:
            e = (VAR("x"), ch)
            note(True, [("out", e)], data, "scan", "chain")
            if not quick or x in xs[:2]:
                note(False, [("out", e)], data, "none", "chain")
        # opaque filters first
        for name in OPAQUE:
            res = measure_opaque(name, x)
            if res is None:
                continue
            for rest in [()] + [(f,) for f in pool if out_kind("S", f)]:
                e = (VAR("x"), (("opaque", name, res),) + rest)
                note(True, [("out", e)], data, "scan", "opaque")
    # valid base64 of hostile text
    for x in ("PGEmYj4=", "JiMzOTs8"):
        res = measure_opaque("base64_decode", x)
        for rest in [()] + [(f,) for f in pool if out_kind("S", f)]:
            note(True, [("out", (VAR("x"), (("opaque", "base64_decode", res),) + rest))], {"x": x, "y": "l"}, "scan", "opaque")

    # thorough: random chains of three
    if not quick:
        for _ in range(8000):
            ch, kind = (), "S"
            while len(ch) < 3:
                f = ck.rng.choice(pool)
                nk = out_kind(kind, f)
                if nk is None:
                    continue
                ch, kind = ch + (f,), nk
            x = ck.rng.choice(xs)
            data = {"x": x, "y": ck.rng.choice(Y_VALUES)}
            note(True, [("out", (VAR("x"), ch))], data, "scan", "chain3")

    # B. contexts
    short = [c for c in all_chains if len(c) <= 1]
    for x in xs[: (4 if quick else 16)]:
        for y in (Y_VALUES[:2] if quick else Y_VALUES[:4]):
            data = {"x": x, "y": y, "l": [x, y, "<i>"]}
            for ch in short:
                for root in ("x",) if quick else ("x", "l"):
                    if root == "l" and (not ch or ch[0][0] in STRING_FILTERS):
                        continue
                    e = (VAR(root), ch)
                    for label, prog in contexts(e).items():
                        if prog is None:
                            continue
                        if label in ("for", "cycle", "if", "case") and _kind(e) == "L" and label != "for":
                            continue  # an array compared / cycled: str(list) is not modelled
                        if _kind(e) == "L" and label in ("assign", "capture", "liquid"):
                            continue  # these apply a string filter to the assigned value
                        note(True, prog, data, "scan", "ctx-" + label)
                        if not quick:
                            note(False, prog, data, "none", "ctx-" + label)

    # C. values marked safe pass unchanged
    class Html:
        def __init__(self, s):
            self.s = s

        def __html__(self):
            return self.s

    for m in ("<b>&amp;</b>", "&", "a<'\">", "&l", ""):
        for label, prog in contexts((VAR("m"), ())).items():
            if prog is None or label in ("assign", "capture", "capture-slice", "if", "case", "liquid", "for-split", "cycle"):
                continue
            data = {"m": Markup(m), "x": Markup(m), "y": "q", "z": Markup(m)}
            r = note(True, prog, data, "none", "safe-" + label)
            want = render(False, stmts_src(prog), {k: str(v) for k, v in data.items()})
            if r != want:
                _viol(ck, seen_sig, "safe-not-passed-through:" + label,
                      f"{stmts_src(prog)!r} with Markup({m!r}): {r} but the unescaped rendering is {want}", True, stmts_src(prog), {"m": m}, r)
        for prog in ([("out", (VAR("m"), ()))], [("assign", "z", (VAR("m"), ())), ("out", (VAR("z"), ()))],
                     [("capture", "z", [("out", (VAR("m"), ()))]), ("out", (VAR("z"), ()))]):
            for obj in (Markup(m), Html(m)):
                src = stmts_src(prog)
                r = render(True, src, {"m": obj})
                ck.note_case(("safe", src, m, type(obj).__name__))
                ck.count("safe-passthrough")
                if r != ("out", m):
                    _viol(ck, seen_sig, "safe-not-passed-through:" + type(obj).__name__, f"{src!r} with {type(obj).__name__}({m!r}) renders {r}", True, src, {"m": m}, r)

    # D. autoescape changes nothing when no special character occurs
    for x in (DATA_CLEAN[:3] if quick else DATA_CLEAN):
        for y in (("l",) if quick else ("l", "a;", "")):
            data = {"x": x, "y": y, "l": [x, y]}
            progs = [[("out", (VAR("x"), ch))] for ch in all_chains]
            for ch in short:
                progs += [p for p in contexts((VAR("x"), ch)).values() if p is not None and _kind((VAR("x"), ch)) == "S"]
            for prog in progs:
                on = note(True, prog, data, "scan", "clean")
                off = note(False, prog, data, "none", "clean")
                if on != off:
                    _viol(ck, seen_sig, "autoescape-changes-clean-output", f"{stmts_src(prog)!r} with {data!r}: on {on} off {off}", True, stmts_src(prog), data, on)

    # T. translation filters and the translate tag, under both registrations
    translation_cases(ck, note, quick)

    # E. the wider space (oracle only)
    wide(ck, seen_sig, 6 if quick else 60)

    if meta:
        ck.sample({"autoescape": meta[len(meta) // 2][0], "template": meta[len(meta) // 2][1], "data": repr(meta[len(meta) // 2][2]), "output": meta[len(meta) // 2][3][1]})
        ck.sample({"autoescape": meta[7][0], "template": meta[7][1], "data": repr(meta[7][2]), "output": meta[7][3][1]})
    # identical (case, expected) pairs once
    uniq: dict = {}
    for i, ce in enumerate(zip(cases, expected)):
        uniq.setdefault(ce, []).append(i)
    keys = list(uniq)
    ck.count("model-cases.distinct", len(keys))
    umm = ck.coq_mismatches("escape", IMPORTS, "run_escape", "option_eqb str_eqb", "ecase5", "option str",
                            [c for c, _ in keys], [e for _, e in keys], chunk=2500)
    import os
    if os.environ.get("VERIF_DEBUG"):
        import collections, sys
        by = collections.Counter()
        ex = {}
        for u in umm:
            i = uniq[keys[u]][0]
            k = (meta[i][0], re.sub(r"[0-9-]+", "N", meta[i][1]))
            by[k] += 1
            ex.setdefault(k, (meta[i][2], meta[i][3]))
        print(f"[c05] {len(cases)} cases, {len(keys)} distinct, {len(umm)} mismatches", file=sys.stderr)
        for k, n in by.most_common(40):
            print("  MISMATCH", n, k, ex[k], file=sys.stderr)
    for u in umm[:4]:
        i = uniq[keys[u]][0]
        ae, src, data, r, reg = meta[i]
        model = ck.coq_eval(IMPORTS, [f"run_escape ({cases[i]})"])[0]
        ck.violation("correspondence", "c05-render-correspondence",
                     f"model Escape.run_escape and the implementation disagree on {src!r} with {data!r} (autoescape {ae}, registration {reg}): implementation {r[1]!r}, model {model}",
                     {"type": "render", "autoescape": ae, "registration": reg, "template": src, "data": _jsonable(data), "impl": r, "model": model,
                      "broken": "correspondence Escape.exec ~ rendering (theorems C05_no_injection, C05_identity_without_specials)"}, no_input=True)


def _jsonable(data):
    from markupsafe import Markup

    def one(v):
        if isinstance(v, Markup):
            return {"markup": str(v)}
        if isinstance(v, list):
            return [one(i) if isinstance(i, Markup) else i for i in v]
        return v

    return {k: one(v) for k, v in data.items()}


def _all_filters(prog):
    for s in prog:
        for part in s[1:]:
            if isinstance(part, tuple) and len(part) == 2 and isinstance(part[1], tuple) and part[0] and part[0][0] in ("lit", "var"):
                yield from (f[0] if f[0] != "opaque" else f[1] for f in part[1])
            elif isinstance(part, list):
                yield from _all_filters([t for t in part if isinstance(t, tuple)])


def _first_cut(prog):
    for n in _all_filters(prog):
        if n in CUTTING:
            return n
    return None


def _chain_sig(prog) -> str:
    return "|".join(_all_filters(prog))[:80]


def _viol(ck, seen, sig, what, ae, src, data, r, kind="render", reg="plain"):
    seen[sig] = seen.get(sig, 0) + 1
    ck.count("oracle." + sig.split(":")[0])
    if seen[sig] > 2:
        return
    ck.violation("impl-violation", sig, what, {"type": kind, "autoescape": ae, "registration": reg, "template": src, "data": _jsonable(data), "observed": r})


def replay(data) -> int:
    from markupsafe import Markup

    case = data["case"]
    if case.get("type") not in ("render", "wide"):
        print("replay names a proof/correspondence obligation:", case)
        return 1
    d = {k: (Markup(v["markup"]) if isinstance(v, dict) and "markup" in v else v) for k, v in case["data"].items()}
    if case["type"] == "wide":
        ck = type("K", (), {"rng": __import__("random").Random(0), "count": lambda *a, **k: None, "note_case": lambda *a, **k: None})()
        wide(ck, {}, 0)  # builds the environment
        try:
            r = ("out", _WIDE_ENV.from_string(case["template"]).render(**d))
        except Exception as e:  # noqa: BLE001
            r = ("err", classify_exc(e))
    else:
        r = render(case["autoescape"], case["template"], d, reg=case.get("registration", "plain"))
    print("template:", case["template"], "data:", d, "autoescape:", case["autoescape"])
    print("rendered:", r)
    bad = False
    if r[0] == "out" and case["autoescape"]:
        raw, amp = scan(r[1])
        print("raw special characters:", raw, "ampersands that start no entity:", amp)
        bad = bool(raw or amp)
    if data.get("signature", "").startswith(("safe-not", "autoescape-changes", "sync-async")):
        off = render(False, case["template"], {k: str(v) if not isinstance(v, list) else v for k, v in d.items()})
        print("autoescape off:", off)
        bad = r != off
    print(("VIOLATION reproduced" if bad else "not reproduced") + f" property={data['property']}")
    return 1 if bad else 0
