"""C16 — Strict undefined types only refine the default behaviour."""

from __future__ import annotations

import copy

from ..core import Check
from .. import scope_lib as L
from ..scope_lib import P, lit, out, assign, text

KINDS = ["default", "strict", "falsy", "strictdefault"]

DATA = {
    "user": {"name": "ann", "age": 30, "tags": ["a", "b"], "addr": {"city": "rome", "zip": 123}},
    "items": [{"id": 1, "t": "one"}, {"id": 2, "t": "two"}],
    "title": "hello", "n": 1, "flag": True, "off": False, "none": None, "emp": "", "k": "name", "nums": [1, 2, 3],
}

# what can be deleted: (container path, key)
DELETABLE = [((), k) for k in DATA] + [(("user",), k) for k in DATA["user"]] + [(("user", "addr"), k) for k in DATA["user"]["addr"]] + \
            [(("items", 0), "t"), (("items", 1), "id"), (("items", 0), "id")]


def N(root, *keys):
    return ("n", root, [("i", k) if isinstance(k, int) else ("k", k) for k in keys])


PATHS = [
    P("user"), P("user", "name"), P("user", "age"), P("user", "tags"), P("user", "tags", 0), P("user", "tags", -1), P("user", "tags", "size"),
    P("user", "addr", "city"), P("user", "addr", "zip"), P("user", "addr"), P("user", N("k")), P("user", "addr", "size"),
    P("items"), P("items", 0, "t"), P("items", 1, "id"), P("items", "first", "t"), P("items", "last", "id"), P("items", "size"),
    P("items", N("n"), "t"), P("title"), P("title", "size"), P("n"), P("flag"), P("off"), P("none"), P("emp"), P("nums"), P("nums", 1),
    P("nums", "last"), P("k"), P("user", "missing"), P("nosuch"), P("nosuch", "a", "b"), P("user", "name", "first"), P("user", "tags", 5),
    P("user", N("nosuch")), P("nosuch", N("alsono")), P("user", N("user", "missing")), P("items", "first"), P("user", "first"),
]
SCALAR_PATHS = [p for p in PATHS if p not in (P("user"), P("user", "addr"), P("items"), P("items", "first"), P("user", "first"))]
ITER_PATHS = [P("user", "tags"), P("items"), P("nums"), P("user", "addr"), P("title"), P("nosuch"), P("user", "missing"), P("n"), P("emp"), P("none")]
LITS = [1, 30, "ann", "", True, False, None, "rome"]
FILTERS = ["upcase", "size", ("default", "dflt"), ("default", 0)]
# the `has` array filter (its value argument may be a missing variable): modelled with its is_undefined guard
HAS_FILTERS = [("has", "t", None), ("has", "id", ("lit", 2)), ("has", "t", ("lit", "one")), ("has", "t", P("nosuch")), ("has", "id", P("user", "missing")),
               ("has", "name", P("k")), ("has", "zz", None), ("has", "id", P("n")), ("has", "t", P("user", "name")), ("has", "on", ("lit", False))]

PARTIALS = {
    "p": [text("["), out("p"), text("|"), out("a", ("default", "noa")), text("]")],
    "q": [("if", ("atom", ("truthy", P("q"))), [text("Q"), out("q")], [text("noq")])],
    "r": [("for", "e", ("ipath", P("r")), [out("e"), text(",")], [text("none")])],
    "s": [text("static")],
}


def delete(data, where, key):
    obj = data
    for k in where:
        try:
            obj = obj[k]
        except (KeyError, IndexError, TypeError):
            return
    if isinstance(obj, dict):
        obj.pop(key, None)


def gen_expr(rng, local_names):
    r = rng.random()
    if r < 0.12:
        return lit(rng.choice(LITS))
    if r < 0.3 and local_names:
        nm = rng.choice(local_names)
        return P(nm) if rng.random() < 0.6 else P(nm, rng.choice(["t", "id", "name", "size", "first", 0, 1]))
    return rng.choice(PATHS)


def gen_filters(rng):
    return [rng.choice(FILTERS + HAS_FILTERS) if rng.random() < 0.3 else rng.choice(FILTERS) for _ in range(rng.choice([0, 0, 0, 1, 1, 2]))]


def gen_atom(rng, local_names):
    e = gen_expr(rng, local_names)
    r = rng.random()
    if r < 0.4:
        return ("truthy", e)
    if r < 0.65:
        return ("eq", e, rng.choice(LITS))
    if r < 0.85:
        return ("ne", e, rng.choice(LITS))
    return ("lt", e, rng.choice([0, 2, 40]))


def gen_cond(rng, local_names):
    a = gen_atom(rng, local_names)
    r = rng.random()
    if r < 0.6:
        return ("atom", a)
    return ("and" if r < 0.8 else "or", a, gen_cond(rng, local_names))


def gen_nodes(rng, depth, local_names, isolated=False):  # noqa: PLR0912
    nodes = []
    for _ in range(rng.randrange(1, 4)):
        r = rng.random()
        if r < 0.3:
            nodes += [("out", (gen_expr(rng, local_names), gen_filters(rng))), text(";")]
        elif r < 0.42:
            v = rng.choice(["v", "w"])
            nodes += [("assign", v, (gen_expr(rng, local_names), gen_filters(rng)))]
            local_names = local_names + [v]
        elif r < 0.55 and depth < 3:
            nodes += [("if", gen_cond(rng, local_names), gen_nodes(rng, depth + 1, local_names, isolated),
                       gen_nodes(rng, depth + 1, local_names, isolated) if rng.random() < 0.6 else [])]
        elif r < 0.67 and depth < 3:
            it = ("ipath", rng.choice(ITER_PATHS)) if rng.random() < 0.85 else ("irange", 1, 2)
            nodes += [("for", "i", it, gen_nodes(rng, depth + 1, local_names + ["i"], isolated), [text("empty")] if rng.random() < 0.4 else [])]
        elif r < 0.74 and depth < 3:
            nodes += [("with", [("a", gen_expr(rng, local_names))], gen_nodes(rng, depth + 1, local_names + ["a"], isolated))]
        elif r < 0.79 and depth < 3:
            nodes += [("capture", "c", gen_nodes(rng, depth + 1, local_names, isolated)), out("c")]
        elif r < 0.87:
            name = rng.choice(["p", "q", "r", "s"])
            var = None
            if rng.random() < 0.7:
                var = (rng.choice(PATHS), rng.random() < 0.4, None)
            args = [("a", gen_expr(rng, local_names))] if rng.random() < 0.5 else []
            nodes += [("render", name, var, args)]
        elif r < 0.93 and not isolated:
            name = rng.choice(["p", "q", "r", "s"])
            var = (rng.choice(PATHS), None) if rng.random() < 0.7 else None
            args = [("a", gen_expr(rng, local_names))] if rng.random() < 0.5 else []
            nodes += [("include", name, var, args)]
        elif depth < 2:
            dflt = rng.choice([None, rng.choice(SCALAR_PATHS), lit("d")])
            kws = [("m", gen_expr(rng, local_names))] if rng.random() < 0.5 else []
            nodes += [("macro", "mac", [("m", dflt)], [text("<"), out("m", *gen_filters(rng)), text(">")]), ("call", rng.choice(["mac", "mac", "nomac"]), kws)]
        else:
            nodes += [text("t")]
    return nodes


def uses():
    """C16's second clause: the four uses of a missing variable, each on its own."""
    missing = [P("nosuch"), P("user", "missing"), P("user", "addr", "missing"), P("nums", 9), P("nosuch", "a", "b"), P("title", "first"),
               P("user", N("nosuch")), P("n", "x")]
    for m in missing:
        yield "output", [out(m)], m
        for f in FILTERS:
            yield "filter", [out(m, f)], m
            yield "filter-assigned", [assign("v", m, f), text("ok")], m
        yield "filter", [out(m, ("has", "t", None))], m
        yield "filter-assigned", [assign("v", m, ("has", "t", ("lit", 1))), text("ok")], m
        yield "iterate", [("for", "i", ("ipath", m), [text("x")], [])], m
        for a in (("truthy", m), ("eq", m, 1), ("eq", m, None), ("ne", m, 1), ("lt", m, 1)):
            yield "compare", [("if", ("atom", a), [text("t")], [text("f")])], m
            yield "compare", [("if", ("and", a, ("atom", ("truthy", lit(True)))), [text("t")], [text("f")])], m
        # not a use: binding or passing the value on (an undefined SUBSCRIPT is a use)
        if not any(sg[0] == "n" for sg in m[2]):
            yield "no-use", [assign("v", m), ("with", [("a", m)], [text("w")]), ("render", "s", None, [("a", m)]), ("render", "s", (m, False, None), []), text("ok")], m


FILTER_TEMPLATES = [
    # a missing variable as an ARGUMENT of a filter (array filters compare it with item attributes, string/math filters use it)
    "{{ items | where: 'ok', wanted | map: 'id' | join: ',' }}", "{{ items | reject: 'ok', wanted | map: 'id' | join: ',' }}",
    "{{ items | find: 'ok', wanted | json }}", "{{ items | find_index: 'ok', wanted }}", "{{ items | has: 'ok', wanted }}",
    "{{ items | where: wanted | size }}", "{{ items | map: wanted | join: ',' }}", "{{ items | sort: wanted | map: 'id' | join: ',' }}",
    "{{ items | sum: wanted }}", "{{ names | join: wanted }}", "{{ names | concat: wanted | size }}", "{{ title | append: wanted }}",
    "{{ title | prepend: wanted }}", "{{ title | replace: wanted, 'x' }}", "{{ title | replace: 'l', wanted }}", "{{ title | remove: wanted }}",
    "{{ title | split: wanted | size }}", "{{ title | truncate: wanted }}", "{{ title | slice: wanted }}", "{{ n | plus: wanted }}",
    "{{ n | minus: wanted }}", "{{ n | times: wanted }}", "{{ n | divided_by: wanted }}", "{{ n | at_least: wanted }}",
    "{{ title | default: wanted }}", "{{ wanted | default: title }}", "{{ flag | default: wanted, allow_false: true }}",
    "{% assign v = items | has: 'ok', wanted %}{{ v }}", "{% if items contains wanted %}y{% else %}n{% endif %}",
    # membership of a missing value in arrays that hold nil / false / empty items
    "{% if mixed contains wanted %}y{% else %}n{% endif %}", "{% unless mixed contains user.nick %}u{% endunless %}",
    "{% assign v = mixed | has: wanted %}{{ v }}",
    "{% for i in items limit: wanted %}{{ i.id }}{% endfor %}", "{% for i in (1..wanted) %}{{ i }}{% endfor %}",
    "{% cycle wanted, 'b' %}", "{% case wanted %}{% when nil %}n{% when false %}f{% else %}e{% endcase %}",
    "{% case flag %}{% when wanted %}w{% else %}e{% endcase %}",
    # unnamed cycle tags are grouped by their arguments: two tags whose arguments differ only in WHICH path is missing
    "{% cycle 'a', 'b', user.nick %}{% cycle 'a', 'b', user.alias %}", "{% cycle 'a', 'b', names[9] %}{% cycle 'a', 'b', items[9] %}",
    "{% cycle 'a', 'b', wanted %}{% cycle 'a', 'b', wanted2 %}{% cycle 'a', 'b', wanted %}",
    "{% for i in (1..3) %}{% cycle wanted.x, 'b' %}{% cycle wanted.y, 'b' %}{% endfor %}",
]
FILTER_DATAS = [
    {"user": {}, "items": [{"id": 1, "ok": False}, {"id": 2, "ok": False}], "names": ["a", "b"], "title": "hello", "n": 3, "flag": False, "mixed": [None, 1]},
    {"items": [{"id": 1, "ok": True}, {"id": 2}, {"id": 3, "ok": None}], "names": [], "title": "", "n": 0, "flag": None, "mixed": [False, "", []]},
    {"items": [], "names": ["x"], "title": "l", "n": -1, "flag": True, "mixed": []},
]


def filter_family(ck: Check) -> None:
    """Refinement on the implementation for a missing variable used as a filter / tag ARGUMENT, over every built-in filter
    family (oracle only: the model has three filters): a render that succeeds under a strict undefined type gives the default
    type's output, and the default type raises no UndefinedError."""
    from liquid import Environment
    import liquid.undefined as U

    from ..core import classify_exc, run_async

    envs = {k: Environment(undefined=c) for k, c in (("default", U.Undefined), ("strict", U.StrictUndefined),
                                                     ("falsy", U.FalsyStrictUndefined), ("strictdefault", U.StrictDefaultUndefined))}

    def go(env, src, data, use_async):
        try:
            t = env.from_string(src)
            return ("out", run_async(t.render_async(**data)) if use_async else t.render(**data))
        except Exception as e:  # noqa: BLE001
            return ("err", classify_exc(e))

    for src in FILTER_TEMPLATES:
        for di, data in enumerate(FILTER_DATAS):
            base = go(envs["default"], src, data, False)
            ck.note_case(("filter-arg", src, di))
            ck.count("filter-args")
            if base == ("err", "EUndefined"):
                ck.violation("impl-violation", "default-raises-undefined:" + src[:60], f"{src!r} data {data!r}: the default undefined type raises UndefinedError",
                             {"type": "filter-arg", "template": src, "data": data, "kind": "default", "default": base})
            for k in ("strict", "falsy", "strictdefault"):
                for use_async in (False, True):
                    o = go(envs[k], src, data, use_async)
                    if o[0] == "out" and o != base:
                        ck.violation("impl-violation", f"{k}-output-differs-from-default:" + src[:60],
                                     f"{src!r} data {data!r}: {k} undefined renders {o} ({'async' if use_async else 'sync'}), the default type {base}",
                                     {"type": "filter-arg", "template": src, "data": data, "kind": k, "async": use_async, "strict": o, "default": base})


def has_cases():
    """The has filter over arrays of hashes, a hash, a string, numbers and nil, with literal / defined / missing value arguments."""
    lefts = [P("items"), P("user"), P("title"), P("n"), P("nums"), P("none"), P("mixed"), P("flags"), P("nosuch"), P("user", "tags")]
    for left in lefts:
        for f in HAS_FILTERS:
            yield [text("["), out(left, f), text("]")]
            yield [assign("v", left, f), ("if", ("atom", ("truthy", P("v"))), [text("y")], [text("n")])]


def run(ck: Check) -> None:  # noqa: PLR0912, PLR0915
    ck.rule = (
        "seeded templates over 40 paths of length 1..4 (names, indexes, size/first/last, nested variables) into nested data: output with "
        "0..2 filters (upcase, size, default, has with literal / defined / missing value argument), assign, if with ==, !=, <, truthiness and and/or, for over arrays/hashes/strings/missing "
        "values, with, capture, include/render with bound variable and arguments, macro calls with defaults; each rendered with data from "
        "which 0..6 random keys and sub-keys were deleted, under each of the four undefined types, sync and async. Oracles: a strict type "
        "that renders gives the default type's output; the default type never raises UndefinedError; StrictUndefined raises UndefinedError "
        "for output / filter / iterate / compare of each of 8 kinds of missing path and for nothing else (binding, passing on). Non-trivial = "
        "at least one undefined type raises or a deleted key is read; distinct = distinct (template, data)."
    )
    ck.exhaustive = False
    ck.trusted_base = [
        "Coq 8.16.1 kernel + vm_compute",
        "harness: generators, Liquid/Gallina printers (scope_lib.py), the relational oracle (props/c16.py)",
        "modelled not verified: __getattribute__/hasattr/isinstance dispatch of the undefined classes (transcribed as the two predicates "
        "strict_kind and probe_raises), str()/repr() of containers, str.upper on ASCII",
    ]
    ck.assumptions = [
        "strict tolerance mode (in lax mode an UndefinedError is swallowed by design: Scope_Undef_Proofs.refinement_needs_strict_mode)",
        "filters: upcase, size, default with a literal argument; autoescape off; ASCII letters/digits in strings",
    ]
    ck.proof()
    filter_family(ck)
    L.STRINGS.reset()
    rng = ck.rng

    cases, expected, meta = [], [], []

    def run_all(sig, body, data):
        outs = {}
        idx = {}
        for uk in KINDS:
            case = L.mk_case(body, loader=PARTIALS, args=data, uk=uk)
            s = L.render_case(case, False)
            a = L.render_case(case, True)
            outs[uk] = s
            cases.append(L.g_case(case))
            expected.append(L.g_obs(s))
            meta.append([sig, case, s, s != a])
            idx[uk] = len(meta) - 1
            ck.traces += 1
            if s != a and sum(1 for v in ck.violations if v.signature == "sync-async") < 3:
                ck.violation("impl-violation", "sync-async", f"{L.case_sources(case)} data {data} ({uk}): sync={s} async={a}",
                             {"type": "kinds", "template": L.body_src(body), "data": data, "oracle": "sync-async", "kind": uk})
        return outs, idx

    def report(sig, what, body, data, idx, kind):
        for i in idx.values():
            meta[i][3] = True
        if sum(1 for v in ck.violations if v.signature == sig) < 3:
            ck.violation("impl-violation", sig, what, {"type": "kinds", "template": L.body_src(body), "data": data, "oracle": sig, "kind": kind})

    def relation(body, data, outs, idx):
        d = outs["default"]
        for uk in KINDS[1:]:
            if outs[uk][0] == "out" and outs[uk] != d:
                report(f"{uk}-output-differs-from-default",
                       f"{L.body_src(body)!r} data {data}: {uk} renders {outs[uk]} but the default undefined type gives {d}", body, data, idx, uk)
        if d == ("err", "EUndefined"):
            report("default-raises-undefined", f"{L.body_src(body)!r} data {data}: the default undefined type raised UndefinedError", body, data, idx, "default")

    # ------------------------------------------------------------- the four uses, one at a time
    for kind, body, m in uses():
        outs, idx = run_all("use:" + kind, body, DATA)
        ck.note_case(("use", kind, L.body_src(body)))
        ck.count("use." + kind)
        relation(body, DATA, outs, idx)
        s = outs["strict"]
        if kind == "no-use":
            if s[0] != "out":
                report("strict-raises-without-use", f"{L.body_src(body)!r}: StrictUndefined gave {s} although the missing value is only bound or passed on", body, DATA, idx, "strict")
        elif s != ("err", "EUndefined"):
            report(f"strict-does-not-raise-on-{kind}", f"{L.body_src(body)!r}: StrictUndefined gave {s}, expected UndefinedError", body, DATA, idx, "strict")

    # ------------------------------------------------------------- the has filter (guarded by is_undefined) under the four types
    hdata = dict(DATA, mixed=[{"t": "x"}, 3], flags=[{"on": False}, {"on": 0}, {"t": None}])
    for body in has_cases():
        outs, idx = run_all("has", body, hdata)
        ck.note_case(("has", L.body_src(body)))
        ck.count("has.raising%dof4" % sum(1 for o in outs.values() if o[0] == "err"))
        relation(body, hdata, outs, idx)

    # ------------------------------------------------------------- random templates x deleted data
    n = 260 if ck.quick else 3000
    for _ in range(n):
        body = gen_nodes(rng, 0, [])
        data = copy.deepcopy(DATA)
        dels = rng.sample(DELETABLE, rng.choice([0, 1, 1, 2, 3, 4, 6]))
        for where, key in dels:
            delete(data, where, key)
        outs, idx = run_all("random", body, data)
        raised = sum(1 for o in outs.values() if o[0] == "err")
        ck.note_case(("random", L.body_src(body), sorted(map(repr, dels))), nontrivial=bool(raised) or bool(dels))
        ck.count(f"random.deleted{min(len(dels), 4)}.raising{raised}of4")
        relation(body, data, outs, idx)
    ck.sample({"template": L.body_src(meta[-1][1]["body"]), "data": meta[-1][1]["args"], "outputs": {m[1]["uk"]: m[2] for m in meta[-4:]}})

    # ------------------------------------------------------------- model correspondence
    chunk = max(60, -(-len(cases) // 4))
    mm = ck.coq_mismatches("scope", L.IMPORTS, "run_case", "res_str_eqb", "case", "res str", cases, expected, chunk=chunk,
                           preamble=L.STRINGS.preamble())
    shown = 0
    for i in mm:
        sig, case, s, bad = meta[i]
        if bad or shown >= 3:
            continue
        shown += 1
        model = ck.coq_eval(L.IMPORTS, [f"run_case {L.g_case(case)}"], preamble=L.STRINGS.preamble())[0]
        ck.violation("correspondence", "c16-scope-correspondence",
                     f"model Scope.run_case and the implementation disagree on {L.case_sources(case)['template']!r} data {case['args']} ({case['uk']})",
                     {"type": "single", "case": L.case_json(case), "impl": s, "model": model,
                      "broken": "correspondence Scope.run_case ~ rendering under each undefined type (theorems C16_*)"}, no_input=True)


def replay(data) -> int:
    if data["case"].get("type") == "filter-arg":
        from liquid import Environment
        import liquid.undefined as U

        from ..core import classify_exc, run_async

        c = data["case"]
        cls = {"default": U.Undefined, "strict": U.StrictUndefined, "falsy": U.FalsyStrictUndefined, "strictdefault": U.StrictDefaultUndefined}

        def go(k, use_async):
            try:
                t = Environment(undefined=cls[k]).from_string(c["template"])
                return ("out", run_async(t.render_async(**c["data"])) if use_async else t.render(**c["data"]))
            except Exception as e:  # noqa: BLE001
                return ("err", classify_exc(e))

        base = go("default", False)
        o = go(c["kind"], c.get("async", False))
        bad = base == ("err", "EUndefined") if c["kind"] == "default" else (o[0] == "out" and o != base)
        print("template:", c["template"], "data:", c["data"], "default:", base, c["kind"] + ":", o)
        print(("VIOLATION reproduced" if bad else "not reproduced") + f" property={data['property']}")
        return 1 if bad else 0
    case = data["case"]
    if case.get("type") != "kinds":
        print("replay names a proof/correspondence obligation:", case)
        return 1
    partials = {k: L.body_src(b) for k, b in PARTIALS.items()}
    outs = {}
    for uk in KINDS:
        s = L.render_sources(case["template"], partials, case["data"], {}, {}, {}, "strict", uk, False)
        a = L.render_sources(case["template"], partials, case["data"], {}, {}, {}, "strict", uk, True)
        outs[uk] = (s, a)
        print(f"{uk:14s} sync={s} async={a}")
    print("template:", case["template"], "data:", case["data"])
    orc, uk = case["oracle"], case["kind"]
    d = outs["default"][0]
    if orc == "sync-async":
        bad = outs[uk][0] != outs[uk][1]
    elif orc.endswith("output-differs-from-default"):
        bad = outs[uk][0][0] == "out" and outs[uk][0] != d
    elif orc == "default-raises-undefined":
        bad = d == ("err", "EUndefined")
    elif orc == "strict-raises-without-use":
        bad = outs["strict"][0][0] != "out"
    else:
        bad = outs["strict"][0] != ("err", "EUndefined")
    print(("VIOLATION reproduced" if bad else "not reproduced") + f" property={data['property']}")
    return 1 if bad else 0
