"""C14 — Variables resolve to their innermost binding."""

from __future__ import annotations

import itertools

from ..core import Check
from .. import scope_lib as L
from ..scope_lib import P, lit, out, assign, text

NAMES = ["x", "y", "z"]

# ====================================================================== reference (documented behaviour)
# Written from the documentation of the scope rules, independently of liquid/context.py and of Scope.v:
#   lookup: block scopes (innermost first) -> assigned/captured -> [partial arguments ->] render arguments -> front matter
#           -> template globals -> environment globals -> now/today -> counters;  missing => undefined (prints nothing)
#   assign / capture write the template-level scope of the template (or isolated partial / macro) being rendered;
#   for / with / include arguments are visible only inside their block; include shares the caller's scope;
#   render / call get a fresh scope with only their arguments, the bound variable and the global data.

class Undef:
    def __repr__(self):
        return "UNDEF"


UNDEF = Undef()
BUILTIN = object()


class RefError(Exception):
    def __init__(self, cls):
        self.cls = cls


class RefInterrupt(Exception):
    pass


class Unsure(Exception):
    """The documentation does not say; the case is left to the model correspondence."""


def ref_item(obj, key, flags=(False, False)):
    """flags = (string_first_and_last, string_sequences)"""
    if obj is UNDEF:
        return UNDEF
    if isinstance(key, bool):
        raise Unsure("boolean subscript")
    if isinstance(obj, dict):
        if isinstance(key, str):
            if key in obj:
                return obj[key]
            if key == "size":
                return len(obj)
            if key == "first" and obj:
                k = next(iter(obj))
                return (k, obj[k])
        return UNDEF
    if isinstance(obj, (list, tuple)):
        if isinstance(key, int):
            return obj[key] if -len(obj) <= key < len(obj) else UNDEF
        if key == "size":
            return len(obj)
        if key == "first":
            return obj[0] if obj else UNDEF
        if key == "last":
            return obj[-1] if obj else UNDEF
        return UNDEF
    if isinstance(obj, str):
        if key == "size":
            return len(obj)
        if flags[0] and key in ("first", "last") and not isinstance(key, int):
            return (obj[0] if key == "first" else obj[-1]) if obj else UNDEF
        if flags[1] and isinstance(key, int):
            return obj[key] if -len(obj) <= key < len(obj) else UNDEF
        return UNDEF
    return UNDEF


def ref_str(v, uk):
    if v is UNDEF:
        if uk != "default":
            raise RefError("EUndefined")
        return ""
    if v is BUILTIN:
        raise Unsure("clock")
    if v is None:
        return ""
    if v is True:
        return "true"
    if v is False:
        return "false"
    if isinstance(v, list):
        return "".join(x if isinstance(x, str) else str(x) for x in v)
    return str(v)


class RCtx:
    def __init__(self, globs, base, isolated):
        self.blocks, self.locals, self.globs, self.base = [], {}, globs, base
        self.counters, self.macros, self.isolated = {}, {}, isolated

    def lookup(self, name):
        if name == "partial":
            raise Unsure("reserved by the engine")
        for b in reversed(self.blocks):
            if name in b:
                return b[name]
        if name in self.locals:
            return self.locals[name]
        for g in self.globs:
            if name in g:
                return g[name]
        if name in ("now", "today"):
            return BUILTIN
        return self.counters.get(name, UNDEF)


class Ref:
    def __init__(self, case):
        self.case = case
        self.uk = case["uk"]
        if case["mode"] != "strict":
            raise Unsure("lax mode")

    def run(self):
        layers = [self.case["args"], self.case["matter"], self.case["tglobals"], self.case["eglobals"]]
        ctx = RCtx(layers, layers, False)
        buf = []
        try:
            self.template(ctx, self.case["body"], buf, top=True)
        except RefError as e:
            return ("err", e.cls)
        return ("out", "".join(buf))

    def template(self, ctx, body, buf, top):
        try:
            self.block(ctx, body, buf)
        except RefInterrupt:
            if top:
                raise RefError("ESyntax") from None
            raise

    def key(self, ctx, k):
        return k[1]

    def path(self, ctx, p):
        keys = []
        for s in p[2]:
            if s[0] == "n":
                keys.append(self.path(ctx, ("path", s[1], [("k", "dot", k[1]) if k[0] == "k" else k for k in s[2]])))
            elif s[0] == "k":
                keys.append(s[2])
            else:
                keys.append(s[1])
        if self.uk != "default" and any(k is UNDEF for k in keys):
            raise Unsure("undefined subscript under a strict undefined type")
        obj = ctx.lookup(p[1])
        for k in keys:
            if obj is UNDEF and self.uk != "default":
                raise Unsure("property of a stored undefined under a strict undefined type")
            obj = ref_item(obj, None if k is UNDEF else k, self.case.get("flags", (False, False)))
        return obj

    def expr(self, ctx, e):
        return e[1] if e[0] == "lit" else self.path(ctx, e)

    def fexpr(self, ctx, fe):
        if fe[1]:
            raise Unsure("filters belong to C16/C25")
        return self.expr(ctx, fe[0])

    def atom(self, ctx, a):
        v = self.expr(ctx, a[1])
        if self.uk != "default" and v is UNDEF:
            raise Unsure("undefined in a condition under a strict undefined type")
        if a[0] == "truthy":
            return not (v is None or v is False or v is UNDEF)
        if v is UNDEF:
            v = None
        if a[0] in ("eq", "ne"):
            same = type(v) is type(a[2]) and v == a[2]
            return same if a[0] == "eq" else not same
        if isinstance(v, bool):
            return False
        if not isinstance(v, int):
            raise RefError("EType")
        return v < a[2]

    def cond(self, ctx, c):
        if c[0] == "atom":
            return self.atom(ctx, c[1])
        left = self.atom(ctx, c[1])
        if c[0] == "and":
            return left and self.cond(ctx, c[2])
        return left or self.cond(ctx, c[2])

    def kwargs(self, ctx, args):
        d = {}
        for k, e in args:
            d[k] = self.expr(ctx, e)
        return d

    def block(self, ctx, body, buf):
        for n in body:
            self.node(ctx, n, buf)

    def node(self, ctx, n, buf):  # noqa: PLR0912, PLR0915
        t = n[0]
        if t == "text":
            buf.append(n[1])
        elif t == "out":
            buf.append(ref_str(self.fexpr(ctx, n[1]), self.uk))
        elif t == "assign":
            ctx.locals[n[1]] = self.fexpr(ctx, n[2])
        elif t == "capture":
            inner = []
            self.block(ctx, n[2], inner)
            ctx.locals[n[1]] = "".join(inner)
        elif t == "if":
            self.block(ctx, n[2] if self.cond(ctx, n[1]) else n[3], buf)
        elif t == "for":
            if n[2][0] == "irange":
                items = list(range(n[2][1], n[2][2] + 1))
            else:
                v = self.path(ctx, n[2][1])
                if v is UNDEF and self.uk != "default":
                    raise RefError("EUndefined")
                if isinstance(v, dict):
                    items = list(v.items())
                elif isinstance(v, (list, tuple)):
                    items = list(v)
                elif isinstance(v, str) and self.case.get("flags", (False, False))[1]:
                    items = list(v)
                elif isinstance(v, str) and v:
                    items = [v]
                else:
                    items = []
            if not items:
                self.block(ctx, n[4], buf)
                return
            scope = {}
            ctx.blocks.append(scope)
            try:
                for i, itm in enumerate(items):
                    scope["forloop"] = {"index": i + 1, "index0": i, "rindex": len(items) - i, "rindex0": len(items) - i - 1,
                                        "first": i == 0, "last": i == len(items) - 1, "length": len(items)}
                    scope[n[1]] = itm
                    try:
                        self.block(ctx, n[3], buf)
                    except RefInterrupt as e:
                        if e.args[0] == "break":
                            break
            finally:
                ctx.blocks.pop()
        elif t in ("break", "continue"):
            raise RefInterrupt(t)
        elif t == "with":
            ctx.blocks.append(self.kwargs(ctx, n[1]))
            try:
                self.block(ctx, n[2], buf)
            finally:
                ctx.blocks.pop()
        elif t == "include":
            if ctx.isolated:
                raise RefError("EDisabledTag")
            if n[1] not in self.case["loader"]:
                raise RefError("ENotFound")
            body = self.case["loader"][n[1]]
            scope = self.kwargs(ctx, n[3])
            runs = [None]
            if n[2] is not None:
                if n[2][0][1] in scope:
                    raise Unsure("bound variable named like an argument")
                v = self.path(ctx, n[2][0])
                if v is UNDEF and self.uk != "default":
                    raise Unsure("binding an undefined value under a strict undefined type")
                key = n[2][1] or n[1]
                runs = [(key, x) for x in v] if isinstance(v, (list, tuple)) else [(key, v)]
            ctx.blocks.append(scope)
            try:
                for r in runs:
                    if r is not None:
                        scope[r[0]] = r[1]
                    self.template(ctx, body, buf, top=False)
            finally:
                ctx.blocks.pop()
        elif t == "render":
            if n[1] not in self.case["loader"]:
                raise RefError("ENotFound")
            body = self.case["loader"][n[1]]
            scope = self.kwargs(ctx, n[3])
            if n[2] is None:
                self.template(RCtx([scope] + ctx.base, ctx.base, True), body, buf, top=True)
                return
            v = self.path(ctx, n[2][0])
            key = n[2][2] or n[1]
            if n[2][1] and v is UNDEF and self.uk != "default":
                raise Unsure("render for an undefined value under a strict undefined type")
            if n[2][1] and isinstance(v, (list, tuple)):
                for i, itm in enumerate(v):
                    scope["forloop"] = {"index": i + 1, "index0": i, "rindex": len(v) - i, "rindex0": len(v) - i - 1,
                                        "first": i == 0, "last": i == len(v) - 1, "length": len(v)}
                    scope[key] = itm
                    self.template(RCtx([scope] + ctx.base, ctx.base, True), body, buf, top=True)   # a fresh scope per item
            else:
                scope[key] = v
                self.template(RCtx([scope] + ctx.base, ctx.base, True), body, buf, top=True)
        elif t == "macro":
            ctx.macros[n[1]] = (n[2], n[3])
        elif t == "call":
            if n[1] not in ctx.macros:
                buf.append(ref_str(UNDEF, self.uk))
                return
            params, body = ctx.macros[n[1]]
            scope = {"args": [], "kwargs": {}}
            given = {}
            for k, e in n[2]:
                given[k] = self.expr(ctx, e)
            for k, v in given.items():
                if k not in [p for p, _ in params]:
                    scope["kwargs"][k] = v
            for p, d in params:
                scope[p] = given[p] if p in given else (UNDEF if d is None else self.expr(ctx, d))
            sub = RCtx([scope] + ctx.base, ctx.base, True)
            self.block(sub, body, buf)
        elif t == "incr":
            v = ctx.counters.get(n[1], 0)
            ctx.counters[n[1]] = v + 1
            buf.append(str(v))
        elif t == "decr":
            v = ctx.counters.get(n[1], 0) - 1
            ctx.counters[n[1]] = v
            buf.append(str(v))
        else:
            raise ValueError(t)


def reference(case):
    try:
        return Ref(case).run()
    except Unsure:
        return None


# ====================================================================== generators

def probes():
    o = [text("[")]
    for i, nm in enumerate(NAMES):
        if i:
            o.append(text(","))
        o.append(out(nm))
    o.append(text("]"))
    return o


BINDERS = ["for", "with", "withv", "inc", "incw", "rend", "rendf", "call", "cap", "if"]
ISOLATED = ("rend", "rendf", "call")


def wrap(kind, name, depth, inner, loader, rng):
    """One binding construct of `kind` binding `name` around `inner`; partial bodies go to `loader`."""
    tagv = f"{kind}{depth}"
    if kind == "for":
        return [("for", name, ("ipath", P(f"fl{depth}")), inner, [])]
    if kind == "with":
        return [("with", [(name, lit(tagv))], inner)]
    if kind == "withv":  # the argument expression is evaluated OUTSIDE the block
        other = rng.choice(NAMES)
        return [("with", [(name, P(other)), (rng.choice(NAMES), lit(tagv))], inner)]
    if kind == "inc":
        loader[f"p{depth}"] = inner
        return [("include", f"p{depth}", None, [(name, lit(tagv))])]
    if kind == "incw":
        loader[f"p{depth}"] = inner
        return [("include", f"p{depth}", (P(f"sv{depth}"), name), [])]
    if kind == "rend":
        loader[f"p{depth}"] = inner
        return [("render", f"p{depth}", None, [(name, lit(tagv))])]
    if kind == "rendf":   # a one-item array: how the items of render..for relate to one another is C15's subject
        loader[f"p{depth}"] = inner
        return [("render", f"p{depth}", (P(f"fr{depth}"), True, name), [])]
    if kind == "call":
        other = rng.choice(NAMES)
        return [("macro", f"m{depth}", [(name, None), (other, lit(f"dflt{depth}"))], inner), ("call", f"m{depth}", [(name, lit(tagv))])]
    if kind == "cap":
        return [("capture", name, inner)]
    if kind == "if":
        return [("if", ("atom", ("truthy", P(name))), inner, [text("E")] + inner)]
    raise ValueError(kind)


def statement(rng, depth):
    r = rng.random()
    nm = rng.choice(NAMES)
    if r < 0.5:
        return [assign(nm, lit(f"a{depth}"))]
    if r < 0.65:
        return [assign(nm, P(rng.choice(NAMES)))]
    if r < 0.8:
        return [("incr", nm)]
    if r < 0.9:
        return [("decr", nm)]
    return []


def nest_case(order, rng):
    loader = {}
    depth = len(order)
    inner = probes() + statement(rng, depth + 1) + probes()
    for d in range(depth, 0, -1):
        kind = order[d - 1]
        name = rng.choice(NAMES)
        block = wrap(kind, name, d, inner, loader, rng)
        inner = probes() + statement(rng, d) + block + probes()
    layers = {"args": {}, "matter": {}, "tglobals": {}, "eglobals": {}}
    for nm in NAMES:
        for ly, tg in (("args", "A"), ("matter", "M"), ("tglobals", "T"), ("eglobals", "E")):
            if rng.random() < 0.4:
                layers[ly][nm] = tg + nm
    for d in range(1, 4):
        layers[rng.choice(["args", "matter", "tglobals", "eglobals"])][f"fl{d}"] = [f"f{d}a", f"f{d}b"]
        layers[rng.choice(["args", "matter", "tglobals", "eglobals"])][f"fr{d}"] = [f"r{d}a"]
        layers[rng.choice(["args", "matter", "tglobals", "eglobals"])][f"sv{d}"] = rng.choice([f"s{d}", [f"s{d}a", f"s{d}b"]])
    return L.mk_case(inner, loader=loader, **layers)


def gen_nests(ck: Check):
    rng = ck.rng
    reps = 1 if ck.quick else 6
    for depth in (1, 2, 3):
        for order in itertools.product(BINDERS, repeat=depth):
            # an isolated construct inside an isolated construct is C15's subject (nested partials)
            if sum(k in ISOLATED for k in order) > 1:
                continue
            if depth == 3 and ck.quick and rng.random() < 0.6:
                continue
            for _ in range(reps if depth == 3 else reps * 3):
                yield ("nest:" + ">".join(order), nest_case(order, rng))


def gen_layers():
    """One name, every subset of the four global layers, then every local binder in front of them."""
    lays = (("args", "A"), ("matter", "M"), ("tglobals", "T"), ("eglobals", "E"))
    for mask in range(16):
        layers = {"args": {}, "matter": {}, "tglobals": {}, "eglobals": {}}
        for i, (ly, tg) in enumerate(lays):
            if mask >> i & 1:
                layers[ly]["x"] = tg
        yield (f"layers:{mask:04b}", L.mk_case(probes(), **layers))
        body = probes() + [("incr", "x")] + probes() + [assign("x", lit("a"))] + probes() + \
            [("with", [("x", lit("w"))], probes() + [("for", "x", ("irange", 1, 2), probes(), [])] + probes())] + probes()
        yield (f"layers+locals:{mask:04b}", L.mk_case(body, **layers))
    # builtin objects sit between the globals and the counters; the clock value itself is never printed
    for nm in ("now", "today"):
        t_is = lambda e: ("if", ("atom", ("eq", e, 1)), [text("one")], [("if", ("atom", ("truthy", e)), [text("obj")], [text("nil")])])  # noqa: E731
        yield (f"builtin:{nm}", L.mk_case([t_is(P(nm)), ("incr", nm), ("incr", nm), t_is(P(nm)), ("decr", nm), t_is(P(nm))]))
        yield (f"builtin-shadowed:{nm}", L.mk_case([t_is(P(nm)), assign(nm, lit(1)), t_is(P(nm))], eglobals={nm: 0}))
        yield (f"builtin-global:{nm}", L.mk_case([t_is(P(nm)), ("incr", nm), t_is(P(nm))], eglobals={nm: 1}))
    yield ("reserved:partial", L.mk_case([out("partial"), ("include", "p", None, []), ("render", "p", None, [])], loader={"p": [out("partial")]}))
    yield ("counters", L.mk_case([("incr", "c"), ("incr", "c"), ("decr", "d"), out("c"), out("d"), ("decr", "c"), ("include", "p", None, []),
                                  ("render", "p", None, []), out("c")], loader={"p": [("incr", "c"), out("c")]}))


def gen_falsy_shadow():
    """An inner binding hides the outer ones WHATEVER its value: nil, false, 0 and the empty string/array bound in an inner
    scope (block scope, locals, an inner global layer, partial arguments) in front of a non-nil outer binding of the same name."""
    lays = ("args", "matter", "tglobals", "eglobals")
    falsy = (None, False, 0, "", [])
    for v in falsy:
        for i, inner_l in enumerate(lays):
            for outer_l in lays[i + 1:]:
                layers = {ly: {} for ly in lays}
                layers[inner_l]["x"] = v
                layers[outer_l]["x"] = "OUT"
                yield (f"falsy-shadow:layers:{inner_l}>{outer_l}", L.mk_case(probes(), **layers))
        if not isinstance(v, list):
            # locals in front of globals, block scopes in front of locals, partial arguments in front of globals
            yield ("falsy-shadow:assign", L.mk_case([assign("x", lit(v))] + probes(), args={"x": "OUT"}))
            yield ("falsy-shadow:with", L.mk_case([assign("x", lit("LOC")), ("with", [("x", lit(v))], probes())] + probes(), eglobals={"x": "OUT"}))
            yield ("falsy-shadow:include-arg", L.mk_case([assign("x", lit("LOC")), ("include", "p", None, [("x", lit(v))])] + probes(),
                                                         loader={"p": probes()}, tglobals={"x": "OUT"}))
            yield ("falsy-shadow:render-arg", L.mk_case([("render", "p", None, [("x", lit(v))])] + probes(), loader={"p": probes()}, args={"x": "OUT"}))
            yield ("falsy-shadow:macro-arg", L.mk_case([("macro", "m", [("x", None), ("y", lit("d"))], probes()), ("call", "m", [("x", lit(v))])] + probes(),
                                                       matter={"x": "OUT"}))
    # loop variables: items that are nil / false / 0 / '' hide an assigned and a global variable of the same name
    yield ("falsy-shadow:for", L.mk_case([assign("x", lit("LOC")), ("for", "x", ("ipath", P("its")), probes(), [])] + probes(),
                                         args={"its": ["a", None, False, 0, "", "b"], "y": "OUT"}))
    yield ("falsy-shadow:for-global", L.mk_case([("for", "y", ("ipath", P("its")), probes(), [])] + probes(),
                                                eglobals={"its": [None, "a", False], "y": "OUT"}))
    yield ("falsy-shadow:include-with", L.mk_case([("include", "p", (P("its"), "x"), [])] + probes(), loader={"p": probes()},
                                                  args={"its": [None, "a", 0], "x": "OUT"}))


def gen_interrupts(ck: Check):
    """Errors and interrupts inside nested blocks: the scopes are as before afterwards (observable in lax mode)."""
    rng = ck.rng
    bad_leaves = {
        "notfound": [("render", "missing", None, [])],
        "notfound-include": [("include", "missing", None, [])],
        "type": [("if", ("atom", ("lt", lit("s"), 1)), [text("T")], [])],
        "break": [("break",)],
        "continue": [("continue",)],
    }
    kinds = ["for", "with", "inc", "incw", "rend", "call", "if"]   # no capture: nothing in the nest assigns
    for leaf_name, leaf in bad_leaves.items():
        for depth in (0, 1, 2, 3):
            orders = list(itertools.product(kinds, repeat=depth))
            rng.shuffle(orders)
            for order in orders[: (12 if ck.quick else 60)]:
                for mode in ("lax", "strict"):
                    loader = {}
                    inner = [text("<")] + leaf + [text(">")]
                    for d in range(depth, 0, -1):
                        inner = [text("(")] + wrap(order[d - 1], rng.choice(NAMES), d, inner, loader, rng) + [text(")")]
                    pre = [assign("x", lit("a0")), ("with", [("y", lit("w0"))], probes())]
                    layers = {"args": {"z": "Az"}}
                    for d in range(1, 4):
                        layers["args"][f"fl{d}"] = [f"f{d}a", f"f{d}b"]
                        layers["args"][f"sv{d}"] = f"s{d}"
                    case = L.mk_case(pre + probes() + inner + probes(), loader=loader, mode=mode, **layers)
                    yield (f"interrupt:{leaf_name}:{mode}:" + ">".join(order), case,
                           L.mk_case(pre, loader=loader, mode=mode, **layers), L.mk_case(pre + probes(), loader=loader, mode=mode, **layers))


# ---------------------------------------------------------------------- paths
DATA = {
    "d": {"a": {"b": {"c": "dabc", "l": [1, 2, 3]}, "s": "str", "size": "ownsize"},
          "l": [{"k": "l0k"}, ["n0", "n1"], "l2"], "first": "ownfirst", "e": {}, "el": [], "t": True, "n": None},
    "l": [{"a": "l0a", "b": {"c": "l0bc"}}, [10, 20, 30], "two", 3],
    "s": "hello", "i": 7, "b": True, "n": None,
    "k": "a", "ki": 1, "kk": {"a": "l", "i": -1, "sz": "size", "b": "b"},
}
ROOTS = ["d", "l", "s", "i", "b", "n", "zz"]
SEGS = [("k", None, nm) for nm in ("a", "b", "c", "l", "s", "k", "e", "el", "size", "first", "last", "zz")] + \
       [("i", z) for z in (0, 1, 2, -1, -2, -4, 5)] + \
       [("n", "k", []), ("n", "ki", []), ("n", "kk", [("k", "a")]), ("n", "kk", [("k", "i")]), ("n", "kk", [("k", "sz")]),
        ("n", "kk", [("k", "b")]), ("n", "zz", []), ("n", "b", []), ("n", "l", [("i", 3)])]


def styled(segs, rng, force=None):
    o = []
    for s in segs:
        if s[0] == "k":
            o.append(("k", force or rng.choice(["dot", "sq", "dq"]), s[2]))
        else:
            o.append(s)
    return o


def seg_class(s):
    if s[0] == "i":
        return "neg" if s[1] < 0 else "idx"
    if s[0] == "n":
        return "nested"
    return s[2] if s[2] in ("size", "first", "last") else "name"


def gen_paths(ck: Check):
    rng = ck.rng
    for n in (0, 1, 2):
        for root in ROOTS:
            for segs in itertools.product(SEGS, repeat=n):
                if n == 2 and ck.quick and rng.random() < 0.6:
                    continue
                yield root, list(segs)
    for _ in range(1000 if ck.quick else 25000):
        root = rng.choice(ROOTS[:2] if rng.random() < 0.8 else ROOTS)
        segs = []
        obj = DATA.get(root, UNDEF)
        for _i in range(3):
            # mostly extend along keys that exist, so deep paths stay meaningful
            cands = []
            if isinstance(obj, dict):
                cands = [("k", None, k) for k in obj]
            elif isinstance(obj, list):
                cands = [("i", z) for z in range(-len(obj), len(obj))]
            s = rng.choice(cands) if cands and rng.random() < 0.6 else rng.choice(SEGS)
            segs.append(s)
            try:
                key = s[2] if s[0] == "k" else s[1] if s[0] == "i" else None
                obj = ref_item(obj, key) if key is not None else UNDEF
            except Unsure:
                obj = UNDEF
        yield root, segs


def ref_path(root, segs, uk):
    """The documented value of {{ root segs }} over DATA, as text."""
    case = L.mk_case([out(("path", root, styled(segs, None, "dot")))], args=DATA, uk=uk)
    return reference(case)


def gen_string_flags(quick):
    """Strings (and, for contrast, lists and hashes) subscripted and iterated under the four combinations of the
    string_first_and_last / string_sequences flags: model correspondence + reference resolver."""
    data = {"s": "hello", "e": "", "l": ["pq", "r"], "d": {"first": "own", "w": "word"}, "i": 1, "m": -1, "k": "first"}
    segs = [("k", None, "first"), ("k", None, "last"), ("k", None, "size"), ("k", None, "zz"), ("i", 0), ("i", 1), ("i", -1), ("i", 4), ("i", 5), ("i", -5),
            ("i", -6), ("n", "i", []), ("n", "m", []), ("n", "k", [])]
    roots = [("s", []), ("e", []), ("l", []), ("l", [("i", 0)]), ("d", []), ("d", [("k", None, "w")])]
    for fl in (False, True):
        for sq in (False, True):
            for root, pre in roots:
                for sg in segs:
                    for extra in ([],) if quick else ([], [("k", None, "size")], [("i", 0)]):
                        for sty in ("dot",) if quick else ("dot", "sq"):
                            p = ("path", root, styled(pre + [sg] + extra, None, sty))
                            yield (f"string-flags:{int(fl)}{int(sq)}:{root}{len(pre)}:{seg_class(sg)}",
                                   L.mk_case([text("["), out(p), text("]")], args=data, flags=(fl, sq)))
            for it in ("s", "e", "l", "d"):
                body = [("for", "c", ("ipath", P(it)), [out("c"), text(","), out(P("c", "first")), text(";")], [text("none")])]
                yield (f"string-flags:{int(fl)}{int(sq)}:for-{it}", L.mk_case(body, args=data, flags=(fl, sq)))


# ====================================================================== the check

def string_flag_family(ck: Check) -> None:
    """size / first / last / indexes on STRINGS under the four combinations of the string_first_and_last and string_sequences
    feature flags (direct oracle; gen_string_flags puts the same flags under the model correspondence).  Documented: with string_first_and_last the first /
    last character, otherwise undefined; with string_sequences a string can be indexed; size is always the length; lists are not
    affected.  Sync and async must agree."""
    import liquid
    from ..core import run_async

    data = {"s": "hello", "e": "", "l": ["p", "q"], "d": {"first": "own"}}
    paths = ["s.first", "s.last", "s.size", "s[0]", "s[-1]", "s[9]", "e.first", "e.last", "e.size", "l.first", "l.last", "l.size", "d.first",
             "s['first']", 's["last"]']
    for fl in (False, True):
        for seq in (False, True):
            env = type("Env", (liquid.Environment,), {"string_first_and_last": fl, "string_sequences": seq})()
            for pth in paths:
                src = "[{{ " + pth + " }}]"
                t = env.from_string(src)
                try:
                    s_ = ("out", t.render(**data))
                except Exception as e:  # noqa: BLE001
                    s_ = ("err", classify_exc(e))
                try:
                    a_ = ("out", run_async(t.render_async(**data)))
                except Exception as e:  # noqa: BLE001
                    a_ = ("err", classify_exc(e))
                want = None
                base = pth.replace("['first']", ".first").replace('["last"]', ".last")
                if base in ("s.first", "s.last"):
                    want = ("h" if base.endswith("first") else "o") if fl else ""
                elif base in ("e.first", "e.last"):
                    want = ""
                elif base in ("s.size", "e.size", "l.size"):
                    want = {"s": "5", "e": "0", "l": "2"}[base[0]]
                elif base in ("l.first", "l.last"):
                    want = "p" if base.endswith("first") else "q"
                elif base == "d.first":
                    want = "own"
                elif base in ("s[0]", "s[-1]", "s[9]"):
                    want = {"s[0]": "h", "s[-1]": "o", "s[9]": ""}[base] if seq else ""
                ck.note_case(("string-flags", fl, seq, pth))
                ck.count("string-flags")
                if s_ != a_ or (want is not None and s_ != ("out", f"[{want}]")):
                    ck.violation("impl-violation", f"string-flags:{pth}:{int(fl)}{int(seq)}",
                                 f"{src!r} with string_first_and_last={fl} string_sequences={seq} data {data!r}: sync={s_} async={a_} documented=[{want}]",
                                 {"type": "string-flags", "template": src, "first_and_last": fl, "sequences": seq, "data": data,
                                  "sync": s_, "async": a_, "reference": want})


def deep_nesting_family(ck: Check) -> None:
    """Bracketed paths nested two and three levels deep (a[b[c]], a[b[c[d]]].x, a[b[c].k][d[e]]): outside the model's segment type
    (one level of nesting), so judged by the reference resolver only -- the innermost path is resolved first, its value is the
    subscript of the next one out, at every level with the same scope rules.  Sync and async must agree."""
    import liquid
    from ..core import run_async

    data = {"users": {"u1": {"name": "ann"}, "u2": {"name": "bob"}}, "ids": ["u2", "u1"], "i": 1, "j": 0, "pick": {"a": 0, "b": 1},
            "keys": {"k": "b", "z": "nosuch"}, "rows": [[10, 11], [20, 21]], "idx": [1, 0], "n": {"m": {"o": 1}}, "zero": 0}

    def val(e):
        """e = ('v', root, [seg...]) with seg = str key | int index | nested e."""
        obj = data.get(e[1], UNDEF)
        for sg in e[2]:
            key = val(sg) if isinstance(sg, tuple) else sg
            if key is UNDEF or isinstance(key, (dict, list)):
                return UNDEF
            obj = ref_item(obj, key)
        return obj

    def src(e):
        out_ = e[1]
        for sg in e[2]:
            out_ += "[" + src(sg) + "]" if isinstance(sg, tuple) else ("[" + str(sg) + "]" if isinstance(sg, int) else "." + sg)
        return out_

    V = lambda root, *segs: ("v", root, list(segs))  # noqa: E731, N806
    exprs = [
        V("users", V("ids", V("i")), "name"), V("users", V("ids", V("j")), "name"), V("users", V("ids", V("idx", V("i"))), "name"),
        V("users", V("ids", V("idx", V("idx", V("zero")))), "name"), V("rows", V("pick", V("keys", "k")), "last"),
        V("rows", V("pick", V("keys", "k")), V("idx", V("j"))), V("rows", V("idx", V("pick", V("keys", "k"))), V("idx", V("pick", "a"))),
        V("rows", V("pick", V("keys", "z")), "first"), V("users", V("ids", V("nosuch")), "name"), V("users", V("ids", V("n", "m", "o")), "name"),
        V("ids", V("idx", V("n", "m", "o"))), V("rows", V("n", "m", "o"), V("idx", V("idx", V("i")))),
        V("users", V("ids", V("pick", V("keys", "k"))), "name", "size"), V("rows", V("idx", V("idx", V("idx", V("i"))))),
    ]
    env = liquid.Environment()
    for e in exprs:
        for tmpl in ("[{{ X }}]", "{% assign q = X %}[{{ q }}]", "{% if X %}[{{ X }}]{% else %}[]{% endif %}", "{% for r in (1..2) %}[{{ X }}]{% endfor %}"):
            text_ = tmpl.replace("X", src(e))
            v = val(e)
            shown = "" if v is UNDEF else ("".join(str(x) for x in v) if isinstance(v, list) else str(v))
            want = ("out", ("[" + shown + "]") * (2 if tmpl.startswith("{% for") else 1))
            if v is UNDEF and tmpl.startswith("{% if"):
                want = ("out", "[]")
            res = []
            for use_async in (False, True):
                try:
                    t = env.from_string(text_)
                    res.append(("out", run_async(t.render_async(**data)) if use_async else t.render(**data)))
                except Exception as ex:  # noqa: BLE001
                    res.append(("err", classify_exc(ex)))
            ck.note_case(("deep-nesting", text_))
            ck.count("deep-nesting")
            ck.traces += 2
            if res[0] != want or res[1] != want:
                ck.violation("impl-violation", f"deep-nested-path:{src(e)}",
                             f"{text_!r} with {data!r}: sync {res[0]} async {res[1]}; resolving the innermost path first gives {want}",
                             {"type": "deep-nesting", "template": text_, "data": data, "reference": list(want)})


def run(ck: Check) -> None:  # noqa: PLR0912, PLR0915
    ck.rule = (
        "nests: every order of 1..3 binding constructs out of {for, with (literal / variable argument), include with arguments, include "
        "with..as, render with arguments, render for..as, macro+call, capture, if}, each binding one of x,y,z (seeded choice), with an "
        "assign/increment/decrement statement and probes of x,y,z at every level, the four global layers (render arguments, front matter, "
        "template globals, environment globals) populated independently per name (at most one isolated construct per nest: nested "
        "partials belong to C15); layers: one name x every subset of the four layers x locals/counters/with/for in front; builtin "
        "now/today against counters, globals and locals; errors and interrupts (missing partial, type error, break, continue) at depth "
        "0..3 of seeded nests in lax and strict mode; paths: every root x every sequence of 0..2 segments out of 28 (quick: a seeded 40% of the 2-segment ones) (names, size/first/"
        "last, indexes incl. negative and out of range, nested variables) exhaustively plus seeded 3-segment paths, each in dotted, "
        "single- and double-quoted bracket notation, under the default and the strict undefined type. Non-trivial = the template binds "
        "a probed name (nests), has a populated layer (layers) or the path has at least one segment; distinct = distinct case. "
        "string flags: 6 string/list/hash roots x 14 segments (first/last/size/name, indexes in and out of range, nested variables) x "
        "{nothing, .size, [0]} after it x two notations (quick: nothing after it, dotted), and for loops over a string, an empty string, a list and a hash, under the four "
        "combinations of string_first_and_last / string_sequences (model correspondence and reference resolver)."
    )
    ck.exhaustive = not ck.quick   # quick samples the depth-3 nesting orders; everything else is enumerated
    ck.trusted_base = [
        "Coq 8.16.1 kernel + vm_compute",
        "harness: generators, Liquid/Gallina printers (scope_lib.py), reference resolver (props/c14.py)",
        "modelled not verified: Python dict order and str()/repr() of containers, ReadOnlyChainMap/deque, contextmanager "
        "try/finally, the expression parser for the generated subset, datetime (now/today are an opaque truthy object)",
    ]
    ck.assumptions = [
        "the names partial, forloop, args, kwargs are reserved by the engine and not bound by generated templates",
        "strings are ASCII letters/digits; the forloop object is read through index/first/last/length only and never stored",
        "resource limits (context depth, loop iterations, local namespace) are at their defaults and not reached",
    ]
    ck.proof()
    deep_nesting_family(ck)
    L.STRINGS.reset()

    # ------------------------------------------------------------- templates (nests, layers, interrupts)
    cases, expected, meta = [], [], []
    reported = 0

    def one(sig, case, nontrivial=True):
        nonlocal reported
        s = L.render_case(case, False)
        a = L.render_case(case, True)
        want = reference(case)
        ck.note_case((sig, L.case_json(case)), nontrivial=nontrivial)
        ck.count(sig.split(":")[0] + "." + ("err" if s[0] == "err" else "ok"))
        ck.traces += 1
        bad = s != a or (want is not None and s != want)
        if bad and reported < 8:
            reported += 1
            ck.violation("impl-violation", sig, f"{L.case_sources(case)} args {case['args']} matter {case['matter']} tglobals "
                         f"{case['tglobals']} eglobals {case['eglobals']}: sync={s} async={a} documented={want}",
                         {"type": "template", "case": L.case_json(case), "sync": s, "async": a, "reference": want})
        cases.append(L.g_case(case))
        expected.append(L.g_obs(s))
        meta.append((sig, case, s, bad))
        return s

    for sig, case in gen_nests(ck):
        one(sig, case)
    for sig, case in gen_layers():
        one(sig, case, nontrivial=any(case[k] for k in ("args", "matter", "tglobals", "eglobals")) or "builtin" in sig or sig == "counters")
    for sig, case in gen_falsy_shadow():
        one(sig, case)
    string_flag_family(ck)
    for sig, case in gen_string_flags(ck.quick):
        one(sig, case)
    for sig, case, pre0, pre1 in gen_interrupts(ck):
        s = one(sig, case)
        if case["mode"] == "lax":
            # metamorphic oracle: the failing construct leaves no trace in the scopes, so the probes after it print what
            # the probes before it printed
            if not lax_scopes_ok(s, L.render_case(pre0, False), L.render_case(pre1, False)):
                ck.violation("impl-violation", sig + ":scopes-after-error",
                             f"{L.case_sources(case)}: lax output {s} does not end with the probe values printed before the failing construct",
                             {"type": "template", "case": L.case_json(case), "sync": s, "async": s, "reference": None,
                              "pre0": L.case_json(pre0), "pre1": L.case_json(pre1)})
    ck.sample({"template": L.case_sources(meta[len(meta) // 3][1]), "output": meta[len(meta) // 3][2]})

    # ------------------------------------------------------------- paths
    batches = {"default": [], "strict": []}
    reported_p = nerr = 0
    for root, segs in gen_paths(ck):
        sty = styled(segs, ck.rng)
        p = ("path", root, sty)
        sig = "path:" + root + ":" + ".".join(seg_class(s) for s in segs)
        uk = "strict" if ck.rng.random() < 0.25 else "default"
        case = L.mk_case([out(p)], args=DATA, uk=uk)
        s = L.render_case(case, False)
        a = L.render_case(case, True)
        want = ref_path(root, segs, uk)
        forms = {f: L.render_case(L.mk_case([out(("path", root, styled(segs, None, f)))], args=DATA, uk=uk), False) for f in ("dot", "sq", "dq")}
        ck.note_case(("path", root, segs, uk), nontrivial=bool(segs))
        ck.count(f"path.len{len(segs) + 1}.{uk}")
        ck.traces += 1
        bad = s != a or (want is not None and s != want) or any(v != s for v in forms.values())
        if bad and reported_p < 8:
            reported_p += 1
            ck.violation("impl-violation", sig, f"{{{{ {L.path_src(p)} }}}} ({uk}): sync={s} async={a} documented={want} notations={forms}",
                         {"type": "path", "case": L.case_json(case), "sync": s, "async": a, "reference": want,
                          "forms": {f: L.path_src(("path", root, styled(segs, None, f))) for f in ("dot", "sq", "dq")}})
        if s[0] == "out":
            b = batches[uk]
            b.append((p, s[1]))
            if len(b) == 8:
                flush(b, cases, expected, meta, uk)
                batches[uk] = []
        else:
            nerr += 1
            if nerr % 5 == 0 or bad:      # every failing path is judged by the oracle above; one in five also goes to the model
                cases.append(L.g_case(case))
                expected.append(L.g_obs(s))
                meta.append((sig, case, s, bad))
    for uk, b in batches.items():
        if b:
            flush(b, cases, expected, meta, uk)

    # ------------------------------------------------------------- model correspondence
    import time as _t
    ck.extra["python_phase_s"] = round(_t.time() - ck.t0, 1)
    chunk = max(60, -(-len(cases) // 4))
    mm = ck.coq_mismatches("scope", L.IMPORTS, "run_case", "res_str_eqb", "case", "res str", cases, expected, chunk=chunk,
                           preamble=L.STRINGS.preamble())
    shown = 0
    for i in mm:
        sig, case, s, bad = meta[i]
        if bad or shown >= 3:
            continue
        shown += 1
        model = ck.coq_eval(L.IMPORTS, [f"run_case {L.g_case(case)}"], preamble=L.STRINGS.preamble())[0]
        ck.violation("correspondence", "c14-scope-correspondence",
                     f"model Scope.run_case and the implementation disagree on {L.case_sources(case)} ({sig})",
                     {"type": "template", "case": L.case_json(case), "impl": s, "model": model,
                      "broken": "correspondence Scope.run_case ~ template rendering (theorems C14_*)"}, no_input=True)


def lax_scopes_ok(s, p0, p1):
    if not (s[0] == "out" and p0[0] == "out" and p1[0] == "out" and p1[1].startswith(p0[1])):
        return False
    probe = p1[1][len(p0[1]):]
    return s[1].startswith(p1[1]) and s[1].endswith(probe) and len(s[1]) >= len(p1[1]) + len(probe)


def flush(batch, cases, expected, meta, uk="default"):
    body = []
    for i, (p, _) in enumerate(batch):
        if i:
            body.append(text("|"))
        body.append(out(p))
    case = L.mk_case(body, args=DATA, uk=uk)
    s = L.render_case(case, False)
    cases.append(L.g_case(case))
    expected.append(L.g_obs(s))
    meta.append(("path-batch", case, s, s != ("out", "|".join(o for _, o in batch))))


def replay(data) -> int:
    case = data["case"]
    if case.get("type") == "deep-nesting":
        import liquid
        from ..core import run_async
        t = liquid.Environment().from_string(case["template"])
        outs = []
        for use_async in (False, True):
            try:
                outs.append(("out", run_async(t.render_async(**case["data"])) if use_async else t.render(**case["data"])))
            except Exception as e:  # noqa: BLE001
                outs.append(("err", classify_exc(e)))
        print("template:", case["template"], "data:", case["data"])
        print("sync :", outs[0], "async:", outs[1], "documented:", tuple(case["reference"]))
        bad = outs[0] != tuple(case["reference"]) or outs[1] != tuple(case["reference"])
        print(("VIOLATION reproduced" if bad else "not reproduced") + f" property={data['property']}")
        return 1 if bad else 0
    if case.get("type") not in ("template", "path"):
        print("replay names a proof/correspondence obligation:", case)
        return 1
    d = case["case"]
    s = L.render_json(d, False)
    a = L.render_json(d, True)
    print("template:", d["template"], "partials:", d["partials"])
    print("args:", d["args"], "matter:", d["matter"], "tglobals:", d["tglobals"], "eglobals:", d["eglobals"], d["mode"], d["uk"])
    print("sync :", s)
    print("async:", a)
    want = case.get("reference")
    want = tuple(want) if want else None
    print("documented:", want)
    bad = s != a or (want is not None and s != want)
    if case.get("pre1"):
        p0, p1 = L.render_json(case["pre0"], False), L.render_json(case["pre1"], False)
        print("up to the failing construct:", p1)
        bad = bad or not lax_scopes_ok(s, p0, p1)
    if case.get("forms"):
        for f, src in case["forms"].items():
            r = L.render_sources("{{ " + src + " }}", {}, d["args"], {}, {}, {}, d["mode"], d["uk"], False)
            print(f"  {f}: {src} -> {r}")
            bad = bad or r != s
    print(("VIOLATION reproduced" if bad else "not reproduced") + f" property={data['property']}")
    return 1 if bad else 0
