"""C22 — Template loaders never read outside their search paths.

A sandbox tree is built under the check's work directory: search roots with templates, symlinks that leave the
roots (to a file, to a directory), a loop, a dangling link, and decoy files outside.  Every generated name is
requested from every loader variant (sync and async); the oracle looks only at the outcome (content inside the
root / TemplateNotFoundError); the Coq model LoaderPath.run_case is given what stat/realpath say about the
candidate locations and must predict the location returned or the error class.
"""

from __future__ import annotations

import errno
import itertools
import os
import stat as statmod
import sys

from ..core import Check, classify_exc, run_async
from ..g import g_bool, g_list, g_opt, g_str

IMPORTS = "LoaderPath"
PKG = "c22pkg"


# ----------------------------------------------------------------------------- sandbox
class Sandbox:
    def __init__(self, workdir):
        self.top = os.path.join(workdir, "c22sb")
        t = self.top
        self.files = {}

        def w(rel, text):
            p = os.path.join(t, rel)
            os.makedirs(os.path.dirname(p), exist_ok=True)
            with open(p, "w", encoding="utf-8") as f:
                f.write(text)
            self.files[rel] = text

        for rel in ["root/index.liquid", "root/index.txt", "root/noext", "root/a", "root/sub/page.liquid",
                    "root/sub/deep/x.liquid", "root/é.liquid", "root/.hidden", "root/...liquid", "root/a..liquid",
                    "root/dir.liquid/inner.liquid", "root2/other.liquid", "root2/index.liquid",
                    f"{PKG}/templates/index.liquid", f"{PKG}/templates/sub/page.liquid", f"{PKG}/templates/noext",
                    f"{PKG}/other/other.liquid"]:
            w(rel, "IN:" + rel)
        w(f"{PKG}/__init__.py", "")
        for rel in ["outside/secret.liquid", "outside/index.liquid"]:
            w(rel, "LINKED:" + rel)          # reachable through symlinks placed inside the roots
        for rel in ["decoy/secret.liquid", "decoy/index.liquid", "secret.liquid", "index.liquid", "rootx/index.liquid"]:
            w(rel, "DECOY:" + rel)           # never linked from inside a root
        os.symlink("../outside/secret.liquid", os.path.join(t, "root/link.liquid"))
        os.symlink("index.liquid", os.path.join(t, "root/inlink.liquid"))
        os.symlink("../outside", os.path.join(t, "root/linkdir"))
        os.symlink("loop", os.path.join(t, "root/loop"))
        os.symlink("nonexistent", os.path.join(t, "root/dangling.liquid"))
        os.symlink("root", os.path.join(t, "rootlink"))
        os.symlink("../../outside/secret.liquid", os.path.join(t, f"{PKG}/templates/link.liquid"))
        # links into a SIBLING whose name starts with the root's name (root -> rootx): "is it under the root" must be decided on
        # path components, not on a string prefix
        w("rootx/sib.liquid", "LINKED:rootx/sib.liquid")
        os.symlink("../rootx/sib.liquid", os.path.join(t, "root/siblink.liquid"))
        os.symlink("../rootx", os.path.join(t, "root/sibdir"))
        if t not in sys.path:
            sys.path.insert(0, t)
        sys.modules.pop(PKG, None)
        self._allowed = {}

    def base(self, rel):
        return os.path.join(self.top, rel)

    def allowed(self, bases, reject):
        """Contents of the regular files inside the search directories: found by walking them; a symlink placed
        inside a root counts as inside unless symlink rejection is on and it resolves outside the root."""
        key = (tuple(bases), reject)
        if key not in self._allowed:
            out = set()
            for b in bases:
                rb = os.path.realpath(b)
                seen = set()
                for d, dirs, files in os.walk(b, followlinks=True):
                    rd = os.path.realpath(d)
                    if rd in seen:
                        dirs[:] = []
                        continue
                    seen.add(rd)
                    for f in files:
                        p = os.path.join(d, f)
                        if not os.path.isfile(p):
                            continue
                        rp = os.path.realpath(p)
                        if reject and not (rp == rb or rp.startswith(rb + os.sep)):
                            continue
                        with open(p, encoding="utf-8") as fd:
                            out.add(fd.read())
            self._allowed[key] = out
        return self._allowed[key]


# ----------------------------------------------------------------------------- loaders
# loader spec: ("fs" | "cfs" | "pkg", ext, reject, bases)  -- bases: tuple of directories relative to the sandbox
def make_loader(sb, spec):
    from liquid import CachingFileSystemLoader, FileSystemLoader, PackageLoader

    kind, ext, reject, bases = spec
    if kind == "fs":
        return FileSystemLoader([sb.base(b) for b in bases], ext=ext, reject_symlinks=reject)
    if kind == "cfs":
        return CachingFileSystemLoader([sb.base(b) for b in bases], ext=ext, reject_symlinks=reject, capacity=50)
    rel = [b[len(PKG) + 1:] for b in bases]
    return PackageLoader(PKG, package_path=rel[0] if len(rel) == 1 else rel, ext=ext)


def observe(env, name, use_async):
    try:
        t = run_async(env.get_template_async(name)) if use_async else env.get_template(name)
        return ("found", str(t.path), t.render())
    except Exception as e:  # noqa: BLE001
        return ("err", classify_exc(e))


def name_class(name):
    parts = name.split("/")
    if name.startswith("/"):
        return "absolute"
    if ".." in parts:
        return "pardir"
    if not [p for p in parts if p not in ("", ".")]:
        return "empty"
    if any(len(p.encode("utf-8", "surrogatepass")) > 240 for p in parts) or len(name) > 3000:
        return "long"
    if any(ord(c) < 32 or ord(c) == 127 for c in name):
        return "control"
    if any(ord(c) > 127 for c in name):
        return "unicode"
    return "plain"


# ----------------------------------------------------------------------------- what the OS says (for the model)
def stat_kind(path):
    try:
        st = os.stat(path)
    except ValueError:
        return "SMissing"
    except OSError as e:
        return "SMissing" if e.errno in (errno.ENOENT, errno.ENOTDIR, errno.EBADF, errno.ELOOP) else "SErr"
    return "SFile" if statmod.S_ISREG(st.st_mode) else "SDir"


def parts_of(path):
    return [p for p in path.split("/") if p]


def view_for(sb, spec, name):
    """stat for the candidate locations of `name` under every base (with and without the default extension on the
    last component), realpath for the bases and for the candidates that are files."""
    _kind, ext, _reject, bases = spec
    comps = [p for p in name.split("/") if p not in ("", ".")]
    variants = [comps]
    if comps and ext:
        variants.append(comps[:-1] + [comps[-1] + ext])
    stats, reals = [], []
    for b in bases:
        bp = sb.base(b)
        reals.append((parts_of(bp), parts_of(os.path.realpath(bp))))
        for v in variants:
            q = bp + "".join("/" + c for c in v)
            k = stat_kind(q)
            if k != "SMissing":
                stats.append((parts_of(bp) + v, k))
            if k == "SFile":
                reals.append((parts_of(bp) + v, parts_of(os.path.realpath(q))))
    return stats, reals


def g_path(parts, intern):
    return g_list(intern(p) for p in parts)


class StrIntern:
    """Long or repeated strings become preamble definitions."""

    def __init__(self):
        self.ids, self.defs = {}, []

    def __call__(self, s):
        if len(s) <= 3:
            return g_str(s)
        i = self.ids.get(s)
        if i is None:
            i = self.ids[s] = f"s{len(self.ids)}"
            self.defs.append(f"Definition {i} : str := {g_str(s)}.")
        return i


def g_case(sb, spec, name, intern):
    kind, ext, reject, bases = spec
    stats, reals = view_for(sb, spec, name)
    gs = g_list(f"({g_path(p, intern)}, {k})" for p, k in stats)
    gr = g_list(f"({g_path(p, intern)}, Some {g_path(r, intern)})" for p, r in reals)
    if kind == "pkg":
        loader = f"KPkg {intern(ext)}"
    else:
        loader = f"KFs {{| f_ext := {g_opt(ext or None, intern)}; f_reject := {g_bool(reject)} |}}"
    gb = g_list(g_path(parts_of(sb.base(b)), intern) for b in bases)
    return (f"{{| c_loader := {loader}; c_view := {{| v_stat := {gs}; v_real := {gr} |}}; c_bases := {gb}; "
            f"c_name := {intern(name)} |}}")


def g_obs(o, intern):
    if o[0] == "found":
        return f"OFound {g_path(parts_of(o[1]), intern)}"
    return f"OErr {o[1]}"


# ----------------------------------------------------------------------------- names
LONG255, LONG256, LONG248 = "a" * 255, "b" * 256, "c" * 248
POOL_SMALL = ["", ".", "..", "a", "sub", "index", "index.liquid", "page", "secret.liquid", "decoy", "outside",
              "link.liquid", "linkdir", "dir.liquid", "root", "templates", "siblink.liquid", "sibdir", "sib.liquid"]
POOL = POOL_SMALL + ["deep", "index.txt", "page.liquid", "x.liquid", "link", "inlink", "inlink.liquid", "loop", "dangling",
                     "dangling.liquid", "dir", "...", "..a", ".hidden", "a.", "noext", "other", "other.liquid", "é",
                     "é.liquid", "日本", "a\x00b", "\x00", "\n", "a\tb", "\x7f", "\udc80", "\ud800", " ",
                     "rootx", "rootlink", PKG, "c:", "a\\b", "..\\..", LONG255, LONG256, LONG248]
PREFIXES = ["", "/", "//", "///"]
TRAILS = ["", "/"]


def spell(comps, prefix, trail):
    return prefix + "/".join(comps) + trail


def gen_names(ck: Check, sb: Sandbox):
    seen = set()

    def emit(n):
        if n not in seen:
            seen.add(n)
            return True
        return False

    for c in POOL:
        for pre in PREFIXES:
            for tr in TRAILS:
                n = spell([c], pre, tr)
                if emit(n):
                    yield "single", n
    pool2 = POOL_SMALL if ck.quick else POOL_SMALL + ["deep", "x.liquid", "inlink.liquid", "loop", "...", "a\x00b", LONG256]
    for a, b in itertools.product(pool2, repeat=2):
        for pre in ("", "/") if ck.quick else PREFIXES:
            for tr in TRAILS:
                if pre and tr and ck.quick:
                    continue
                n = spell([a, b], pre, tr)
                if emit(n):
                    yield "pair", n
    if not ck.quick:
        for a, b, c in itertools.product(POOL_SMALL[:12], repeat=3):
            for pre in ("", "/"):
                n = spell([a, b, c], pre, "")
                if emit(n):
                    yield "triple", n
    # respellings of names that do resolve: '.', '//' and trailing separators inserted, the extension dropped
    good = ["index.liquid", "index.txt", "noext", "a", "sub/page.liquid", "sub/deep/x.liquid", "é.liquid", ".hidden", "other.liquid",
            "link.liquid", "inlink.liquid", "linkdir/secret.liquid", "linkdir/index.liquid", "dir.liquid/inner.liquid", "a..liquid",
            "...liquid", "dangling.liquid", "loop"]
    for g in good:
        comps = g.split("/")
        stems = comps[:-1] + [comps[-1].rsplit(".", 1)[0]] if "." in comps[-1][1:] else comps
        for cs in (comps, stems):
            for sep in ("/", "//", "/./", "/../"):
                for pre in ("", "./", "/", "sub/../", "x/../"):
                    for tr in ("", "/", "/."):
                        n = pre + sep.join(cs) + tr
                        if emit(n):
                            yield "respelled", n
    # absolute names of real files (inside and outside the roots), the classic traversal spellings, over-long paths
    special = [sb.base("decoy/secret.liquid"), sb.base("decoy/secret"), sb.base("root/index.liquid"), sb.base("root/index"),
               sb.base(f"{PKG}/templates/index.liquid"), "/" + sb.base("decoy/secret.liquid"), "//" + sb.base("decoy/secret.liquid"),
               "/etc/hostname", "/etc/passwd", "../secret.liquid", "../decoy/secret.liquid", "sub/../../secret.liquid",
               "sub/../index.liquid", "sub/./page.liquid", "./index.liquid", "sub//page.liquid", "linkdir/secret.liquid",
               "linkdir/../decoy/secret.liquid", "linkdir/index", "index.liquid/", "index.liquid/.", "index.liquid/..",
               "index.liquid/x", "dir.liquid/inner.liquid", "dir.liquid/inner", "....//....//secret.liquid", "..%2fsecret.liquid",
               "%2e%2e/secret.liquid", "~/secret.liquid", "~", "$HOME", "sub/" * 900 + "page", (LONG248 + "/") * 20 + "index",
               LONG248 + ".liquid", LONG248 + ".liquidx", "index" + "." * 250, "." * 255, "." * 300, "index.liquid\x00.txt",
               "\x00/index.liquid", "index\x00", "\ud800/index", "index.liq\udc80uid"]
    for n in special:
        if emit(n):
            yield "special", n
    rng = ck.rng
    for _ in range(400 if ck.quick else 3000):
        k = rng.randrange(1, 7)
        n = spell([rng.choice(POOL) for _ in range(k)], rng.choice(PREFIXES), rng.choice(TRAILS))
        if emit(n):
            yield "random", n


def loader_specs(ck: Check):
    """-> (specs every name is tried on, specs sampled per name)."""
    r1, r12, rl = ("root",), ("root", "root2"), ("rootlink",)
    pk1, pk2 = (f"{PKG}/templates",), (f"{PKG}/templates", f"{PKG}/other")
    always = [("fs", None, False, r1), ("fs", ".liquid", True, r12), ("cfs", ".liquid", False, rl), ("pkg", ".liquid", False, pk1)]
    sampled = [("fs", e, rj, b) for e in (None, ".liquid", ".txt") for rj in (False, True) for b in (r1, r12, rl)]
    sampled += [("cfs", e, rj, b) for e in (None, ".liquid") for rj in (False, True) for b in (r1, r12)]
    sampled += [("pkg", e, False, b) for e in (".liquid", ".txt", "") for b in (pk1, pk2)]
    sampled = [s for s in sampled if s not in always]
    return always, sampled


# ----------------------------------------------------------------------------- the check
def verdict(sb, spec, obs):
    """The property, on the outcome alone: content of a file inside the search directories, or TemplateNotFoundError."""
    _kind, _ext, reject, bases = spec
    if obs[0] == "found":
        return None if obs[2] in sb.allowed([sb.base(b) for b in bases], reject) else "content-from-outside"
    return None if obs[1] == "ENotFound" else "exception-" + obs[1]


def _swap_once(workdir, kind, reject, what, use_async):
    """One environment, two requests for the same name; between them the file (or its directory) inside the search path is replaced
    by a symbolic link to a place outside it.  -> (first, second) observations."""
    import shutil

    from liquid import Environment

    top = os.path.join(workdir, f"c22swap-{kind}-{int(reject)}-{what}-{int(use_async)}")
    os.makedirs(os.path.join(top, "root", "d"))
    os.makedirs(os.path.join(top, "outside", "d"))
    for rel, text in (("root/swap.liquid", "IN:swap"), ("root/d/page.liquid", "IN:d/page"), ("outside/swap.liquid", "OUTSIDE:swap"),
                      ("outside/d/page.liquid", "OUTSIDE:d/page")):
        with open(os.path.join(top, rel), "w", encoding="utf-8") as f:
            f.write(text)
    sb = type("S", (), {"base": staticmethod(lambda b: os.path.join(top, b))})
    env = Environment(loader=make_loader(sb, (kind, ".liquid", reject, ("root",))))
    name = "swap.liquid" if what == "file" else "d/page.liquid"
    first = observe(env, name, use_async)
    if what == "file":
        os.remove(os.path.join(top, "root", "swap.liquid"))
        os.symlink("../outside/swap.liquid", os.path.join(top, "root", "swap.liquid"))
    else:
        shutil.rmtree(os.path.join(top, "root", "d"))
        os.symlink("../outside/d", os.path.join(top, "root", "d"))
    second = observe(env, name, use_async)
    shutil.rmtree(top, ignore_errors=True)
    return first, second


def swap_family(ck: Check, workdir) -> None:
    """The search path changes between two requests of one loader: a template file, or the directory it is in, is replaced by a
    symbolic link pointing outside the search path.  With reject_symlinks the second request must not hand out the outside file
    (whatever the loader remembered from the first one); without it the link is followed, as for any link inside the path
    (oracle only: the sandbox of the model is fixed for a run)."""
    for kind in ("fs", "cfs"):
        for reject in (True, False):
            for what in ("file", "dir"):
                for use_async in (False, True):
                    first, second = _swap_once(workdir, kind, reject, what, use_async)
                    ck.note_case(("swap", kind, reject, what, use_async), nontrivial=True)
                    ck.count("swap." + second[0])
                    ck.traces += 2
                    bad = None
                    if first[0] != "found" or not first[2].startswith("IN:"):
                        bad = f"the first request (regular file inside the search path) gives {first}"
                    elif reject and second[0] == "found" and second[2].startswith("OUTSIDE:"):
                        bad = f"after the {what} was replaced by a symbolic link to outside the search path, the second request returns {second}"
                    elif not reject and second[0] == "found" and not second[2].startswith(("OUTSIDE:", "IN:")):
                        bad = f"second request returns {second}"
                    if bad:
                        ck.violation("impl-violation", f"c22:{kind}:content-from-outside:swapped-{what}",
                                     f"{kind} loader (reject_symlinks={reject}, {'async' if use_async else 'sync'}): {bad}",
                                     {"type": "swap", "loader": kind, "reject": reject, "what": what, "async": use_async,
                                      "first": list(first), "second": list(second)})


def run(ck: Check) -> None:
    ck.rule = (
        "template names built from a pool of 54 components (separators, '', '.', '..', names of files, directories, symlinks "
        "leaving the root, a loop, a dangling link, decoys, NUL/control characters, unicode, lone surrogates, components of 248/255/256 "
        "characters) x prefixes '', '/', '//', '///' x optional trailing '/': every single component, every pair over 16 (thorough: 23) "
        "components, (thorough) every triple over 12, about 45 hand-written traversal spellings and absolute names of real files, "
        "paths beyond PATH_MAX, and seeded random names of 1..6 components; each requested through get_template and "
        "get_template_async from FileSystemLoader, CachingFileSystemLoader and PackageLoader (4 configurations always, 30 more sampled: "
        "ext None/.liquid/.txt, reject_symlinks on/off, one or two search paths, a search path that is itself a symlink). "
        "Non-trivial = the name is not refused before the file system is consulted; distinct = distinct (loader configuration, name)."
    )
    ck.exhaustive = True
    ck.trusted_base = [
        "Coq 8.16.1 kernel + vm_compute",
        "harness: sandbox builder, name generators, Gallina printers, the outcome oracle (walk of the search directories), "
        "the stat/realpath probe handed to the model (props/c22.py)",
        "modelled not verified: pathlib.PurePosixPath parsing/suffix/with_suffix/joinpath (Python 3.12, POSIX), which errno values "
        "pathlib swallows; NOT modelled: the operating system (stat, symlink resolution, ENAMETOOLONG limits) -- its answers are "
        "inputs of each model case",
    ]
    ck.assumptions = [
        "POSIX path flavour; the sandbox does not change during the run (no races between the existence check and the read)",
        "files are readable and UTF-8; the default extension is a valid suffix (the loaders' constructors check it)",
        "without reject_symlinks a symlink placed inside a search directory counts as inside it (documented default)",
    ]
    ck.proof()

    from liquid import Environment

    swap_family(ck, ck.workdir)
    sb = Sandbox(ck.workdir)
    always, sampled = loader_specs(ck)
    envs = {}

    def env_of(spec):
        if spec not in envs:
            envs[spec] = Environment(loader=make_loader(sb, spec))
        return envs[spec]

    meta = []
    seen_sig = set()
    for cls, name in gen_names(ck, sb):
        specs = list(always) + ([ck.rng.choice(sampled)] if ck.quick else ck.rng.sample(sampled, 2))
        for spec in specs:
            env = env_of(spec)
            s = observe(env, name, False)
            a = observe(env, name, True)
            ck.note_case((spec, name), nontrivial=not (s[0] == "err" and name_class(name) in ("absolute", "pardir", "empty")))
            ck.count(f"{spec[0]}.{cls}.{name_class(name)}.{s[0] if s[0] == 'found' else s[1]}")
            ck.traces += 2
            explained = False
            for mode, o in (("sync", s), ("async", a)):
                bad = verdict(sb, spec, o)
                if bad:
                    explained = True
                    sig = f"c22:{spec[0]}:{bad}:{name_class(name)}"
                    if (sig, mode) not in seen_sig and len(seen_sig) < 40:
                        seen_sig.add((sig, mode))
                        ck.violation(
                            "impl-violation", sig,
                            f"{spec[0]} loader (ext={spec[1]!r}, reject_symlinks={spec[2]}, search={spec[3]}) {mode} request for "
                            f"{name[:120]!r}{'...' if len(name) > 120 else ''}: {o if o[0] == 'err' else (o[0], o[1][-60:], o[2])} ({bad})",
                            {"type": "name", "spec": list(spec), "name": name, "mode": mode, "outcome": list(o), "bad": bad})
            if s != a and not explained:
                explained = True
                if ("sync-async", spec[0]) not in seen_sig:
                    seen_sig.add(("sync-async", spec[0]))
                    ck.violation("impl-violation", f"c22:{spec[0]}:sync-async-differ:{name_class(name)}",
                                 f"{spec} name {name[:120]!r}: sync {s} async {a}",
                                 {"type": "name", "spec": list(spec), "name": name, "mode": "both", "outcome": [list(s), list(a)],
                                  "bad": "sync-async-differ"})
            meta.append((spec, name, s, explained))
    ck.sample({"loader": meta[len(meta) // 3][0], "name": meta[len(meta) // 3][1][:80], "outcome": meta[len(meta) // 3][2]})
    ck.sample({"loader": meta[-1][0], "name": meta[-1][1][:80], "outcome": meta[-1][2]})

    # the model on the same cases.  One Coq file per chunk, each with its own table of strings (a shared table would
    # put every name of the run into every file).
    import concurrent.futures

    size = 1200
    chunks = [(lo, meta[lo:lo + size]) for lo in range(0, len(meta), size)]

    def model_chunk(arg):
        lo, part = arg
        intern = StrIntern()
        cases = [g_case(sb, spec, name, intern) for spec, name, _s, _e in part]
        expected = [g_obs(s, intern) for _spec, _name, s, _e in part]
        mm = ck.coq_mismatches(f"names{lo}", IMPORTS, "run_case", "obs_eqb", "case", "obs", cases, expected,
                               chunk=len(cases), preamble="\n".join(intern.defs))
        return [lo + i for i in mm]

    with concurrent.futures.ThreadPoolExecutor(max_workers=8) as ex:
        mm = sorted(i for part in ex.map(model_chunk, chunks) for i in part)
    ck.model_cases = len(meta)
    ck.extra["model_mismatches"] = len(mm)
    for i in [j for j in mm if not meta[j][3]][:3]:
        spec, name, s, _ = meta[i]
        i2 = StrIntern()
        term = f"run_case ({g_case(sb, spec, name, i2)})"
        model = ck.coq_eval(IMPORTS, [term], preamble="\n".join(i2.defs))[0]
        ck.violation(
            "correspondence", "c22-name-correspondence",
            f"model LoaderPath.run_case and the {spec[0]} loader disagree on {spec} name {name[:120]!r}: loader {s}",
            {"type": "name", "spec": list(spec), "name": name, "impl": list(s), "model": model[:400],
             "broken": "correspondence LoaderPath.run_case ~ FileSystemLoader.resolve_path / PackageLoader._resolve_path "
                       "(theorems C22_*)"},
            no_input=True)


def replay(data) -> int:
    case = data["case"]
    if case.get("type") == "swap":
        import shutil
        import tempfile

        from ..core import WORK
        os.makedirs(WORK, exist_ok=True)
        tmp = tempfile.mkdtemp(prefix="C22-replay-", dir=WORK)
        try:
            first, second = _swap_once(tmp, case["loader"], case["reject"], case["what"], case["async"])
        finally:
            shutil.rmtree(tmp, ignore_errors=True)
        print("first request:", first, "\nafter the swap :", second)
        bad = case["reject"] and second[0] == "found" and second[2].startswith("OUTSIDE:")
        print(("VIOLATION reproduced" if bad else "not reproduced") + f" property={data['property']}")
        return 1 if bad else 0
    if case.get("type") != "name" or "outcome" not in case:
        print("replay names a proof/correspondence obligation:", {k: str(v)[:200] for k, v in case.items()})
        return 1
    import shutil
    import tempfile

    from liquid import Environment

    from ..core import WORK

    os.makedirs(WORK, exist_ok=True)
    tmp = tempfile.mkdtemp(prefix="C22-replay-", dir=WORK)
    try:
        sb = Sandbox(tmp)
        spec = tuple(tuple(x) if isinstance(x, list) else x for x in case["spec"])
        name = case["name"]
        # absolute names recorded in a replay file point into the sandbox of the original run: re-anchor them
        marker = "/c22sb/"
        if marker in name:
            head, tail = name.split(marker, 1)
            lead = head[: len(head) - len(head.lstrip("/"))]      # "/" , "//" ... in front of the original sandbox path
            name = lead[:-1] + sb.top + "/" + tail
        env = Environment(loader=make_loader(sb, spec))
        bad = None
        for mode in (False, True):
            o = observe(env, name, mode)
            print("async" if mode else "sync ", spec, repr(name[:150]), "->", o if o[0] == "err" else (o[0], o[1][-60:], o[2]))
            bad = bad or verdict(sb, spec, o)
        print(("VIOLATION reproduced" if bad else "not reproduced") + f" property={data['property']}" + (f" ({bad})" if bad else ""))
        return 1 if bad else 0
    finally:
        sys.modules.pop(PKG, None)
        if sb.top in sys.path:
            sys.path.remove(sb.top)
        shutil.rmtree(tmp, ignore_errors=True)
