"""Shared by C10 / C11 / C20: template generator over (text, markup) segments, concrete-syntax printer parametric in
the delimiters, the documented rendering of such a template (oracle), Gallina printers for Lex.v cases."""

from __future__ import annotations

import os
import re

from .. import core
from ..g import g_str

if os.environ.get("VERIF_JOBS"):  # development only: share the machine with other builders
    core.NCPU = max(1, int(os.environ["VERIF_JOBS"]))

DEFAULT = ("{%", "%}", "{{", "}}", "{#", "#}")

KIND = {"content": "KContent", "output": "KOutput", "expression": "KExpr", "tag": "KTag", "COMMENT": "KShort",
        "comment": "KComment", "doc": "KDoc"}


def make_env(d=DEFAULT, comments=True, **kw):
    from liquid import Environment

    return Environment(tag_start_string=d[0], tag_end_string=d[1], statement_start_string=d[2],
                       statement_end_string=d[3], template_comments=comments, comment_start_string=d[4],
                       comment_end_string=d[5], **kw)


# ------------------------------------------------------------------ templates as segments
# template = ([(text, markup), ...], final_text)
# markup:
#   ("out", l, w1, q, e, w2, r)                       ss[-]w1 q e q w2[-]se
#   ("echo", l, w1, w2, q, e, w3, r)                  ts[-]w1 echo w2 q e q w3[-]te
#   ("inline", l, w1, w2, body, w3, r)                ts[-]w1 # w2 body w3[-]te
#   (k, l1, w1, w2, r1, body, l2, w3, w4, r2)         k in raw/doc/comment:  ts[-]w1 k w2[-]te body ts[-]w3 endk w4[-]te
#   ("short", l, body, r)                             cs[-]body[-]ce
def hy(b):
    return "-" if b else ""


def markup_src(d, m):
    ts, te, ss, se, cs, ce = d
    k = m[0]
    if k == "out":
        _, l, w1, q, e, w2, r = m
        return f"{ss}{hy(l)}{w1}{q}{e}{q}{w2}{hy(r)}{se}"
    if k == "echo":
        _, l, w1, w2, q, e, w3, r = m
        return f"{ts}{hy(l)}{w1}echo{w2}{q}{e}{q}{w3}{hy(r)}{te}"
    if k == "inline":
        _, l, w1, w2, body, w3, r = m
        return f"{ts}{hy(l)}{w1}#{w2}{body}{w3}{hy(r)}{te}"
    if k in ("raw", "doc", "comment"):
        _, l1, w1, w2, r1, body, l2, w3, w4, r2 = m
        return f"{ts}{hy(l1)}{w1}{k}{w2}{hy(r1)}{te}{body}{ts}{hy(l2)}{w3}end{k}{w4}{hy(r2)}{te}"
    if k == "short":
        _, l, body, r = m
        return f"{cs}{hy(l)}{body}{hy(r)}{ce}"
    if k == "liquid":
        _, l, w1, lines, w2, r = m
        return f"{ts}{hy(l)}{w1}liquid" + "".join("\n" + ind + ln for ind, ln, _ in lines) + f"{w2}{hy(r)}{te}"
    raise ValueError(k)


def build(d, tpl):
    segs, tail = tpl
    return "".join(t + markup_src(d, m) for t, m in segs) + tail


def opens_with_hyphen(m):
    return m[1]


def closes_with_hyphen(m):
    return m[-1]


def markup_out(m):
    """What the markup itself writes: output/echo of a string literal writes the string; a raw block writes its
    body verbatim; comments, doc and inline comments write nothing."""
    if m[0] == "out":
        return m[4]
    if m[0] == "echo":
        return m[5]
    if m[0] == "raw":
        return m[5]
    if m[0] == "liquid":
        return "".join(o for _, _, o in m[3])
    return ""


def spec_render(tpl):
    """The documented rendering: text verbatim, except that whitespace is removed at the start of a text iff the
    closing delimiter before it carries a hyphen and at its end iff the opening delimiter after it carries one."""
    segs, tail = tpl
    out = []
    prev = False
    for t, m in segs:
        if prev:
            t = t.lstrip()
        if opens_with_hyphen(m):
            t = t.rstrip()
        out.append(t)
        out.append(markup_out(m))
        prev = closes_with_hyphen(m)
    out.append(tail.lstrip() if prev else tail)
    return "".join(out)


def canonical(tpl):
    return repr(tpl)


# ------------------------------------------------------------------ enumeration
PADS = ["", " ", "  ", "\n", " \t"]
TEXTS = ["", " ", "\n ", "a", " a ", " a\n", "a\n"]
TEXTS_MARKUPLIKE = ["{", "%}", "{ {", "}}", "-", "#}", " } ", "a-", "{ %", "\n\n", " \n", "%", "#", "b {"]
RAW_BODIES = ["", " x ", "{{ y }}", "\n", " {% if %} ", "{% endcomment %}", "{#", " -"]
COMMENT_BODIES = ["", " c ", "{{ y }}", " {% if x %} ", "{# z #}", "\n"]
DOC_BODIES = ["", " d ", "{{ y }}", "{% doc %}", "\n"]
SHORT_BODIES = ["", " s ", "s", "{{ y }}", "\n"]
INLINE_BODIES = ["", "c", "c c", "a-b", "# x"]
LITS = ["", "x", " ", "x y", "{", "%"]


def _shapes():
    B = [False, True]
    out = []
    for l in B:
        for r in B:
            for k in ("out", "echo", "inline", "short", "liquid"):
                out.append((k, (l, r)))
    for k in ("raw", "doc", "comment"):
        for fl in [(a, b, c, e) for a in B for b in B for c in B for e in B]:
            out.append((k, fl))
    return out


SHAPES = _shapes()   # every markup kind x every combination of its whitespace-control markers (68)
LIQUID_LINES = [("echo 'p'", "p"), ("echo \"q r\"", "q r"), ("# note", ""), ("echo ''", ""), ("comment\n zz\n endcomment", "")]
_BODIES = {"raw": RAW_BODIES, "doc": DOC_BODIES, "comment": COMMENT_BODIES}


def inst(rng, shape):
    """A markup of the given kind and markers; paddings, bodies and quotes drawn at random from small sets."""
    k, fl = shape

    def pad():
        return rng.choice(PADS)

    if k == "out":
        return ("out", fl[0], pad(), rng.choice("'\""), rng.choice(LITS), pad(), fl[1])
    if k == "echo":
        return ("echo", fl[0], pad(), pad(), rng.choice("'\""), rng.choice(LITS), pad(), fl[1])
    if k == "inline":
        return ("inline", fl[0], pad(), pad(), rng.choice(INLINE_BODIES), pad(), fl[1])
    if k == "short":
        return ("short", fl[0], rng.choice(SHORT_BODIES), fl[1])
    if k == "liquid":
        lines = [(rng.choice(["", " ", "  ", "\t"]),) + rng.choice(LIQUID_LINES) for _ in range(rng.randrange(0, 4))]
        return ("liquid", fl[0], pad(), lines, rng.choice(["", " ", "\n", "\n "]), fl[1])
    return (k, fl[0], pad(), pad(), fl[1], rng.choice(_BODIES[k]), fl[2], pad(), pad(), fl[3])


def all_markups(rng):
    return [fix_markup(inst(rng, sh)) for sh in SHAPES]


def rand_markup(rng):
    return fix_markup(inst(rng, rng.choice(SHAPES)))


def fix_markup(m):
    """Keep the generated markup unambiguous: a shorthand comment whose body would supply or swallow a marker
    is normalised (the hyphen right after the opening delimiter IS the left marker)."""
    if m[0] == "short":
        _, l, body, r = m
        if body == "" and (l or r):
            body = "s"
        return ("short", l, body, r)
    if m[0] == "inline":
        _, l, w1, w2, body, w3, r = m
        if body.endswith("-") and not w3:
            w3 = " "
        return ("inline", l, w1, w2, body, w3, r)
    return m


# ------------------------------------------------------------------ running the engine
def real_tokens(env, src):
    try:
        return [(t.kind, t.value, t.start_index) for t in env.tokenizer()(src)]
    except Exception as e:  # noqa: BLE001
        return core.classify_exc(e)


def real_render(env, src, use_async=False):
    try:
        t = env.from_string(src)
        return ("out", core.run_async(t.render_async()) if use_async else t.render())
    except Exception as e:  # noqa: BLE001
        return ("err", core.classify_exc(e))


_LIT = re.compile(r"""^(?:'[^'\\]*'|"[^"\\]*")$""")
_PLAIN_TAGS = {"#", "comment", "endcomment", "doc", "enddoc", "raw", "endraw", "x", ""}


def in_fragment(tokens):
    """Is the token stream inside the fragment the model's renderer covers (decided on the engine's tokens)?"""
    if not isinstance(tokens, list):
        return True  # lexer error: the model predicts the error class
    i = 0
    n = len(tokens)
    while i < n:
        k, v, _ = tokens[i]
        if k == "output":
            if i + 1 >= n or tokens[i + 1][0] != "expression" or not _LIT.match(tokens[i + 1][1]):
                return False
            i += 2
            continue
        if k == "tag":
            if v == "echo":
                if i + 1 >= n or tokens[i + 1][0] != "expression" or not _LIT.match(tokens[i + 1][1]):
                    return False
                i += 2
                continue
            if v not in _PLAIN_TAGS:
                return False
        i += 1
    return True


# ------------------------------------------------------------------ Gallina
def g_delims(d):
    if tuple(d) == DEFAULT:
        return "default_delims"
    return ("{| d_ts := %s; d_te := %s; d_ss := %s; d_se := %s; d_cs := %s; d_ce := %s |}" % tuple(g_str(x) for x in d))


def g_lexcase(d, src, old=False):
    return f"{{| lc_d := {g_delims(d)}; lc_old := {'true' if old else 'false'}; lc_src := {g_str(src)} |}}"


def g_tokens(toks):
    if not isinstance(toks, list):
        return f"Err {toks}"
    return "Ok [" + "; ".join(f"T {KIND[k]} {g_str(v)} {s}%N" for k, v, s in toks) + "]"


def g_robs(r):
    return f"ROut {g_str(r[1])}" if r[0] == "out" else f"RErr {r[1]}"


PREAMBLE = "Definition T := Build_token."


def g_markup(m):
    b = lambda x: "true" if x else "false"  # noqa: E731
    k = m[0]
    if k == "out":
        _, l, w1, q, e, w2, r = m
        return f"MkOut {b(l)} {g_str(w1)} {ord(q)}%N {g_str(e)} {g_str(w2)} {b(r)}"
    if k == "echo":
        _, l, w1, w2, q, e, w3, r = m
        return f"MkEcho {b(l)} {g_str(w1)} {g_str(w2)} {ord(q)}%N {g_str(e)} {g_str(w3)} {b(r)}"
    if k == "inline":
        _, l, w1, w2, body, w3, r = m
        return f"MkInline {b(l)} {g_str(w1)} {g_str(w2)} {g_str(body)} {g_str(w3)} {b(r)}"
    if k == "short":
        _, l, body, r = m
        return f"MkShort {b(l)} {g_str(body)} {b(r)}"
    if k == "liquid":
        raise ValueError("liquid markup has no LexSpec constructor")
    _, l1, w1, w2, r1, body, l2, w3, w4, r2 = m
    c = {"raw": "MkRaw", "doc": "MkDoc", "comment": "MkComment"}[k]
    return f"{c} {b(l1)} {g_str(w1)} {g_str(w2)} {b(r1)} {g_str(body)} {b(l2)} {g_str(w3)} {g_str(w4)} {b(r2)}"


def g_template(tpl):
    segs, tail = tpl
    return "([" + "; ".join(f"({g_str(t)}, {g_markup(m)})" for t, m in segs) + f"], {g_str(tail)})"
