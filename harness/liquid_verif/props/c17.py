"""C17 — Rendering is pure and independent of history.

Three implementation-side experiments and their Coq counterparts:

1. history: a sequence of render jobs (same/different templates, environments created explicitly or through
   liquid.Template, data with equal-but-distinct values) is run in ONE process that has rendered nothing before
   (a fork of a helper that has only imported liquid); every job of the sequence is also run ALONE in such a
   process.  Oracle: the two outputs (text or exception class) are equal.  The Coq model MemoPurity.run_proc (the memo
   tables in front of the fresh-process behaviour) predicts the in-sequence outputs.
2. mutation: around every render the data is deep-copied and compared afterwards (types, values, order, and that
   every nested container is still the same object), and str(template) / analyze() are compared.
3. effects: every modelled array filter is called on small heaps of list objects and the identity of what it hands
   back (the input object, the argument object, an element, a new object) is compared with MemoPurity.run_effect.
"""

from __future__ import annotations

import itertools
import json
import os
import subprocess
import sys
import threading

from ..core import Check
from ..g import g_N, g_Z, g_bool, g_list, g_nat, g_opt, g_str

IMPORTS = "MemoPurity"

# --------------------------------------------------------------------------------------------- typed values
# spec: ["none"] | ["bool", b] | ["int", n] | ["float", x] | ["dec", "1"] | ["str", s] | ["markup", s]
#       | ["dt", utc_minutes, offset_minutes] | ["list", [spec…]] | ["dict", [[key, spec]…]]


def decode(spec):
    import datetime
    import decimal

    t = spec[0]
    if t == "none":
        return None
    if t in ("bool", "int", "float", "str"):
        return spec[1]
    if t == "dec":
        return decimal.Decimal(spec[1])
    if t == "markup":
        from markupsafe import Markup

        return Markup(spec[1])
    if t == "dt":
        tz = datetime.timezone(datetime.timedelta(minutes=spec[2]))
        return datetime.datetime.fromtimestamp(spec[1] * 60, tz=datetime.timezone.utc).astimezone(tz)
    if t == "list":
        return [decode(x) for x in spec[1]]
    if t == "dict":
        return {k: decode(v) for k, v in spec[1]}
    raise ValueError(spec)


def g_pv(spec):
    t = spec[0]
    if t == "none":
        return "PNone"
    if t == "bool":
        return f"PBool {g_bool(spec[1])}"
    if t == "int":
        return f"PInt {g_Z(spec[1])}"
    if t == "float":
        tw = spec[1] * 2
        assert tw == int(tw)
        return f"PFloat {g_Z(int(tw))}"
    if t == "dec":
        return f"PDec {g_Z(int(spec[1]))}"
    if t == "str":
        return f"PStr {g_str(spec[1])}"
    if t == "markup":
        return f"PMarkup {g_str(spec[1])}"
    if t == "dt":
        return f"PDt {g_Z(spec[1])} {g_Z(spec[2])}"
    raise ValueError(spec)


def py_eq_spec(a, b):
    """Python == on two scalar specs (what the harness needs to close the fresh table under key collisions)."""
    try:
        return decode(a) == decode(b) and hash(decode(a)) == hash(decode(b))
    except TypeError:
        return False


# ------------------------------------------------------------------------------------------------- job pools
DEFAULT_DELIMS = ["{%", "%}", "{{", "}}", "{#", "#}"]
DELIMS = [
    DEFAULT_DELIMS,
    ["<%", "%>", "<<", ">>", "<#", "#>"],
    ["[%", "%]", "[[", "]]", "[#", "#]"],
    ["{%", "%}", "${", "}", "{#", "#}"],
    ["<?", "?>", "{{", "}}", "{#", "#}"],
]
TOLERANCE = ["STRICT", "LAX", "WARN"]
UNDEFINED = ["Undefined", "StrictUndefined", "DebugUndefined"]
FLAG_NAMES = ["extra", "tolerance", "undefined", "strict_filters", "autoescape", "template_comments"]

PARTIALS = {
    "p": "(p:{{ x }}:{% increment c %})",
    "dir/q": "(q:{{ q }}:{% cycle 'a', 'b' %})",
    "base": "<{% block b %}base{% endblock %}|{% block c %}c{% endblock %}>",
}

# templates are written with the default delimiters; other delimiters are substituted textually
TEMPLATES = [
    ("text", "plain text"),
    ("out", "{{ x }}|{{ s }}|{{ n }}|{{ f }}|{{ nosuch }}"),
    ("cycle", "{% for i in xs %}{% cycle 'a', 'b', 'c' %}{% endfor %}|{% cycle 'a', 'b', 'c' %}"),
    ("counter", "{% increment c %}{% increment c %}{% decrement d %}{{ c }}{{ d }}"),
    ("ifchanged", "{% for i in ys %}{% ifchanged %}{{ i }}{% endifchanged %}{% endfor %}"),
    ("continue", "{% for i in ys limit: 2 %}{{ i }}{% endfor %}|{% for i in ys offset: continue %}{{ i }}{% endfor %}"),
    ("assign", "{% assign x = 5 %}{% capture s %}c{{ x }}{% endcapture %}{{ x }}{{ s }}"),
    ("sort", "{{ ys | sort | join: ',' }}|{{ ys | join: ',' }}|{{ ys | reverse | first }}"),
    ("sortkey", "{{ items | sort: 'k' | map: 't' | join: ',' }}|{{ items | map: 'k' | join: ',' }}"),
    ("uniq", "{{ ys | uniq | join: ',' }}|{{ ys | compact | size }}|{{ mixed | uniq | join: ',' }}"),
    ("where", "{{ items | where: 'k', 1 | map: 't' | join: ',' }}|{{ items | where: 'k' | size }}"),
    ("concat", "{% assign z = nosuch | concat: ys %}{{ z | join: ',' }}|{{ ys | concat: xs | size }}|{{ xs | concat: ys | first }}"),
    ("default", "{% assign z = ys | default: xs %}{{ z | last }}|{{ e | default: ys | first }}|{{ n | default: x }}"),
    ("firstlast", "{{ nested | first | join: ',' }}|{{ nested | last | last }}|{{ nested.first.first }}|{{ d.first | join: '=' }}"),
    ("sum", "{{ ys | sum }}|{{ items | sum: 'k' }}|{{ ys | size }}|{{ ys | slice: 1, 2 | join: ',' }}"),
    ("tablerow", "{% tablerow i in ys cols: 2 %}{{ i }}{% endtablerow %}"),
    ("case", "{% case x %}{% when 1 %}one{% when true %}true{% when '1' %}str{% else %}other{% endcase %}"),
    ("ifeq", "{% if x == 1 %}a{% elsif x == true %}b{% elsif x %}c{% else %}d{% endif %}|{% unless x %}u{% endunless %}"),
    ("contains", "{% if mixed contains x %}in{% else %}out{% endif %}|{% if ys contains 2 %}y{% endif %}"),
    ("nestedfor", "{% for a in nested %}{% for b in a %}{{ forloop.parentloop.index }}{{ b }}{% endfor %}{% endfor %}"),
    ("include", "{% include 'p' %}{% include 'p' %}{{ c }}|{% include 'dir/q' with x as q %}"),
    ("render", "{% render 'p', x: x %}{% render 'dir/q', q: 3 %}{% render 'dir/q' for ys as q %}"),
    ("datefixed", "{{ 86400 | date: '%Y-%m-%d' }}|{{ '2001-02-03 04:05' | date: '%H:%M %d/%m/%y' }}|{{ 'nodate' | date: '%Y' }}"),
    ("split", "{{ s | split: 'l' | join: '-' }}|{{ s | upcase | append: x }}|{{ s | size }}"),
    ("math", "{{ x | plus: 1 }}|{{ f | times: 2 }}|{{ x | divided_by: 2 }}|{{ 7 | modulo: 4 }}"),
    ("escape", "{{ h }}|{{ h | escape }}|{{ h | upcase }}"),
    ("comment", "a{% comment %}x{% endcomment %}b{# c #}d"),
    ("liquidtag", "{% liquid assign q = 2\n echo q\n echo x %}"),
    ("errfilter", "{{ x | nosuchfilter }}"),
    ("errtag", "{% nosuchtag %}x"),
    # extra tags (only parse when extra is true; otherwise an error, which must be the same error)
    ("macro", "{% macro m a, b: 2 %}[{{ a }}{{ b }}]{% endmacro %}{% call m 1 %}{% call m x, b: 3 %}"),
    ("with", "{% with q: x, r: ys %}{{ q }}{{ r | first }}{% endwith %}{{ q }}"),
    ("extends", "{% extends 'base' %}{% block b %}child{{ block.super }}{% endblock %}"),
    ("json", "{{ ys | json }}|{{ d | json }}"),
    ("ternary", "{{ 'a' if x else 'b' }}"),
]
TEMPLATE_INDEX = {name: i for i, (name, _) in enumerate(TEMPLATES)}


def base_data(x):
    return ["dict", [
        ["x", x],
        ["s", ["str", "hello"]],
        ["n", ["none"]],
        ["f", ["float", 1.5]],
        ["e", ["list", []]],
        ["h", ["str", "<b>&</b>"]],
        ["xs", ["list", [["int", 9], ["int", 8]]]],
        ["ys", ["list", [["int", 3], ["int", 1], ["int", 2], ["int", 1], ["none"], ["int", 3]]]],
        ["mixed", ["list", [["int", 1], ["bool", True], ["float", 1.0], ["str", "1"], ["int", 0], ["bool", False]]]],
        ["nested", ["list", [["list", [["int", 5], ["int", 4]]], ["list", [["int", 7], ["list", [["int", 6]]]]]]]],
        ["items", ["list", [
            ["dict", [["k", ["int", 2]], ["t", ["str", "b"]]]],
            ["dict", [["k", ["int", 1]], ["t", ["str", "a"]]]],
            ["dict", [["k", ["bool", True]], ["t", ["str", "c"]]]],
            ["dict", [["t", ["str", "nokey"]]]],
        ]]],
        ["d", ["dict", [["a", ["int", 1]], ["b", ["list", [["int", 2]]]]]]],
    ]]


XVALUES = [["int", 1], ["bool", True], ["float", 1.0], ["dec", "1"], ["str", "1"], ["int", 0], ["bool", False],
           ["none"], ["int", 2]]
DATA = [base_data(x) for x in XVALUES]

# date filter arguments: equal-but-distinct families
DATE_LEFT = [
    ["int", 1], ["bool", True], ["float", 1.0], ["dec", "1"], ["str", "1"], ["markup", "1"],
    ["int", 0], ["bool", False], ["float", 0.0],
    ["int", 86400], ["float", 86400.0], ["float", 1.5],
    ["dt", 26297280, 0], ["dt", 26297280, 300], ["dt", 26297280, -480], ["dt", 26297281, 0],
    ["str", "2001-02-03 04:05"], ["markup", "2001-02-03 04:05"], ["str", "March 1, 2021"], ["str", "hello"],
    ["markup", "<i>x</i>"], ["str", "<i>x</i>"], ["none"],
]
DATE_FMT = [
    ["str", "%Y"], ["markup", "%Y"], ["str", "%H:%M"], ["str", "<b>%Y</b>"], ["markup", "<b>%Y</b>"],
    ["str", "%d/%m/%y %z"], ["str", "%j"], ["str", "%A"], ["str", "%B"], ["str", "%S"], ["str", "%m"], ["str", "%y"],
    ["str", "%H"], ["str", "%M"], ["str", "%p"], ["str", "%U"],
]
DATE_TEMPLATE = "[{{ x | date: f }}]"


def subst_delims(src, delims):
    if delims == DEFAULT_DELIMS:
        return src
    out = src
    # two passes through private-use placeholders so that replacements cannot overlap
    for i, d in enumerate(DEFAULT_DELIMS):
        out = out.replace(d, chr(0xE000 + i))
    for i, d in enumerate(delims):
        out = out.replace(chr(0xE000 + i), d)
    return out


# ------------------------------------------------------------------------------------------ running one job
class Proc:
    """What one process keeps between jobs: explicit environments by identity, parsed templates."""

    def __init__(self):
        self.envs = {}
        self.templates = {}


def flag_values(job):
    import liquid

    fl = dict(zip(FLAG_NAMES, job["flags"]))
    return dict(
        extra=decode(fl["extra"]),
        tolerance=getattr(liquid.Mode, TOLERANCE[fl["tolerance"][1]]),
        undefined=getattr(liquid, UNDEFINED[fl["undefined"][1]]),
        strict_filters=decode(fl["strict_filters"]),
        autoescape=decode(fl["autoescape"]),
        template_comments=decode(fl["template_comments"]),
    )


def delim_kwargs(job):
    d = job["delims"]
    return dict(tag_start_string=d[0], tag_end_string=d[1], statement_start_string=d[2], statement_end_string=d[3],
                comment_start_string=d[4], comment_end_string=d[5])


def job_source(job):
    if job.get("date") is not None:
        return subst_delims(DATE_TEMPLATE, job["delims"])
    return subst_delims(TEMPLATES[job["tmpl"]][1], job["delims"])


def job_data(job):
    if job.get("date") is not None:
        return {"x": decode(job["date"][0]), "f": decode(job["date"][1])}
    return decode(DATA[job["data"]])


def snap(v, memo):
    """Typed, order- and aliasing-sensitive picture of a value."""
    if isinstance(v, (list, tuple)):
        i = memo.setdefault(id(v), len(memo))
        return (type(v).__name__, i, tuple(snap(x, memo) for x in v))
    if isinstance(v, dict):
        i = memo.setdefault(id(v), len(memo))
        return ("dict", i, tuple((snap(k, memo), snap(x, memo)) for k, x in v.items()))
    return (type(v).__name__, repr(v))


def containers(v, path, out):
    if isinstance(v, (list, tuple)):
        out.append((path, id(v)))
        for i, x in enumerate(v):
            containers(x, path + (i,), out)
    elif isinstance(v, dict):
        out.append((path, id(v)))
        for k, x in v.items():
            containers(x, path + (k,), out)
    return out


def span_picture(sp):
    return tuple(getattr(sp, f, None) for f in ("template_name", "start", "index") if hasattr(sp, f))


def analysis_of(a):
    def vmap(m):
        return sorted((k, sorted((str(v), span_picture(v.span)) for v in vs)) for k, vs in m.items())

    def smap(m):
        return sorted((k, sorted(span_picture(sp) for sp in sps)) for k, sps in m.items())

    return ("ok", vmap(a.variables), vmap(a.globals), vmap(a.locals), smap(a.filters), smap(a.tags))


def analysis_picture(t):
    from ..core import classify_exc

    try:
        return analysis_of(t.analyze())
    except Exception as e:  # noqa: BLE001
        return ("err", classify_exc(e))


def run_job(proc: Proc, job, check_purity=True):
    """Run one job in this process.  Returns {"r": ["out", text] | ["err", class], "mut": None | description}."""
    import copy
    import warnings

    import liquid
    from ..core import classify_exc, run_async

    mut = None
    try:
        with warnings.catch_warnings():
            warnings.simplefilter("ignore")
            src = job_source(job)
            if job["implicit"]:
                t = liquid.Template(src, **delim_kwargs(job), **flag_values(job))
            else:
                key = job["env"]
                env = proc.envs.get(key)
                if env is None:
                    env = liquid.Environment(loader=liquid.DictLoader(dict(PARTIALS) if job["delims"] == DEFAULT_DELIMS else
                                                                     {k: subst_delims(v, job["delims"]) for k, v in PARTIALS.items()}),
                                             **delim_kwargs(job), **flag_values(job))
                    proc.envs[key] = env
                tkey = (key, src)
                t = proc.templates.get(tkey)
                if t is None or not job.get("reuse", True):
                    t = env.from_string(src)
                    proc.templates[tkey] = t
            data = job_data(job)
            if check_purity:
                before = snap(copy.deepcopy(data), {})
                ids = containers(data, (), [])
                s0 = str(t)
                a0 = analysis_picture(t) if job.get("analyze") else None
            if job["mode"] == "async":
                out = run_async(t.render_async(**data))
            else:
                out = t.render(**data)
            r = ["out", out]
    except Exception as e:  # noqa: BLE001
        r = ["err", classify_exc(e)]
    try:
        if check_purity and "data" in locals() and "before" in locals():
            after = snap(data, {})
            if after != before:
                mut = "data changed: " + repr(before)[:300] + " -> " + repr(after)[:300]
            elif containers(data, (), []) != ids:
                mut = "a nested container of the data was replaced by another object"
            elif str(t) != s0:
                mut = "str(template) changed: " + s0[:200] + " -> " + str(t)[:200]
            elif a0 is not None and analysis_picture(t) != a0:
                mut = "analyze() changed after a render"
    except Exception as e:  # noqa: BLE001
        mut = "purity probe failed: " + repr(e)[:200]
    return {"r": r, "mut": mut}


# ------------------------------------------------------------------------------------------- helper process
def helper_main():
    """Reads one JSON request per line ({"jobs": [...]}); runs it in a fork that has rendered nothing before."""
    import liquid  # noqa: F401  (imported before forking: children start from the just-imported state)
    import liquid.extra  # noqa: F401
    import asyncio  # noqa: F401

    for line in sys.stdin:
        line = line.strip()
        if not line:
            continue
        req = json.loads(line)
        rfd, wfd = os.pipe()
        pid = os.fork()
        if pid == 0:
            os.close(rfd)
            try:
                proc = Proc()
                res = [run_job(proc, j, check_purity=req.get("purity", True)) for j in req["jobs"]]
                payload = json.dumps(res)
            except BaseException as e:  # noqa: BLE001
                payload = json.dumps({"helper_error": repr(e)})
            with os.fdopen(wfd, "w") as w:
                w.write(payload)
            os._exit(0)
        os.close(wfd)
        with os.fdopen(rfd) as r:
            payload = r.read()
        os.waitpid(pid, 0)
        sys.stdout.write(payload + "\n")
        sys.stdout.flush()


class Helper:
    def __init__(self):
        env = dict(os.environ)
        self.p = subprocess.Popen([sys.executable, "-m", "liquid_verif.props.c17", "--helper"], stdin=subprocess.PIPE,
                                  stdout=subprocess.PIPE, text=True, env=env)
        self.lock = threading.Lock()

    def request(self, jobs, purity=True):
        with self.lock:
            self.p.stdin.write(json.dumps({"jobs": jobs, "purity": purity}) + "\n")
            self.p.stdin.flush()
            line = self.p.stdout.readline()
        if not line:
            raise RuntimeError("C17 helper process died")
        res = json.loads(line)
        if isinstance(res, dict):
            raise RuntimeError("C17 helper: " + res.get("helper_error", "?"))
        return res

    def close(self):
        try:
            self.p.stdin.close()
            self.p.wait(timeout=10)
        except Exception:  # noqa: BLE001
            self.p.kill()


class Pool:
    def __init__(self, n=4):
        self.helpers = [Helper() for _ in range(n)]
        self.fresh_cache = {}

    def map(self, reqs, purity=True):
        import concurrent.futures

        def work(arg):
            i, jobs = arg
            return self.helpers[i % len(self.helpers)].request(jobs, purity)

        with concurrent.futures.ThreadPoolExecutor(max_workers=len(self.helpers)) as ex:
            return list(ex.map(work, list(enumerate(reqs))))

    def fresh(self, jobs):
        """Fresh-process result of every job (each alone), cached by the job's exact content."""
        keys = [json.dumps(canon(j), sort_keys=True) for j in jobs]
        todo = {}
        for k, j in zip(keys, jobs):
            if k not in self.fresh_cache and k not in todo:
                todo[k] = j
        if todo:
            ks = list(todo)
            res = self.map([[lone(todo[k])] for k in ks], purity=False)
            for k, r in zip(ks, res):
                self.fresh_cache[k] = r[0]["r"]
        return [self.fresh_cache[k] for k in keys]

    def close(self):
        for h in self.helpers:
            h.close()


def canon(job):
    """The part of a job that determines its fresh-process behaviour (explicit environment identities do not)."""
    j = {k: job[k] for k in ("implicit", "delims", "flags", "mode") if k in job}
    j["date"] = job.get("date")
    if job.get("date") is None:
        j["tmpl"] = job["tmpl"]
        j["data"] = job["data"]
    return j


def lone(job):
    j = dict(job)
    j["env"] = 0
    return j


# ------------------------------------------------------------------------------------------------ generators
def mk_flags(extra=("bool", False), tolerance=0, undefined=0, strict_filters=("bool", True), autoescape=("bool", False),
             template_comments=("bool", False)):
    return [list(extra), ["int", tolerance], ["int", undefined], list(strict_filters), list(autoescape), list(template_comments)]


TRUE_LIKE = [["bool", True], ["int", 1], ["float", 1.0]]
FALSE_LIKE = [["bool", False], ["int", 0], ["float", 0.0]]


def date_job(left, fmt, env=0, implicit=False, autoescape=("bool", False), mode="sync", delims=None):
    return {"implicit": implicit, "env": env, "delims": delims or DEFAULT_DELIMS, "flags": mk_flags(autoescape=autoescape),
            "date": [left, fmt], "mode": mode}


def tmpl_job(name, data, env=0, implicit=False, flags=None, mode="sync", delims=None, analyze=False):
    return {"implicit": implicit, "env": env, "delims": delims or DEFAULT_DELIMS, "flags": flags or mk_flags(),
            "date": None, "tmpl": TEMPLATE_INDEX[name], "data": data, "mode": mode, "analyze": analyze}


def targeted_sequences(ck: Check):
    """Histories aimed at the memo tables: equal-but-distinct keys in both orders, with and without fillers."""
    seqs = []
    fams = [
        [["int", 1], ["bool", True], ["float", 1.0], ["dec", "1"]],
        [["int", 0], ["bool", False], ["float", 0.0]],
        [["int", 86400], ["float", 86400.0]],
        [["dt", 26297280, 0], ["dt", 26297280, 300], ["dt", 26297280, -480]],
        [["str", "2001-02-03 04:05"], ["markup", "2001-02-03 04:05"]],
        [["str", "1"], ["markup", "1"], ["int", 1]],
        [["str", "<i>x</i>"], ["markup", "<i>x</i>"]],
        [["str", "hello"], ["str", "March 1, 2021"]],
    ]
    fmts = [["str", "%Y"], ["str", "%H:%M"], ["str", "%d/%m/%y %z"]]
    for fam in fams:
        for a, b in itertools.permutations(fam, 2):
            for fmt in fmts if not ck.quick else fmts[:2]:
                for mode in (("sync", "async") if not ck.quick or fam is fams[0] else ("sync",)):
                    seqs.append(("date-left", [date_job(a, fmt, mode=mode), date_job(b, fmt, mode=mode)]))
    # format collisions (str / Markup), autoescape on and off, implicit and explicit environments
    for f1, f2 in itertools.permutations([["str", "<b>%Y</b>"], ["markup", "<b>%Y</b>"]], 2):
        for ae in TRUE_LIKE[:2] + FALSE_LIKE[:1]:
            for implicit in (False, True):
                for left in (["int", 5], ["str", "2001-02-03 04:05"]):
                    seqs.append(("date-fmt", [date_job(left, f1, autoescape=ae, implicit=implicit),
                                              date_job(left, f2, autoescape=ae, implicit=implicit)]))
    # the same key in two environments (explicit identities 0 and 1; autoescape differs)
    for left in (["int", 5], ["markup", "<i>x</i>"]):
        seqs.append(("date-env", [date_job(left, ["markup", "<b>%Y</b>"], env=0, autoescape=("bool", True)),
                                  date_job(left, ["markup", "<b>%Y</b>"], env=1, autoescape=("bool", False)),
                                  date_job(left, ["markup", "<b>%Y</b>"], env=0, autoescape=("bool", True))]))
    # eviction boundary: k distinct keys between two colliding calls
    for k in ((9, 10, 11) if not ck.quick else (10,)):
        fill = [date_job(["int", 1000 + i], ["str", "%Y"]) for i in range(k)]
        seqs.append(("date-evict", [date_job(["int", 1], ["str", "%Y"])] + fill + [date_job(["float", 1.0], ["str", "%Y"])]))
        sfill = [date_job(["str", f"200{i % 10}-01-0{1 + i // 10}"], ["str", "%Y"]) for i in range(k)]
        seqs.append(("date-evict", [date_job(["str", "2001-02-03 04:05"], ["str", "%H"])] + sfill +
                     [date_job(["markup", "2001-02-03 04:05"], ["str", "%H"])]))
    # implicit environments whose arguments are equal but of different types, then more than ten configurations
    for name in ("out", "escape", "macro", "errfilter", "comment"):
        for a, b in itertools.permutations(TRUE_LIKE, 2):
            for flag in ("extra", "autoescape", "template_comments"):
                fa = mk_flags(**{flag: a})
                fb = mk_flags(**{flag: b})
                seqs.append(("implicit-eq", [tmpl_job(name, 0, implicit=True, flags=fa), tmpl_job(name, 0, implicit=True, flags=fb)]))
        for a, b in itertools.permutations(FALSE_LIKE, 2):
            fa = mk_flags(strict_filters=a)
            fb = mk_flags(strict_filters=b)
            seqs.append(("implicit-eq", [tmpl_job(name, 0, implicit=True, flags=fa), tmpl_job(name, 0, implicit=True, flags=fb)]))
    many = []
    for i, (d, tol, und) in enumerate(itertools.product(DELIMS[:4], range(3), range(2))):
        many.append(tmpl_job("out", i % len(DATA), implicit=True, delims=d, flags=mk_flags(tolerance=tol, undefined=und)))
    seqs.append(("implicit-many", many[:12] + many[:3]))
    if not ck.quick:
        seqs.append(("implicit-many", many + many[:12]))
    # lexers and parsers: environments with different delimiters created in interleaved order, same delimiters twice
    inter = []
    for i, d in enumerate(DELIMS + DELIMS[::-1]):
        inter.append(tmpl_job(["out", "cycle", "assign", "comment", "ifeq"][i % 5], i % len(DATA), env=i, delims=d,
                              flags=mk_flags(template_comments=("bool", i % 2 == 0), tolerance=i % 3)))
    seqs.append(("lexers", inter))
    seqs.append(("lexers", inter[::-1]))
    # the same parsed template rendered repeatedly with equal-but-distinct data, analysis in between
    for name, _ in TEMPLATES:
        seqs.append(("same-template", [tmpl_job(name, di, env=0, flags=mk_flags(extra=("bool", True)), analyze=(di == 1))
                                       for di in (0, 1, 2, 0)]))
    return seqs


def random_sequences(ck: Check, n, maxlen, npool, ncfg):
    """Sequences drawn from a per-run pool of distinct jobs (repetition is what exposes history)."""
    rng = ck.rng
    cfgs = []
    for _ in range(ncfg):
        cfgs.append(dict(
            delims=rng.choice(DELIMS) if rng.random() < 0.4 else DEFAULT_DELIMS,
            flags=mk_flags(extra=rng.choice(TRUE_LIKE + FALSE_LIKE), tolerance=rng.randrange(3), undefined=rng.randrange(3),
                           strict_filters=rng.choice(TRUE_LIKE + FALSE_LIKE), autoescape=rng.choice(TRUE_LIKE + FALSE_LIKE),
                           template_comments=rng.choice(TRUE_LIKE[:1] + FALSE_LIKE[:1]))))
    pool = []
    for _ in range(npool):
        e = rng.randrange(ncfg)
        implicit = rng.random() < 0.3
        mode = "async" if rng.random() < 0.4 else "sync"
        if rng.random() < 0.45:
            j = {"implicit": implicit, "env": e, "delims": cfgs[e]["delims"], "flags": cfgs[e]["flags"],
                 "date": [rng.choice(DATE_LEFT), rng.choice(DATE_FMT[:6] if rng.random() < 0.7 else DATE_FMT)], "mode": mode}
        else:
            j = {"implicit": implicit, "env": e, "delims": cfgs[e]["delims"], "flags": cfgs[e]["flags"], "date": None,
                 "tmpl": rng.randrange(len(TEMPLATES)), "data": rng.randrange(len(DATA)), "mode": mode,
                 "analyze": rng.random() < 0.15, "reuse": rng.random() < 0.7}
        pool.append(j)
    seqs = []
    for _ in range(n):
        seqs.append(("random", [dict(rng.choice(pool)) for _ in range(rng.randrange(2, maxlen + 1))]))
    return seqs


def make_sessions(seqs, per_session):
    """Concatenate sequences into sessions (one process each); explicit environment identities are made
    distinct per sequence.  Returns [(jobs, [(kind, start, stop)])]."""
    sessions, jobs, spans, base = [], [], [], 0
    for kind, seq in seqs:
        nenv = max(j["env"] for j in seq) + 1
        start = len(jobs)
        jobs.extend(dict(j, env=j["env"] + base) for j in seq)
        spans.append((kind, start, len(jobs)))
        base += nenv
        if len(jobs) >= per_session:
            sessions.append((jobs, spans))
            jobs, spans, base = [], [], 0
    if jobs:
        sessions.append((jobs, spans))
    return sessions


# ------------------------------------------------------------------------------------------------ Coq terms
class Intern:
    def __init__(self):
        self.t = {}

    def __call__(self, x):
        return self.t.setdefault(x, len(self.t))


def g_job(job, rest_id):
    date = "None" if job.get("date") is None else f"(Some ({g_pv(job['date'][0])}, {g_pv(job['date'][1])}))"
    return ("{| j_implicit := %s; j_env := %s; j_delims := %s; j_flags := %s; j_date := %s; j_day := 0%%Z; j_rest := %s |}" % (
        g_bool(job["implicit"]), g_N(0 if job["implicit"] else job["env"]),
        g_list(f"PStr {g_str(d)}" for d in job["delims"]), g_list(g_pv(f) for f in job["flags"]), date, g_N(rest_id)))


def g_res(r):
    return f"Ok {g_str(r[1])}" if r[0] == "out" else f"Err {r[1]}"


def rest_key(job):
    if job.get("date") is not None:
        return ("date", job["mode"])
    return (job["tmpl"], job["data"], job["mode"])


def closure_jobs(seq):
    """Jobs the model may look up besides the sequence's own: an implicit job with the configuration of an earlier
    implicit job whose arguments compare equal."""
    extra = []
    for i, j in enumerate(seq):
        if not j["implicit"]:
            continue
        for k in seq[:i]:
            if k["implicit"] and k["delims"] == j["delims"] and all(py_eq_spec(a, b) for a, b in zip(k["flags"], j["flags"])) \
                    and k["flags"] != j["flags"]:
                v = dict(j)
                v["flags"] = k["flags"]
                extra.append(v)
    return extra


def model_env_ids(seq):
    """In the model an explicit environment is identified by a number; implicit jobs use 0 and their table key."""
    return seq


# ------------------------------------------------------------------------------------------------ signatures
def type_tag(spec):
    return spec[0]


def history_signature(seq, idx):
    j = seq[idx]
    if j.get("date") is not None:
        left, fmt = j["date"]
        earlier = [k for k in seq[:idx] if k.get("date") is not None]
        partner = None
        for k in earlier:
            if py_eq_spec(k["date"][0], left) and py_eq_spec(k["date"][1], fmt):
                partner = k
        if partner is not None:
            a, b = sorted([type_tag(partner["date"][0]), type_tag(left)])
            fa, fb = sorted([type_tag(partner["date"][1]), type_tag(fmt)])
            kind = f"left {a}~{b}" if (a != b or a == "dt") else f"format {fa}~{fb}"
            return f"history:date:{kind}"
        return f"history:date:{type_tag(left)}/{type_tag(fmt)}"
    return "history:render:" + TEMPLATES[j["tmpl"]][0] + (":implicit" if j["implicit"] else "")


# ------------------------------------------------------------------------------------------------ effects
FOPS = [("FDefault", "default"), ("FFirst", "first"), ("FLast", "last"), ("FConcat", "concat"), ("FReverse", "reverse"),
        ("FSort", "sort"), ("FCompact", "compact"), ("FUniq", "uniq"), ("FSize", "size"), ("FJoin", "join")]
UNARY = {"FFirst", "FLast", "FReverse", "FSort", "FCompact", "FUniq", "FSize"}
# heaps: address -> cells; a cell is an int, None, or ("ref", address) with address smaller than its own (acyclic)
HEAPS = [
    [[1, 2], [3, None, 3], []],
    [[2, 1], [("ref", 0), 5], [("ref", 1), ("ref", 0)], [None]],
    [[], [("ref", 0)], [4, ("ref", 1), 4]],
]


def build_heap(h):
    objs = []
    for cells in h:
        objs.append([objs[c[1]] if isinstance(c, (tuple, list)) else c for c in cells])
    return objs


def g_cell(c):
    if c is None:
        return "CNil"
    if isinstance(c, (tuple, list)):
        return f"CRef {g_nat(c[1])}"
    return f"CNum {g_Z(c)}"


def g_value(v):
    if v[0] == "num":
        return f"VNum {g_Z(v[1])}"
    if v[0] == "list":
        return f"VList {g_nat(v[1])}"
    return {"nil": "VNil", "undef": "VUndef"}[v[0]]


def effect_cases():
    for hi, h in enumerate(HEAPS):
        vals = [("num", 7), ("nil",), ("undef",)] + [("list", a) for a in range(len(h))]
        for cname, fname in FOPS:
            for left in vals:
                for arg in ([("nil",)] if cname in UNARY else vals):
                    yield hi, h, cname, fname, left, arg


def run_effect_impl(env, h, cname, fname, left, arg):
    objs = build_heap(h)

    def val(v):
        if v[0] == "num":
            return v[1]
        if v[0] == "nil":
            return None
        if v[0] == "undef":
            return env.undefined("nosuch")
        return objs[v[1]]

    lv, av = val(left), val(arg)
    func = env.filters[fname]
    kwargs = {}
    if getattr(func, "with_environment", False):
        kwargs["environment"] = env
    before = snap(objs, {})
    try:
        r = func(lv, **kwargs) if cname in UNARY else func(lv, av, **kwargs)
    except Exception:  # noqa: BLE001
        return None, snap(objs, {}) != before
    changed = snap(objs, {}) != before
    if isinstance(r, (list, tuple)):
        if r is lv:
            return "AInput", changed
        if r is av:
            return "AArg", changed
        if any(r is o for o in objs):
            return "AElement", changed
        return "AFresh", changed
    return "AScalar", changed


# ------------------------------------------------------------------------------------------------------ run
# ------------------------------------------------------------------ locale-aware (babel) filters: history vs fresh process
BABEL_SCRIPT = r"""
import json, sys
from liquid import Environment
from liquid.extra.filters.babel import Currency, Number, Unit, DateTime
CLS = {"currency": Currency, "decimal": Number, "unit": Unit, "datetime": DateTime}
out = []
for job in json.load(sys.stdin):
    env = Environment()
    for name, kw in job["filters"].items():
        env.add_filter(name, CLS[name](**kw))
    try:
        out.append(["out", env.from_string(job["src"]).render(**job["data"])])
    except Exception as e:
        out.append(["err", type(e).__name__])
print(json.dumps(out))
"""


def babel_family(ck: Check) -> None:
    """The locale-aware filters of liquid.extra: a probe render after some history in a process must equal the same probe in a
    fresh process -- in particular when two filter instances with different fallback locales meet the same unknown or known
    locale identifier (oracle only; these filters are outside the Coq model)."""
    import json
    import subprocess
    import sys

    from ..core import REPO

    def run(jobs):
        r = subprocess.run([sys.executable, "-c", BABEL_SCRIPT], input=json.dumps(jobs), capture_output=True, text=True, timeout=120,
                           env={"PYTHONPATH": REPO, "PYTHONHASHSEED": "0", "PATH": "/usr/bin:/bin"})
        return json.loads(r.stdout) if r.returncode == 0 else [["err", "helper:" + r.stderr[-200:]]]

    tmpl = {"currency": "{{ 1234.5 | currency }}", "decimal": "{{ 1234.5 | decimal }}", "unit": "{{ 12 | unit: 'length-meter' }}",
            "datetime": "{{ '2001-02-03 04:05' | datetime }}"}
    seqs = []
    for name, src in tmpl.items():
        for loc in ("xx_XX", "de_DE", "nosuch", "fr"):
            a = {"filters": {name: {}}, "src": src, "data": {"locale": loc, "input_locale": loc}}
            b = {"filters": {name: {"default_locale": "de_DE"}}, "src": src, "data": {"locale": loc, "input_locale": loc}}
            c = {"filters": {name: {"default_locale": "ja_JP"}}, "src": src, "data": {"locale": loc}}
            seqs += [[a, b], [b, a], [a, c, b]]
    for seq in seqs:
        got = run(seq)
        alone = run([seq[-1]])
        ck.note_case(("babel", json.dumps(seq, sort_keys=True)))
        ck.count("babel.sequences")
        if got and alone and got[-1] != alone[-1]:
            ck.violation("impl-violation", "history:babel:" + next(iter(seq[-1]["filters"])) + ":" + seq[-1]["data"]["locale"],
                         f"after {len(seq) - 1} earlier render(s) in the same process {seq[-1]} gives {got[-1]} but {alone[-1]} in a process that "
                         f"has rendered nothing (history {seq[:-1]})",
                         {"type": "babel-history", "sequence": seq, "after_history": got[-1], "fresh": alone[-1]})


LOADER_SOURCES = {
    "flag": "{{ g }}|{% if g == true %}yes{% else %}no{% endif %}",
    "when": "{{ g | date: '%H:%M %z' }}",
    "inc": "[{% include 'flag' %}]",
}


def _loader_values():
    import datetime
    from decimal import Decimal

    from markupsafe import Markup

    utc = datetime.timezone.utc
    noon = datetime.datetime(2024, 5, 1, 12, 0, tzinfo=utc)
    return {"int1": 1, "true": True, "float1": 1.0, "dec1": Decimal(1), "str": "<b>", "markup": Markup("<b>"),
            "noon-utc": noon, "noon+2": noon.astimezone(datetime.timezone(datetime.timedelta(hours=2))), "list": [1], "list-true": [True]}


def _loader_request(env, name, vname, use_async):
    from ..core import classify_exc, run_async

    try:
        g = {"g": _loader_values()[vname]}
        t = run_async(env.get_template_async(name, globals=g)) if use_async else env.get_template(name, globals=g)
        return ["out", run_async(t.render_async()) if use_async else t.render()]
    except Exception as e:  # noqa: BLE001
        return ["err", classify_exc(e)]


def _loader_env(kind, autoescape):
    from liquid import CachingDictLoader, CachingChoiceLoader, DictLoader, Environment

    if kind == "caching-dict":
        loader = CachingDictLoader(dict(LOADER_SOURCES))
    else:
        loader = CachingChoiceLoader([DictLoader({}), DictLoader(dict(LOADER_SOURCES))])
    return Environment(loader=loader, autoescape=autoescape)


def loader_family(ck: Check) -> None:
    """History THROUGH A CACHING LOADER: one long-lived environment answers get_template(name, globals=...) requests whose globals
    compare equal but are different data (1 / True / 1.0 / Decimal(1); a str and its Markup twin; one instant in two time zones; [1]
    and [True]); every response must render what a brand-new environment renders for that request alone (oracle only; the Coq model
    covers the memo caches inside expressions and filters, not the loader caches -- those are C23's model)."""
    import itertools

    groups = [("flag", ["int1", "true", "float1", "dec1"]), ("inc", ["int1", "true", "float1"]), ("flag", ["str", "markup"]),
              ("when", ["noon-utc", "noon+2"]), ("flag", ["list", "list-true"])]
    for kind in ("caching-dict", "caching-choice"):
        for autoescape in (False, True):
            for name, vals in groups:
                for seq in itertools.permutations(vals, 2):
                    for use_async in (False, True):
                        env = _loader_env(kind, autoescape)
                        for i, v in enumerate(seq):
                            got = _loader_request(env, name, v, use_async)
                            want = _loader_request(_loader_env(kind, autoescape), name, v, use_async)
                            ck.count("loader.requests")
                            if got != want:
                                ck.violation(
                                    "impl-violation", f"history:loader-globals:{name}:{seq[i]}",
                                    f"{kind} loader (autoescape {autoescape}, {'async' if use_async else 'sync'}): get_template({name!r}, "
                                    f"globals={{'g': {v}}}) after the same request with g = {list(seq[:i])} renders {got}, but {want} in an "
                                    f"environment that has served nothing ({LOADER_SOURCES[name]!r})",
                                    {"type": "loader-history", "loader": kind, "autoescape": autoescape, "async": use_async, "name": name,
                                     "sequence": list(seq[: i + 1]), "after_history": got, "fresh": want})
                                break
                        ck.note_case(("loader", kind, autoescape, name, seq, use_async))


def run(ck: Check) -> None:
    ck.rule = (
        "history: targeted sequences (every ordered pair of equal-but-distinct date arguments: int/bool/float/Decimal, str/Markup, "
        "equal instants in three zones; str/Markup formats with autoescape on/off; the same key in two environments; 9..11 fillers "
        "between colliding calls; liquid.Template with equal arguments of different types and with more than ten configurations; "
        "environments with five delimiter sets created in interleaved order; every pool template rendered four times from one parsed "
        "template with equal-but-distinct data) plus seeded random sequences (length <= 4 quick / <= 8 thorough) over 35 templates x 9 "
        "data sets x 23 date values x 16 formats, sync and async; each job compared with the same job alone in a process that has "
        "rendered nothing.  Non-trivial = sequence with at least two jobs; distinct = distinct sequence."
    )
    ck.exhaustive = True
    ck.trusted_base = [
        "Coq 8.16.1 kernel + vm_compute",
        "harness: job pools, typed value codec, fork-per-sequence helper (props/c17.py), snapshot comparison, Gallina printers",
        "modelled not verified: functools.lru_cache (LRU order, first key kept, exceptions not stored), Python ==/hash on int/bool/float/"
        "Decimal/str/Markup/aware datetime, dateutil (parse determined by text and day), strftime; the uncached behaviour of a job is "
        "measured (fresh-process table), not modelled",
        "partial: in-place mutation cannot be expressed in Gallina; it is decided on the implementation by the deep-copy comparison; the "
        "effect table covers ten array filters over lists of ints/nil/nested lists",
    ]
    ck.assumptions = [
        "time-dependent inputs ('now', 'today', date strings without a date) are excluded from the fresh-process comparison; the clock "
        "probe only compares two renders of 'now' a few milliseconds apart for difference",
        "the day number of the date-string table is constant within a run",
    ]
    import time as _t
    t0 = _t.time()
    pool = Pool(4)  # the helpers import the engine while the proof step runs
    ck.proof()
    babel_family(ck)
    loader_family(ck)
    ck.extra["t_proof"] = round(_t.time() - t0, 1)
    try:
        _history(ck, pool)
    finally:
        pool.close()
    _clock(ck)
    t0 = _t.time()
    _effects(ck)
    ck.extra["t_effects"] = round(_t.time() - t0, 1)


def jkey(job):
    return json.dumps(canon(job), sort_keys=True)


def collision_key(job):
    """Hashable key under which Python itself identifies equal-but-distinct arguments (== and hash)."""
    if job.get("date") is not None:
        try:
            k = ("date", decode(job["date"][0]), decode(job["date"][1]))
            hash(k)
            return k
        except TypeError:
            return None
    if job["implicit"]:
        return ("cfg", tuple(job["delims"]), tuple(decode(f) for f in job["flags"]))
    return None


def reference_batches(distinct, rng, size):
    """Group the distinct jobs into batches in which no two jobs have arguments that compare equal but differ."""
    keys = list(distinct)
    rng.shuffle(keys)
    batches = []
    for k in keys:
        ck_ = collision_key(distinct[k])
        for b in batches:
            if len(b["keys"]) < size and (ck_ is None or ck_ not in b["ckeys"]):
                break
        else:
            b = {"keys": [], "ckeys": set()}
            batches.append(b)
        b["keys"].append(k)
        if ck_ is not None:
            b["ckeys"].add(ck_)
    return [b["keys"] for b in batches]


def _history(ck: Check, pool: Pool) -> None:
    seqs = targeted_sequences(ck)
    if ck.quick:
        seqs += random_sequences(ck, 150, 4, 90, 5)
    else:
        seqs += random_sequences(ck, 2500, 8, 600, 16)
    import time as _t
    t0 = _t.time()
    sessions = make_sessions(seqs, 120)
    results = pool.map([jobs for jobs, _ in sessions], purity=True)
    ck.extra["t_sessions"] = round(_t.time() - t0, 1)
    closures = [closure_jobs(jobs) for jobs, _ in sessions]
    distinct = {}
    for jobs in [j for j, _ in sessions] + closures:
        for j in jobs:
            distinct.setdefault(jkey(j), lone(j))
    # (a) every distinct job in two different collision-free histories (cheap); (b) a budget of jobs truly alone in a
    # process that has rendered nothing, the probes of the targeted sequences first
    envctr = [0]

    def run_batches(batches):
        reqs = []
        for keys in batches:
            req = []
            for k in keys:
                envctr[0] += 1
                req.append(dict(distinct[k], env=envctr[0] % 1000))
            reqs.append(req)
        out = {}
        for keys, res in zip(batches, pool.map(reqs, purity=False)):
            for k, r in zip(keys, res):
                out[k] = r["r"]
        return out

    batches_a = reference_batches(distinct, ck.rng, 40)
    batches_b = [list(reversed(b)) for b in reference_batches(distinct, ck.rng, 27)]
    t0 = _t.time()
    ref_a, ref_b = run_batches(batches_a), run_batches(batches_b)
    ck.extra["t_refs"] = round(_t.time() - t0, 1)
    t0 = _t.time()
    budget = 48 if ck.quick else 480
    prio = []
    for jobs, spans in sessions:
        for kind, lo, hi in spans:
            if kind != "random" and kind != "same-template":
                prio.append(jkey(jobs[hi - 1]))
    rest = [k for k in distinct if k not in set(prio)]
    ck.rng.shuffle(rest)
    chosen = list(dict.fromkeys(prio))
    ck.rng.shuffle(chosen)
    chosen = (chosen + rest)[:budget]
    pool.fresh([distinct[k] for k in chosen])
    ck.extra["t_fresh"] = round(_t.time() - t0, 1)

    def reference(job):
        k = jkey(job)
        return pool.fresh_cache.get(k, ref_a[k])

    reported_hist, reported_mut = {}, {}

    def report_history(hist, lo, got):
        """hist[-1] gave `got` after hist[:-1]; report it if that differs from a process that has rendered nothing."""
        fresh = pool.fresh([hist[-1]])[0]
        if got == fresh:
            return False
        sig = history_signature(hist[lo:], len(hist) - 1 - lo)
        reported_hist[sig] = reported_hist.get(sig, 0) + 1
        if reported_hist[sig] <= 2:
            small = shrink_history(pool, hist, lo)
            ck.violation(
                "impl-violation", sig,
                f"after {len(small) - 1} earlier render(s) in the same process, {describe(small[-1])} gives {got} "
                f"but {fresh} in a process that has rendered nothing",
                {"type": "history", "jobs": small, "in_history": got, "fresh": fresh})
        return True

    # the reference histories themselves must agree with each other and with the fresh processes
    for batches, ref in ((batches_a, ref_a), (batches_b, ref_b)):
        for keys in batches:
            for i, k in enumerate(keys):
                if ref[k] != ref_a[k] or ref[k] != ref_b[k] or (k in pool.fresh_cache and ref[k] != pool.fresh_cache[k]):
                    report_history([distinct[x] for x in keys[: i + 1]], 0, ref[k])
    intern = Intern()
    cases, expected, meta = [], [], []
    for (jobs, spans), res, clo in zip(sessions, results, closures):
        refs = [reference(j) for j in jobs]
        actual = [r["r"] for r in res]
        for kind, lo, hi in spans:
            ck.note_case(("seq", [jkey(j) for j in jobs[lo:hi]]), nontrivial=hi - lo > 1)
            ck.count(f"history.{kind}.len{min(hi - lo, 9)}")
        for j in jobs:
            ck.count("job.date" if j.get("date") is not None else "job.template")
            ck.count("job.implicit" if j["implicit"] else "job.explicit")
            ck.count("job." + j["mode"])
        bad = set()
        for i, (a, f) in enumerate(zip(actual, refs)):
            if a != f:
                lo = max(l for _, l, h in spans if l <= i)
                if report_history(jobs[: i + 1], lo, a):
                    bad.add(i)
        for i, r in enumerate(res):
            if r["mut"]:
                sig = "mutation:" + ("date" if jobs[i].get("date") is not None else TEMPLATES[jobs[i]["tmpl"]][0])
                reported_mut[sig] = reported_mut.get(sig, 0) + 1
                if reported_mut[sig] <= 2:
                    ck.violation("impl-violation", sig, f"render of {describe(jobs[i])}: {r['mut']}",
                                 {"type": "mutation", "jobs": [jobs[i]], "what": r["mut"]})
        # equal-but-distinct environment arguments must give the same behaviour (hypothesis cfg_respected of the theorem)
        for v in clo:
            orig = [j for j in jobs if j["implicit"] and jkey(dict(j, flags=v["flags"])) == jkey(v)
                    and j["flags"] != v["flags"] and all(py_eq_spec(x, y) for x, y in zip(j["flags"], v["flags"]))]
            for o in orig[:1]:
                ck.count("cfg.equal-arguments-pair")
                if reference(o) != reference(v):
                    ck.violation("impl-violation", "history:implicit-environment:equal-arguments-differ",
                                 f"{describe(o)} gives {reference(o)} but {describe(v)} gives {reference(v)}: liquid.Template "
                                 "hands both the same memoised environment",
                                 {"type": "history", "jobs": [lone(v), lone(o)], "in_history": reference(v), "fresh": reference(o)})
        # the model: fresh table of the session's jobs and of the substituted jobs, then the in-session outputs
        tab, seen = [], set()
        for j in list(jobs) + clo:
            key = jkey(j) + "|" + str(0 if j["implicit"] else j["env"])
            if key in seen:
                continue
            seen.add(key)
            tab.append(f"({g_job(j, intern(rest_key(j)))}, {g_res(reference(j))})")
        cases.append("{| pc_fresh := %s; pc_jobs := %s |}" % (g_list(tab), g_list(g_job(j, intern(rest_key(j))) for j in jobs)))
        expected.append(g_list(g_res(a) for a in actual))
        meta.append((jobs, actual, refs, bad))
    ck.extra["sessions"] = len(sessions)
    ck.extra["distinct_jobs"] = len(distinct)
    ck.extra["reference_histories"] = len(batches_a) + len(batches_b)
    ck.extra["jobs_run_alone_in_a_process_that_rendered_nothing"] = len(pool.fresh_cache)
    j0, a0, f0, _ = meta[0]
    ck.sample({"sequence": [describe(j) for j in j0[:2]], "in_history": a0[:2], "reference": f0[:2]})
    j0, a0, f0, _ = meta[-1]
    ck.sample({"sequence": [describe(j) for j in j0[-3:]], "in_history": a0[-3:], "reference": f0[-3:]})
    t0 = _t.time()
    mm = ck.coq_mismatches("proc", IMPORTS, "run_proc", "obs_eqb", "pcase", "list (res str)", cases, expected, chunk=2)
    ck.extra["t_coq"] = round(_t.time() - t0, 1)
    ck.traces += sum(len(m[0]) for m in meta)
    shown = 0
    for si in mm:
        jobs, actual, refs, bad = meta[si]
        # locate the jobs on which the model and the implementation differ
        idx = ck.coq_mismatches(f"loc{si}", IMPORTS, "(fun i => nth i (run_proc the_case) OutOfFuel)", "res_str_eqb", "nat",
                                "res str", [g_nat(i) for i in range(len(jobs))], [g_res(a) for a in actual], chunk=5000,
                                preamble=f"Definition the_case : pcase := {cases[si]}.")
        for i in idx:
            if i in bad or shown >= 3:
                continue  # explained by the oracle: the implementation depends on history there
            shown += 1
            model = ck.coq_eval(IMPORTS, [f"nth {g_nat(i)} (run_proc the_case) OutOfFuel"],
                                preamble=f"Definition the_case : pcase := {cases[si]}.")[0]
            ck.violation("correspondence", "c17-proc-correspondence",
                         f"model MemoPurity.run_proc and the implementation disagree on job {i} of a session: {describe(jobs[i])}",
                         {"type": "history", "jobs": jobs[: i + 1], "impl": actual[i], "model": model[:1000],
                          "broken": "correspondence MemoPurity.run_proc ~ render sequences (theorem C17_history_independent)"},
                         no_input=True)


def describe(job):
    defaults = mk_flags()
    parts = []
    for n, v, d in zip(FLAG_NAMES, job["flags"], defaults):
        if v == d:
            continue
        if n == "tolerance":
            parts.append(f"tolerance={TOLERANCE[v[1]]}")
        elif n == "undefined":
            parts.append(f"undefined={UNDEFINED[v[1]]}")
        else:
            parts.append(f"{n}={decode(v)!r}")
    cfg = ("Template(" if job["implicit"] else f"Environment#{job['env']}(") + ", ".join(parts) + ")"
    if job["delims"] != DEFAULT_DELIMS:
        cfg += " delims=" + "".join(job["delims"][:4])
    if job.get("date") is not None:
        return f"{cfg} {DATE_TEMPLATE!r} x={decode(job['date'][0])!r} f={decode(job['date'][1])!r} [{job['mode']}]"
    return f"{cfg} template {TEMPLATES[job['tmpl']][0]!r} data x={decode(XVALUES[job['data']])!r} [{job['mode']}]"


def shrink_history(pool: Pool, hist, lo=0):
    """Smallest history found (own sequence first, then dropping chunks and single jobs) after which the last job
    still differs from its fresh-process result."""
    target_fresh = pool.fresh([hist[-1]])[0]

    def fails(cand):
        return pool.helpers[0].request(cand, purity=False)[-1]["r"] != target_fresh

    cur = list(hist)
    if lo and fails(cur[lo:]):
        cur = cur[lo:]
    n = 2
    while len(cur) > 2 and n <= len(cur) - 1:
        body = cur[:-1]
        size = max(1, len(body) // n)
        for start in range(0, len(body), size):
            cand = body[:start] + body[start + size:] + [cur[-1]]
            if len(cand) < len(cur) and fails(cand):
                cur = cand
                n = max(2, n - 1)
                break
        else:
            if size == 1:
                break
            n = min(len(body), n * 2)
    return cur


def _clock(ck: Check) -> None:
    """'now' must follow the clock: two renders a few milliseconds apart differ (values are not compared or kept)."""
    import time

    import liquid

    env = liquid.Environment()
    outs = []
    for tmpl in ("{{ 'now' | date: '%s %f' }}", "{{ 'today' | date: '%s %f' }}", "{{ now | date: '%s %f' }}"):
        t = env.from_string(tmpl)
        a = t.render()
        time.sleep(0.003)
        b = t.render()
        ck.note_case(("clock", tmpl))
        ck.count("clock.probe")
        outs.append(a != b)
        if a == b:
            ck.violation("impl-violation", "history:date:now-frozen",
                         f"{tmpl!r} rendered twice 3 ms apart gives the same microsecond: the first result is replayed",
                         {"type": "clock", "template": tmpl})
    ck.extra["clock_probe_differs"] = outs


def _effects(ck: Check) -> None:
    import liquid

    env = liquid.Environment()
    cases, expected, meta = [], [], []
    for hi, h, cname, fname, left, arg in effect_cases():
        cls, changed = run_effect_impl(env, h, cname, fname, left, arg)
        ck.note_case(("effect", hi, cname, left, arg))
        ck.count(f"effect.{fname}." + (cls or "raises"))
        if changed:
            ck.violation("impl-violation", f"mutation:filter:{fname}",
                         f"filter {fname} changed an existing list object (heap {h}, left {left}, argument {arg})",
                         {"type": "effect", "heap": h, "filter": fname, "cname": cname, "left": left, "arg": arg})
        if cls is None:
            continue
        cases.append("{| ec_heap := %s; ec_op := %s; ec_left := %s; ec_arg := %s |}" % (
            g_list(g_list(g_cell(c) for c in cells) for cells in h), cname, g_value(left), g_value(arg)))
        expected.append(cls)
        meta.append((h, cname, fname, left, arg, cls))
    mm = ck.coq_mismatches("effect", IMPORTS, "run_effect", "alias_class_eqb", "ecase", "alias_class", cases, expected, chunk=600)
    ck.traces += len(cases)
    for i in mm[:3]:
        h, cname, fname, left, arg, cls = meta[i]
        model = ck.coq_eval(IMPORTS, [f"run_effect ({cases[i]})"])[0]
        ck.violation("correspondence", "c17-effect-correspondence",
                     f"effect table: filter {fname} on heap {h}, left {left}, argument {arg} hands back {cls}, the model says {model}",
                     {"type": "effect", "heap": h, "filter": fname, "cname": cname, "left": left, "arg": arg, "impl": cls, "model": model,
                      "broken": "correspondence MemoPurity.run_effect ~ array filters (theorem C17_filters_never_write_partial)"}, no_input=True)


def replay(data) -> int:
    if data["case"].get("type") == "loader-history":
        c = data["case"]
        env = _loader_env(c["loader"], c["autoescape"])
        for v in c["sequence"]:
            got = _loader_request(env, c["name"], v, c["async"])
        want = _loader_request(_loader_env(c["loader"], c["autoescape"]), c["name"], c["sequence"][-1], c["async"])
        print("source:", LOADER_SOURCES[c["name"]], "requests with g =", c["sequence"])
        print("after history:", got, "fresh:", want)
        print(("VIOLATION reproduced" if got != want else "not reproduced") + f" property={data['property']}")
        return 1 if got != want else 0
    if data["case"].get("type") == "babel-history":
        class _Ck:
            def __init__(self):
                self.v = []

            def note_case(self, *a, **k):
                pass

            def count(self, *a, **k):
                pass

            def violation(self, kind, sig, what, d, no_input=False):
                self.v.append(what)
        import json
        import subprocess
        import sys
        from ..core import REPO
        seq = data["case"]["sequence"]
        def run_(jobs):
            r = subprocess.run([sys.executable, "-c", BABEL_SCRIPT], input=json.dumps(jobs), capture_output=True, text=True, timeout=120,
                               env={"PYTHONPATH": REPO, "PYTHONHASHSEED": "0", "PATH": "/usr/bin:/bin"})
            return json.loads(r.stdout)
        got, alone = run_(seq), run_([seq[-1]])
        print("after history:", got[-1], "fresh:", alone[-1])
        bad = got[-1] != alone[-1]
        print(("VIOLATION reproduced" if bad else "not reproduced") + f" property={data['property']}")
        return 1 if bad else 0
    case = data["case"]
    typ = case.get("type")
    if typ == "history" and "jobs" in case and data.get("kind") == "impl-violation":
        pool = Pool(1)
        try:
            res = pool.helpers[0].request(case["jobs"], purity=False)
            fresh = pool.fresh([case["jobs"][-1]])[0]
        finally:
            pool.close()
        for j in case["jobs"]:
            print("job:", describe(j))
        print("last job in this history:", res[-1]["r"])
        print("last job in a fresh process:", fresh)
        bad = res[-1]["r"] != fresh
    elif typ == "mutation":
        pool = Pool(1)
        try:
            res = pool.helpers[0].request(case["jobs"], purity=True)
        finally:
            pool.close()
        print("job:", describe(case["jobs"][0]))
        print("purity probe:", res[0]["mut"])
        bad = bool(res[0]["mut"])
    elif typ == "clock":
        import time

        import liquid

        t = liquid.Environment().from_string(case["template"])
        a = t.render()
        time.sleep(0.003)
        b = t.render()
        print(case["template"], "->", a, "then", b)
        bad = a == b
    elif typ == "effect" and data.get("kind") == "impl-violation":
        import liquid

        cls, changed = run_effect_impl(liquid.Environment(), case["heap"], case["cname"], case["filter"],
                                       tuple(case["left"]), tuple(case["arg"]))
        print("filter", case["filter"], "hands back", cls, "changed existing objects:", changed)
        bad = changed
    else:
        print("replay names a proof/correspondence obligation:", case.get("broken", case))
        return 1
    print(("VIOLATION reproduced" if bad else "not reproduced") + f" property={data['property']}")
    return 1 if bad else 0


if __name__ == "__main__":
    if "--helper" in sys.argv:
        helper_main()
